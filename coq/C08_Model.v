(* C08 — a failed load or reload leaves nothing behind: executable model of the process-global state
   and of load / validate / reload / SIGUSR1-reload as functions of an abstract configuration.

   Mirrors
     casket.go            Start, startWithListenerFds (ValidateAndExecuteDirectives -> MakeServers ->
                          startup callbacks -> startServers; the instance is appended to [instances] first
                          and spliced out again by the deferred clean-up on every error, which the model
                          collapses to "the list is not changed by a failed start"), executeDirectives
                          (first error aborts, nothing is undone), startServers (listeners are opened one
                          by one; on a failing Listen the ones opened so far are NOT closed),
                          Instance.Restart (listeners of the old instance are inherited by address through
                          dup'ed descriptors; only on success the old instance is stopped and spliced out)
     sigtrap_posix.go     SIGUSR1: ask the loader for the updated Casketfile FIRST (a loader error ends the
                          handler there, nothing has been touched); then clone hooks, purge, Restart(instances[0]),
                          restore on error (every failing start / validation also restores the registry it found
                          on entry).  [do_sigusr1_gen true] is the order "purge, then load" (a seeded defect)
     casket.go            Instance.Restart turns a panic of a plugin's setup into an error (the restart fails
                          like any other: the old instance and an error are returned); the deferred clean-up of
                          startWithListenerFds is keyed on "did not reach the end", so it also runs for the
                          panic: the half-made instance is spliced out, the hooks registered so far are taken
                          out, and the SIGUSR1 handler (err != nil) restores the registry it purged ([OPanic],
                          [with_panic]: a panic is a failing directive executed after all the others)
     proxy/setup.go       the health-check worker of an upstream is started by an OnStartup callback of the
     proxy/upstream.go    instance (nothing runs while the directive is parsed: a validation, or a configuration
                          rejected by a directive or by a failing startup callback of `log` - which comes before
                          `proxy` in the directive order - starts nothing) and stopped by its OnShutdown callback;
                          a discarded instance never runs its shutdown callbacks, so when a Listen fails AFTER
                          the startup callbacks ran, the workers of the rejected configuration go on probing
                          ([EProxy], [g_probers], [add_probers])
     plugins.go           RegisterEventHook / cloneEventHooks / purgeEventHooks / restoreEventHooks
     onevent/on.go        `on`: registers its hooks in the global registry while the directive is set up
     basicauth/basicauth.go GetHtpasswdMatcher: package-level cache keyed by file name, guarded by a
                          package-level mutex (released on every path since the fix ee9fbaa); the file is
                          opened and stat'ed on every call and the cached parse is used only while the file
                          has the modification time and size it was read with (the model identifies a
                          version of a file with its contents: a changed file has a changed stamp); the file
                          is parsed into a temporary map and the table entry is stored only after parseHtpasswd
                          returned without error: a file with a damaged line leaves NOTHING in the table, not
                          even the entries in front of that line ([h_users] / [h_bad] / [h_after], [parse_ht];
                          [get_matcher_early] is the variant that stores the entry first)
     httpserver/roller.go + logger.go  the `log` startup callback opens the file and takes the roller of that
                          file from a package-level map; the first settings registered for a file stick.

   Definitions only; proofs are in C08_Proofs.v. *)
Require Import V.Lib.
Open Scope N_scope.

(* ---------------------------------------------------------------- environment (file system, ports) *)
(* an htpasswd file as parseHtpasswd reads it, line by line: [h_users] are the entries BEFORE the first line it
   rejects (all the entries when there is none), [h_bad] says that there is such a line (no separator, or a hash
   that one of the password parsers reports an error for), [h_after] are the entries behind it - never read:
   the parser returns at the damaged line.  What it has read up to there is in the map it was handed. *)
Record htfile := { h_present : bool; h_users : list (N * N); h_bad : bool; h_after : list (N * N) }.
Definition ht_missing : htfile := {| h_present := false; h_users := []; h_bad := false; h_after := [] |}.

Fixpoint assoc {B} (k : N) (l : list (N * B)) : option B :=
  match l with
  | [] => None
  | (k', v) :: r => if k =? k' then Some v else assoc k r
  end.

Definition env := list (N * htfile).
Definition env_get (e : env) (f : N) : htfile :=
  match assoc f e with Some h => h | None => ht_missing end.
Definition env_set (e : env) (f : N) (h : htfile) : env := (f, h) :: e.

(* ---------------------------------------------------------------- configurations *)
(* PLoader: the Casketfile cannot even be loaded (file removed or unreadable, loader plugin failing) *)
Inductive pfault := PNone | PSyntax | PUnknown | PImport | PLoader.

(* the process-global effect of a directive, in directive execution order *)
Inductive effect :=
| EBad                                  (* a directive whose setup returns an error *)
| EOn (n : nat)                         (* on: n hooks registered in the global registry *)
| ELog (f size : N) (ok : bool)         (* log: startup callback; ok = the file can be opened *)
| EAuth (f u : N)                       (* basicauth u htpasswd=f *)
| EProxy.                               (* proxy with a health check: the worker runs while the instance does *)

Inductive addr := AEph (n : N) | ABusy. (* 127.0.0.n:0  |  a port somebody else is listening on *)
Definition addr_eqb (a b : addr) : bool :=
  match a, b with
  | AEph x, AEph y => x =? y
  | ABusy, ABusy => true
  | _, _ => false
  end.

Record cfg := { c_id : N; c_parse : pfault; c_effs : list effect; c_addrs : list addr }.

(* Execute = ValidateAndExecuteDirectives(justValidate = false) driven through the API without starting
   servers; like a validation it ends after the directives (parsing callbacks have no global effect here) *)
Inductive mode := Load | Validate | Reload | Sigusr1 | Execute.
(* OPanic sig c: reload (Instance.Restart, or SIGUSR1 when [sig]) of [c] followed by a plugin directive,
   executed after all the others, whose setup panics (Restart turns the panic into an error) *)
Inductive op := OAttempt (m : mode) (c : cfg) | OWrite (f : N) (h : htfile) | OPanic (sig : bool) (c : cfg).

(* ---------------------------------------------------------------- process-global state *)
Record sock := { s_id : N; s_addr : addr; s_fds : nat }.

Record inst := {
  i_cfg : N;                      (* marker of the configuration it serves *)
  i_servers : list (addr * N);    (* listen address and socket of each server *)
  i_auth : option (N * N);        (* basicauth: user and the password its matcher accepts *)
  i_log : option N;               (* log file whose roller it writes through *)
  i_probe : list N                (* the health-check workers its OnShutdown callbacks stop *)
}.

Record gstate := {
  g_insts : list inst;                    (* casket.instances *)
  g_hooks : list N;                       (* eventHooks: birth step of every registered hook *)
  g_htcache : list (N * htfile);          (* basicauth.htpasswords: the version of the file that was parsed *)
  g_htlock : bool;                        (* basicauth.htpasswordsMu is held *)
  g_rollers : list (N * N);               (* httpserver.lumberjacks: file -> rotate size *)
  g_socks : list sock;                    (* listening sockets of the process with their descriptors *)
  g_next : N;                             (* next socket identity *)
  g_probers : list N                      (* running health-check workers: step of the attempt that started each *)
}.

Definition g0 : gstate :=
  {| g_insts := []; g_hooks := []; g_htcache := []; g_htlock := false; g_rollers := [];
     g_socks := []; g_next := 1; g_probers := [] |}.

Definition set_insts (g : gstate) (x : list inst) : gstate :=
  {| g_insts := x; g_hooks := g_hooks g; g_htcache := g_htcache g; g_htlock := g_htlock g;
     g_rollers := g_rollers g; g_socks := g_socks g; g_next := g_next g; g_probers := g_probers g |}.
Definition set_hooks (g : gstate) (x : list N) : gstate :=
  {| g_insts := g_insts g; g_hooks := x; g_htcache := g_htcache g; g_htlock := g_htlock g;
     g_rollers := g_rollers g; g_socks := g_socks g; g_next := g_next g; g_probers := g_probers g |}.
Definition set_htcache (g : gstate) (x : list (N * htfile)) : gstate :=
  {| g_insts := g_insts g; g_hooks := g_hooks g; g_htcache := x; g_htlock := g_htlock g;
     g_rollers := g_rollers g; g_socks := g_socks g; g_next := g_next g; g_probers := g_probers g |}.
Definition set_htlock (g : gstate) (x : bool) : gstate :=
  {| g_insts := g_insts g; g_hooks := g_hooks g; g_htcache := g_htcache g; g_htlock := x;
     g_rollers := g_rollers g; g_socks := g_socks g; g_next := g_next g; g_probers := g_probers g |}.
Definition set_rollers (g : gstate) (x : list (N * N)) : gstate :=
  {| g_insts := g_insts g; g_hooks := g_hooks g; g_htcache := g_htcache g; g_htlock := g_htlock g;
     g_rollers := x; g_socks := g_socks g; g_next := g_next g; g_probers := g_probers g |}.
Definition set_socks (g : gstate) (x : list sock) (n : N) : gstate :=
  {| g_insts := g_insts g; g_hooks := g_hooks g; g_htcache := g_htcache g; g_htlock := g_htlock g;
     g_rollers := g_rollers g; g_socks := x; g_next := n; g_probers := g_probers g |}.
Definition set_probers (g : gstate) (x : list N) : gstate :=
  {| g_insts := g_insts g; g_hooks := g_hooks g; g_htcache := g_htcache g; g_htlock := g_htlock g;
     g_rollers := g_rollers g; g_socks := g_socks g; g_next := g_next g; g_probers := x |}.

Inductive outcome := ROk | RErr | RHang.
Definition is_ok (r : outcome) : bool := match r with ROk => true | _ => false end.

(* ---------------------------------------------------------------- basicauth.GetHtpasswdMatcher *)
(* [unlock_on_error = false] is the code before the fix ee9fbaa (kept to document the defect) *)
Definition users_eqb (a b : list (N * N)) : bool :=
  list_beq (fun x y => (fst x =? fst y) && (snd x =? snd y)) a b.
(* same modification time and size: the same version of the file *)
Definition htfile_eqb (a b : htfile) : bool :=
  Bool.eqb (h_present a) (h_present b) && users_eqb (h_users a) (h_users b) && Bool.eqb (h_bad a) (h_bad b)
  && users_eqb (h_after a) (h_after b).

(* parseHtpasswd(pm, file): the entries it puts into [pm], in file order, and whether it returns an error *)
Definition parse_ht (h : htfile) : list (N * N) * bool := (h_users h, h_bad h).

Definition get_matcher_gen (unlock_on_error : bool) (e : env) (g : gstate) (f u : N)
  : outcome * gstate * option N :=
  if g_htlock g then (RHang, g, None)                         (* Lock() never returns *)
  else
    let fail (g' : gstate) := (RErr, set_htlock g' (negb unlock_on_error), None) in
    let h := env_get e f in
    if negb (h_present h) then fail g                          (* open fails, whatever is cached *)
    else
      let look (g' : gstate) (users : list (N * N)) :=
        match assoc u users with
        | Some pw => (ROk, g', Some pw)
        | None => (RErr, g', None)                             (* "username not found" (unlocks) *)
        end in
      match assoc f (g_htcache g) with
      | Some h' =>
          if htfile_eqb h' h then look g (h_users h')          (* unchanged since it was read *)
          else if h_bad h then fail g                          (* re-read; parse fails: the old entry stays *)
          else look (set_htcache g ((f, h) :: g_htcache g)) (h_users h)
      | None =>
          if h_bad h then fail g                               (* parse fails: nothing is cached *)
          else look (set_htcache g ((f, h) :: g_htcache g)) (h_users h)
      end.
Definition get_matcher := get_matcher_gen true.

(* the same function with the table entry stored BEFORE the file is parsed and the parser filling the entry's map
   in place (a seeded "no temporary map" tidy-up, kept to document that defect): what was read up to a damaged
   line stays in the table, stamped with the version of the file whose load was REJECTED, and answers the next
   call for the untouched file *)
Definition get_matcher_early (e : env) (g : gstate) (f u : N) : outcome * gstate * option N :=
  if g_htlock g then (RHang, g, None)
  else
    let fail (g' : gstate) := (RErr, set_htlock g' false, None) in
    let h := env_get e f in
    if negb (h_present h) then fail g
    else
      let look (g' : gstate) (users : list (N * N)) :=
        match assoc u users with
        | Some pw => (ROk, g', Some pw)
        | None => (RErr, g', None)
        end in
      let read (g' : gstate) :=
        let g1 := set_htcache g' ((f, h) :: g_htcache g') in
        let '(users, bad) := parse_ht h in
        if bad then fail g1 else look g1 users in
      match assoc f (g_htcache g) with
      | Some h' => if htfile_eqb h' h then look g (fst (parse_ht h')) else read g
      | None => read g
      end.

(* ---------------------------------------------------------------- executeDirectives *)
Record lstate := { l_auth : option (N * N); l_startups : list (N * N * bool); l_log : option N }.
Definition l0 : lstate := {| l_auth := None; l_startups := []; l_log := None |}.

Fixpoint exec_effs (step : N) (e : env) (effs : list effect) (g : gstate) (l : lstate)
  : outcome * gstate * lstate :=
  match effs with
  | [] => (ROk, g, l)
  | EBad :: _ => (RErr, g, l)
  | EOn n :: r => exec_effs step e r (set_hooks g (g_hooks g ++ repeat step n)) l
  | ELog f size ok :: r =>
      exec_effs step e r g
        {| l_auth := l_auth l; l_startups := l_startups l ++ [(f, size, ok)]; l_log := Some f |}
  | EAuth f u :: r =>
      match get_matcher e g f u with
      | (ROk, g', Some pw) =>
          exec_effs step e r g' {| l_auth := Some (u, pw); l_startups := l_startups l; l_log := l_log l |}
      | (ROk, g', None) => (RErr, g', l)
      | (x, g', _) => (x, g', l)
      end
  | EProxy :: r => exec_effs step e r g l      (* registers the callbacks that start / stop the worker *)
  end.

(* the workers the startup callbacks of a configuration start *)
Fixpoint probes_of (step : N) (effs : list effect) : list N :=
  match effs with
  | [] => []
  | EProxy :: r => step :: probes_of step r
  | _ :: r => probes_of step r
  end.

Definition add_probers (step : N) (effs : list effect) (g : gstate) : gstate :=
  set_probers g (g_probers g ++ probes_of step effs).

(* startup callbacks (Logger.Start): the roller of a file is created on first use and kept *)
Definition add_roller (g : gstate) (f size : N) : gstate :=
  match assoc f (g_rollers g) with
  | Some _ => g
  | None => set_rollers g ((f, size) :: g_rollers g)
  end.

Fixpoint run_startups (cbs : list (N * N * bool)) (g : gstate) : outcome * gstate :=
  match cbs with
  | [] => (ROk, g)
  | (f, size, ok) :: r => if ok then run_startups r (add_roller g f size) else (RErr, g)
  end.

(* ---------------------------------------------------------------- startServers *)
Fixpoint inherited (a : addr) (old : list (addr * N)) : option N :=
  match old with
  | [] => None
  | (a', sid) :: r => if addr_eqb a a' then Some sid else inherited a r
  end.

Definition dup_fd (g : gstate) (sid : N) : gstate :=
  set_socks g (map (fun s => if s_id s =? sid then {| s_id := s_id s; s_addr := s_addr s; s_fds := S (s_fds s) |} else s)
                   (g_socks g)) (g_next g).
Definition new_sock (g : gstate) (a : addr) : gstate :=
  set_socks g (g_socks g ++ [{| s_id := g_next g; s_addr := a; s_fds := 1 |}]) (g_next g + 1).

(* closing one descriptor of a socket; a socket without descriptors is gone *)
Definition close_fd (socks : list sock) (sid : N) : list sock :=
  filter (fun s => negb (Nat.eqb (s_fds s) 0))
    (map (fun s => if s_id s =? sid then {| s_id := s_id s; s_addr := s_addr s; s_fds := pred (s_fds s) |} else s) socks).

(* the deferred clean-up of startServers: what this call opened is closed again, newest first *)
Definition close_opened (g : gstate) (acc : list (addr * N)) : gstate :=
  set_socks g (fold_right (fun p socks => close_fd socks (snd p)) (g_socks g) acc) (g_next g).

Fixpoint start_servers (old : list (addr * N)) (addrs : list addr) (g : gstate) (acc : list (addr * N))
  : outcome * gstate * list (addr * N) :=
  match addrs with
  | [] => (ROk, g, acc)
  | a :: r =>
      match inherited a old with
      | Some sid => start_servers old r (dup_fd g sid) (acc ++ [(a, sid)])
      | None =>
          match a with
          | ABusy => (RErr, close_opened g acc, [])   (* Listen fails; what was opened so far is closed *)
          | AEph _ => start_servers old r (new_sock g a) (acc ++ [(a, g_next g)])
          end
      end
  end.

(* ---------------------------------------------------------------- startWithListenerFds *)
Definition parse_ok (c : cfg) : bool := match c_parse c with PNone => true | _ => false end.

Definition start_body (step : N) (e : env) (c : cfg) (old : list (addr * N)) (g : gstate)
  : outcome * gstate * option inst :=
  if negb (parse_ok c) then (RErr, g, None)
  else
    let '(r1, g1, l) := exec_effs step e (c_effs c) g l0 in
    match r1 with
    | ROk =>
        let '(r2, g2) := run_startups (l_startups l) g1 in
        match r2 with
        | ROk =>
            let '(r3, g3, srv) := start_servers old (c_addrs c) g2 [] in
            match r3 with
            (* all startup callbacks ran, those of `proxy` last: the workers are running whatever startServers
               (which does not look at them) does next *)
            | ROk => (ROk, add_probers step (c_effs c) g3,
                      Some {| i_cfg := c_id c; i_servers := srv; i_auth := l_auth l; i_log := l_log l;
                              i_probe := probes_of step (c_effs c) |})
            | x => (x, add_probers step (c_effs c) (set_socks g3 (g_socks g3) (g_next g2)), None)
                   (* the identities of the closed sockets are free again; nobody stops the workers *)
            end
        | x => (x, g2, None)
        end
    | x => (x, g1, None)
    end.

(* the deferred clean-up of startWithListenerFds: on every error the event-hook registry is put back as it
   was on entry (cloneEventHooks / restoreEventHooks), whatever the directives of the rejected
   configuration registered; the instance is spliced out of the list (collapsed, see above) *)
Definition start_with (step : N) (e : env) (c : cfg) (old : list (addr * N)) (g : gstate)
  : outcome * gstate * option inst :=
  let '(r, g', oi) := start_body step e c old g in
  match r with
  | ROk => (r, g', oi)
  | x => (x, set_hooks g' (g_hooks g), oi)
  end.

(* Instance.Stop: every server closes its descriptor; the OnShutdown callbacks stop its health-check workers *)
Definition stop_probers (own l : list N) : list N :=
  filter (fun s => negb (existsb (N.eqb s) own)) l.
Definition stop_inst (g : gstate) (i : inst) : gstate :=
  set_probers (set_socks g (fold_left close_fd (map snd (i_servers i)) (g_socks g)) (g_next g))
              (stop_probers (i_probe i) (g_probers g)).

Definition do_load (step : N) (e : env) (c : cfg) (g : gstate) : outcome * gstate :=
  match start_with step e c [] g with
  | (ROk, g', Some ni) => (ROk, set_insts g' (g_insts g' ++ [ni]))
  | (ROk, g', None) => (RErr, g')
  | (x, g', _) => (x, g')
  end.

(* ValidateAndExecuteDirectives: when a directive fails the hook registry is put back as it was before the
   directives were executed *)
Definition do_validate (step : N) (e : env) (c : cfg) (g : gstate) : outcome * gstate :=
  if negb (parse_ok c) then (RErr, g)
  else let '(r, g', _) := exec_effs step e (c_effs c) g l0 in
       match r with
       | ROk => (r, g')
       | x => (x, set_hooks g' (g_hooks g))
       end.

(* Instance.Restart on instances[0] *)
Definition do_reload (step : N) (e : env) (c : cfg) (g : gstate) : outcome * gstate :=
  match g_insts g with
  | [] => (RErr, g)
  | old :: rest =>
      match start_with step e c (i_servers old) g with
      | (ROk, g', Some ni) => (ROk, set_insts (stop_inst g' old) (rest ++ [ni]))
      | (ROk, g', None) => (RErr, g')
      | (x, g', _) => (x, g')
      end
  end.

(* the SIGUSR1 handler: the updated Casketfile is loaded first; when the loader fails the handler is done and
   nothing has been touched.  [purge_first = true] is the handler with "back up and purge the hooks" moved in
   front of the load: its early exit leaves the registry purged (kept to document that seeded defect) *)
Definition loader_fails (c : cfg) : bool := match c_parse c with PLoader => true | _ => false end.
Definition do_sigusr1_gen (purge_first : bool) (step : N) (e : env) (c : cfg) (g : gstate) : outcome * gstate :=
  match g_insts g with
  | [] => (RErr, g)
  | _ =>
      if loader_fails c then (RErr, if purge_first then set_hooks g [] else g)
      else
        let saved := g_hooks g in
        let '(r, g') := do_reload step e c (set_hooks g []) in
        match r with
        | ROk => (ROk, g')
        | x => (x, set_hooks g' saved)
        end
  end.
Definition do_sigusr1 := do_sigusr1_gen false.

(* a panic in the setup of a plugin directive that is executed after all the others, during a reload:
   Restart turns it into an error and every clean-up runs as for an error, so it is a reload of the
   configuration followed by a directive that fails.  When an earlier directive fails the panic is not reached. *)
Definition with_panic (c : cfg) : cfg :=
  {| c_id := c_id c; c_parse := c_parse c; c_effs := c_effs c ++ [EBad]; c_addrs := c_addrs c |}.

Definition attempt_panic (sig : bool) (step : N) (e : env) (c : cfg) (g : gstate) : outcome * gstate :=
  if sig then do_sigusr1 step e (with_panic c) g else do_reload step e (with_panic c) g.

Definition attempt (m : mode) (step : N) (e : env) (c : cfg) (g : gstate) : outcome * gstate :=
  match m with
  | Load => do_load step e c g
  | Validate => do_validate step e c g
  | Reload => do_reload step e c g
  | Sigusr1 => do_sigusr1 step e c g
  | Execute => do_validate step e c g
  end.

(* ---------------------------------------------------------------- histories *)
Definition step_op (step : N) (o : op) (eg : env * gstate) : outcome * (env * gstate) :=
  match o with
  | OAttempt m c => let '(r, g') := attempt m step (fst eg) c (snd eg) in (r, (fst eg, g'))
  | OWrite f h => (ROk, (env_set (fst eg) f h, snd eg))
  | OPanic sig c => let '(r, g') := attempt_panic sig step (fst eg) c (snd eg) in (r, (fst eg, g'))
  end.

(* runs a history, numbering the steps from [step]; returns the outcomes and the final state *)
Fixpoint run (step : N) (h : list op) (eg : env * gstate) : list outcome * (env * gstate) :=
  match h with
  | [] => ([], eg)
  | o :: r => let '(x, eg') := step_op step o eg in
              let '(xs, eg'') := run (step + 1) r eg' in (x :: xs, eg'')
  end.

(* a configuration is valid in an environment: this is all the outcome of loading it may depend on *)
Definition eff_valid (e : env) (x : effect) : bool :=
  match x with
  | EBad => false
  | EOn _ => true
  | ELog _ _ ok => ok
  | EAuth f u =>
      let h := env_get e f in
      h_present h && negb (h_bad h) && match assoc u (h_users h) with Some _ => true | None => false end
  | EProxy => true
  end.
Definition addr_free (a : addr) : bool := match a with ABusy => false | AEph _ => true end.
Definition cfg_valid (e : env) (c : cfg) : bool :=
  parse_ok c && forallb (eff_valid e) (c_effs c) && forallb addr_free (c_addrs c)
  && negb (Nat.eqb (length (c_addrs c)) 0).
(* a validation stops after the directives: startup callbacks and listeners play no part in it *)
Definition eff_valid_v (e : env) (x : effect) : bool :=
  match x with ELog _ _ _ => true | _ => eff_valid e x end.
Definition attempt_valid (m : mode) (e : env) (c : cfg) : bool :=
  match m with
  | Validate | Execute => parse_ok c && forallb (eff_valid_v e) (c_effs c)
  | _ => cfg_valid e c
  end.

(* ---------------------------------------------------------------- observables *)
Record obs := {
  o_res : N;                 (* 0 ok, 1 error, 2 panic / crash, 3 hang, 4 nothing to reload, 5 erased *)
  o_slow : bool;             (* latency above the bound *)
  o_ninst : N;
  o_hooks : list N;
  o_socks : list N;          (* socket identities (inode numbers on the implementation side) *)
  o_fds : N;
  o_sites : list (list N);
  o_auth : list (list N);
  o_roll : N;
  o_fired : list N;          (* hooks (by birth step) that ran when the events were emitted *)
  o_probe : list N;          (* attempts (by step) whose health-check workers probed the backend *)
  o_ids : list N             (* casket.Instances() in list order: the configuration each entry was made from *)
}.

Definition res_code (r : outcome) : N := match r with ROk => 0 | RErr => 1 | RHang => 3 end.

Definition auth_view (i : inst) : list N :=
  match i_servers i with
  | [] => [0; 0; 0]                      (* nobody to ask *)
  | _ =>
      match i_auth i with
      | None => [2; 2; 2]
      | Some (_, pw) => [4; if pw =? 1 then 2 else 4; if pw =? 2 then 2 else 4]
      end
  end.

Fixpoint dedup (l : list N) : list N :=
  match l with
  | [] => []
  | x :: r => if existsb (N.eqb x) r then dedup r else x :: dedup r
  end.

Definition roll_view (g : gstate) : N :=
  match last (map Some (g_insts g)) None with
  | Some i =>
      match i_log i with
      | Some f => match assoc f (g_rollers g) with
                  | Some size => if size <=? 1 then 2 else 1
                  | None => 1
                  end
      | None => 0
      end
  | None => 0
  end.

Fixpoint sum_fds (l : list sock) : nat :=
  match l with [] => O | s :: r => (s_fds s + sum_fds r)%nat end.

(* what the model predicts for the projected observables (socket identities are abstract: only their
   number is compared with the implementation) *)
Definition predict (r : outcome) (roll : bool) (g : gstate) : obs :=
  {| o_res := res_code r; o_slow := false;
     o_ninst := N.of_nat (length (g_insts g));
     o_hooks := g_hooks g;
     o_socks := map s_id (g_socks g);
     o_fds := N.of_nat (sum_fds (g_socks g));
     o_sites := map (fun i => map (fun _ => i_cfg i) (i_servers i)) (g_insts g);
     o_auth := map auth_view (g_insts g);
     o_roll := if roll && is_ok r then roll_view g else 0;
     o_fired := g_hooks g;
     o_probe := dedup (g_probers g);
     o_ids := map i_cfg (g_insts g) |}.

Definition lN_eqb := list_beq N.eqb.
Definition llN_eqb := list_beq lN_eqb.

Definition obs_agree (m o : obs) : bool :=
  (o_res m =? o_res o) && (o_ninst m =? o_ninst o) && lN_eqb (o_hooks m) (o_hooks o)
  && Nat.eqb (length (o_socks m)) (length (o_socks o)) && (o_fds m =? o_fds o)
  && llN_eqb (o_sites m) (o_sites o) && llN_eqb (o_auth m) (o_auth o) && (o_roll m =? o_roll o)
  && lN_eqb (o_fired m) (o_fired o) && lN_eqb (o_probe m) (o_probe o) && lN_eqb (o_ids m) (o_ids o).

(* the order in which startServers walks the servers is the iteration order of a Go map: when a
   configuration contains the busy address, every position of it among the others is possible *)
Fixpoint insert_at {A} (x : A) (k : nat) (l : list A) : list A :=
  match k, l with
  | O, _ => x :: l
  | S k', y :: r => y :: insert_at x k' r
  | S _, [] => [x]
  end.
Definition is_busy (a : addr) : bool := match a with ABusy => true | _ => false end.
Definition variants (c : cfg) : list cfg :=
  if existsb is_busy (c_addrs c) then
    let others := filter (fun a => negb (is_busy a)) (c_addrs c) in
    map (fun k => {| c_id := c_id c; c_parse := c_parse c; c_effs := c_effs c;
                     c_addrs := insert_at ABusy k others |}) (seq 0 (S (length others)))
  else [c].

(* does some resolution of the nondeterminism reproduce the observed trace? (set of reachable states) *)
Fixpoint accepts (step : N) (h : list (op * bool)) (os : list obs) (states : list (env * gstate)) : bool :=
  match h, os with
  | _, [] => negb (Nat.eqb (length states) 0)     (* a truncated trace (hang) is compared as far as it goes *)
  | [], _ :: _ => false
  | (o, roll) :: r, ob :: ros =>
      let next :=
        match o with
        | OWrite f hf => map (fun eg => (env_set (fst eg) f hf, snd eg)) states
        | OAttempt m c =>
            if (o_res ob =? 4) || (o_res ob =? 5) then states else
            flat_map (fun eg =>
              flat_map (fun c' =>
                let '(x, g') := attempt m step (fst eg) c' (snd eg) in
                if obs_agree (predict x roll g') ob then [(fst eg, g')] else []) (variants c)) states
        | OPanic sig c =>
            if (o_res ob =? 4) || (o_res ob =? 5) then states else
            flat_map (fun eg =>
              flat_map (fun c' =>
                let '(x, g') := attempt_panic sig step (fst eg) c' (snd eg) in
                if obs_agree (predict x roll g') ob then [(fst eg, g')] else []) (variants c)) states
        end in
      match o with
      | OWrite _ _ => accepts (step + 1) r ros next
      | _ => if Nat.eqb (length next) 0 then false else accepts (step + 1) r ros next
      end
  end.

(* ---------------------------------------------------------------- the property on observations *)
(* a failed attempt changed nothing that can be observed *)
Definition frame (a b : obs) : bool :=
  (o_ninst a =? o_ninst b) && lN_eqb (o_hooks a) (o_hooks b) && lN_eqb (o_socks a) (o_socks b)
  && (o_fds a =? o_fds b) && llN_eqb (o_sites a) (o_sites b) && llN_eqb (o_auth a) (o_auth b)
  && lN_eqb (o_fired a) (o_fired b) && lN_eqb (o_probe a) (o_probe b) && lN_eqb (o_ids a) (o_ids b).

(* indistinguishable from the run in which the attempts on invalid configurations never happened *)
Definition as_if (a r : obs) : bool :=
  (o_res a =? o_res r) && (o_ninst a =? o_ninst r) && lN_eqb (o_hooks a) (o_hooks r)
  && Nat.eqb (length (o_socks a)) (length (o_socks r)) && (o_fds a =? o_fds r)
  && llN_eqb (o_sites a) (o_sites r) && llN_eqb (o_auth a) (o_auth r) && (o_roll a =? o_roll r)
  && lN_eqb (o_fired a) (o_fired r) && lN_eqb (o_probe a) (o_probe r) && lN_eqb (o_ids a) (o_ids r).

(* every hook of the registry is reached by EmitEvent, and nothing else is *)
Definition hooks_live (o : obs) : bool := lN_eqb (o_fired o) (o_hooks o).

(* the instance list holds exactly the running instances: every entry of casket.Instances() has servers and each
   of them answers with the marker of the configuration the entry was made from.  (An instance that a failed
   start left in the list owns no listener; after the next good reload it is instances[0], the instance every
   later reload restarts.) *)
Fixpoint insts_live_aux (ids : list N) (sites : list (list N)) : bool :=
  match ids, sites with
  | [], [] => true
  | i :: ir, s :: sr => negb (Nat.eqb (length s) 0) && forallb (N.eqb i) s && insts_live_aux ir sr
  | _, _ => false
  end.
Definition insts_live (o : obs) : bool :=
  (N.of_nat (length (o_ids o)) =? o_ninst o) && insts_live_aux (o_ids o) (o_sites o).

Definition bounded (o : obs) : bool :=
  negb (o_res o =? 2) && negb (o_res o =? 3) && negb (o_slow o).

Definition needs_instance (m : mode) : bool :=
  match m with Reload | Sigusr1 => true | _ => false end.

(* "The outcome of loading a configuration depends only on that configuration and the environment, not on earlier
   failed attempts", on observations: [Some (ec, (fres, fec))] = the class of the error message of this attempt
   in the history, and the result and error class of the SAME attempt made by a process that ran the same
   history without the attempts on invalid configurations before it (measured for every attempt on an invalid
   configuration that comes after another one; for valid configurations that is [as_if]).  Classes: 0 none,
   1 contained panic, 2 loader, 3 htpasswd user not found, 4 htpasswd does not parse, 5 htpasswd cannot be
   opened, 6 listen, 7 startup callback, 8 anything else *)
Definition fresh_ok (o : obs) (f : option (N * (N * N))) : bool :=
  match f with
  | None => true
  | Some (ec, (fres, fec)) => (o_res o =? fres) && (ec =? fec)
  end.

Fixpoint spec_hist (e : env) (h : list (op * bool)) (prev : obs) (full ref : list obs)
                   (fresh : list (option (N * (N * N)))) : bool :=
  match h, full, ref with
  | [], [], _ => true
  | (OWrite f hf, _) :: r, o :: fr, _ :: rr =>
      frame prev o && insts_live o && spec_hist (env_set e f hf) r o fr rr (tl fresh)
  | (OAttempt m c, _) :: r, o :: fr, ro :: rr =>
      bounded o
      && (if o_res o =? 0 then true else frame prev o)
      && (if attempt_valid m e c
          then as_if o ro && (if needs_instance m then true else o_res o =? 0)
          else negb (o_res o =? 0))
      && fresh_ok o (hd None fresh)
      && hooks_live o && insts_live o
      && spec_hist e r o fr rr (tl fresh)
  | (OPanic _ _, _) :: r, o :: fr, _ :: rr =>     (* never a valid attempt: it must fail and leave nothing behind *)
      bounded o && negb (o_res o =? 0) && frame prev o && fresh_ok o (hd None fresh)
      && hooks_live o && insts_live o && spec_hist e r o fr rr (tl fresh)
  | _, _, _ => false      (* the history was not completed (hang, crash) or the traces are malformed *)
  end.

(* ---------------------------------------------------------------- cases *)
(* ---------------------------------------------------------------- attempts that OVERLAP in time
   casket.instances while one attempt (B) is held inside the setup of its directives and other attempts run to their
   end.  An instance is named by the marker of its configuration (every configuration of a case has its own, so
   removing "the entry with this marker" is the splice by pointer identity of Instance.Stop and of the failure
   clean-up of startWithListenerFds).
     startWithListenerFds   appends the new instance BEFORE the directives run; when the attempt fails its deferred
                            clean-up searches the list for that instance and splices it out;
     Instance.Restart       = startWithListenerFds of the new one, then Stop of the old one (spliced out by search);
     Instance.Stop          splices the instance out by search.
   [ov_step] is one attempt that runs to its end (with its observed result: 0 = it succeeded), [ov_end] what B does
   to the list when it is released. *)
Inductive ovop := OvLoad (id : N) | OvReload (t id : N) | OvReloadBad (t id : N) | OvStop (t : N).
Inductive ovb := OvBLoad | OvBReload (t : N).

Definition ov_remove (x : N) (l : list N) : list N := filter (fun y => negb (y =? x)) l.
Definition ov_mem (x : N) (l : list N) : bool := existsb (N.eqb x) l.

Definition ov_step (l : list N) (o : ovop * N) : list N :=
  match o with
  | (OvLoad id, 0) => l ++ [id]
  | (OvReload t id, 0) => if ov_mem t l then ov_remove t (l ++ [id]) else l
  | (OvReloadBad t id, 0) => if ov_mem t l then ov_remove t (l ++ [id]) else l   (* it was not refused after all *)
  | (OvStop t, 0) => ov_remove t l
  | (_, _) => l          (* refused: the instance was appended and spliced out again by search *)
  end.
Definition ov_steps (l : list N) (os : list (ovop * N)) : list N := fold_left ov_step os l.

(* B begins: its instance is in the list from now on *)
Definition ov_begin (l : list N) (bid : N) : list N := l ++ [bid].
(* B ends: refused -> its instance is searched and spliced out; accepted -> (a reload) the old one is stopped *)
Definition ov_end (l : list N) (b : ovb) (bid : N) (ok : bool) : list N :=
  if ok then match b with OvBLoad => l | OvBReload t => ov_remove t l end
  else ov_remove bid l.
(* the clean-up that remembers the POSITION at which B's instance was appended and splices out whatever stands
   there when B is refused (kept to document that seeded defect, C08_overlap_slot_cleanup_refuted) *)
Fixpoint remove_nth {A} (k : nat) (l : list A) : list A :=
  match k, l with
  | _, [] => []
  | O, _ :: r => r
  | S k', x :: r => x :: remove_nth k' r
  end.
Definition ov_end_slot (l : list N) (slot : nat) : list N := remove_nth slot l.

(* the four instance lists of a case: before B, B held, after the inner attempts, after B returned *)
Definition ov_lists (pre : list (ovop * N)) (b : ovb) (bid : N) (inner : list (ovop * N)) (bok : bool)
  : list N * list N * list N * list N :=
  let l1 := ov_steps [] pre in
  let l2 := ov_begin l1 bid in
  let l3 := ov_steps l2 inner in
  (l1, l2, l3, ov_end l3 b bid bok).

(* the markers an attempt mentions *)
Definition ov_names (o : ovop * N) : list N :=
  match fst o with OvLoad id => [id] | OvReload t id => [t; id] | OvReloadBad t id => [t; id] | OvStop t => [t] end.
Definition ov_expected_ok (o : ovop * N) : bool :=
  match fst o with OvReloadBad _ _ => negb (snd o =? 0) | _ => (snd o =? 0) || (snd o =? 4) end.

(* the event-hook registry (number of hooks) along an overlap case.  Every attempt - B included - takes a copy of
   the registry when it begins (cloneEventHooks) and, when it is refused, puts that copy back (restoreEventHooks):
   an attempt that runs to its end registers its [on] hooks when it succeeds and leaves the registry as it found
   it otherwise; B, refused, puts back the copy taken BEFORE the inner attempts ran. *)
Definition ov_hooks_step (h : N) (o : ovop * N * N) : N :=
  match o with
  | (OvLoad _, 0, n) => h + n
  | (OvReload _ _, 0, n) => h + n
  | (OvReloadBad _ _, 0, n) => h + n
  | _ => h
  end.
Definition ov_hooks_steps (h : N) (os : list (ovop * N * N)) : N := fold_left ov_hooks_step os h.
(* B has no [on] line of its own *)
Definition ov_hooks_end (at_begin now : N) (bok : bool) : N := if bok then now else at_begin.


(* ---------------------------------------------------------------- the packet-connection stage of startServers *)
(* With the QUIC flag on (httpserver.QUIC, -quic) every server opens a TCP listener (Server.Listen) and THEN a UDP
   socket on the same address (Server.ListenPacket); a listener / packet connection of the old instance bound to
   the same address is inherited through a duplicated descriptor instead.  The attempt can fail at either stage:
   [QTcpHeld] is a port whose TCP side somebody else holds (Listen fails), [QUdpHeld] a port whose UDP side somebody
   else holds while its TCP side is free (Listen succeeds, ListenPacket fails: the failure point between the two).
   The deferred clean-up closes the listener of the server being processed (ln), its packet connection (pc, nil when
   ListenPacket failed) and then what was opened for the servers before it, newest first.
   Descriptor tables: one entry per open descriptor, labelled with the address of its socket, newest first. *)
Inductive qaddr := QEph (n : N) | QTcpHeld | QUdpHeld.
Definition qaddr_eqb (a b : qaddr) : bool :=
  match a, b with
  | QEph x, QEph y => x =? y
  | QTcpHeld, QTcpHeld => true
  | QUdpHeld, QUdpHeld => true
  | _, _ => false
  end.
Definition q_is_eph (a : qaddr) : bool := match a with QEph _ => true | _ => false end.
(* [held]: the other process still holds its ports *)
Definition q_listen (held : bool) (a : qaddr) : bool := match a with QTcpHeld => negb held | _ => true end.
Definition q_listen_packet (held : bool) (a : qaddr) : bool := match a with QUdpHeld => negb held | _ => true end.

Fixpoint q_close (a : qaddr) (l : list qaddr) : list qaddr :=
  match l with
  | [] => []
  | x :: r => if qaddr_eqb x a then r else x :: q_close a r
  end.
Fixpoint q_close_all (acc l : list qaddr) : list qaddr :=
  match acc with
  | [] => l
  | a :: r => q_close_all r (q_close a l)
  end.

(* the clean-up as it is (QcFull); with ln / pc re-declared inside the loop, so that the deferred function sees
   nil for the server being processed (QcShadow, a seeded defect); with ListenPacket handing back a typed nil, so
   that pc.Close() panics after ln.Close() and the servers before it are never reached (QcTypedNil, the code before
   the fix a443b2e) *)
Inductive qclean := QcFull | QcShadow | QcTypedNil.

Fixpoint q_start_servers (k : qclean) (held : bool) (old addrs acc t u : list qaddr)
  : bool * (list qaddr * list qaddr) :=
  match addrs with
  | [] => (true, (t, u))
  | a :: r =>
      if existsb (qaddr_eqb a) old || q_listen held a then
        if existsb (qaddr_eqb a) old || q_listen_packet held a
        then q_start_servers k held old r (a :: acc) (a :: t) (a :: u)
        else match k with
             | QcFull => (false, (q_close_all acc (q_close a (a :: t)), q_close_all acc u))
             | QcShadow => (false, (q_close_all acc (a :: t), q_close_all acc u))
             | QcTypedNil => (false, (q_close a (a :: t), u))
             end
      else (false, (q_close_all acc t, q_close_all acc u))
  end.

Record qstate := { q_insts : list (N * list qaddr); q_tcp : list qaddr; q_udp : list qaddr; q_hooks : N }.
Definition q0 : qstate := {| q_insts := []; q_tcp := []; q_udp := []; q_hooks := 0 |}.
Definition set_qhooks (st : qstate) (h : N) : qstate :=
  {| q_insts := q_insts st; q_tcp := q_tcp st; q_udp := q_udp st; q_hooks := h |}.

(* startWithListenerFds of a configuration whose directives all succeed ([on] hooks registered, taken out again
   when the start fails) *)
Definition q_start (k : qclean) (held : bool) (old addrs : list qaddr) (on : N) (st : qstate) : bool * qstate :=
  match q_start_servers k held old addrs [] (q_tcp st) (q_udp st) with
  | (true, (t, u)) => (true, {| q_insts := q_insts st; q_tcp := t; q_udp := u; q_hooks := q_hooks st + on |})
  | (false, (t, u)) => (false, {| q_insts := q_insts st; q_tcp := t; q_udp := u; q_hooks := q_hooks st |})
  end.

(* Instance.Restart of instances[0]; on success the old instance is stopped: its servers close their listeners (the
   UDP sockets of servers without TLS have no QUIC server that would close them: they stay open) *)
Definition q_reload (k : qclean) (held : bool) (id : N) (addrs : list qaddr) (on : N) (st : qstate) : bool * qstate :=
  match q_insts st with
  | [] => (false, st)
  | (_, oaddrs) :: rest =>
      match q_start k held oaddrs addrs on st with
      | (true, st1) => (true, {| q_insts := rest ++ [(id, addrs)]; q_tcp := q_close_all oaddrs (q_tcp st1);
                                 q_udp := q_udp st1; q_hooks := q_hooks st1 |})
      | (false, st1) => (false, st1)
      end
  end.

Definition q_attempt_gen (k : qclean) (m : mode) (id : N) (addrs : list qaddr) (on : N) (held : bool) (st : qstate)
  : bool * qstate :=
  match m with
  | Validate | Execute => (true, set_qhooks st (q_hooks st + on))
  | Load =>
      match q_start k held [] addrs on st with
      | (true, st1) => (true, {| q_insts := q_insts st1 ++ [(id, addrs)]; q_tcp := q_tcp st1; q_udp := q_udp st1;
                                 q_hooks := q_hooks st1 |})
      | (false, st1) => (false, st1)
      end
  | Reload => q_reload k held id addrs on st
  | Sigusr1 =>
      match q_insts st with
      | [] => (false, st)
      | _ => match q_reload k held id addrs on (set_qhooks st 0) with
             | (true, st1) => (true, st1)
             | (false, st1) => (false, set_qhooks st1 (q_hooks st))
             end
      end
  end.
Definition q_attempt := q_attempt_gen QcFull.

Inductive qop := QAttempt (m : mode) (id : N) (addrs : list qaddr) (on : N) | QRelease.

(* a history; the results and the state after every step *)
Fixpoint q_run (held : bool) (ops : list qop) (st : qstate) : list (bool * qstate) :=
  match ops with
  | [] => []
  | QRelease :: r => (true, st) :: q_run false r st
  | QAttempt m id addrs on :: r =>
      let x := q_attempt m id addrs on held st in x :: q_run held r (snd x)
  end.
Fixpoint q_final (held : bool) (ops : list qop) (st : qstate) : bool * qstate :=
  match ops with
  | [] => (held, st)
  | QRelease :: r => q_final false r st
  | QAttempt m id addrs on :: r => q_final held r (snd (q_attempt m id addrs on held st))
  end.
(* every step of the history is an attempt that is refused *)
Fixpoint q_all_refused (held : bool) (ops : list qop) (st : qstate) : Prop :=
  match ops with
  | [] => True
  | QRelease :: _ => False
  | QAttempt m id addrs on :: r =>
      fst (q_attempt m id addrs on held st) = false /\ q_all_refused held r (snd (q_attempt m id addrs on held st))
  end.

(* what the harness observes after a step *)
Record qobs := mkQObs { qo_res : N; qo_ids : list N; qo_sites : list (list N); qo_hooks : N;
                        qo_tcp : list N; qo_tcpfds : N; qo_udp : list N; qo_udpfds : N }.

Definition q_agree1 (x : bool * qstate) (o : qobs) : bool :=
  Bool.eqb (fst x) (qo_res o =? 0) && lN_eqb (map fst (q_insts (snd x))) (qo_ids o)
  && (q_hooks (snd x) =? qo_hooks o) && (N.of_nat (length (q_tcp (snd x))) =? qo_tcpfds o)
  && (N.of_nat (length (q_udp (snd x))) =? qo_udpfds o).
Fixpoint q_agree (xs : list (bool * qstate)) (os : list qobs) : bool :=
  match xs, os with
  | [], [] => true
  | x :: xr, o :: or => q_agree1 x o && q_agree xr or
  | _, _ => false
  end.

(* the property on the observations alone.  An attempt is valid when it never gets as far as binding (validation,
   execution of the directives) or every address it binds is free; a valid one is accepted and an invalid one
   REFUSED WITH AN ERROR (no panic, no crash, no hang); a refused attempt leaves the instance list, what every site
   answers, the hooks, the LISTEN sockets, the UDP sockets and the number of descriptors of either kind exactly as
   they were (nothing of the rejected configuration behind, inherited descriptors closed again); after every step
   every instance serves its own configuration *)
Definition qobs_same (a b : qobs) : bool :=
  lN_eqb (qo_ids a) (qo_ids b) && llN_eqb (qo_sites a) (qo_sites b) && (qo_hooks a =? qo_hooks b)
  && lN_eqb (qo_tcp a) (qo_tcp b) && (qo_tcpfds a =? qo_tcpfds b)
  && lN_eqb (qo_udp a) (qo_udp b) && (qo_udpfds a =? qo_udpfds b).
Fixpoint q_live (ids : list N) (sites : list (list N)) : bool :=
  match ids, sites with
  | [], [] => true
  | i :: ir, s :: sr => negb (Nat.eqb (length s) 0) && forallb (N.eqb i) s && q_live ir sr
  | _, _ => false
  end.
Definition q_dirs_only (m : mode) : bool := match m with Validate | Execute => true | _ => false end.
Fixpoint q_spec (held : bool) (ops : list qop) (prev : qobs) (os : list qobs) : bool :=
  match ops, os with
  | [], [] => true
  | QRelease :: r, o :: or => qobs_same prev o && q_spec false r o or
  | QAttempt m id addrs on :: r, o :: or =>
      let valid := q_dirs_only m || negb held || forallb q_is_eph addrs in
      (if valid then qo_res o =? 0 else qo_res o =? 1)
      && (if qo_res o =? 0 then true else qobs_same prev o)
      && (if q_dirs_only m
          then lN_eqb (qo_ids prev) (qo_ids o) && lN_eqb (qo_tcp prev) (qo_tcp o) && lN_eqb (qo_udp prev) (qo_udp o)
               && (qo_tcpfds prev =? qo_tcpfds o) && (qo_udpfds prev =? qo_udpfds o)
          else true)
      && q_live (qo_ids o) (qo_sites o)
      && q_spec held r o or
  | _, _ => false
  end.

Inductive case :=
| CHist (e0 : env) (h : list (op * bool)) (o0 : obs) (full ref : list obs) (fresh : list (option (N * (N * N))))
(* overlapping attempts: the attempts before B with their results, B (load / reload of t; marker; 0 = it is a valid
   configuration, 1 refused by the gated directive, 2 at Listen, 3 by a startup callback), the attempts made while
   B was held, whether B reached the gate, B's result; casket.Instances() before B / B held / after the inner
   attempts (with the markers every entry's servers answer with) / after B returned (likewise); after casket.Stop():
   the markers of the sites that still answer, the listening sockets left, the length of the list *)
| COverlap (pre : list (ovop * N * N)) (b : ovb) (bid fail : N) (inner : list (ovop * N * N)) (entered : bool) (bres : N)
           (ids1 ids2 ids3 : list N) (sites3 : list (list N)) (ids4 : list N) (sites4 : list (list N))
           (still : list N) (socks_after ninst_after : N) (hooks1 hooks3 hooks4 : N)
(* a history in a process with the QUIC flag on: the steps, the observation before the first one and after each *)
| CQuic (ops : list qop) (o0 : qobs) (os : list qobs).

(* every entry but the one of the held attempt serves its own configuration; the held one has no server yet *)
Fixpoint ov_live (held : option N) (ids : list N) (sites : list (list N)) : bool :=
  match ids, sites with
  | [], [] => true
  | i :: ir, s :: sr =>
      (match held with
       | Some b => if i =? b then Nat.eqb (length s) 0 else negb (Nat.eqb (length s) 0) && forallb (N.eqb i) s
       | None => negb (Nat.eqb (length s) 0) && forallb (N.eqb i) s
       end) && ov_live held ir sr
  | _, _ => false
  end.

(* the property on the observations of an overlap case, without the model: every attempt returns; valid ones are
   accepted and invalid ones refused whatever else is in progress; a refused B leaves the list exactly as the
   attempts that completed meanwhile made it - the SAME entries in the same order, B's own entry gone - and every
   entry still serves its own configuration (the running sites are untouched); casket.Stop() then stops every
   site and leaves no listening socket and no entry behind *)
Definition ov_spec (b : ovb) (bid fail : N) (pre inner : list (ovop * N)) (entered : bool) (bres : N)
           (ids3 : list N) (sites3 : list (list N)) (ids4 : list N) (sites4 : list (list N))
           (still : list N) (socks_after ninst_after : N) : bool :=
  forallb (fun o : ovop * N => (snd o <? 2) || (snd o =? 4)) (pre ++ inner)
  && forallb ov_expected_ok (pre ++ inner)
  && (bres <? 2) && entered
  && (if fail =? 0 then bres =? 0 else bres =? 1)
  && ov_live (Some bid) ids3 sites3
  && (if bres =? 0
      then lN_eqb ids4 (match b with OvBLoad => ids3 | OvBReload t => ov_remove t ids3 end)
      else lN_eqb ids4 (ov_remove bid ids3) && negb (ov_mem bid ids4))
  && ov_live None ids4 sites4
  && match still with [] => true | _ => false end && (socks_after =? 0) && (ninst_after =? 0).

Definition judge (c : case) : N :=
  match c with
  | CHist e0 h o0 full ref fresh =>
      let agree := obs_agree (predict ROk false g0) o0 && accepts 1 h full [(e0, g0)]
                   && accepts 1 h ref [(e0, g0)] in
      verdict agree (spec_hist e0 h o0 full ref fresh)
  | COverlap pre0 b bid fail inner0 entered bres ids1 ids2 ids3 sites3 ids4 sites4 still socks_after ninst_after
             hooks1 hooks3 hooks4 =>
      let pre := map fst pre0 in
      let inner := map fst inner0 in
      let '(l1, l2, l3, l4) := ov_lists pre b bid inner (bres =? 0) in
      let h1 := ov_hooks_steps 0 pre0 in
      let h3 := ov_hooks_steps h1 inner0 in
      let agree := negb entered || (bres =? 3) ||
                   (lN_eqb l1 ids1 && lN_eqb l2 ids2 && lN_eqb l3 ids3 && lN_eqb l4 ids4
                    && (h1 =? hooks1) && (h3 =? hooks3) && (ov_hooks_end h1 h3 (bres =? 0) =? hooks4)) in
      (* a refused B leaves the registered event hooks as they were: those of the attempts that completed
         meanwhile included *)
      verdict agree (ov_spec b bid fail pre inner entered bres ids3 sites3 ids4 sites4 still socks_after ninst_after
                     && (hooks4 =? hooks3))
  | CQuic ops o0 os =>
      verdict (q_agree1 (true, q0) o0 && q_agree (q_run true ops q0) os) (q_spec true ops o0 os)
  end.

(* ---------------------------------------------------------------- vocabulary of the theorems *)
(* syntactic absence of the leaking effects *)
Definition no_on (effs : list effect) : bool :=
  forallb (fun x => match x with EOn (S _) => false | _ => true end) effs.
Definition no_auth (effs : list effect) : bool :=
  forallb (fun x => match x with EAuth _ _ => false | _ => true end) effs.
Definition no_log (effs : list effect) : bool :=
  forallb (fun x => match x with ELog _ _ _ => false | _ => true end) effs.
Definition no_proxy (effs : list effect) : bool :=
  forallb (fun x => match x with EProxy => false | _ => true end) effs.

(* nothing is closed: every socket is still there with at least as many descriptors *)
Definition socks_le (a b : list sock) : Prop :=
  forall s, In s a -> exists s', In s' b /\ s_id s' = s_id s /\ s_addr s' = s_addr s /\ (s_fds s <= s_fds s')%nat.

(* nobody ever serves on the address that is held by somebody else *)
Definition srv_wf (srv : list (addr * N)) : Prop := forall a sid, In (a, sid) srv -> a <> ABusy.
(* every socket of the table has a descriptor and an identity handed out earlier *)
Definition socks_ok (g : gstate) : Prop :=
  forall s, In s (g_socks g) -> (1 <= s_fds s)%nat /\ s_id s < g_next g.
(* what is cached was read from a file that was there and could be parsed *)
Definition cache_ok (g : gstate) : Prop :=
  forall f h, assoc f (g_htcache g) = Some h -> h_present h = true /\ h_bad h = false.
Definition wf (g : gstate) : Prop :=
  (forall i, In i (g_insts g) -> srv_wf (i_servers i)) /\ socks_ok g /\ cache_ok g.

(* two states that differ at most in what the htpasswd cache holds *)
Definition same_but_cache (g g' : gstate) : Prop :=
  g_insts g' = g_insts g /\ g_hooks g' = g_hooks g /\ g_htlock g' = g_htlock g /\
  g_rollers g' = g_rollers g /\ g_socks g' = g_socks g /\ g_next g' = g_next g /\ g_probers g' = g_probers g.

(* two states that differ at most in the two registries a failed attempt whose startup callbacks ran still
   writes to (the roller map, F-C08-3, and the list of health-check workers, F-C08-5f) and in what the
   transparent cache holds *)
Definition same_but_leaks (g g' : gstate) : Prop :=
  g_insts g' = g_insts g /\ g_hooks g' = g_hooks g /\ g_htlock g' = g_htlock g /\
  g_socks g' = g_socks g /\ g_next g' = g_next g.

(* GetHtpasswdMatcher without a cache: what the file holds now *)
Definition lookup_now (e : env) (f u : N) : outcome * option N :=
  let h := env_get e f in
  if negb (h_present h) then (RErr, None)
  else if h_bad h then (RErr, None)
  else match assoc u (h_users h) with Some pw => (ROk, Some pw) | None => (RErr, None) end.

(* the faithful model leaves something behind that matters exactly through what startup callbacks that ran
   did: the rollers of `log`, and the health-check workers of `proxy` when a listener then fails to bind (the
   htpasswd cache may change, but it is transparent: it is consulted only for the version of the file that is on
   disk now) *)
Definition harmless0 (m : mode) (c : cfg) : bool :=
  match m with
  | Validate | Execute => true
  | _ => no_log (c_effs c) && (no_proxy (c_effs c) || negb (existsb is_busy (c_addrs c)))
  end.

(* only what an attempt reaches matters: nothing of a configuration that does not parse; of one with a
   bad directive the directives before it, without the startup callbacks they merely schedule *)
Fixpoint cut_bad (effs : list effect) : list effect * bool :=
  match effs with
  | [] => ([], false)
  | EBad :: _ => ([], true)
  | x :: r => let '(p, b) := cut_bad r in (x :: p, b)
  end.
Definition not_log (x : effect) : bool := match x with ELog _ _ _ => false | _ => true end.
Definition reached (c : cfg) : cfg :=
  if negb (parse_ok c) then {| c_id := c_id c; c_parse := c_parse c; c_effs := []; c_addrs := [] |}
  else let '(pre, bad) := cut_bad (c_effs c) in
       if bad then {| c_id := c_id c; c_parse := PNone; c_effs := filter not_log pre ++ [EBad]; c_addrs := [] |}
       else c.
Definition harmless (m : mode) (c : cfg) : bool := harmless0 m (reached c).

Fixpoint attempts_failed (h : list op) (rs : list outcome) : Prop :=
  match h, rs with
  | [], [] => True
  | OWrite _ _ :: h', _ :: rs' => attempts_failed h' rs'
  | OAttempt _ _ :: h', r :: rs' => r <> ROk /\ attempts_failed h' rs'
  | OPanic _ _ :: h', r :: rs' => r <> ROk /\ attempts_failed h' rs'
  | _, _ => False
  end.

(* a panic contained by Restart is a failed reload like any other (F-C08-6 fixed) *)
Definition harmless_op (o : op) : bool :=
  match o with
  | OWrite _ _ => true
  | OAttempt m c => harmless m c
  | OPanic sig c => harmless (if sig then Sigusr1 else Reload) (with_panic c)
  end.

Fixpoint writes (h : list op) (e : env) : env :=
  match h with
  | [] => e
  | OWrite f hf :: r => writes r (env_set e f hf)
  | OAttempt _ _ :: r => writes r e
  | OPanic _ _ :: r => writes r e
  end.

Definition alive (g : gstate) (i : inst) : Prop :=
  forall a sid, In (a, sid) (i_servers i) ->
  exists s, In s (g_socks g) /\ s_id s = sid /\ (1 <= s_fds s)%nat.

Definition roller_of (g : gstate) (i : inst) : option N :=
  match i_log i with Some f => assoc f (g_rollers g) | None => None end.

(* the basic-auth matcher a valid configuration gets in a fresh process: user of its (last) htpasswd line
   and the password the file holds for it NOW *)
Fixpoint expected_auth (e : env) (effs : list effect) (acc : option (N * N)) : option (N * N) :=
  match effs with
  | [] => acc
  | EAuth f u :: r =>
      expected_auth e r (match assoc u (h_users (env_get e f)) with Some pw => Some (u, pw) | None => acc end)
  | _ :: r => expected_auth e r acc
  end.
