(* C11 — validate / start agreement for server blocks with any number of keys and setups whose verdict depends
   on the key (C11_Exec.vsetup): proofs. *)
Require Import V.Lib V.C09_Model V.C11_Exec V.C11_ExecProofs.

Section KV.
Context {A St : Type}.
Variable v : @call A -> bool.
Variable f : @call A -> St -> St.
Variable callback : bytes -> St -> outcome St.
Notation vs := (vsetup v f).

Lemma keys_verdict d i toks : forall keys j s,
  out_ok (run_keys vs d i toks keys j s) = forallb v (sched_keys d i toks keys j).
Proof.
  induction keys as [|k r IH]; intros j s; cbn [run_keys sched_keys forallb]; [reflexivity|].
  change (vsetup v f d i j k toks s) with
    (if v (d, i, j, k, toks) then Cont (f (d, i, j, k, toks) s) else Stop (f (d, i, j, k, toks) s)).
  destruct (v (d, i, j, k, toks)); cbn [andb]; [apply IH|reflexivity].
Qed.

Lemma block_verdict d i b s : out_ok (run_block vs d i b s) = forallb v (sched_block d i b).
Proof.
  unfold run_block, sched_block. destruct (tokens_of (snd b) d); [apply keys_verdict|reflexivity].
Qed.

Lemma blocks_verdict d : forall bs i s,
  out_ok (run_blocks vs d bs i s) = forallb v (sched_blocks d bs i).
Proof.
  induction bs as [|b r IH]; intros i s; cbn [run_blocks sched_blocks]; [reflexivity|].
  rewrite forallb_app. rewrite <- (block_verdict d i b s).
  destruct (run_block vs d i b s) as [s'|s']; cbn [out_ok andb]; [apply IH|reflexivity].
Qed.

Lemma execute_verdict_validate bs : forall dirs s,
  out_ok (execute vs callback false dirs bs s) = forallb v (schedule dirs bs).
Proof.
  induction dirs as [|d r IH]; intros s; [reflexivity|].
  cbn [execute]. unfold schedule. cbn [flat_map]. rewrite forallb_app.
  unfold run_dir. rewrite <- (blocks_verdict d bs 0 s).
  destruct (run_blocks vs d bs 0 s) as [s'|s']; cbn [out_ok andb]; [exact (IH s')|reflexivity].
Qed.

Lemma execute_verdict_start bs : forall dirs s,
  (out_ok (execute vs callback true dirs bs s) = true -> forallb v (schedule dirs bs) = true) /\
  ((forall d s', out_ok (callback d s') = true) ->
   out_ok (execute vs callback true dirs bs s) = forallb v (schedule dirs bs)).
Proof.
  induction dirs as [|d r IH]; intros s; [split; reflexivity|].
  cbn [execute]. unfold schedule. cbn [flat_map]. rewrite forallb_app.
  unfold run_dir. rewrite <- (blocks_verdict d bs 0 s).
  destruct (run_blocks vs d bs 0 s) as [s'|s']; cbn [out_ok andb].
  - split.
    + destruct (callback d s') as [s2|s2]; [apply (IH s2)|cbn; discriminate].
    + intros Hcb. pose proof (Hcb d s') as K.
      destruct (callback d s') as [s2|s2]; [apply (IH s2); exact Hcb|cbn in K; discriminate].
  - split; [cbn; discriminate|reflexivity].
Qed.

(* validation accepts exactly when the verdict accepts EVERY scheduled call: every key of every block that writes
   the directive - whatever the initial state, whatever the calls build *)
Theorem validation_accepts_iff_every_key dirs bs s :
  accepted vs callback false dirs bs s = forallb v (schedule dirs bs).
Proof. apply execute_verdict_validate. Qed.

(* the directive phase of a start: what a start accepts validation accepts (from ANY state), and when no callback
   fails a start accepts exactly what validation accepts *)
Theorem start_directive_phase_agrees dirs bs s1 s2 :
  (accepted vs callback true dirs bs s2 = true -> accepted vs callback false dirs bs s1 = true) /\
  ((forall d s', out_ok (callback d s') = true) ->
   accepted vs callback true dirs bs s2 = accepted vs callback false dirs bs s1).
Proof.
  unfold accepted. rewrite (execute_verdict_validate bs dirs s1).
  destruct (execute_verdict_start bs dirs s2) as [H1 H2]. split; assumption.
Qed.

(* a rejected key ANYWHERE in a block (not the first key only) makes both modes reject *)
Theorem rejected_key_rejects_both_modes cbs dirs bs s d i b j k toks :
  In d dirs -> nth_error bs i = Some b -> nth_error (fst b) j = Some k ->
  tokens_of (snd b) d = Some toks -> v (d, i, j, k, toks) = false ->
  accepted vs callback cbs dirs bs s = false.
Proof.
  intros Hd Hb Hk Ht Hv.
  pose proof (schedule_covers_every_key dirs bs d i b j k toks Hd Hb Hk Ht) as Hin.
  assert (Hf : forallb v (schedule dirs bs) = false).
  { destruct (forallb v (schedule dirs bs)) eqn:E; [|reflexivity].
    rewrite forallb_forall in E. rewrite (E _ Hin) in Hv. discriminate. }
  destruct cbs.
  - destruct (accepted vs callback true dirs bs s) eqn:E; [|reflexivity].
    destruct (execute_verdict_start bs dirs s) as [H1 _]. unfold accepted in E. rewrite (H1 E) in Hf. discriminate.
  - rewrite validation_accepts_iff_every_key. exact Hf.
Qed.
End KV.
