(* C12 — proofs, part 3: bodies produced through the io.ReaderFrom entry point, templates that
   fail (to parse or at execution). *)
Require Import V.Lib V.C12_Model V.C12_Proofs V.C12_Proofs2.
Open Scope Z_scope.
Local Open Scope string_scope.

(* ---------- io.Copy / ReadFrom ---------- *)
(* a copy from a non-empty source is a Write at every level of the writer stack *)
Lemma step_copy_write b0 b x : step (ORf (b0 :: b)) x = step (OWr (b0 :: b)) x.
Proof. reflexivity. Qed.

Lemma run_copy_write pre b0 b post x :
  run_script (pre ++ ORf (b0 :: b) :: post) x = run_script (pre ++ OWr (b0 :: b) :: post) x.
Proof. rewrite !run_app. reflexivity. Qed.

Lemma serve_copy_is_write et c path ae pre b post ret err :
  b <> [] ->
  serve et c path ae (pre ++ ORf b :: post) ret err = serve et c path ae (pre ++ OWr b :: post) ret err.
Proof.
  intro Hb. destruct b as [|b0 b]; [congruence|].
  rewrite !serve_eq. apply outer_ext.
  unfold templates_mw, templates_mw_p, templates_on_p, buf_reset, probe.
  destruct (tmode_of c path); rewrite run_copy_write; reflexivity.
Qed.

(* a copy from an empty source does nothing on any writer stack, templates' ResponseBuffer included:
   its ReadFrom leaves the implicit header to the first byte copied *)
Lemma run_empty_copy pre post x :
  run_script (pre ++ ORf [] :: post) x = run_script (pre ++ post) x.
Proof.
  rewrite !run_app. destruct (run_script pre x) as [y|y]; reflexivity.
Qed.

Lemma serve_empty_copy et c path ae pre post ret err :
  serve et c path ae (pre ++ ORf [] :: post) ret err = serve et c path ae (pre ++ post) ret err.
Proof.
  rewrite !serve_eq. apply outer_ext.
  unfold templates_mw, templates_mw_p, templates_on_p, buf_reset, probe.
  destruct (tmode_of c path); rewrite run_empty_copy; reflexivity.
Qed.

(* the handler contract does not see an empty copy either *)
Lemma wh_first_empty_copy pre post : forall c0, wh_first c0 (pre ++ ORf [] :: post) = wh_first c0 (pre ++ post).
Proof.
  induction pre as [|o pre IH]; intro c0; [reflexivity|].
  destruct o as [k v|s|b| |pv|b]; [| | | | |destruct b as [|b0 b]]; cbn [app wh_first]; rewrite ?IH; reflexivity.
Qed.
Lemma touched_empty_copy pre post : touched (pre ++ ORf [] :: post) = touched (pre ++ post).
Proof.
  induction pre as [|o pre IH]; [reflexivity|].
  destruct o; cbn [app touched]; rewrite ?IH; reflexivity.
Qed.
Lemma panics_empty_copy pre post : panics (pre ++ ORf [] :: post) = panics (pre ++ post).
Proof.
  induction pre as [|o pre IH]; [reflexivity|].
  destruct o; cbn [app panics]; rewrite ?IH; reflexivity.
Qed.
Lemma contract_empty_copy pre post ret :
  handler_contract (pre ++ ORf [] :: post) ret = handler_contract (pre ++ post) ret /\
  panics_after_write (pre ++ ORf [] :: post) = panics_after_write (pre ++ post).
Proof.
  unfold handler_contract, panics_after_write.
  rewrite wh_first_empty_copy, touched_empty_copy, panics_empty_copy. split; reflexivity.
Qed.

(* ---------- an error status handed to the layers outside templates ---------- *)
Lemma outer_error_ret et c path ae (T : st -> hres) ret err x1 :
  mid false None (mime_ct c path) false T (entry (c_gzip c && ae) (c_header c)) = HRet ret err x1 ->
  fresh x1 -> gz_on x1 = (c_gzip c && ae) -> 400 <= ret <= 999 ->
  let x := server et (log_mw et (c_log c) (gzip_mw et (c_gzip c && ae) (header_mw (c_header c)
             (errors_mw et (eff_path c path) (eff_errors c) (mid false None (mime_ct c path) false T))))) in
  cm x = Some ret /\ sup x = 0%nat /\ view x = (false, expected_error_body et c path ret err).
Proof.
  intros Hin F1 G1 Hret.
  assert (R1 : (400 <=? ret) = true) by lia.
  assert (Hv : valid_code ret = true) by (unfold valid_code; lia).
  assert (Hb : bodyless ret = false) by (unfold bodyless; lia).
  set (act := c_gzip c && ae) in *. set (hd := c_header c) in *. set (mm := mime_ct c path) in *.
  destruct (eff_errors c) eqn:Ee.
  - destruct (eff_errors_none c Ee) as [Hg He].
    assert (Hact : act = false) by (unfold act; rewrite Hg; reflexivity).
    rewrite expected_matches, He.
    revert Hin G1. rewrite Hact. intros Hin G1.
    exact (outer_fallback_ret et (c_log c) hd _ ret err x1 Hin F1 G1 R1 Hv Hb).
  - destruct (errors_ret et (eff_path c path) EPlain _ _ x1 ret err Hin F1 ltac:(discriminate) R1 Hv Hb) as (y & e' & E & A).
    rewrite G1 in A.
    replace (expected_error_body et c path ret err) with (err_expected et (eff_path c path) EPlain ret err).
    + exact (outer_answered et (c_log c) act hd _ e' y ret _ E A).
    + rewrite expected_matches. unfold eff_errors in Ee.
      destruct (c_errors c); try discriminate; destruct (c_gzip c); try discriminate; reflexivity.
  - destruct (errors_ret et (eff_path c path) EDebug _ _ x1 ret err Hin F1 ltac:(discriminate) R1 Hv Hb) as (y & e' & E & A).
    rewrite G1 in A.
    replace (expected_error_body et c path ret err) with (err_expected et (eff_path c path) EDebug ret err).
    + exact (outer_answered et (c_log c) act hd _ e' y ret _ E A).
    + rewrite expected_matches. unfold eff_errors in Ee.
      destruct (c_errors c); try discriminate; destruct (c_gzip c); try discriminate; reflexivity.
  - destruct (errors_ret et (eff_path c path) (EPages pages generic) _ _ x1 ret err Hin F1 ltac:(discriminate) R1 Hv Hb) as (y & e' & E & A).
    rewrite G1 in A.
    replace (expected_error_body et c path ret err) with (err_expected et (eff_path c path) (EPages pages generic) ret err).
    + exact (outer_answered et (c_log c) act hd _ e' y ret _ E A).
    + rewrite expected_matches. unfold eff_errors in Ee.
      destruct (c_errors c); try discriminate; destruct (c_gzip c); try discriminate; congruence.
Qed.

(* ---------- a template that fails ---------- *)
(* The handler's response (header fields - Content-Length and validators included -, status,
   body) is in the ResponseBuffer; templates returns (500, err) before it has touched the real
   writer (CopyHeader comes after Execute), and the layers outside answer as for any handler
   that reports 500 with an error and has not written. *)
Lemma failed_template_500 et c path ae sets s ws ret err :
  forallb set_ok sets = true -> redir_hit c path = false -> status_rule c path = None -> internal_hit c path = false ->
  should_buffer (tmode_of c path) (hs_fun sets []) = true -> ret < 300 -> err = false ->
  contains (wbody ws) TPL_OPEN = true ->
  let x := serve et c path ae (sets ++ OWh s :: map wop_op ws) ret err in
  cm x = Some 500 /\ sup x = 0%nat /\ view x = (false, expected_error_body et c path 500 true).
Proof.
  intros Hs Hrd Hr Hit Hsb Hret Herr Htpl.
  rewrite serve_eq, Hrd, Hr, Hit.
  set (act := c_gzip c && ae). set (hd := c_header c). set (m := tmode_of c path) in *. set (mm := mime_ct c path).
  assert (Hm : m <> TOff) by (intro Q; rewrite Q in Hsb; discriminate Hsb).
  set (ops := sets ++ OWh s :: map wop_op ws).
  set (x1 := set_b (entry3 act hd mm) m true false s (hs_fun sets []) (wbody ws)).
  assert (Hin : mid false None mm false (templates_mw m (probe ops ret err)) (entry act hd) = HRet 500 true x1).
  { rewrite mid_pass. fold (entry3 act hd mm). rewrite (templates_mw_on _ _ _ Hm).
    unfold templates_on, templates_on_p, buf_reset, ops.
    rewrite (probe_buffered m sets s ws ret err (entry3 act hd mm) Hm Hs Hsb).
    assert (R3 : (300 <=? ret) = false) by lia. rewrite R3, Herr.
    replace (b_stream (set_b (entry3 act hd mm) m true false s (hs_fun sets []) (wbody ws))) with false
      by (destruct (entry3 act hd mm); reflexivity).
    replace (b_buf (set_b (entry3 act hd mm) m true false s (hs_fun sets []) (wbody ws))) with (wbody ws)
      by (destruct (entry3 act hd mm); reflexivity).
    cbn [orb]. rewrite Htpl. reflexivity. }
  assert (F1 : fresh x1) by (apply fresh_set_b; apply fresh_entry3).
  assert (G1 : gz_on x1 = act) by (unfold x1; destruct act, hd, mm; reflexivity).
  exact (outer_error_ret et c path ae _ 500 true x1 Hin F1 G1 ltac:(lia)).
Qed.

(* what templates hands back for a failed template: (500, err) and the writer stack below the
   ResponseBuffer - the real header map included - exactly as templates was handed it *)
Lemma failed_template_untouched m sets s ws ret err X :
  m <> TOff -> forallb set_ok sets = true -> should_buffer m (hs_fun sets []) = true ->
  ret < 300 -> err = false -> contains (wbody ws) TPL_OPEN = true ->
  exists y, templates_mw m (probe (sets ++ OWh s :: map wop_op ws) ret err) X = HRet 500 true y /\
            chdr y = chdr X /\ cm y = cm X /\ csnap y = csnap X /\ body y = body X /\ sup y = sup X.
Proof.
  intros Hm Hs Hsb Hret Herr Htpl.
  exists (set_b X m true false s (hs_fun sets []) (wbody ws)). split.
  - rewrite (templates_mw_on _ _ _ Hm). unfold templates_on, templates_on_p, buf_reset.
    rewrite (probe_buffered m sets s ws ret err X Hm Hs Hsb).
    assert (R3 : (300 <=? ret) = false) by lia. rewrite R3, Herr.
    replace (b_stream (set_b X m true false s (hs_fun sets []) (wbody ws))) with false by (destruct X; reflexivity).
    replace (b_buf (set_b X m true false s (hs_fun sets []) (wbody ws))) with (wbody ws) by (destruct X; reflexivity).
    cbn [orb]. rewrite Htpl. reflexivity.
  - destruct X; repeat split; reflexivity.
Qed.

(* a response copied with the implicit header: status 200, the bytes copied followed by the later
   chunks, one header commit - whether templates streams it, passes it on or renders it *)
Lemma copied_response_unaltered et c path ae sets b ws ret err :
  b <> [] ->
  forallb set_ok sets = true -> redir_hit c path = false -> status_rule c path = None -> internal_hit c path = false -> ret < 400 ->
  (should_buffer (tmode_of c path) (hs_fun sets []) = true -> ret < 300 -> err = false ->
   contains (b ++ wbody ws) TPL_OPEN = false) ->
  let x := serve et c path ae (sets ++ ORf b :: map wop_op ws) ret err in
  cm x = Some 200 /\ sup x = 0%nat /\ view x = (false, b ++ wbody ws).
Proof.
  intros Hb Hs Hrd Hr Hit Hret Htpl. cbv zeta.
  rewrite (serve_copy_is_write et c path ae sets b (map wop_op ws) ret err Hb).
  exact (implicit_response_unaltered et c path ae sets (WWr b) ws ret err Hs Hrd Hr Hit Hret Htpl).
Qed.
