Require Import V.Lib V.C12_Model.
Open Scope Z_scope.

Lemma bnd_done o f x : bnd o f = Done x -> exists y, o = Done y /\ f y = Done x.
Proof. destruct o; simpl; intro H; [eauto | discriminate]. Qed.
