(* C12 — proofs.  Strategy: the writer stack is a flat record of flags; for a handler script of
   a fixed shape (header sets, then nothing / a panic / WriteHeader+Write) the whole site
   evaluates symbolically, so the theorems are proved by case analysis over the configuration
   with the handler's header sets, status, payload and the error texts kept symbolic. *)
Require Import V.Lib V.C12_Model.
Open Scope Z_scope.

(* ---------- header maps ---------- *)
Lemma beq_sym a b : beq a b = beq b a.
Proof.
  revert b; induction a as [|x a IH]; intros [|y b]; simpl; try reflexivity.
  rewrite N.eqb_sym, IH. reflexivity.
Qed.
Lemma hget_hdel h k k' : hget (hdel h k) k' = if beq k' k then None else hget h k'.
Proof.
  induction h as [|[a v] h IH]; simpl.
  - destruct (beq k' k); reflexivity.
  - destruct (beq k a) eqn:Eka; simpl.
    + rewrite IH. destruct (beq k' k) eqn:Ek; [reflexivity|].
      destruct (beq k' a) eqn:Ea; [|reflexivity].
      apply beq_eq in Eka. apply beq_eq in Ea. subst. rewrite beq_refl in Ek. discriminate.
    + destruct (beq k' a) eqn:Ea.
      * destruct (beq k' k) eqn:Ek; [|reflexivity].
        apply beq_eq in Ea. apply beq_eq in Ek. subst. rewrite beq_refl in Eka. discriminate.
      * exact IH.
Qed.
Lemma hget_hset h k v k' : hget (hset h k v) k' = if beq k' k then Some v else hget h k'.
Proof.
  unfold hset. simpl. destruct (beq k' k) eqn:E; [reflexivity|].
  rewrite hget_hdel, E. reflexivity.
Qed.
Lemma hcopy_cons a v src dst : hcopy ((a, v) :: src) dst = hset (hcopy src dst) a v.
Proof. reflexivity. Qed.
Lemma hget_hcopy_none src dst k : hget src k = None -> hget (hcopy src dst) k = hget dst k.
Proof.
  induction src as [|[a v] src IH]; intro H; [reflexivity|].
  rewrite hcopy_cons, hget_hset. simpl in H.
  destruct (beq k a) eqn:E; [discriminate|]. apply IH. exact H.
Qed.
Lemma hget_hcopy_some src dst k v : hget src k = Some v -> hget (hcopy src dst) k = Some v.
Proof.
  induction src as [|[a w] src IH]; intro H; [discriminate|].
  rewrite hcopy_cons, hget_hset. simpl in H.
  destruct (beq k a) eqn:E; [exact H|]. apply IH. exact H.
Qed.

(* ---------- scripts made of header sets only ---------- *)
Definition is_set (o : op) : bool := match o with OSet _ _ => true | _ => false end.
Definition key_ok (k : bytes) : bool := negb (beq k K_CE).
Definition set_ok (o : op) : bool := match o with OSet k _ => key_ok k | _ => false end.
Definition hs_fun (ops : list op) (h : headers) : headers :=
  fold_left (fun h o => match o with OSet k v => hset h k v | _ => h end) ops h.

Lemma hs_fun_ce ops h : forallb set_ok ops = true -> hget (hs_fun ops h) K_CE = hget h K_CE.
Proof.
  revert h; induction ops as [|o ops IH]; simpl; intros h H; [reflexivity|].
  apply andb_true_iff in H as [Ho Hr]. rewrite (IH _ Hr).
  destruct o; try discriminate. simpl in Ho. unfold key_ok in Ho.
  rewrite hget_hset. rewrite beq_sym. destruct (beq k K_CE); [discriminate|reflexivity].
Qed.

Definition apply_sets (ops : list op) (x : st) : st :=
  if b_active x then set_b x (b_mode x) (b_wrote x) (b_stream x) (b_status x) (hs_fun ops (b_hdr x)) (b_buf x)
  else set_chdr x (hs_fun ops (chdr x)).

Lemma st_eta x :
  x = {| cm := cm x; chdr := chdr x; csnap := csnap x; body := body x; sup := sup x;
         gz_on := gz_on x; gz_fw := gz_fw x; gz_comp := gz_comp x; gz_wrote := gz_wrote x;
         gz_created := gz_created x; gz_hdr_out := gz_hdr_out x; gz_pend := gz_pend x;
         h_on := h_on x; h_wrote := h_wrote x;
         b_mode := b_mode x; b_wrote := b_wrote x; b_stream := b_stream x; b_status := b_status x;
         b_hdr := b_hdr x; b_buf := b_buf x |}.
Proof. destruct x; reflexivity. Qed.

Lemma run_sets ops rest x :
  forallb set_ok ops = true ->
  run_script (ops ++ rest) x = run_script rest (apply_sets ops x).
Proof.
  revert x; induction ops as [|o ops IH]; intros x H.
  - simpl. f_equal. unfold apply_sets. simpl.
    destruct (b_active x); destruct x; reflexivity.
  - simpl in H. apply andb_true_iff in H as [Ho Hr].
    destruct o; try discriminate. simpl. rewrite (IH _ Hr). f_equal.
    unfold apply_sets, b_sethdr. destruct x as [? ? ? ? ? ? ? ? ? ? ? ? ? ? bm ? ? ? ? ?]; simpl.
    unfold b_active; simpl. destruct bm; reflexivity.
Qed.
Lemma run_sets_only ops x :
  forallb set_ok ops = true -> run_script ops x = Done (apply_sets ops x).
Proof. intro H. pose proof (run_sets ops [] x H) as R. rewrite app_nil_r in R. exact R. Qed.

(* ---------- what the client sees ---------- *)
Lemma fin_committed x : exists s, cm (finish x) = Some s.
Proof. unfold finish. destruct (cm x) eqn:E; [exists z; exact E | exists 200; reflexivity]. Qed.

Lemma serve_committed et c path ae ops ret err : exists s, cm (serve et c path ae ops ret err) = Some s.
Proof.
  unfold serve, serve_p, server.
  destruct (chain_p ([], []) et c path ae ops ret err st0) as [s e y|y].
  - destruct (400 <=? s).
    + destruct (default_error1 et s y); apply fin_committed.
    + apply fin_committed.
  - apply fin_committed.
Qed.

(* the directives that do not touch the response are invisible *)
Lemma serve_transparent et c path ae ops ret err r l :
  serve et {| c_reqid := r; c_limits := l; c_log := c_log c; c_rewrite := c_rewrite c; c_gzip := c_gzip c;
              c_header := c_header c; c_errors := c_errors c; c_redir := c_redir c; c_status := c_status c;
              c_mime := c_mime c; c_internal := c_internal c; c_templates := c_templates c |} path ae ops ret err
  = serve et c path ae ops ret err.
Proof. destruct c; reflexivity. Qed.

(* keep header maps, keys and status predicates folded during symbolic evaluation *)
Lemma ce_ct : beq K_CE K_CT = false. Proof. reflexivity. Qed.
Lemma ce_xcto : beq K_CE K_XCTO = false. Proof. reflexivity. Qed.
Lemma ce_xdel : beq K_CE K_XDEL = false. Proof. reflexivity. Qed.
Lemma ce_xcfg : beq K_CE K_XCFG = false. Proof. reflexivity. Qed.
Lemma ce_cl : beq K_CE K_CL = false. Proof. reflexivity. Qed.
Lemma ce_etag : beq K_CE K_ETAG = false. Proof. reflexivity. Qed.
Lemma ce_lm : beq K_CE K_LM = false. Proof. reflexivity. Qed.
Lemma ce_ce : beq K_CE K_CE = true. Proof. reflexivity. Qed.
Lemma gzip_gzip : beq V_GZIP V_GZIP = true. Proof. reflexivity. Qed.
Lemma ce_listed_none : ce_listed None = false. Proof. reflexivity. Qed.
Lemma bodyless_200 : bodyless 200 = false. Proof. reflexivity. Qed.
Lemma valid_200 : valid_code 200 = true. Proof. reflexivity. Qed.
Global Opaque K_CE K_CT K_CL K_XCTO K_XDEL K_XCFG K_ETAG K_LM K_XPROBE V_GZIP V_TEXT V_HTML V_NOSNIFF V_CFG TPL_OPEN PANIC_MARK.
Arguments hget : simpl never.
Arguments hset : simpl never.
Arguments hdel : simpl never.
Arguments hcopy : simpl never.
Arguments valid_code : simpl never.
Arguments bodyless : simpl never.
Arguments ce_listed : simpl never.
Arguments view : simpl never.
Arguments errmsg : simpl never.
Arguments decimal : simpl never.
Ltac hsimp := repeat (rewrite ?hget_hset, ?hget_hdel, ?ce_ct, ?ce_xcto, ?ce_xdel, ?ce_xcfg, ?ce_cl, ?ce_etag, ?ce_lm, ?ce_ce).
(* symbolic evaluation is done with cbv on the record plumbing only (cbn leaves proof terms
   whose conversions the kernel re-checks very slowly) *)
Ltac norm := cbv beta iota zeta delta [set_gz set_conn set_chdr set_h set_b commit cm chdr csnap body sup gz_on gz_fw gz_comp gz_wrote
  gz_created gz_hdr_out gz_pend h_on h_wrote b_mode b_wrote b_stream b_status b_hdr b_buf orb andb negb bnd out_st].
Ltac nproj := cbv beta iota delta [cm chdr csnap body sup gz_on gz_fw gz_comp gz_wrote gz_created gz_hdr_out gz_pend h_on h_wrote b_mode b_wrote b_stream b_status b_hdr b_buf] in *.
Ltac nstage E1 Hce Hv Hb := norm; rewrite ?E1, ?Hce, ?ce_listed_none, ?Hv, ?Hb; norm.
Ltac nlay E1 Hce Hv Hb :=
  unfold h_wh, h_wr; nstage E1 Hce Hv Hb; unfold g_wh, g_wr; nstage E1 Hce Hv Hb;
  unfold gzh_wh; nstage E1 Hce Hv Hb; unfold c_wh, c_wr; nstage E1 Hce Hv Hb.

(* ---------- a writer stack on which nothing has been written yet ---------- *)
Definition fresh (x : st) : Prop :=
  cm x = None /\ body x = [] /\ sup x = 0%nat /\ gz_fw x = false /\ gz_wrote x = false /\
  gz_created x = false /\ gz_hdr_out x = false /\ gz_pend x = [] /\ h_wrote x = false /\
  hget (chdr x) K_CE = None.

(* the rest of the request once the errors directive (or an outer layer) has answered *)
Definition final (y : st) : st := finish (out_st (g_close y)).

Lemma c_wr_done g y : exists z, c_wr g y = Done z.
Proof.
  unfold c_wr. set (x1 := match cm y with Some _ => y | None => commit 200 y end).
  destruct (cm x1) as [s|]; [destruct (bodyless s)|]; eauto.
Qed.
Lemma g_close_done y : exists z, g_close y = Done z.
Proof.
  unfold g_close. destruct (gz_on y && gz_created y); [|eauto].
  match goal with |- context [bnd (if ?b then Done ?x0 else c_wr GzHead ?x0) ?f] =>
    destruct b; [cbn; apply c_wr_done | destruct (c_wr_done GzHead x0) as [z Hz]; rewrite Hz; cbn; apply c_wr_done] end.
Qed.
Lemma final_off y : gz_on y = false -> final y = finish y.
Proof. intro H. unfold final, g_close. rewrite H. reflexivity. Qed.

Definition answeredn (n : nat) (c : Z) (t : bytes) (gz : bool) (y : st) : Prop :=
  gz_on y = gz /\ cm (final y) = Some c /\ sup (final y) = n /\ view (final y) = (false, t).
Notation answered := (answeredn 0%nat).

Lemma view_raw1 x t : hget (csnap x) K_CE = None -> body x = [Raw t] -> view x = (false, t).
Proof.
  intros H B. unfold view. rewrite H, B. destruct t; cbn; [reflexivity|].
  rewrite app_nil_r. reflexivity.
Qed.
Lemma view_gz1 x t : hget (csnap x) K_CE = Some V_GZIP -> body x = [GzRest t; GzHead] -> view x = (false, t).
Proof.
  intros H B. unfold view. rewrite H, B. cbn. rewrite app_nil_r. reflexivity.
Qed.
Lemma view_empty x : body x = [] -> view x = (false, []).
Proof.
  intros B. unfold view. rewrite B. cbn.
  match goal with |- (if ?b then _ else _) = _ => destruct b; reflexivity end.
Qed.

Ltac nfinal Hb :=
  unfold answeredn, final, g_close; norm; unfold c_wr; norm; rewrite ?Hb; norm; unfold c_wr; norm; rewrite ?Hb; norm;
  unfold finish; norm.
(* writing status + text through the header/gzip wrappers of a fresh stack *)
Lemma write3 x h' c t :
  fresh x -> hget h' K_CE = None -> valid_code c = true -> bodyless c = false ->
  exists y, bnd (h_wh c (set_chdr x h')) (h_wr t) = Done y /\ answered c t (gz_on x) y.
Proof.
  intros (F1 & F2 & F3 & F4 & F5 & F6 & F7 & F8 & F9 & F10) Hce Hv Hb.
  destruct x as [cm0 ch cs bd sp gon gfw gcomp gwr gcr gho gp hon hwr bm bw bs0 bst bh bb].
  nproj. subst.
  assert (E1 : hget (hdel h' K_XDEL) K_CE = None) by (rewrite hget_hdel, ce_xdel; exact Hce).
  destruct gon, hon; nlay E1 Hce Hv Hb; nlay E1 Hce Hv Hb; nlay E1 Hce Hv Hb;
    (eexists; split; [reflexivity|]); nfinal Hb;
    (split; [reflexivity|]); (split; [reflexivity|]); (split; [reflexivity|]).
  - apply view_gz1; norm; [hsimp; reflexivity | reflexivity].
  - apply view_gz1; norm; [hsimp; reflexivity | reflexivity].
  - apply view_raw1; norm; [exact E1 | reflexivity].
  - apply view_raw1; norm; [exact Hce | reflexivity].
Qed.

(* the same for a status line without body (an empty error page) *)
Lemma write3_empty x h' c :
  fresh x -> hget h' K_CE = None -> valid_code c = true -> bodyless c = false ->
  exists y, h_wh c (set_chdr x h') = Done y /\ answered c [] (gz_on x) y.
Proof.
  intros (F1 & F2 & F3 & F4 & F5 & F6 & F7 & F8 & F9 & F10) Hce Hv Hb.
  destruct x as [cm0 ch cs bd sp gon gfw gcomp gwr gcr gho gp hon hwr bm bw bs0 bst bh bb].
  nproj. subst.
  assert (E1 : hget (hdel h' K_XDEL) K_CE = None) by (rewrite hget_hdel, ce_xdel; exact Hce).
  destruct gon, hon; nlay E1 Hce Hv Hb; nlay E1 Hce Hv Hb;
    (eexists; split; [reflexivity|]); nfinal Hb;
    (split; [reflexivity|]); (split; [reflexivity|]); (split; [reflexivity|]).
  - apply view_gz1; norm; [hsimp; reflexivity | reflexivity].
  - apply view_gz1; norm; [hsimp; reflexivity | reflexivity].
  - apply view_empty; reflexivity.
  - apply view_empty; reflexivity.
Qed.

(* the fallback writers of log / gzip / Server.ServeHTTP on the bare connection *)
Lemma write1 et x c :
  fresh x -> gz_on x = false -> valid_code c = true -> bodyless c = false ->
  exists y, default_error1 et c x = Done y /\ gz_on y = false /\
            cm (finish y) = Some c /\ sup (finish y) = 0%nat /\ view (finish y) = (false, et c).
Proof.
  intros (F1 & F2 & F3 & F4 & F5 & F6 & F7 & F8 & F9 & F10) Hg Hv Hb.
  destruct x as [cm0 ch cs bd sp gon gfw gcomp gwr gcr gho gp hon hwr bm bw bs0 bst bh bb].
  nproj. subst.
  unfold default_error1, text_response, c_wh, c_wr; norm. rewrite Hv; norm. rewrite Hb; norm.
  eexists; split; [reflexivity|]. unfold finish; norm.
  repeat split. apply view_raw1; norm; [hsimp; exact F10 | reflexivity].
Qed.

(* ---------- the innermost handler sets headers only, then returns / panics ---------- *)
Definition enter_templates (m : tmode) (x : st) : st :=
  match m with TOff => x | _ => set_b x m false false 200 [] [] end.

Lemma fresh_apply_sets ops x : forallb set_ok ops = true -> fresh x -> fresh (apply_sets ops x).
Proof.
  intros Hs (F1 & F2 & F3 & F4 & F5 & F6 & F7 & F8 & F9 & F10).
  unfold apply_sets. destruct (b_active x); unfold fresh; destruct x; cbn in *; repeat split; try assumption.
  rewrite (hs_fun_ce _ _ Hs). exact F10.
Qed.
Lemma fresh_enter m x : fresh x -> fresh (enter_templates m x).
Proof. intro F. destruct m; [exact F| | |]; destruct x; exact F. Qed.
Lemma gz_on_apply_sets ops x : gz_on (apply_sets ops x) = gz_on x.
Proof. unfold apply_sets. destruct (b_active x); destruct x; reflexivity. Qed.
Lemma gz_on_enter m x : gz_on (enter_templates m x) = gz_on x.
Proof. destruct m; destruct x; reflexivity. Qed.
Lemma b_stream_apply_enter ops m x : b_mode x = TOff -> b_stream x = false ->
  b_stream (apply_sets ops (enter_templates m x)) = false.
Proof.
  intros Hm Hs. unfold apply_sets. destruct m; cbn.
  - unfold b_active. rewrite Hm. destruct x; cbn in *. exact Hs.
  - destruct x; reflexivity.
  - destruct x; reflexivity.
  - destruct x; reflexivity.
Qed.

Lemma b_write_buffered_stream y : b_stream y = true -> b_write_buffered y = Done y.
Proof. unfold b_write_buffered. intros ->. rewrite andb_false_r. reflexivity. Qed.

Lemma inner_ret m ops ret err x :
  forallb set_ok ops = true -> (300 <=? ret) = true -> b_mode x = TOff -> b_stream x = false ->
  templates_mw m (probe ops ret err) x = HRet ret err (apply_sets ops (enter_templates m x)).
Proof.
  intros Hs Hr Hm Hst. unfold templates_mw, templates_mw_p, templates_on_p, buf_reset, probe.
  destruct m; cbn [enter_templates]; rewrite (run_sets_only _ _ Hs); [reflexivity| | |];
    rewrite Hr, orb_true_r; cbv iota; unfold b_write_buffered;
    match goal with |- context [b_wrote ?Y && _] =>
      replace (b_wrote Y) with false by (unfold apply_sets; destruct x; reflexivity) end;
    cbn [andb]; destruct (ret <? 400); reflexivity.
Qed.
Lemma inner_pan m ops pv rest ret err x :
  forallb set_ok ops = true ->
  templates_mw m (probe (ops ++ OPanic pv :: rest) ret err) x = HPan (apply_sets ops (enter_templates m x)).
Proof.
  intros Hs. unfold templates_mw, templates_mw_p, templates_on_p, buf_reset, probe.
  destruct m; cbn [enter_templates]; rewrite (run_sets _ _ _ Hs); reflexivity.
Qed.

(* ---------- the errors directive answers on a fresh stack ---------- *)
Definition page_or_text (et : Z -> bytes) (m : emode) (code : Z) : bytes :=
  match find_page m code with Some (Some content) => content | _ => et code end.

Lemma error_page_answers et m code x :
  fresh x -> valid_code code = true -> bodyless code = false ->
  exists y, error_page et m code x = Done y /\ answered code (page_or_text et m code) (gz_on x) y.
Proof.
  intros F Hv Hb. unfold error_page, page_or_text, default_error3, text_response.
  assert (Fce : hget (chdr x) K_CE = None) by (destruct F as (_&_&_&_&_&_&_&_&_&F10); exact F10).
  destruct (find_page m code) as [[content|]|].
  - destruct content as [|b0 content].
    + destruct (write3_empty x (hset (chdr x) K_CT V_HTML) code F) as (y & E & A); try assumption.
      { hsimp. exact Fce. }
      rewrite E. exists y. split; [reflexivity | exact A].
    + assert (Fcm : cm x = None) by (destruct F as (F1 & _); exact F1).
      rewrite Fcm.
      destruct (write3 x (hset (chdr x) K_CT V_HTML) code (b0 :: content) F) as (y & E & A); try assumption.
      { hsimp. exact Fce. }
      exists y. split; [|exact A].
      unfold bnd in E |- *. destruct (h_wh code (set_chdr x (hset (chdr x) K_CT V_HTML))) as [y0|y0]; [|discriminate E].
      rewrite E. reflexivity.
  - apply write3; try assumption. hsimp. exact Fce.
  - apply write3; try assumption. hsimp. exact Fce.
Qed.

Definition err_expected (et : Z -> bytes) (ep : bytes) (m : emode) (code : Z) (err : bool) : bytes :=
  match m with
  | EDebug => if err then errmsg ep code else et code
  | _ => page_or_text et m code
  end.

Lemma errors_ret et ep m inner x x1 ret err :
  inner x = HRet ret err x1 -> fresh x1 -> m <> ENone ->
  (400 <=? ret) = true -> valid_code ret = true -> bodyless ret = false ->
  exists y e', errors_mw et ep m inner x = HRet 0 e' y /\ answered ret (err_expected et ep m ret err) (gz_on x1) y.
Proof.
  intros Hi F Hm R1 Hv Hb.
  assert (Fce : hget (chdr x1) K_CE = None) by (destruct F as (_&_&_&_&_&_&_&_&_&F10); exact F10).
  unfold errors_mw. rewrite Hi.
  rewrite R1, andb_true_r.
  destruct m as [| | |pages generic]; [congruence| | |].
  - rewrite andb_false_r.
    destruct (error_page_answers et EPlain ret x1 F Hv Hb) as (y & E & A). rewrite E. eauto.
  - destruct err; cbn [andb].
    + destruct (write3 x1 (hset (chdr x1) K_CT V_TEXT) ret (errmsg ep ret) F) as (y & E & A); try assumption.
      { hsimp. exact Fce. }
      rewrite E. eauto.
    + destruct (error_page_answers et EDebug ret x1 F Hv Hb) as (y & E & A). rewrite E.
      exists y, false. split; [reflexivity|]. exact A.
  - rewrite andb_false_r.
    destruct (error_page_answers et (EPages pages generic) ret x1 F Hv Hb) as (y & E & A). rewrite E. eauto.
Qed.

Definition panic_expected (et : Z -> bytes) (m : emode) : bytes :=
  match m with EDebug => PANIC_MARK | _ => page_or_text et m 500 end.

Lemma errors_pan et ep m inner x x1 :
  inner x = HPan x1 -> fresh x1 -> m <> ENone ->
  exists y, errors_mw et ep m inner x = HRet 0 false y /\ answered 500 (panic_expected et m) (gz_on x1) y.
Proof.
  intros Hi F Hm.
  assert (Fce : hget (chdr x1) K_CE = None) by (destruct F as (_&_&_&_&_&_&_&_&_&F10); exact F10).
  unfold errors_mw. rewrite Hi. unfold recovery.
  destruct m as [| | |pages generic]; [congruence| | |].
  - destruct (error_page_answers et EPlain 500 x1 F eq_refl eq_refl) as (y & E & A). rewrite E. eauto.
  - unfold text_response.
    destruct (write3 x1 (hset (hset (chdr x1) K_CT V_TEXT) K_XCTO V_NOSNIFF) 500 PANIC_MARK F) as (y & E & A); try reflexivity.
    { hsimp. exact Fce. }
    rewrite E. eauto.
  - destruct (error_page_answers et (EPages pages generic) 500 x1 F eq_refl eq_refl) as (y & E & A). rewrite E. eauto.
Qed.

(* ---------- the layers outside the errors directive ---------- *)
Definition enter_gzip (act : bool) (x : st) : st := if act then set_gz x true false false false false false [] else x.
Definition enter_header (hd : bool) (x : st) : st :=
  if hd then set_chdr (set_h x true false) (hset (hdel (chdr x) K_XDEL) K_XCFG V_CFG) else x.
Definition entry (act hd : bool) : st := enter_header hd (enter_gzip act st0).

Lemma fresh_entry act hd : fresh (entry act hd).
Proof. destruct act, hd; unfold fresh; cbn; repeat split; reflexivity. Qed.
Lemma entry_gz act hd : gz_on (entry act hd) = act.
Proof. destruct act, hd; reflexivity. Qed.
Lemma entry_b act hd : b_mode (entry act hd) = TOff /\ b_stream (entry act hd) = false.
Proof. destruct act, hd; split; reflexivity. Qed.

(* the state the directives inside mime are handed *)
Definition entry3 (act hd : bool) (mm : option bytes) : st := enter_mime mm (entry act hd).
Lemma fresh_entry3 act hd mm : fresh (entry3 act hd mm).
Proof. destruct act, hd, mm; unfold fresh; cbn; repeat split; reflexivity. Qed.
Lemma entry3_gz act hd mm : gz_on (entry3 act hd mm) = act.
Proof. destruct act, hd, mm; reflexivity. Qed.
Lemma entry3_b act hd mm : b_mode (entry3 act hd mm) = TOff /\ b_stream (entry3 act hd mm) = false.
Proof. destruct act, hd, mm; split; reflexivity. Qed.
Lemma entry3_ce act hd mm : hget (chdr (entry3 act hd mm)) K_CE = None.
Proof. destruct act, hd, mm; reflexivity. Qed.

(* the directives between errors and templates *)
Definition mid (rd : bool) (rule : option Z) (mm : option bytes) (it : bool) (T : st -> hres) : st -> hres :=
  redir_mw rd (status_mw rule (mime_mw mm (internal_mw it T))).
Lemma mid_pass mm T x : mid false None mm false T x = T (enter_mime mm x).
Proof. reflexivity. Qed.
Lemma serve_eq et c path ae ops ret err :
  serve et c path ae ops ret err =
  server et (log_mw et (c_log c) (gzip_mw et (c_gzip c && ae) (header_mw (c_header c)
    (errors_mw et (eff_path c path) (eff_errors c)
      (mid (redir_hit c path) (status_rule c path) (mime_ct c path) (internal_hit c path)
        (templates_mw (tmode_of c path) (probe ops ret err))))))).
Proof. reflexivity. Qed.

(* once something inside gzip has answered and returned 0, the outer layers only close the
   gzip writer and finish the request *)
Lemma outer_passes_n n et lg act hd (E : st -> hres) r e y c t :
  E (entry act hd) = HRet r e y -> (400 <=? r) = false -> answeredn n c t act y ->
  let x := server et (log_mw et lg (gzip_mw et act (header_mw hd E))) in
  cm x = Some c /\ sup x = n /\ view x = (false, t).
Proof.
  intros HE Hr (Ag & Ac & As & Av). unfold server, log_mw, log_next, gzip_mw, gzip_mw_p, gw_reset, header_mw.
  assert (Eh : (if hd then E (set_chdr (set_h (enter_gzip act st0) true false)
                                 (hset (hdel (chdr (enter_gzip act st0)) K_XDEL) K_XCFG V_CFG))
                else E (enter_gzip act st0)) = HRet r e y).
  { rewrite <- HE. unfold entry, enter_header. destruct hd; reflexivity. }
  destruct act.
  - unfold enter_gzip in Eh. rewrite Eh. rewrite Hr.
    destruct (g_close_done y) as [z Hz]. unfold final in *. rewrite Hz in *. cbn in *.
    destruct lg; rewrite ?Hr; repeat split; assumption.
  - unfold enter_gzip in Eh. rewrite Eh.
    rewrite (final_off y Ag) in *.
    destruct lg; rewrite ?Hr; repeat split; assumption.
Qed.
Definition outer_passes := outer_passes_n 0%nat.
Lemma outer_answered et lg act hd (E : st -> hres) e y c t :
  E (entry act hd) = HRet 0 e y -> answered c t act y ->
  let r := server et (log_mw et lg (gzip_mw et act (header_mw hd E))) in
  cm r = Some c /\ sup r = 0%nat /\ view r = (false, t).
Proof. intros HE A. exact (outer_passes et lg act hd E 0 e y c t HE eq_refl A). Qed.

(* no errors directive (hence no gzip): the fallback of log, else of the server, answers *)
Lemma outer_fallback_ret et lg hd (E : st -> hres) ret err x1 :
  E (entry false hd) = HRet ret err x1 -> fresh x1 -> gz_on x1 = false ->
  (400 <=? ret) = true -> valid_code ret = true -> bodyless ret = false ->
  let r := server et (log_mw et lg (gzip_mw et false (header_mw hd E))) in
  cm r = Some ret /\ sup r = 0%nat /\ view r = (false, et ret).
Proof.
  intros HE F G R1 Hv Hb. unfold server, log_mw, log_next, gzip_mw, gzip_mw_p, gw_reset, header_mw.
  assert (Eh : (if hd then E (set_chdr (set_h st0 true false) (hset (hdel (chdr st0) K_XDEL) K_XCFG V_CFG))
                else E st0) = HRet ret err x1).
  { rewrite <- HE. unfold entry, enter_header, enter_gzip. destruct hd; reflexivity. }
  rewrite Eh.
  destruct (write1 et x1 ret F G Hv Hb) as (y & E1 & Gy & C & S & V).
  destruct lg.
  - rewrite R1, E1. cbn. repeat split; assumption.
  - rewrite R1, E1. repeat split; assumption.
Qed.
Lemma outer_fallback_pan et lg hd (E : st -> hres) x1 :
  E (entry false hd) = HPan x1 -> fresh x1 -> gz_on x1 = false ->
  let r := server et (log_mw et lg (gzip_mw et false (header_mw hd E))) in
  cm r = Some 500 /\ sup r = 0%nat /\ view r = (false, et 500).
Proof.
  intros HE F G. unfold server, log_mw, log_next, gzip_mw, gzip_mw_p, gw_reset, header_mw.
  assert (Eh : (if hd then E (set_chdr (set_h st0 true false) (hset (hdel (chdr st0) K_XDEL) K_XCFG V_CFG))
                else E st0) = HPan x1).
  { rewrite <- HE. unfold entry, enter_header, enter_gzip. destruct hd; reflexivity. }
  rewrite Eh.
  destruct (write1 et x1 500 F G eq_refl eq_refl) as (y & E1 & Gy & C & S & V).
  destruct lg; rewrite E1; cbn; repeat split; assumption.
Qed.

(* ---------- theorem: an error status reported without writing ---------- *)
Lemma eff_errors_none c : eff_errors c = ENone -> c_gzip c = false /\ c_errors c = ENone.
Proof. unfold eff_errors. destruct (c_errors c); destruct (c_gzip c); try discriminate; auto. Qed.

Lemma expected_matches et c path code err :
  expected_error_body et c path code err =
  match c_errors c with ENone => et code | m => err_expected et (eff_path c path) m code err end.
Proof.
  unfold expected_error_body, err_expected, page_or_text. destruct (c_errors c); try reflexivity.
Qed.

Lemma error_status_gets_body et c path ae ops ret err :
  forallb set_ok ops = true -> redir_hit c path = false -> status_rule c path = None -> internal_hit c path = false ->
  400 <= ret <= 999 ->
  let x := serve et c path ae ops ret err in
  cm x = Some ret /\ sup x = 0%nat /\ view x = (false, expected_error_body et c path ret err).
Proof.
  intros Hs Hrd Hr Hit Hret.
  assert (R1 : (400 <=? ret) = true) by lia.
  assert (R2 : (300 <=? ret) = true) by lia.
  assert (Hv : valid_code ret = true) by (unfold valid_code; lia).
  assert (Hb : bodyless ret = false) by (unfold bodyless; lia).
  rewrite serve_eq, Hrd, Hr, Hit.
  set (act := c_gzip c && ae). set (hd := c_header c). set (m := tmode_of c path). set (mm := mime_ct c path).
  destruct (entry3_b act hd mm) as [Bm Bs].
  pose proof (inner_ret m ops ret err (entry3 act hd mm) Hs R2 Bm Bs) as Hin.
  set (x1 := apply_sets ops (enter_templates m (entry3 act hd mm))) in *.
  assert (F1 : fresh x1) by (apply fresh_apply_sets; [exact Hs|]; apply fresh_enter; apply fresh_entry3).
  assert (G1 : gz_on x1 = act) by (unfold x1; rewrite gz_on_apply_sets, gz_on_enter; apply entry3_gz).
  change (templates_mw m (probe ops ret err) (entry3 act hd mm))
    with (mid false None mm false (templates_mw m (probe ops ret err)) (entry act hd)) in Hin.
  destruct (eff_errors c) eqn:Ee.
  - (* no errors directive *)
    destruct (eff_errors_none c Ee) as [Hg He].
    assert (Hact : act = false) by (unfold act; rewrite Hg; reflexivity).
    rewrite expected_matches, He.
    revert Hin G1. rewrite Hact. intros Hin G1.
    exact (outer_fallback_ret et (c_log c) hd _ ret err x1 Hin F1 G1 R1 Hv Hb).
  - destruct (errors_ret et (eff_path c path) EPlain _ _ x1 ret err Hin F1 ltac:(discriminate) R1 Hv Hb) as (y & e' & E & A).
    rewrite G1 in A.
    replace (expected_error_body et c path ret err) with (err_expected et (eff_path c path) EPlain ret err).
    + exact (outer_answered et (c_log c) act hd _ e' y ret _ E A).
    + rewrite expected_matches. unfold eff_errors in Ee.
      destruct (c_errors c); try discriminate; destruct (c_gzip c); try discriminate; reflexivity.
  - destruct (errors_ret et (eff_path c path) EDebug _ _ x1 ret err Hin F1 ltac:(discriminate) R1 Hv Hb) as (y & e' & E & A).
    rewrite G1 in A.
    replace (expected_error_body et c path ret err) with (err_expected et (eff_path c path) EDebug ret err).
    + exact (outer_answered et (c_log c) act hd _ e' y ret _ E A).
    + rewrite expected_matches. unfold eff_errors in Ee.
      destruct (c_errors c); try discriminate; destruct (c_gzip c); try discriminate; reflexivity.
  - destruct (errors_ret et (eff_path c path) (EPages pages generic) _ _ x1 ret err Hin F1 ltac:(discriminate) R1 Hv Hb) as (y & e' & E & A).
    rewrite G1 in A.
    replace (expected_error_body et c path ret err) with (err_expected et (eff_path c path) (EPages pages generic) ret err).
    + exact (outer_answered et (c_log c) act hd _ e' y ret _ E A).
    + rewrite expected_matches. unfold eff_errors in Ee.
      destruct (c_errors c); try discriminate; destruct (c_gzip c); try discriminate; congruence.
Qed.

(* ---------- theorem: a panic before anything was written ---------- *)
Definition panic_body (et : Z -> bytes) (c : cfg) : bytes :=
  match eff_errors c with ENone => et 500 | m => panic_expected et m end.

Lemma panic_body_spec et c path :
  panic_body et c = match c_errors c with
                    | EDebug => PANIC_MARK
                    | _ => expected_error_body et c path 500 false
                    end.
Proof.
  unfold panic_body, eff_errors, expected_error_body, panic_expected, page_or_text.
  destruct (c_errors c); destruct (c_gzip c); reflexivity.
Qed.

Lemma panic_before_write_500 et c path ae ops pv rest ret err :
  forallb set_ok ops = true -> redir_hit c path = false -> status_rule c path = None -> internal_hit c path = false ->
  let x := serve et c path ae (ops ++ OPanic pv :: rest) ret err in
  cm x = Some 500 /\ sup x = 0%nat /\ view x = (false, panic_body et c).
Proof.
  intros Hs Hrd Hr Hit.
  rewrite serve_eq, Hrd, Hr, Hit.
  set (act := c_gzip c && ae). set (hd := c_header c). set (m := tmode_of c path). set (mm := mime_ct c path).
  pose proof (inner_pan m ops pv rest ret err (entry3 act hd mm) Hs) as Hin.
  set (x1 := apply_sets ops (enter_templates m (entry3 act hd mm))) in *.
  assert (F1 : fresh x1) by (apply fresh_apply_sets; [exact Hs|]; apply fresh_enter; apply fresh_entry3).
  assert (G1 : gz_on x1 = act) by (unfold x1; rewrite gz_on_apply_sets, gz_on_enter; apply entry3_gz).
  change (templates_mw m (probe (ops ++ OPanic pv :: rest) ret err) (entry3 act hd mm))
    with (mid false None mm false (templates_mw m (probe (ops ++ OPanic pv :: rest) ret err)) (entry act hd)) in Hin.
  unfold panic_body.
  destruct (eff_errors c) eqn:Ee.
  - destruct (eff_errors_none c Ee) as [Hg He].
    assert (Hact : act = false) by (unfold act; rewrite Hg; reflexivity).
    revert Hin G1. rewrite Hact. intros Hin G1.
    exact (outer_fallback_pan et (c_log c) hd _ x1 Hin F1 G1).
  - destruct (errors_pan et (eff_path c path) EPlain _ _ x1 Hin F1 ltac:(discriminate)) as (y & E & A).
    rewrite G1 in A. exact (outer_answered et (c_log c) act hd _ false y 500 _ E A).
  - destruct (errors_pan et (eff_path c path) EDebug _ _ x1 Hin F1 ltac:(discriminate)) as (y & E & A).
    rewrite G1 in A. exact (outer_answered et (c_log c) act hd _ false y 500 _ E A).
  - destruct (errors_pan et (eff_path c path) (EPages pages generic) _ _ x1 Hin F1 ltac:(discriminate)) as (y & E & A).
    rewrite G1 in A. exact (outer_answered et (c_log c) act hd _ false y 500 _ E A).
Qed.

(* ---------- the status directive answering instead of the inner handlers ---------- *)
Lemma status_rule_error et c path ae ops ret err s :
  redir_hit c path = false -> status_rule c path = Some s -> 400 <= s <= 999 ->
  let x := serve et c path ae ops ret err in
  cm x = Some s /\ sup x = 0%nat /\ view x = (false, expected_error_body et c path s false).
Proof.
  intros Hrd Hr Hret.
  assert (R1 : (400 <=? s) = true) by lia.
  assert (R5 : (s <? 400) = false) by lia.
  assert (Hv : valid_code s = true) by (unfold valid_code; lia).
  assert (Hb : bodyless s = false) by (unfold bodyless; lia).
  rewrite serve_eq, Hrd, Hr.
  set (act := c_gzip c && ae). set (hd := c_header c).
  set (inner := mid false (Some s) (mime_ct c path) (internal_hit c path) (templates_mw (tmode_of c path) (probe ops ret err))).
  assert (Hin : inner (entry act hd) = HRet s false (entry act hd)) by (unfold inner, mid, redir_mw, status_mw; rewrite R5; reflexivity).
  pose proof (fresh_entry act hd) as F1. pose proof (entry_gz act hd) as G1.
  destruct (eff_errors c) eqn:Ee.
  - destruct (eff_errors_none c Ee) as [Hg He].
    assert (Hact : act = false) by (unfold act; rewrite Hg; reflexivity).
    rewrite expected_matches, He.
    revert Hin G1 F1. rewrite Hact. intros Hin G1 F1.
    exact (outer_fallback_ret et (c_log c) hd _ s false _ Hin F1 G1 R1 Hv Hb).
  - destruct (errors_ret et (eff_path c path) EPlain _ _ _ s false Hin F1 ltac:(discriminate) R1 Hv Hb) as (y & e' & E & A).
    rewrite G1 in A.
    replace (expected_error_body et c path s false) with (err_expected et (eff_path c path) EPlain s false).
    + exact (outer_answered et (c_log c) act hd _ e' y s _ E A).
    + rewrite expected_matches. unfold eff_errors in Ee.
      destruct (c_errors c); try discriminate; destruct (c_gzip c); try discriminate; reflexivity.
  - destruct (errors_ret et (eff_path c path) EDebug _ _ _ s false Hin F1 ltac:(discriminate) R1 Hv Hb) as (y & e' & E & A).
    rewrite G1 in A.
    replace (expected_error_body et c path s false) with (err_expected et (eff_path c path) EDebug s false).
    + exact (outer_answered et (c_log c) act hd _ e' y s _ E A).
    + rewrite expected_matches. unfold eff_errors in Ee.
      destruct (c_errors c); try discriminate; destruct (c_gzip c); try discriminate; reflexivity.
  - destruct (errors_ret et (eff_path c path) (EPages pages generic) _ _ _ s false Hin F1 ltac:(discriminate) R1 Hv Hb) as (y & e' & E & A).
    rewrite G1 in A.
    replace (expected_error_body et c path s false) with (err_expected et (eff_path c path) (EPages pages generic) s false).
    + exact (outer_answered et (c_log c) act hd _ e' y s _ E A).
    + rewrite expected_matches. unfold eff_errors in Ee.
      destruct (c_errors c); try discriminate; destruct (c_gzip c); try discriminate; congruence.
Qed.

(* ---------- a handler that writes: WriteHeader s, then any number of Writes ---------- *)
(* invariant of the stack after the header went through header/gzip to the connection and the
   chunks [acc] were written (templates absent or streaming) *)
Definition Inv3n (n : nat) (c : Z) (acc : list bytes) (y : st) : Prop :=
  cm y = Some c /\ sup y = n /\ (h_on y = true -> h_wrote y = true) /\
  (b_active y = false \/ (b_wrote y = true /\ b_stream y = true)) /\
  if gz_on y then
    gz_fw y = true /\ gz_comp y = true /\ gz_wrote y = true /\ gz_created y = true /\
    hget (csnap y) K_CE = Some V_GZIP /\ gz_pend y = concat acc /\
    ((gz_hdr_out y = false /\ body y = [] /\ acc = []) \/ (gz_hdr_out y = true /\ body y = [GzHead]))
  else hget (csnap y) K_CE = None /\ body y = map Raw (rev acc).

Notation Inv3 := (Inv3n 0%nat).

Lemma raws_map_raw l : raws (filter nonempty_seg (map Raw l)) = Some (concat l).
Proof.
  induction l as [|b l IH]; [reflexivity|].
  cbn [map concat]. destruct b as [|b0 b].
  - cbn. exact IH.
  - cbn [filter nonempty_seg raws]. rewrite IH. reflexivity.
Qed.

Lemma inv3_answered n c acc y : bodyless c = false -> Inv3n n c acc y -> answeredn n c (concat acc) (gz_on y) y.
Proof.
  intros Hb (I1 & I2 & I3 & I4 & I5). unfold answeredn. split; [reflexivity|].
  destruct (gz_on y) eqn:G.
  - destruct I5 as (G1 & G2 & G3 & G4 & G5 & G6 & G7).
    unfold final, g_close. rewrite G, G4. cbn [andb].
    destruct y as [cm0 ch cs bd sp gon gfw gcomp gwr gcr gho gp hon hwr bm bw bs0 bst bh bb]. cbn in *. subst.
    destruct G7 as [(H1 & H2 & H3) | (H1 & H2)]; subst; cbn;
      unfold c_wr, bnd, finish, set_gz, set_conn; cbn; rewrite ?Hb; cbn; rewrite ?Hb; cbn;
      (split; [reflexivity|]); (split; [reflexivity|]); apply view_gz1; cbn; auto.
  - destruct I5 as (G5 & G6). rewrite (final_off y G). unfold finish. rewrite I1.
    repeat split; try assumption.
    unfold view. rewrite G5, G6. rewrite <- map_rev, rev_involutive. rewrite raws_map_raw. reflexivity.
Qed.

Lemma inv3_commit x h' c :
  fresh x -> hget h' K_CE = None -> valid_code c = true ->
  (b_active x = false \/ (b_wrote x = true /\ b_stream x = true)) ->
  exists y, h_wh c (set_chdr x h') = Done y /\ Inv3 c [] y /\ gz_on y = gz_on x /\ b_mode y = b_mode x.
Proof.
  intros (F1 & F2 & F3 & F4 & F5 & F6 & F7 & F8 & F9 & F10) Hce Hv HB.
  destruct x as [cm0 ch cs bd sp gon gfw gcomp gwr gcr gho gp hon hwr bm bw bs0 bst bh bb].
  unfold b_active in HB. nproj. subst.
  assert (E1 : hget (hdel h' K_XDEL) K_CE = None) by (rewrite hget_hdel, ce_xdel; exact Hce).
  destruct gon, hon; nlay E1 Hce Hv Hv; nlay E1 Hce Hv Hv;
    (eexists; split; [reflexivity|]); (split; [|split; reflexivity]); unfold Inv3n, b_active; norm;
    (split; [reflexivity|]); (split; [reflexivity|]); (split; [auto|]); (split; [exact HB|]).
  - repeat split; try reflexivity; try (hsimp; reflexivity); left; auto.
  - repeat split; try reflexivity; try (hsimp; reflexivity); left; auto.
  - split; [exact E1 | reflexivity].
  - split; [exact Hce | reflexivity].
Qed.

Lemma inv3_write n c acc y b :
  bodyless c = false -> Inv3n n c acc y ->
  exists y', b_wr b y = Done y' /\ Inv3n n c (acc ++ [b]) y' /\ gz_on y' = gz_on y /\ b_mode y' = b_mode y.
Proof.
  intros Hb (I1 & I2 & I3 & I4 & I5).
  assert (Hbw : b_wr b y = h_wr b y).
  { unfold b_wr. destruct I4 as [I4 | [I4 I4']]; rewrite I4; [reflexivity|]. cbv beta iota delta [bnd]. rewrite I4'.
    destruct (b_active y); reflexivity. }
  rewrite Hbw. clear Hbw.
  destruct y as [cm0 ch cs bd sp gon gfw gcomp gwr gcr gho gp hon hwr bm bw bs0 bst bh bb].
  unfold b_active in I4. nproj. subst.
  destruct gon.
  - destruct I5 as (G1 & G2 & G3 & G4 & G5 & G6 & G7). subst.
    destruct G7 as [(H1 & H2 & H3) | (H1 & H2)]; subst;
    destruct hon; [rewrite (I3 eq_refl) | | rewrite (I3 eq_refl) | ];
      nlay Hb Hb Hb Hb; nlay Hb Hb Hb Hb;
      (eexists; split; [reflexivity|]); (split; [|split; reflexivity]); unfold Inv3n, b_active; norm;
      (split; [reflexivity|]); (split; [reflexivity|]); (split; [auto|]); (split; [exact I4|]);
      repeat split; auto; try (rewrite concat_app; cbn [concat]; rewrite app_nil_r; reflexivity).
  - destruct I5 as (G5 & G6). subst.
    destruct hon; [rewrite (I3 eq_refl) | ];
      nlay Hb Hb Hb Hb; nlay Hb Hb Hb Hb;
      (eexists; split; [reflexivity|]); (split; [|split; reflexivity]); unfold Inv3n, b_active; norm;
      (split; [reflexivity|]); (split; [reflexivity|]); (split; [auto|]); (split; [exact I4|]);
      (split; [exact G5|]); rewrite rev_app_distr; reflexivity.
Qed.

Lemma inv3_writes n c bs : bodyless c = false -> forall acc y, Inv3n n c acc y ->
  exists y', run_script (map OWr bs) y = Done y' /\ Inv3n n c (acc ++ bs) y' /\ gz_on y' = gz_on y /\ b_mode y' = b_mode y.
Proof.
  intro Hb. induction bs as [|b bs IH]; intros acc y I.
  - exists y. rewrite app_nil_r. auto.
  - destruct (inv3_write n c acc y b Hb I) as (y1 & E1 & I1 & G1 & M1).
    destruct (IH (acc ++ [b]) y1 I1) as (y2 & E2 & I2 & G2 & M2).
    exists y2. cbn [map run_script step]. rewrite E1. cbn [bnd]. rewrite E2.
    rewrite <- app_assoc in I2. cbn in I2. split; [reflexivity|]. split; [exact I2|]. split; congruence.
Qed.

(* a Flush after the header went out changes nothing: the compressor is not flushed *)
Lemma inv3_fl n c acc y : Inv3n n c acc y -> step OFl y = Done y.
Proof.
  intros (I1 & I2 & I3 & I4 & I5). cbn [step].
  assert (Hg : g_fl y = Done y).
  { unfold g_fl, c_fl. destruct (gz_on y).
    - destruct I5 as (G1 & _). rewrite G1. cbn [bnd]. rewrite I1. reflexivity.
    - rewrite I1. reflexivity. }
  assert (Hh : h_fl y = Done y).
  { unfold h_fl. destruct (h_on y); [|exact Hg]. rewrite (I3 eq_refl). cbn [bnd]. exact Hg. }
  unfold b_fl.
  destruct I4 as [I4 | [I4 I4']]; [rewrite I4; exact Hh|].
  rewrite I4. cbn [bnd]. rewrite I4'. destruct (b_active y); exact Hh.
Qed.

Lemma inv3_wops n c ws : bodyless c = false -> forall acc y, Inv3n n c acc y ->
  exists y' acc', run_script (map wop_op ws) y = Done y' /\ Inv3n n c acc' y' /\
                  concat acc' = concat acc ++ wbody ws /\ gz_on y' = gz_on y /\ b_mode y' = b_mode y.
Proof.
  intro Hb. induction ws as [|w ws IH]; intros acc y I.
  - exists y, acc. unfold wbody. cbn [map concat]. rewrite app_nil_r. auto.
  - destruct w as [b|].
    + destruct (inv3_write n c acc y b Hb I) as (y1 & E1 & I1 & G1 & M1).
      destruct (IH (acc ++ [b]) y1 I1) as (y2 & acc2 & E2 & I2 & C2 & G2 & M2).
      exists y2, acc2. cbn [map wop_op run_script step]. rewrite E1. cbn [bnd]. rewrite E2.
      split; [reflexivity|]. split; [exact I2|]. split; [|split; congruence].
      rewrite C2. rewrite concat_app. unfold wbody. cbn [map wop_bytes concat]. rewrite app_nil_r, <- app_assoc. reflexivity.
    + destruct (IH acc y I) as (y2 & acc2 & E2 & I2 & C2 & G2 & M2).
      exists y2, acc2. cbn [map wop_op run_script]. rewrite (inv3_fl n c acc y I). cbn [bnd]. rewrite E2.
      split; [reflexivity|]. split; [exact I2|]. split; [|split; assumption].
      rewrite C2. unfold wbody. cbn [map wop_bytes concat app]. reflexivity.
Qed.

Lemma errors_pass et ep m inner x r e y :
  inner x = HRet r e y -> (400 <=? r) = false ->
  errors_mw et ep m inner x = HRet r e y.
Proof.
  intros Hi Hr. unfold errors_mw. rewrite Hi.
  destruct m as [| | |pages generic]; try reflexivity; rewrite Hr, ?andb_false_r; reflexivity.
Qed.

Lemma apply_sets_templates sets m X :
  m <> TOff ->
  apply_sets sets (set_b X m false false 200 [] []) = set_b X m false false 200 (hs_fun sets []) [].
Proof. intro H. unfold apply_sets. destruct m; try congruence; destruct X; reflexivity. Qed.
Lemma apply_sets_off sets X : b_mode X = TOff -> apply_sets sets X = set_chdr X (hs_fun sets (chdr X)).
Proof. intro H. unfold apply_sets, b_active. rewrite H. reflexivity. Qed.
Lemma fresh_set_b x m w s st h b : fresh x -> fresh (set_b x m w s st h b).
Proof. intro F. destruct x; exact F. Qed.
Lemma set_chdr_id x : set_chdr x (chdr x) = x.
Proof. destruct x; reflexivity. Qed.

(* WriteHeader s + Writes, templates absent or deciding not to buffer: the response goes out
   as written *)
Lemma written_streamed et c path ae sets s ws ret err :
  forallb set_ok sets = true -> redir_hit c path = false -> status_rule c path = None -> internal_hit c path = false ->
  valid_code s = true -> bodyless s = false -> ret < 400 ->
  should_buffer (tmode_of c path) (hs_fun sets []) = false ->
  let x := serve et c path ae (sets ++ OWh s :: map wop_op ws) ret err in
  cm x = Some s /\ sup x = 0%nat /\ view x = (false, wbody ws).
Proof.
  intros Hs Hrd Hr Hit Hv Hb Hret Hsb.
  assert (R1 : (400 <=? ret) = false) by lia.
  rewrite serve_eq, Hrd, Hr, Hit.
  set (act := c_gzip c && ae). set (hd := c_header c). set (m := tmode_of c path) in *. set (mm := mime_ct c path).
  destruct (entry3_b act hd mm) as [Bm Bs].
  pose proof (fresh_entry3 act hd mm) as F0. pose proof (entry3_gz act hd mm) as G0.
  (* the script up to and including the writes *)
  assert (Hscript : exists y, templates_mw m (probe (sets ++ OWh s :: map wop_op ws) ret err) (entry3 act hd mm) = HRet ret err y
                              /\ answered s (wbody ws) act y).
  { unfold templates_mw, templates_mw_p, templates_on_p, buf_reset, probe. destruct m eqn:Em.
    - (* no templates *)
      rewrite (run_sets _ _ _ Hs). rewrite (apply_sets_off _ _ Bm).
      cbn [run_script step]. unfold b_wh.
      assert (Ba : b_active (set_chdr (entry3 act hd mm) (hs_fun sets (chdr (entry3 act hd mm)))) = false).
      { unfold b_active. destruct act, hd, mm; reflexivity. }
      rewrite Ba.
      destruct (inv3_commit (entry3 act hd mm) (hs_fun sets (chdr (entry3 act hd mm))) s F0) as (y0 & E0 & I0 & Gy0 & My0); try assumption.
      { rewrite (hs_fun_ce _ _ Hs). destruct F0 as (_&_&_&_&_&_&_&_&_&F10). exact F10. }
      { left. unfold b_active. rewrite Bm. reflexivity. }
      rewrite E0. cbn [bnd].
      destruct (inv3_wops 0%nat s ws Hb [] y0 I0) as (y1 & acc1 & E1 & I1 & C1 & Gy1 & My1).
      rewrite E1. exists y1. split; [reflexivity|].
      pose proof (inv3_answered 0%nat s acc1 y1 Hb I1) as A. rewrite C1 in A. cbn [concat app] in A.
      replace act with (gz_on y1) by congruence. exact A.
    - (* TExt always buffers *) discriminate Hsb.
    - (* by content type, not html *)
      rewrite (run_sets _ _ _ Hs). rewrite apply_sets_templates by discriminate.
      cbn [run_script step]. unfold b_wh. cbn [b_active b_mode set_b b_wrote b_hdr].
      cbn [should_buffer] in Hsb |- *. rewrite Hsb. cbn [negb].
      match goal with |- context [h_wh s (set_chdr ?X ?H)] =>
        assert (FX : fresh X) by (apply fresh_set_b; apply fresh_set_b; exact F0);
        assert (HX : hget H K_CE = None)
          by (rewrite hget_hcopy_none; [destruct act, hd, mm; reflexivity | rewrite (hs_fun_ce _ _ Hs); reflexivity]);
        assert (BX : b_active X = false \/ (b_wrote X = true /\ b_stream X = true)) by (right; split; reflexivity);
        destruct (inv3_commit X H s FX HX Hv BX) as (y0 & E0 & I0 & Gy0 & My0) end.
      rewrite E0. cbn [bnd].
      destruct (inv3_wops 0%nat s ws Hb [] y0 I0) as (y1 & acc1 & E1 & I1 & C1 & Gy1 & My1).
      rewrite E1.
      assert (St : b_stream y1 = true).
      { destruct I1 as (_ & _ & _ & [Q|[_ Q]] & _); [|exact Q].
        unfold b_active in Q. rewrite My1, My0 in Q. discriminate Q. }
      rewrite St. cbn [orb]. rewrite (b_write_buffered_stream _ St).
      exists y1. split; [destruct (ret <? 400); reflexivity|].
      pose proof (inv3_answered 0%nat s acc1 y1 Hb I1) as A. rewrite C1 in A. cbn [concat app] in A.
      replace act with (gz_on y1); [exact A|]. rewrite Gy1, Gy0. destruct act, hd, mm; reflexivity.
    - (* extension does not match *)
      rewrite (run_sets _ _ _ Hs). rewrite apply_sets_templates by discriminate.
      cbn [run_script step]. unfold b_wh. cbn [b_active b_mode set_b b_wrote b_hdr should_buffer negb].
      match goal with |- context [h_wh s (set_chdr ?X ?H)] =>
        assert (FX : fresh X) by (apply fresh_set_b; apply fresh_set_b; exact F0);
        assert (HX : hget H K_CE = None)
          by (rewrite hget_hcopy_none; [destruct act, hd, mm; reflexivity | rewrite (hs_fun_ce _ _ Hs); reflexivity]);
        assert (BX : b_active X = false \/ (b_wrote X = true /\ b_stream X = true)) by (right; split; reflexivity);
        destruct (inv3_commit X H s FX HX Hv BX) as (y0 & E0 & I0 & Gy0 & My0) end.
      rewrite E0. cbn [bnd].
      destruct (inv3_wops 0%nat s ws Hb [] y0 I0) as (y1 & acc1 & E1 & I1 & C1 & Gy1 & My1).
      rewrite E1.
      assert (St : b_stream y1 = true).
      { destruct I1 as (_ & _ & _ & [Q|[_ Q]] & _); [|exact Q].
        unfold b_active in Q. rewrite My1, My0 in Q. discriminate Q. }
      rewrite St. cbn [orb]. rewrite (b_write_buffered_stream _ St).
      exists y1. split; [destruct (ret <? 400); reflexivity|].
      pose proof (inv3_answered 0%nat s acc1 y1 Hb I1) as A. rewrite C1 in A. cbn [concat app] in A.
      replace act with (gz_on y1); [exact A|]. rewrite Gy1, Gy0. destruct act, hd, mm; reflexivity. }
  destruct Hscript as (y & Hy & A).
  pose proof (errors_pass et (eff_path c path) (eff_errors c)
                (mid false None mm false (templates_mw m (probe (sets ++ OWh s :: map wop_op ws) ret err))) (entry act hd) ret err y Hy R1) as He.
  exact (outer_passes et (c_log c) act hd _ ret err y s _ He R1 A).
Qed.

(* templates buffers the response and renders it afterwards *)
Lemma buffered_wops ws : forall y,
  b_active y = true -> b_wrote y = true -> b_stream y = false ->
  run_script (map wop_op ws) y =
  Done (set_b y (b_mode y) true false (b_status y) (b_hdr y) (b_buf y ++ wbody ws)).
Proof.
  induction ws as [|w ws IH]; intros y Ha Hw Hst.
  - unfold wbody. cbn [map run_script concat]. rewrite app_nil_r. destruct y. nproj. subst. reflexivity.
  - destruct w as [b|].
    + cbn [map wop_op run_script step]. unfold b_wr. rewrite Ha, Hw. cbv beta iota delta [bnd]. rewrite Hst.
      cbv beta iota delta [bnd]. rewrite IH.
      * destruct y. nproj. subst. norm. unfold wbody. cbn [map wop_bytes concat]. rewrite <- app_assoc. reflexivity.
      * destruct y. first [reflexivity | exact Ha].
      * destruct y. first [reflexivity | exact Hw].
      * destruct y. first [reflexivity | exact Hst].
    + cbn [map wop_op run_script step]. unfold b_fl. rewrite Ha, Hw. cbn [bnd]. rewrite Hst. cbn [bnd].
      rewrite (IH y Ha Hw Hst). unfold wbody. cbn [map wop_bytes concat app]. reflexivity.
Qed.

(* header + body written through the header/gzip wrappers of a fresh stack *)
Lemma buffered_out Y h s body :
  fresh Y -> hget h K_CE = None -> valid_code s = true -> bodyless s = false ->
  exists z, bnd (h_wh s (set_chdr Y h)) (fun z => match body with [] => Done z | _ => h_wr body z end) = Done z /\
            answered s body (gz_on Y) z.
Proof.
  intros FY H3 Hv Hb. destruct body as [|b0 rest].
  - destruct (write3_empty Y h s FY H3 Hv Hb) as (z & Ez & Az).
    unfold bnd. rewrite Ez. exists z. split; [reflexivity|exact Az].
  - destruct (write3 Y h s (b0 :: rest) FY H3 Hv Hb) as (z & Ez & Az).
    unfold bnd in Ez |- *. exists z. split; [exact Ez|exact Az].
Qed.

Lemma templates_mw_on m inner x : m <> TOff -> templates_mw m inner x = templates_on m inner x.
Proof. intro H. destruct m; [congruence| | |]; reflexivity. Qed.

(* the script as seen by a buffering ResponseBuffer *)
Lemma probe_buffered m sets s ws ret err X :
  m <> TOff -> forallb set_ok sets = true -> should_buffer m (hs_fun sets []) = true ->
  probe (sets ++ OWh s :: map wop_op ws) ret err (set_b X m false false 200 [] []) =
  HRet ret err (set_b X m true false s (hs_fun sets []) (wbody ws)).
Proof.
  intros Hm Hs Hsb. unfold probe.
  rewrite (run_sets _ _ _ Hs). rewrite (apply_sets_templates _ _ _ Hm).
  cbn [run_script step]. unfold b_wh.
  assert (Ba : b_active (set_b X m false false 200 (hs_fun sets []) []) = true)
    by (unfold b_active; destruct m; try congruence; destruct X; reflexivity).
  rewrite Ba. cbn [b_wrote set_b b_mode b_hdr]. rewrite Hsb. cbn [negb bnd].
  rewrite buffered_wops; [| unfold b_active; destruct m; try congruence; destruct X; reflexivity
                            | destruct X; reflexivity | destruct X; reflexivity].
  destruct X; reflexivity.
Qed.

Lemma written_buffered et c path ae sets s ws ret err :
  forallb set_ok sets = true -> redir_hit c path = false -> status_rule c path = None -> internal_hit c path = false ->
  valid_code s = true -> bodyless s = false -> ret < 400 ->
  should_buffer (tmode_of c path) (hs_fun sets []) = true ->
  (ret < 300 -> err = false -> contains (wbody ws) TPL_OPEN = false) ->
  let x := serve et c path ae (sets ++ OWh s :: map wop_op ws) ret err in
  cm x = Some s /\ sup x = 0%nat /\ view x = (false, wbody ws).
Proof.
  intros Hs Hrd Hr Hit Hv Hb Hret Hsb Htpl.
  assert (R4 : (400 <=? ret) = false) by lia.
  assert (R5 : (ret <? 400) = true) by lia.
  rewrite serve_eq, Hrd, Hr, Hit.
  set (act := c_gzip c && ae). set (hd := c_header c). set (m := tmode_of c path) in *. set (mm := mime_ct c path).
  pose proof (fresh_entry3 act hd mm) as F0. pose proof (entry3_gz act hd mm) as G0.
  assert (Hm : m <> TOff) by (intro Q; rewrite Q in Hsb; discriminate Hsb).
  assert (Hscript : exists r e y, templates_mw m (probe (sets ++ OWh s :: map wop_op ws) ret err) (entry3 act hd mm) = HRet r e y
                              /\ (400 <=? r) = false /\ answered s (wbody ws) act y).
  { rewrite (templates_mw_on _ _ _ Hm). unfold templates_on, templates_on_p, buf_reset.
    rewrite (probe_buffered m sets s ws ret err (entry3 act hd mm) Hm Hs Hsb).
    set (Y := set_b _ m true false s (hs_fun sets []) (wbody ws)).
    assert (FY : fresh Y) by (unfold Y; apply fresh_set_b; exact F0).
    assert (GY : gz_on Y = act) by (unfold Y; destruct act, hd, mm; reflexivity).
    assert (HC : hget (hcopy (hs_fun sets []) (chdr Y)) K_CE = None)
      by (rewrite hget_hcopy_none; [destruct act, hd, mm; reflexivity | rewrite (hs_fun_ce _ _ Hs); reflexivity]).
    replace (b_stream Y) with false by reflexivity.
    replace (b_buf Y) with (wbody ws) by reflexivity.
    replace (b_status Y) with s by reflexivity.
    replace (b_hdr Y) with (hs_fun sets []) by reflexivity.
    cbn [orb]. rewrite R5.
    destruct ((300 <=? ret) || err) eqn:R3.
    - (* a 3xx status or an error was returned: the buffered response is passed on *)
      unfold b_write_buffered.
      replace (b_wrote Y) with true by reflexivity. replace (b_stream Y) with false by reflexivity.
      replace (b_buf Y) with (wbody ws) by reflexivity.
      replace (b_status Y) with s by reflexivity.
      replace (b_hdr Y) with (hs_fun sets []) by reflexivity.
      cbn [andb negb].
      destruct (buffered_out Y _ s (wbody ws) FY HC Hv Hb) as (z & Ez & Az).
      rewrite Ez. exists ret, err, z. rewrite GY in Az. auto.
    - (* the template is executed *)
      apply orb_false_iff in R3 as [R3 R6]. subst err.
      rewrite (Htpl ltac:(lia) eq_refl).
      set (h3 := match hget _ K_CT with Some _ => _ | None => _ end).
      assert (H3 : hget h3 K_CE = None).
      { unfold h3. match goal with |- context [match ?e with _ => _ end] => destruct e end; hsimp; exact HC. }
      destruct (buffered_out Y h3 s (wbody ws) FY H3 Hv Hb) as (z & Ez & Az).
      cbv zeta. fold h3. rewrite Ez. exists 0, false, z. rewrite GY in Az. auto. }
  destruct Hscript as (r & e & y & Hy & R & A).
  pose proof (errors_pass et (eff_path c path) (eff_errors c)
                (mid false None mm false (templates_mw m (probe (sets ++ OWh s :: map wop_op ws) ret err))) (entry act hd) r e y Hy R) as He.
  exact (outer_passes et (c_log c) act hd _ r e y s _ He R A).
Qed.

(* ---------- the full statement for written responses ---------- *)
Lemma written_response_unaltered et c path ae sets s ws ret err :
  forallb set_ok sets = true -> redir_hit c path = false -> status_rule c path = None -> internal_hit c path = false ->
  valid_code s = true -> bodyless s = false -> ret < 400 ->
  (should_buffer (tmode_of c path) (hs_fun sets []) = true -> ret < 300 -> err = false ->
   contains (wbody ws) TPL_OPEN = false) ->
  let x := serve et c path ae (sets ++ OWh s :: map wop_op ws) ret err in
  cm x = Some s /\ sup x = 0%nat /\ view x = (false, wbody ws).
Proof.
  intros Hs Hrd Hr Hit Hv Hb Hret Htpl.
  destruct (should_buffer (tmode_of c path) (hs_fun sets [])) eqn:A.
  - exact (written_buffered et c path ae sets s ws ret err Hs Hrd Hr Hit Hv Hb Hret A (Htpl eq_refl)).
  - exact (written_streamed et c path ae sets s ws ret err Hs Hrd Hr Hit Hv Hb Hret A).
Qed.

(* ---------- a handler that writes or flushes without calling WriteHeader ---------- *)
(* the fields of the outer wrappers are not touched by the inner writers *)
Definition same_hb (x y : st) : Prop :=
  h_on y = h_on x /\ h_wrote y = h_wrote x /\ b_mode y = b_mode x /\ b_wrote y = b_wrote x /\ b_stream y = b_stream x.
Definition same_b (x y : st) : Prop :=
  b_mode y = b_mode x /\ b_wrote y = b_wrote x /\ b_stream y = b_stream x.

Lemma c_wh_hb s x : same_hb x (out_st (c_wh s x)) /\ gz_on (out_st (c_wh s x)) = gz_on x /\ gz_fw (out_st (c_wh s x)) = gz_fw x.
Proof.
  unfold c_wh. destruct (cm x); [|destruct (valid_code s)]; destruct x; cbn; unfold same_hb; cbn; auto 10.
Qed.
Lemma gzh_wh_hb s x : same_hb x (out_st (gzh_wh s x)) /\ gz_on (out_st (gzh_wh s x)) = gz_on x /\ gz_fw (out_st (gzh_wh s x)) = gz_fw x.
Proof.
  unfold gzh_wh. 
  destruct (c_wh_hb s (set_chdr x (hset (hdel (chdr x) K_CL) K_CE V_GZIP))) as (A & B & C).
  destruct (c_wh s (set_chdr x (hset (hdel (chdr x) K_CL) K_CE V_GZIP))) as [y|y]; cbn [bnd out_st] in *;
  destruct x, y; unfold same_hb in *; cbn in *; auto 10.
Qed.
Lemma g_wh_hb s x : same_hb x (out_st (g_wh s x)).
Proof.
  unfold g_wh. destruct (gz_on x) eqn:G.
  - destruct (gz_fw x).
    + destruct (gz_comp x); [apply gzh_wh_hb | apply c_wh_hb].
    + match goal with |- context [bnd (if ?c then gzh_wh s ?x1 else c_wh s ?x1) ?f] =>
        set (X1 := x1);
        assert (A : same_hb x (out_st (if c then gzh_wh s X1 else c_wh s X1)))
          by (destruct c; [destruct (gzh_wh_hb s X1) as (A & _) | destruct (c_wh_hb s X1) as (A & _)];
              destruct x; exact A);
        destruct (if c then gzh_wh s X1 else c_wh s X1) as [y|y] end; cbn [bnd out_st] in *;
      destruct x, y; unfold same_hb in *; cbn in *; auto 10.
  - apply c_wh_hb.
Qed.
Lemma g_wh_fw s x : gz_on x = true -> forall y, g_wh s x = Done y -> gz_on y = true /\ gz_fw y = true.
Proof.
  intros G y. unfold g_wh. rewrite G. destruct (gz_fw x) eqn:Fw.
  - destruct (gz_comp x); intro E.
    + destruct (gzh_wh_hb s x) as (_ & B & C). rewrite E in B, C. cbn in B, C. split; congruence.
    + destruct (c_wh_hb s x) as (_ & B & C). rewrite E in B, C. cbn in B, C. split; congruence.
  - match goal with |- context [bnd (if ?c then gzh_wh s ?x1 else c_wh s ?x1) ?f] =>
        set (X1 := x1);
        assert (A : gz_on (out_st (if c then gzh_wh s X1 else c_wh s X1)) = true)
          by (destruct c; [destruct (gzh_wh_hb s X1) as (_ & A & _) | destruct (c_wh_hb s X1) as (_ & A & _)];
              rewrite A; destruct x; reflexivity);
        destruct (if c then gzh_wh s X1 else c_wh s X1) as [z|z] end; cbn [bnd out_st] in *; [|discriminate].
    intro E. injection E as <-. destruct z; cbn in *. auto.
Qed.

(* ---------- a first Write or Flush commits like WriteHeader(200), at every level ---------- *)
Lemma c_implicit x : cm x = None ->
  (forall g, c_wr g x = bnd (c_wh 200 x) (c_wr g)) /\ c_fl x = bnd (c_wh 200 x) c_fl.
Proof.
  intro H. unfold c_wr, c_fl, c_wh. rewrite H. rewrite valid_200. cbn [bnd]. split; reflexivity.
Qed.

Lemma bnd_ext (o : out) (f g : st -> out) : (forall y, o = Done y -> f y = g y) -> bnd o f = bnd o g.
Proof. intro H. destruct o as [y|y]; [exact (H y eq_refl) | reflexivity]. Qed.

Lemma g_implicit x : (gz_on x = true -> gz_fw x = false) -> (gz_on x = false -> cm x = None) ->
  (forall b, g_wr b x = bnd (g_wh 200 x) (g_wr b)) /\ g_fl x = bnd (g_wh 200 x) g_fl.
Proof.
  intros H1 H2. destruct (gz_on x) eqn:G.
  - specialize (H1 eq_refl). split; [intro b|].
    + unfold g_wr at 1. rewrite G, H1. apply bnd_ext. intros y E.
      destruct (g_wh_fw 200 x G y E) as [Gy Fy]. unfold g_wr. rewrite Gy, Fy. reflexivity.
    + unfold g_fl at 1. rewrite G, H1. apply bnd_ext. intros y E.
      destruct (g_wh_fw 200 x G y E) as [Gy Fy]. unfold g_fl. rewrite Gy, Fy. reflexivity.
  - specialize (H2 eq_refl). destruct (c_implicit x H2) as [A B].
    assert (Gw : g_wh 200 x = c_wh 200 x) by (unfold g_wh; rewrite G; reflexivity).
    assert (Gy : forall y, c_wh 200 x = Done y -> gz_on y = false).
    { intros y E. destruct (c_wh_hb 200 x) as (_ & P & _). rewrite E in P. cbn in P. congruence. }
    split; [intro b|].
    + unfold g_wr at 1. rewrite G, Gw, A. apply bnd_ext. intros y E. unfold g_wr. rewrite (Gy y E). reflexivity.
    + unfold g_fl at 1. rewrite G, Gw, B. apply bnd_ext. intros y E. unfold g_fl. rewrite (Gy y E). reflexivity.
Qed.

Lemma h_implicit x : (h_on x = true -> h_wrote x = false) ->
  (gz_on x = true -> gz_fw x = false) -> (gz_on x = false -> cm x = None) ->
  (forall b, h_wr b x = bnd (h_wh 200 x) (h_wr b)) /\ h_fl x = bnd (h_wh 200 x) h_fl.
Proof.
  intros H0 H1 H2. destruct (h_on x) eqn:Hon.
  - specialize (H0 eq_refl).
    assert (Hy : forall y, h_wh 200 x = Done y -> h_on y = true /\ h_wrote y = true).
    { intros y E. unfold h_wh in E. rewrite Hon, H0 in E.
      match type of E with g_wh 200 ?X = _ => destruct (g_wh_hb 200 X) as (P & Q & _) end.
      rewrite E in P, Q. cbn [out_st] in P, Q. destruct x; cbn in *. auto. }
    split; [intro b|].
    + unfold h_wr at 1. rewrite Hon, H0. apply bnd_ext. intros y E. destruct (Hy y E) as [P Q].
      unfold h_wr. rewrite P, Q. reflexivity.
    + unfold h_fl at 1. rewrite Hon, H0. apply bnd_ext. intros y E. destruct (Hy y E) as [P Q].
      unfold h_fl. rewrite P, Q. reflexivity.
  - destruct (g_implicit x H1 H2) as [A B].
    assert (Hw : h_wh 200 x = g_wh 200 x) by (unfold h_wh; rewrite Hon; reflexivity).
    assert (Hy : forall y, g_wh 200 x = Done y -> h_on y = false).
    { intros y E. destruct (g_wh_hb 200 x) as (P & _). rewrite E in P. cbn in P. congruence. }
    split; [intro b|].
    + unfold h_wr at 1. rewrite Hon, Hw, A. apply bnd_ext. intros y E. unfold h_wr. rewrite (Hy y E). reflexivity.
    + unfold h_fl at 1. rewrite Hon, Hw, B. apply bnd_ext. intros y E. unfold h_fl. rewrite (Hy y E). reflexivity.
Qed.

Lemma h_wh_b s x : same_b x (out_st (h_wh s x)).
Proof.
  unfold h_wh. destruct (h_on x).
  - destruct (h_wrote x); [unfold same_b; auto|].
    match goal with |- context [g_wh s ?X] => destruct (g_wh_hb s X) as (_ & _ & P & Q & R) end.
    destruct x; unfold same_b; cbn in *; auto.
  - destruct (g_wh_hb s x) as (_ & _ & P & Q & R). unfold same_b; auto.
Qed.

Lemma implicit_header w x :
  (b_active x = true -> b_wrote x = false) -> (h_on x = true -> h_wrote x = false) ->
  (gz_on x = true -> gz_fw x = false) -> (gz_on x = false -> cm x = None) ->
  step (wop_op w) x = bnd (b_wh 200 x) (step (wop_op w)).
Proof.
  intros Hb H0 H1 H2. destruct (b_active x) eqn:Ba.
  - specialize (Hb eq_refl).
    assert (Hy : forall y, b_wh 200 x = Done y -> b_active y = true /\ b_wrote y = true).
    { intros y E. unfold b_wh in E. rewrite Ba, Hb in E.
      match type of E with (if ?c then _ else _) = _ => destruct c end.
      - match type of E with h_wh 200 ?X = _ => destruct (h_wh_b 200 X) as (P & Q & _) end.
        rewrite E in P, Q. cbn [out_st] in P, Q. unfold b_active in *. destruct x; cbn in *. rewrite P. auto.
      - injection E as <-. unfold b_active in *. destruct x; cbn in *. auto. }
    destruct w as [b|]; cbn [wop_op step].
    + unfold b_wr at 1. rewrite Ba, Hb. apply bnd_ext. intros y E. destruct (Hy y E) as [P Q].
      cbn [step]. unfold b_wr. rewrite P.
      replace (if b_wrote y then Done y else b_wh 200 y) with (Done y) by (rewrite Q; reflexivity). reflexivity.
    + unfold b_fl at 1. rewrite Ba, Hb. apply bnd_ext. intros y E. destruct (Hy y E) as [P Q].
      cbn [step]. unfold b_fl. rewrite P.
      replace (if b_wrote y then Done y else b_wh 200 y) with (Done y) by (rewrite Q; reflexivity). reflexivity.
  - destruct (h_implicit x H0 H1 H2) as [A B].
    assert (Bw : b_wh 200 x = h_wh 200 x) by (unfold b_wh; rewrite Ba; reflexivity).
    assert (Hy : forall y, h_wh 200 x = Done y -> b_active y = false).
    { intros y E. destruct (h_wh_b 200 x) as (P & _). rewrite E in P. cbn in P. unfold b_active in *. rewrite P. exact Ba. }
    destruct w as [b|]; cbn [wop_op step].
    + unfold b_wr at 1. rewrite Ba, Bw, A. apply bnd_ext. intros y E. cbn [step]. unfold b_wr. rewrite (Hy y E). reflexivity.
    + unfold b_fl at 1. rewrite Ba, Bw, B. apply bnd_ext. intros y E. cbn [step]. unfold b_fl. rewrite (Hy y E). reflexivity.
Qed.

Lemma run_implicit w rest x :
  (b_active x = true -> b_wrote x = false) -> (h_on x = true -> h_wrote x = false) ->
  (gz_on x = true -> gz_fw x = false) -> (gz_on x = false -> cm x = None) ->
  run_script (wop_op w :: rest) x = run_script (OWh 200 :: wop_op w :: rest) x.
Proof.
  intros Hb H0 H1 H2. cbn [run_script]. rewrite (implicit_header w x Hb H0 H1 H2). cbn [step].
  destruct (b_wh 200 x); reflexivity.
Qed.

(* what the layers outside templates do only depends on what the inner handlers do on the
   writer stack they are handed *)
Lemma outer_ext et ep lg act hd em rd rule mm it (T1 T2 : st -> hres) :
  T1 (entry3 act hd mm) = T2 (entry3 act hd mm) ->
  server et (log_mw et lg (gzip_mw et act (header_mw hd (errors_mw et ep em (mid rd rule mm it T1))))) =
  server et (log_mw et lg (gzip_mw et act (header_mw hd (errors_mw et ep em (mid rd rule mm it T2))))).
Proof.
  intro H.
  assert (E : errors_mw et ep em (mid rd rule mm it T1) (entry act hd) = errors_mw et ep em (mid rd rule mm it T2) (entry act hd)).
  { unfold errors_mw, mid, redir_mw, status_mw, mime_mw, internal_mw.
    destruct rd; [reflexivity|]. destruct rule; [reflexivity|]. destruct it; [reflexivity|].
    unfold entry3 in H. rewrite H. reflexivity. }
  unfold server, log_mw, log_next, gzip_mw, gzip_mw_p, gw_reset, header_mw.
  destruct act, hd; unfold entry, enter_header, enter_gzip in E; rewrite E; reflexivity.
Qed.

(* a first Write or Flush, whatever follows it *)
Lemma serve_implicit_any et c path ae sets w rest ret err :
  forallb set_ok sets = true ->
  serve et c path ae (sets ++ wop_op w :: rest) ret err =
  serve et c path ae (sets ++ OWh 200 :: wop_op w :: rest) ret err.
Proof.
  intro Hs. rewrite !serve_eq. apply outer_ext.
  set (act := c_gzip c && ae). set (hd := c_header c). set (m := tmode_of c path). set (mm := mime_ct c path).
  pose proof (fresh_entry3 act hd mm) as F0.
  assert (F1 : fresh (apply_sets sets (enter_templates m (entry3 act hd mm))))
    by (apply fresh_apply_sets; [exact Hs|]; apply fresh_enter; exact F0).
  assert (W1 : b_wrote (apply_sets sets (enter_templates m (entry3 act hd mm))) = false)
    by (unfold apply_sets; destruct m, act, hd, mm; reflexivity).
  destruct F1 as (C1 & _ & _ & C4 & _ & _ & _ & _ & C9 & _).
  assert (R : run_script (sets ++ wop_op w :: rest) (enter_templates m (entry3 act hd mm)) =
              run_script (sets ++ OWh 200 :: wop_op w :: rest) (enter_templates m (entry3 act hd mm))).
  { rewrite !(run_sets _ _ _ Hs). apply run_implicit; intros _; assumption. }
  unfold templates_mw, templates_mw_p, templates_on_p, buf_reset, probe.
  destruct m; cbn [enter_templates] in R; rewrite R; reflexivity.
Qed.

Lemma serve_implicit_header et c path ae sets w ws ret err :
  forallb set_ok sets = true ->
  serve et c path ae (sets ++ map wop_op (w :: ws)) ret err =
  serve et c path ae (sets ++ OWh 200 :: map wop_op (w :: ws)) ret err.
Proof. intro Hs. cbn [map]. apply serve_implicit_any. exact Hs. Qed.

Lemma implicit_response_unaltered et c path ae sets w ws ret err :
  forallb set_ok sets = true -> redir_hit c path = false -> status_rule c path = None -> internal_hit c path = false -> ret < 400 ->
  (should_buffer (tmode_of c path) (hs_fun sets []) = true -> ret < 300 -> err = false ->
   contains (wbody (w :: ws)) TPL_OPEN = false) ->
  let x := serve et c path ae (sets ++ map wop_op (w :: ws)) ret err in
  cm x = Some 200 /\ sup x = 0%nat /\ view x = (false, wbody (w :: ws)).
Proof.
  intros Hs Hrd Hr Hit Hret Htpl. cbv zeta. rewrite (serve_implicit_header et c path ae sets w ws ret err Hs).
  exact (written_response_unaltered et c path ae sets 200 (w :: ws) ret err Hs Hrd Hr Hit eq_refl eq_refl Hret Htpl).
Qed.
