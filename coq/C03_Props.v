(* C03 — property theorems only. *)
Require Import V.Lib V.GoPath V.GoPathProofs V.C03_Model V.C03_Proofs.
Open Scope N_scope.

(* The matcher and the resolver normalise differently, yet: whenever the canonical name of the
   file the static resolver opens (http.Dir cleans "/" ++ path) lies in a scope, the spelling the
   protection matcher saw is matched by that scope too. Every rooted spelling (dot segments,
   repeated slashes, backslashes are ordinary bytes), both case modes. *)
Theorem C03_matcher_covers_resolver : forall cs p base,
  rooted p -> resolved p <> [SLASH] ->
  path_matches cs (resolved p) base = true -> path_matches cs p base = true.
Proof. exact matcher_covers_resolver. Qed.
Print Assumptions C03_matcher_covers_resolver.

(* The rootedness hypothesis is forced: an un-rooted path (a rewrite/tryfiles target written
   without a leading slash) is resolved inside the scope but not matched. *)
Theorem C03_matcher_covers_resolver_unrooted_refuted :
  exists cs p base, path_matches cs (resolved p) base = true /\ path_matches cs p base = false.
Proof. exact matcher_covers_resolver_unrooted_refuted. Qed.
Print Assumptions C03_matcher_covers_resolver_unrooted_refuted.

(* basicauth answers 401 exactly when the request is not OPTIONS, some rule protects the path
   (a resource matches, no exclusion matches) and no protecting rule's credentials are valid. *)
Theorem C03_basicauth_decide_spec : forall cs opt path rules,
  basicauth_decide cs opt path rules = Deny401 <->
  opt = false /\ existsb (protects cs path) rules = true /\
  existsb (fun ru => protects cs path ru && r_creds_ok ru) rules = false.
Proof. exact basicauth_decide_spec. Qed.
Print Assumptions C03_basicauth_decide_spec.

Theorem C03_basicauth_pass_with_credentials : forall cs opt path rules ru,
  In ru rules -> protects cs path ru = true -> r_creds_ok ru = true ->
  basicauth_decide cs opt path rules = Pass.
Proof. exact basicauth_pass_with_credentials. Qed.
Print Assumptions C03_basicauth_pass_with_credentials.

(* Composition for file content: without valid credentials, a request whose resolved file lies
   under a protected resource (and whose path is not excluded) is denied, whatever its spelling. *)
Theorem C03_no_disclosure_static : forall cs p rules ru res,
  rooted p -> resolved p <> [SLASH] ->
  (forall r0, In r0 rules -> r_creds_ok r0 = false) ->
  In ru rules -> In res (r_resources ru) ->
  path_matches cs (resolved p) res = true ->
  existsb (path_matches cs p) (r_exclude ru) = false ->
  basicauth_decide cs false p rules = Deny401.
Proof. exact no_disclosure_static. Qed.
Print Assumptions C03_no_disclosure_static.

Example C03_no_disclosure_static_nonvacuous :
  let p := bs "/pub/..//secret/./f.txt"%string in
  let ru := {| r_resources := [bs "/secret"%string]; r_exclude := [bs "/secret/pub"%string]; r_creds_ok := false |} in
  rooted p /\ resolved p = bs "/secret/f.txt"%string /\
  path_matches false (resolved p) (bs "/secret"%string) = true /\
  basicauth_decide false false p [ru] = Deny401.
Proof. cbv zeta. split; [eexists; reflexivity|]. vm_compute. auto. Qed.

Theorem C03_internal_blocks_covers_resolver : forall cs p paths prefix,
  rooted p -> resolved p <> [SLASH] -> In prefix paths ->
  path_matches cs (resolved p) prefix = true -> internal_blocks cs p paths = true.
Proof. exact internal_blocks_covers_resolver. Qed.
Print Assumptions C03_internal_blocks_covers_resolver.
