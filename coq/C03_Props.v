(* C03 — property theorems only. *)
Require Import V.Lib V.GoPath V.GoPathProofs V.Gen_C09 V.C03_Model V.C03_Proofs.
Require Import Coq.Sorting.Permutation.
Open Scope N_scope.

(* The matcher and the resolver normalise differently, yet: whenever the canonical name of the
   file the static resolver opens (http.Dir cleans "/" ++ path) lies in a scope, the spelling the
   protection matcher saw is matched by that scope too. Every rooted spelling (dot segments,
   repeated slashes, backslashes are ordinary bytes), both case modes. *)
Theorem C03_matcher_covers_resolver : forall cs p base,
  rooted p -> resolved p <> [SLASH] ->
  path_matches cs (resolved p) base = true -> path_matches cs p base = true.
Proof. exact matcher_covers_resolver. Qed.
Print Assumptions C03_matcher_covers_resolver.

(* The rootedness hypothesis is forced: an un-rooted path (a rewrite/tryfiles target written
   without a leading slash) is resolved inside the scope but not matched. *)
Theorem C03_matcher_covers_resolver_unrooted_refuted :
  exists cs p base, path_matches cs (resolved p) base = true /\ path_matches cs p base = false.
Proof. exact matcher_covers_resolver_unrooted_refuted. Qed.
Print Assumptions C03_matcher_covers_resolver_unrooted_refuted.

(* basicauth answers 401 exactly when the request is not OPTIONS, some rule protects the path
   (a resource matches, no exclusion matches) and no protecting rule's credentials are valid. *)
Theorem C03_basicauth_decide_spec : forall cs opt path rules,
  basicauth_decide cs opt path rules = Deny401 <->
  opt = false /\ existsb (protects cs path) rules = true /\
  existsb (fun ru => protects cs path ru && r_creds_ok ru) rules = false.
Proof. exact basicauth_decide_spec. Qed.
Print Assumptions C03_basicauth_decide_spec.

Theorem C03_basicauth_pass_with_credentials : forall cs opt path rules ru,
  In ru rules -> protects cs path ru = true -> r_creds_ok ru = true ->
  basicauth_decide cs opt path rules = Pass.
Proof. exact basicauth_pass_with_credentials. Qed.
Print Assumptions C03_basicauth_pass_with_credentials.

(* Composition for file content: without valid credentials, a request whose resolved file lies
   under a protected resource (and whose path is not excluded) is denied, whatever its spelling. *)
Theorem C03_no_disclosure_static : forall cs p rules ru res,
  rooted p -> resolved p <> [SLASH] ->
  (forall r0, In r0 rules -> r_creds_ok r0 = false) ->
  In ru rules -> In res (r_resources ru) ->
  path_matches cs (resolved p) res = true ->
  existsb (path_matches cs p) (r_exclude ru) = false ->
  basicauth_decide cs false p rules = Deny401.
Proof. exact no_disclosure_static. Qed.
Print Assumptions C03_no_disclosure_static.

Example C03_no_disclosure_static_nonvacuous :
  let p := bs "/pub/..//secret/./f.txt"%string in
  let ru := {| r_resources := [bs "/secret"%string]; r_exclude := [bs "/secret/pub"%string]; r_creds_ok := false |} in
  rooted p /\ resolved p = bs "/secret/f.txt"%string /\
  path_matches false (resolved p) (bs "/secret"%string) = true /\
  basicauth_decide false false p [ru] = Deny401.
Proof. cbv zeta. split; [eexists; reflexivity|]. vm_compute. auto. Qed.

Theorem C03_internal_blocks_covers_resolver : forall cs p paths prefix,
  rooted p -> resolved p <> [SLASH] -> In prefix paths ->
  path_matches cs (resolved p) prefix = true -> internal_blocks cs p paths = true.
Proof. exact internal_blocks_covers_resolver. Qed.
Print Assumptions C03_internal_blocks_covers_resolver.

(* ====================================================================================
   (2) several basicauth rules
   ==================================================================================== *)

(* the nested loops (resources, exclusions with `continue ruleLoop`, credentials) compute, for EVERY
   rule list: protected = some rule protects the path; authenticated = some rule that protects the
   path is satisfied by the presented credentials *)
Theorem C03_rules_fold_spec : forall cs path rules,
  fold_left (rule_step cs path) rules (false, false) =
  (existsb (protects cs path) rules, existsb (fun ru => protects cs path ru && r_creds_ok ru) rules).
Proof. exact rules_fold_spec. Qed.
Print Assumptions C03_rules_fold_spec.

(* ANY-rule semantics: a request is let through iff it is OPTIONS, or no rule protects its path
   (resource matches, none of that rule's exclusions does), or its credentials satisfy AT LEAST ONE
   of the rules that protect the path *)
Theorem C03_decide_pass_iff : forall cs opt path rules,
  basicauth_decide cs opt path rules = Pass <->
  opt = true \/ (forall ru, In ru rules -> protects cs path ru = false) \/
  (exists ru, In ru rules /\ protects cs path ru = true /\ r_creds_ok ru = true).
Proof. exact decide_pass_iff. Qed.
Print Assumptions C03_decide_pass_iff.

(* "let through only if EVERY protecting rule is satisfied" is not what the code does *)
Theorem C03_every_rule_refuted :
  exists cs path rules ru,
    In ru rules /\ protects cs path ru = true /\ r_creds_ok ru = false /\
    basicauth_decide cs false path rules = Pass.
Proof. exact every_rule_refuted. Qed.
Print Assumptions C03_every_rule_refuted.

Theorem C03_every_rule_partial : forall cs opt path rules,
  (forall ru, In ru rules -> protects cs path ru = true -> r_creds_ok ru = true) ->
  basicauth_decide cs opt path rules = Pass.
Proof. exact every_rule_partial. Qed.
Print Assumptions C03_every_rule_partial.

Example C03_every_rule_partial_nonvacuous :
  let ru := {| r_resources := [bs "/secret"%string]; r_exclude := []; r_creds_ok := true |} in
  protects false (bs "/secret/f"%string) ru = true /\
  (forall r0, In r0 [ru] -> protects false (bs "/secret/f"%string) r0 = true -> r_creds_ok r0 = true).
Proof. cbv zeta. split; [vm_compute; reflexivity|]. intros r0 [<-|[]] _. reflexivity. Qed.

(* a rule that does not protect the path is inert wherever it stands in the list; in particular a
   rule one of whose exclusions matches: its exclusion does not leak to the rules after (or before) it *)
Theorem C03_unprotecting_rule_inert : forall cs opt path l1 ru l2,
  protects cs path ru = false ->
  basicauth_decide cs opt path (l1 ++ ru :: l2) = basicauth_decide cs opt path (l1 ++ l2).
Proof. exact unprotecting_rule_inert. Qed.
Print Assumptions C03_unprotecting_rule_inert.

Theorem C03_excluded_rule_inert : forall cs opt path l1 ru l2,
  existsb (path_matches cs path) (r_exclude ru) = true ->
  basicauth_decide cs opt path (l1 ++ ru :: l2) = basicauth_decide cs opt path (l1 ++ l2).
Proof. exact excluded_rule_inert. Qed.
Print Assumptions C03_excluded_rule_inert.

Example C03_excluded_rule_inert_nonvacuous :
  let r1 := {| r_resources := [bs "/docs"%string]; r_exclude := [bs "/docs/public"%string]; r_creds_ok := false |} in
  let r2 := {| r_resources := [bs "/docs/public/drafts"%string]; r_exclude := []; r_creds_ok := false |} in
  let p := bs "/docs/public/drafts/plan.txt"%string in
  existsb (path_matches false p) (r_exclude r1) = true /\
  basicauth_decide false false p ([] ++ r1 :: [r2]) = Deny401.
Proof. vm_compute. auto. Qed.

Theorem C03_decide_permutation : forall cs opt path rules rules',
  Permutation rules rules' -> basicauth_decide cs opt path rules = basicauth_decide cs opt path rules'.
Proof. exact decide_permutation. Qed.
Print Assumptions C03_decide_permutation.

(* ====================================================================================
   (3) internal and X-Accel-Redirect
   ==================================================================================== *)

(* an internal location is answered 404 and the inner chain is not run — whatever request headers
   the client sent (q is arbitrary, its q_xaccel included) and whatever the response header map held *)
Theorem C03_internal_blocked_404 : forall cs ps inner q w,
  internal_blocks cs (q_path q) ps = true ->
  internal_serve cs ps inner q w = deny 404 w.
Proof. exact internal_blocked_404. Qed.
Print Assumptions C03_internal_blocked_404.

(* the client's X-Accel-Redirect REQUEST header is not an input of the middleware: if the inner
   handlers do not look at it, the outcome is the same with and without it *)
Theorem C03_internal_request_header_inert : forall cs ps inner q w x,
  (forall q w, inner (with_xaccel q x) w = inner q w) ->
  internal_serve cs ps inner (with_xaccel q x) w = internal_serve cs ps inner q w.
Proof. exact internal_request_header_inert. Qed.
Print Assumptions C03_internal_request_header_inert.

(* no inner handler sets the RESPONSE header: exactly one run of the inner chain with the request's
   own path, none for an internal location — for every client-supplied request header x *)
Theorem C03_internal_no_response_header : forall cs ps h q x,
  (forall q w, h q w = w) ->
  internal_serve cs ps (touch h) (with_xaccel q x) [] =
  if internal_blocks cs (q_path q) ps then deny 404 [] else touch h (with_xaccel q x) [].
Proof. exact internal_no_response_header. Qed.
Print Assumptions C03_internal_no_response_header.

(* every path the inner chain is run with is the request's own (not an internal location) or was
   named by an X-Accel-Redirect RESPONSE header value an inner handler left in the header map *)
Theorem C03_internal_touched_spec : forall cs ps h q w t,
  In t (o_touched (internal_serve cs ps (touch h) q w)) ->
  internal_blocks cs (q_path q) ps = false /\ (t = q_path q \/ named_by h t).
Proof. exact internal_touched_spec. Qed.
Print Assumptions C03_internal_touched_spec.

(* and a response header does unlock, deliberately: the named path is served without being tested
   against the internal locations *)
Theorem C03_internal_unlock_by_response_header : forall cs ps h q w t,
  internal_blocks cs (q_path q) ps = false -> t <> [] ->
  h q w = t -> h (set_path q t) [] = [] ->
  internal_serve cs ps (touch h) q w = {| o_status := 200; o_touched := [q_path q; t]; o_hdr := [] |}.
Proof. exact internal_unlock_by_response_header. Qed.
Print Assumptions C03_internal_unlock_by_response_header.

Example C03_internal_unlock_nonvacuous :
  let h := script_h [(bs "/api/x"%string, bs "/int/h.txt"%string)] in
  let q := {| q_path := bs "/api/x"%string; q_options := false; q_xaccel := [] |} in
  internal_blocks false (q_path q) [bs "/int"%string] = false /\
  internal_blocks false (bs "/int/h.txt"%string) [bs "/int"%string] = true /\
  h q [] = bs "/int/h.txt"%string /\ h (set_path q (bs "/int/h.txt"%string)) [] = [].
Proof. vm_compute. auto. Qed.

Theorem C03_internal_bounded : forall cs ps h q w,
  (length (o_touched (internal_serve cs ps (touch h) q w)) <= 11)%nat.
Proof. exact internal_bounded. Qed.
Print Assumptions C03_internal_bounded.

(* ====================================================================================
   (1) the chain
   ==================================================================================== *)

(* order facts computed by the kernel on the directive list regenerated from plugin.go: every
   path-writing directive (tryfiles, rewrite, ext) stands before basicauth, basicauth before
   internal, internal before every content handler; all of them are in the list *)
Theorem C03_chain_order_facts :
  sorted_from 0 (map role_of gen_directives) = true /\
  forallb (fun n => memb n gen_directives)
          (writer_names ++ [bs "basicauth"%string; bs "internal"%string] ++ content_names) = true.
Proof. exact (conj gen_order_facts gen_roles_present). Qed.
Print Assumptions C03_chain_order_facts.

(* For EVERY site (any subset of directives, any path function for tryfiles/rewrite/ext, any rules,
   any internal locations, any content handlers) compiled in the order of plugin.go: the request is
   answered as follows — the rewriters produce the final path; basicauth decides on THAT path;
   internal tests THAT path; the content handlers are first run with THAT path.  Nothing ordered
   between the protection directives and the content handlers rewrites the path (the only later
   change is internal's own X-Accel-Redirect loop, theorems above). *)
Theorem C03_auth_sees_final_path : forall (s : site) cs leaf q w,
  wf_site s ->
  run cs (stack s gen_directives) leaf q w = chain_nf cs (stack s gen_directives) leaf q w.
Proof. exact auth_sees_final_path. Qed.
Print Assumptions C03_auth_sees_final_path.

Example C03_auth_sees_final_path_nonvacuous :
  wf_site (site_of example_site) /\
  length (chain_of (site_of example_site)) = 6%nat /\
  run false (chain_of (site_of example_site)) (fun _ w => w) (noauth_q (bs "/alias"%string)) [] = deny 401 [] /\
  o_touched (run false (chain_of (site_of example_site)) (fun _ w => w) (noauth_q (bs "/pub/a.txt"%string)) [])
    = [bs "/pub/a.txt"%string].
Proof. split; [apply site_of_wf; vm_compute; reflexivity|]. vm_compute. auto. Qed.

(* the order is what carries it: with basicauth outside a rewriter the tested path is not the served one *)
Theorem C03_unordered_chain_refuted :
  exists cs stk leaf q w, run cs stk leaf q w <> chain_nf cs stk leaf q w /\ o_status (run cs stk leaf q w) = 200.
Proof. exact unordered_chain_refuted. Qed.
Print Assumptions C03_unordered_chain_refuted.

(* COVER: what the content handlers read for path p (reads: the file itself, a precompressed
   sibling, an index page, its sibling, the listing, any descendant in an archive, the path handed to
   a backend) lies in scope b  ==>  Path.Matches p b, provided b does not reach below the part of the
   name that p itself spells out. Every rooted spelling, both case modes. *)
Theorem C03_reads_covered : forall cs idx exts p k f b,
  rooted p -> reads idx exts p k f ->
  under cs f b = true -> scope_within p k b = true -> path_matches cs p b = true.
Proof. exact reads_covered. Qed.
Print Assumptions C03_reads_covered.

(* exclusions go the other way: one that matches the request contains everything read for it *)
Theorem C03_exclusion_covers_reads : forall cs idx exts p k f e,
  rooted p -> reads idx exts p k f ->
  path_matches cs p e = true -> matcher_form e <> [SLASH; SLASH] -> under cs f e = true.
Proof. exact exclusion_covers_reads. Qed.
Print Assumptions C03_exclusion_covers_reads.

(* NO DISCLOSURE THROUGH THE CHAIN.  Full statement:

     forall cs idx exts s leaf q w k f ru res,
       wf_site s -> protected_read cs idx exts (chain_of s) q k f ru res ->
       run cs (chain_of s) leaf q w = deny 401 w

   (protected_read: q rooted, rewriters keep paths rooted, not OPTIONS, no rule's credentials valid,
   the content handlers read f of kind k for the final path, f under resource res of rule ru and under
   none of ru's exclusions).  It is FALSE — the three _refuted theorems below are the recorded
   findings F-C03-1 (archive), F-C03-2 (index file scope) and its sibling-file variant F-C03-4 — and
   TRUE as soon as the scope does not reach below what the request path spells out (_partial),
   which is no restriction at all for files, listings and backends (_direct). *)
Theorem C03_no_disclosure_chain_partial : forall cs idx exts (s : site) leaf q w k f ru res,
  wf_site s ->
  protected_read cs idx exts (chain_of s) q k f ru res ->
  scope_within (final_path (chain_of s) (q_path q)) k res = true ->
  run cs (chain_of s) leaf q w = deny 401 w.
Proof. exact no_disclosure_chain_partial. Qed.
Print Assumptions C03_no_disclosure_chain_partial.

Theorem C03_no_disclosure_chain_direct : forall cs idx exts (s : site) leaf q w k f ru res,
  wf_site s -> (k = KFile \/ k = KListing \/ k = KBackend) ->
  protected_read cs idx exts (chain_of s) q k f ru res ->
  run cs (chain_of s) leaf q w = deny 401 w.
Proof. exact no_disclosure_chain_direct. Qed.
Print Assumptions C03_no_disclosure_chain_direct.

Example C03_no_disclosure_chain_nonvacuous :
  let s := site_of example_site in
  let ru := {| r_resources := [bs "/secret"%string]; r_exclude := [bs "/secret/pub"%string]; r_creds_ok := false |} in
  wf_site s /\
  protected_read false [bs "index.html"%string] [bs ".gz"%string] (chain_of s)
                 (noauth_q (bs "/alias"%string)) KSibling (bs "/secret/f.txt.gz"%string) ru (bs "/secret"%string) /\
  scope_within (final_path (chain_of s) (bs "/alias"%string)) KSibling (bs "/secret"%string) = true.
Proof.
  cbv zeta. split; [apply site_of_wf; vm_compute; reflexivity|]. split; [|vm_compute; reflexivity].
  assert (E : chain_of (site_of example_site) =
              map snd example_site) by (vm_compute; reflexivity).
  rewrite E. constructor.
  - eexists; reflexivity.
  - exact example_site_writers_rooted.
  - reflexivity.
  - intros r0 [<-|[]]. reflexivity.
  - apply (RdSibling _ _ (bs "/secret/f.txt"%string) (bs ".gz"%string)); [vm_compute; reflexivity|left; reflexivity].
  - left. reflexivity.
  - left. reflexivity.
  - vm_compute. reflexivity.
  - intros e [<-|[]]. split; [vm_compute; reflexivity|vm_compute; discriminate].
Qed.

Theorem C03_no_disclosure_chain_archive_refuted :
  exists cs idx exts s leaf q w f ru res,
    wf_site s /\ protected_read cs idx exts (chain_of s) q KArchive f ru res /\
    run cs (chain_of s) leaf q w = touch leaf q w.
Proof. exact no_disclosure_chain_archive_refuted. Qed.
Print Assumptions C03_no_disclosure_chain_archive_refuted.

Theorem C03_no_disclosure_chain_index_refuted :
  exists cs idx exts s leaf q w f ru res,
    wf_site s /\ protected_read cs idx exts (chain_of s) q KIndex f ru res /\
    run cs (chain_of s) leaf q w = touch leaf q w.
Proof. exact no_disclosure_chain_index_refuted. Qed.
Print Assumptions C03_no_disclosure_chain_index_refuted.

Theorem C03_no_disclosure_chain_sibling_refuted :
  exists cs idx exts s leaf q w f ru res,
    wf_site s /\ protected_read cs idx exts (chain_of s) q KSibling f ru res /\
    run cs (chain_of s) leaf q w = touch leaf q w.
Proof. exact no_disclosure_chain_sibling_refuted. Qed.
Print Assumptions C03_no_disclosure_chain_sibling_refuted.

(* nothing broader is excused: the side condition of _partial fails only for an index page, a
   precompressed sibling or an archive member, and only when the scope ends strictly inside the part
   of the name the request does not spell (the index file's name, the extension, the descendant) *)
Theorem C03_scope_within_fails_only_below : forall cs idx exts p k f b,
  reads idx exts p k f -> under cs f b = true -> scope_within p k b = false ->
  (k = KSibling \/ k = KIndex \/ k = KIndexSibling \/ k = KArchive) /\
  (length (vis p k) < length (matcher_form b) <= length f)%nat.
Proof. exact scope_within_fails_only_below. Qed.
Print Assumptions C03_scope_within_fails_only_below.

(* internal locations: nothing is run, the answer is 404 (or basicauth's 401 before it) *)
Theorem C03_no_disclosure_chain_internal_partial : forall cs idx exts (s : site) leaf q w k f pre,
  wf_site s ->
  internal_read cs idx exts (chain_of s) q k f pre ->
  scope_within (final_path (chain_of s) (q_path q)) k pre = true ->
  o_touched (run cs (chain_of s) leaf q w) = [] /\
  (o_status (run cs (chain_of s) leaf q w) = 401 \/ o_status (run cs (chain_of s) leaf q w) = 404).
Proof. exact no_disclosure_chain_internal_partial. Qed.
Print Assumptions C03_no_disclosure_chain_internal_partial.

Example C03_no_disclosure_chain_internal_nonvacuous :
  let s := site_of example_site in
  internal_read false [bs "index.html"%string] [] (map snd example_site)
                (noauth_q (bs "/x/../INT/"%string)) KIndex (bs "/INT/index.html"%string) (bs "/int"%string) /\
  chain_of s = map snd example_site /\
  run false (chain_of s) (fun _ w => w) (noauth_q (bs "/x/../INT/"%string)) [] = deny 404 [].
Proof.
  cbv zeta. split; [|vm_compute; auto]. constructor.
  - eexists; reflexivity.
  - exact example_site_writers_rooted.
  - apply (RdIndex _ _ (bs "/x/../INT/"%string) (bs "index.html"%string)); [vm_compute; reflexivity|left; reflexivity].
  - eexists. split; [vm_compute; reflexivity|left; reflexivity].
  - vm_compute. reflexivity.
Qed.

(* with valid credentials for a rule protecting the final path basicauth is transparent: the same
   request is served as if the directive were absent *)
Theorem C03_chain_with_credentials : forall cs (s : site) leaf q w ru,
  wf_site s -> In ru (auth_rules (chain_of s)) ->
  protects cs (final_path (chain_of s) (q_path q)) ru = true -> r_creds_ok ru = true ->
  run cs (chain_of s) leaf q w =
  serve_part cs (chain_of s) leaf (set_path q (final_path (chain_of s) (q_path q))) w.
Proof. exact chain_with_credentials. Qed.
Print Assumptions C03_chain_with_credentials.

(* `under` (the scope test on a canonical resource name used above) IS Path.Matches on such a name,
   and the file the static resolver opens has such a name *)
Theorem C03_under_is_path_matches : forall cs f b,
  clean f = f -> ends_with_slash f = false -> path_matches cs f b = under cs f b.
Proof. exact under_is_path_matches. Qed.
Print Assumptions C03_under_is_path_matches.

Theorem C03_resolved_canonical : forall p, rooted p -> resolved p <> [SLASH] ->
  clean (resolved p) = resolved p /\ ends_with_slash (resolved p) = false.
Proof. exact resolved_canonical. Qed.
Print Assumptions C03_resolved_canonical.

Example C03_resolved_canonical_nonvacuous :
  rooted (bs "/pub/..//secret/./f.txt"%string) /\ resolved (bs "/pub/..//secret/./f.txt"%string) <> [SLASH].
Proof. split; [eexists; reflexivity|vm_compute; discriminate]. Qed.

(* ====================================================================================
   HIDE: internal locations are not disclosed through an ancestor directory
   ==================================================================================== *)

(* The setups run in the order of plugin.go's directive list (regenerated each run): when browse
   copies the site's hide list, and when NewServer copies it for the static file server, the paths
   of `internal` are on it — for every initial hide list, every path list, browse configured or not. *)
Theorem C03_internal_paths_on_hide_lists : forall s ps,
  hs_internal s = Some ps ->
  incl ps (fs_hide s) /\ (forall h, browse_hide s = Some h -> incl ps h).
Proof. exact internal_paths_on_hide_lists. Qed.
Print Assumptions C03_internal_paths_on_hide_lists.

Example C03_internal_paths_on_hide_lists_nonvacuous :
  let s := {| hs_initial := [bs "/Casketfile"%string]; hs_internal := Some [bs "/int"%string]; hs_browse := true |} in
  hs_internal s = Some [bs "/int"%string] /\
  browse_hide s = Some [bs "/Casketfile"%string; bs "/int"%string] /\
  fs_hide s = [bs "/Casketfile"%string; bs "/int"%string].
Proof. vm_compute. auto. Qed.

(* it is the order that gives it: a browse set up before internal would copy a list without them *)
Theorem C03_hide_lists_any_order_refuted : exists dirs ps,
  ss_browse (run_setups dirs {| hs_initial := []; hs_internal := Some ps; hs_browse := true |}) = Some [] /\ ps <> [].
Proof. exact hide_order_matters. Qed.
Print Assumptions C03_hide_lists_any_order_refuted.

(* a listing never names a hidden entry, and names every other one *)
Theorem C03_listing_never_names_hidden : forall hide d kids f,
  In f (listing hide d kids) -> is_hidden hide f = false.
Proof. exact listing_not_hidden. Qed.
Print Assumptions C03_listing_never_names_hidden.

Theorem C03_listing_complete : forall hide d kids k,
  In k kids -> is_hidden hide (child_path d (node_name k)) = false ->
  In (child_path d (node_name k)) (listing hide d kids).
Proof. exact listing_complete. Qed.
Print Assumptions C03_listing_complete.

(* every member of an archive, for every tree and hide list: neither the member nor any directory
   between the archived directory and it is hidden *)
Theorem C03_archive_never_below_hidden : forall hide d kids e c,
  In (e, c) (archive hide d kids) ->
  In e c /\ (forall a, In a c -> is_hidden hide a = false).
Proof. exact archive_not_hidden. Qed.
Print Assumptions C03_archive_never_below_hidden.

(* hence, for every site, every directory tree, every directory listed or archived: an internal
   location is not among the listed names, and is neither a member of the archive nor a directory
   a member lies below *)
Theorem C03_internal_location_not_listed : forall s ps h d kids p,
  hs_internal s = Some ps -> browse_hide s = Some h -> In p ps ->
  ~ In (resolved p) (listing h d kids) /\
  (forall e c, In (e, c) (archive h d kids) -> ~ In (resolved p) c).
Proof. exact internal_location_not_listed. Qed.
Print Assumptions C03_internal_location_not_listed.

Example C03_internal_location_not_listed_nonvacuous :
  let s := {| hs_initial := []; hs_internal := Some [bs "/int"%string]; hs_browse := true |} in
  browse_hide s = Some [bs "/int"%string] /\
  listing [bs "/int"%string] [SLASH] example_tree = [bs "/pub"%string; bs "/top.txt"%string] /\
  map fst (archive [bs "/int"%string] [SLASH] example_tree) = [bs "/pub"%string; bs "/pub/a.txt"%string; bs "/top.txt"%string] /\
  (* without the paths on the list everything is named *)
  map fst (archive [] [SLASH] example_tree) =
    [bs "/int"%string; bs "/int/h.txt"%string; bs "/pub"%string; bs "/pub/a.txt"%string; bs "/top.txt"%string].
Proof. vm_compute. auto. Qed.

(* SEQUENCES on one running site: browse requests interleaved with ANY changes of the files below
   the root (the internal directory replaced by another one — a new inode — included; every
   request comes with the tree as it is when it arrives).  Every answer of every history is the
   answer to its request alone, names no internal location, and no archive member lies below one.
   (Seeded change C03-m9 remembered the FileInfo of the hide-list entries: after the internal
   directory had been swapped, GET /?archive=zip packed it.) *)
Theorem C03_internal_location_hidden_in_every_history : forall s ps h qs q ans p,
  hs_internal s = Some ps -> browse_hide s = Some h -> In p ps ->
  In (q, ans) (browse_history h qs) ->
  ans = browse_answer h q /\ ~ In (resolved p) ans /\
  (bq_arc q = true -> forall e c, In (e, c) (archive h (bq_dir q) (bq_kids q)) -> In e ans /\ ~ In (resolved p) c).
Proof. exact history_internal_not_named. Qed.
Print Assumptions C03_internal_location_hidden_in_every_history.

Example C03_internal_location_hidden_in_every_history_nonvacuous :
  let s := {| hs_initial := []; hs_internal := Some [bs "/int"%string]; hs_browse := true |} in
  (* the internal directory swapped for another one between the requests *)
  let tree2 := [ Node (bs "int"%string) true [Node (bs "release2.txt"%string) false []];
                 Node (bs "pub"%string) true [Node (bs "a.txt"%string) false []] ] in
  browse_hide s = Some [bs "/int"%string] /\
  map snd (browse_history [bs "/int"%string]
             [ {| bq_arc := true; bq_dir := [SLASH]; bq_kids := example_tree |};
               {| bq_arc := true; bq_dir := [SLASH]; bq_kids := tree2 |};
               {| bq_arc := false; bq_dir := [SLASH]; bq_kids := tree2 |} ])
  = [ [bs "/pub"%string; bs "/pub/a.txt"%string; bs "/top.txt"%string];
      [bs "/pub"%string; bs "/pub/a.txt"%string];
      [bs "/pub"%string] ].
Proof. vm_compute. auto. Qed.

(* the static file server never sends the bytes of a hidden file — not as the file asked for,
   not as an index page, not as a precompressed sibling — hence never those of an internal location *)
Theorem C03_fileserver_never_serves_hidden : forall hide idx exts files dirs p f,
  fs_serve hide idx exts files dirs p = Some f -> is_hidden hide f = false.
Proof. exact fs_serve_not_hidden. Qed.
Print Assumptions C03_fileserver_never_serves_hidden.

Theorem C03_fileserver_never_serves_internal : forall s ps idx exts files dirs p ip,
  hs_internal s = Some ps -> In ip ps ->
  fs_serve (fs_hide s) idx exts files dirs p <> Some (resolved ip).
Proof. exact fs_never_serves_internal. Qed.
Print Assumptions C03_fileserver_never_serves_internal.

Example C03_fileserver_never_serves_internal_nonvacuous :
  let files := [bs "/int/index.html"%string; bs "/int/h.txt"%string; bs "/f.txt"%string; bs "/f.txt.gz"%string] in
  let dirs := [[SLASH]; bs "/int"%string] in
  (* index page that is an internal location: not served, no fallback *)
  fs_serve [bs "/int/index.html"%string] [bs "index.html"%string; bs "h.txt"%string] [] files dirs (bs "/int/"%string) = None /\
  fs_serve [] [bs "index.html"%string] [] files dirs (bs "/int/"%string) = Some (bs "/int/index.html"%string) /\
  (* hidden sibling: the file itself is sent *)
  fs_serve [bs "/f.txt.gz"%string] [] [bs ".gz"%string] files dirs (bs "/x/../f.txt"%string) = Some (bs "/f.txt"%string) /\
  fs_serve [] [] [bs ".gz"%string] files dirs (bs "/f.txt"%string) = Some (bs "/f.txt.gz"%string).
Proof. vm_compute. auto. Qed.

(* ====================================================================================
   BLOCK: a server block with several addresses — every address is protected like a single site
   ==================================================================================== *)

(* casket.executeDirectives runs each directive's setup once per key of the block, each on that
   key's own SiteConfig: for ANY directive list, block and number of addresses, every address ends
   with exactly the state (hide lists, Internal paths, BasicAuth rules) a single-address site gets *)
Theorem C03_block_addresses_same_protection : forall dirs b n,
  length (block_setups dirs b n) = n /\
  (forall j st, nth_error (block_setups dirs b n) j = Some st -> st = addr_run dirs b) /\
  (forall j, (j < n)%nat -> nth_error (block_setups dirs b n) j = Some (addr_run dirs b)).
Proof. exact block_addresses_same. Qed.
Print Assumptions C03_block_addresses_same_protection.

(* and that state's hide lists are those of the HIDE theorems (run_setups) *)
Theorem C03_block_address_is_single_site : forall dirs b,
  as_setup (addr_run dirs b) = run_setups dirs (bk_hide b).
Proof. exact addr_run_setup. Qed.
Print Assumptions C03_block_address_is_single_site.

(* hence, in plugin.go's order, on EVERY address of the block: the internal paths are on the file
   server's and on browse's hide list, the Internal middleware is installed with them, and the
   basicauth rules are the block's *)
Theorem C03_block_protection_on_every_address : forall b ps n j st,
  hs_internal (bk_hide b) = Some ps ->
  nth_error (block_setups gen_directives b n) j = Some st ->
  incl ps (ss_hidden (as_setup st)) /\
  (hs_browse (bk_hide b) = true -> exists h, ss_browse (as_setup st) = Some h /\ incl ps h) /\
  as_internal st = Some ps /\ as_rules st = bk_rules b.
Proof. exact block_protection_on_every_address. Qed.
Print Assumptions C03_block_protection_on_every_address.

Example C03_block_protection_on_every_address_nonvacuous :
  let b := {| bk_hide := {| hs_initial := []; hs_internal := Some [bs "/int"%string]; hs_browse := true |}; bk_rules := None |} in
  exists st, nth_error (block_setups gen_directives b 3) 2 = Some st /\
             ss_browse (as_setup st) = Some [bs "/int"%string] /\ as_internal st = Some [bs "/int"%string].
Proof. eexists. split; [vm_compute; reflexivity|split; reflexivity]. Qed.

(* the judge of a block case looks the hide lists up at (n, j): they are the single site's *)
Theorem C03_block_hide_state : forall n j s, (j < n)%nat -> hide_state (Some (n, j)) s = hide_state None s.
Proof. exact block_hide_state. Qed.
Print Assumptions C03_block_hide_state.

(* it is the per-key execution that gives it: were internal's append done under
   c.OncePerServerBlock, the second address would run Internal but hide nothing *)
Theorem C03_block_once_variant_refuted : exists b ps n j st,
  hs_internal (bk_hide b) = Some ps /\ ps <> [] /\
  nth_error (block_setups_once gen_directives b n) j = Some st /\
  as_internal st = Some ps /\ ss_hidden (as_setup st) = [] /\ ss_browse (as_setup st) = Some [].
Proof. exact block_once_variant_refuted. Qed.
Print Assumptions C03_block_once_variant_refuted.

(* ====================================================================================
   CRED: htpasswd-file rules — the credential check is a pure function of the request's
   credentials and the files as they were when the site was last set up
   ==================================================================================== *)

(* what GetHtpasswdMatcher hands out, whatever the process-wide cache holds (as long as it is
   honest), is file_accepts on the file's text: (file contents, user, password) decide *)
Theorem C03_matcher_is_pure : forall H (d : disk) c fname user f used m c',
  cache_honest c d -> stamps_known used c d -> assoc fname d = Some f ->
  get_matcher H d c fname user = (m, c') ->
  matcher_ok H (df_text f) user m /\ cache_honest c' d /\ stamps_known used c' d.
Proof. exact get_matcher_spec. Qed.
Print Assumptions C03_matcher_is_pure.

(* over ALL sequences of requests, file replacements and restarts, for all hash functions, rule lists
   and server states the code can be in: every request is decided as pure_decide decides it from its
   own credentials and the files loaded at the last successful setup — no earlier request, login,
   refusal or older version of a file has any influence.  Hypothesis: a rewritten file never comes
   back with a stamp (mtime, size) it already had (fresh_stamps). *)
Theorem C03_credential_check_is_stateless : forall evs H cs rs s used,
  srv_ok H rs used s -> fresh_stamps used evs ->
  srv_run H cs rs s evs = ref_run H cs rs (sv_disk s) (sv_loaded s) evs.
Proof. exact credential_check_is_stateless. Qed.
Print Assumptions C03_credential_check_is_stateless.

(* the same for a site just started with an empty cache (what a CSeq case runs) *)
Theorem C03_credential_check_stateless_from_start : forall H cs rs d0 ls c evs,
  setup_rules H d0 [] rs = (Some ls, c) -> fresh_stamps (stamps_of d0) evs ->
  srv_run H cs rs {| sv_disk := d0; sv_cache := c; sv_live := ls; sv_loaded := d0 |} evs = ref_run H cs rs d0 d0 evs.
Proof. exact credential_check_stateless_from_start. Qed.
Print Assumptions C03_credential_check_stateless_from_start.

Example C03_credential_check_is_stateless_nonvacuous :
  let H := tbl_hashes [] in
  let rs := [ {| cr_resources := [bs "/a"%string]; cr_exclude := []; cr_user := bs "alice"%string; cr_pw := PwFile (bs "f"%string) |};
              {| cr_resources := [bs "/b"%string]; cr_exclude := []; cr_user := bs "bob"%string; cr_pw := PwFile (bs "f"%string) |} ] in
  let d0 := [ (bs "f"%string, {| df_stamp := 1; df_text := bs "alice:pa
bob:pb"%string |}) ] in
  let evs := [ EReq false (bs "/a/x"%string) (Some {| c_user := bs "alice"%string; c_pw := bs "pa"%string |});
               EReq false (bs "/b/x"%string) (Some {| c_user := bs "bob"%string; c_pw := bs "pa"%string |});
               EWrite (bs "f"%string) {| df_stamp := 2; df_text := bs "alice:pb
bob:pa"%string |}; EReload;
               EReq false (bs "/b/x"%string) (Some {| c_user := bs "bob"%string; c_pw := bs "pa"%string |});
               EReq false (bs "/a/x"%string) (Some {| c_user := bs "alice"%string; c_pw := bs "pa"%string |}) ] in
  fresh_stamps (stamps_of d0) evs /\
  ref_run H false rs d0 d0 evs = [Pass; Deny401; Pass; Deny401].
Proof. split; [|vm_compute; reflexivity]. simpl. split; [|exact I]. intros [E|[]]. discriminate E. Qed.

(* the hypothesis is needed: a file replaced under the stamp it had is answered from the old parse *)
Theorem C03_credential_check_stale_stamp_refuted : exists H cs rs d0 evs,
  match setup_rules H d0 [] rs with
  | (Some ls, c) => srv_run H cs rs {| sv_disk := d0; sv_cache := c; sv_live := ls; sv_loaded := d0 |} evs
                    <> ref_run H cs rs d0 d0 evs
  | (None, _) => False
  end.
Proof. exact stale_stamp_refuted. Qed.
Print Assumptions C03_credential_check_stale_stamp_refuted.

(* and the pure decision refuses a password that no protecting rule of the user NAMED accepts,
   whoever else's password it is and whatever that other user did before *)
Theorem C03_password_of_another_user_refused : forall H d rs cs path a,
  (exists r, In r rs /\ protects cs path (pure_rule H d (Some a) r) = true) ->
  (forall r, In r rs -> protects cs path (pure_rule H d (Some a) r) = true ->
             cr_user r = c_user a -> pure_accept H d r (c_pw a) = false) ->
  pure_decide H d rs cs false path (Some a) = Deny401.
Proof. exact password_of_another_user_refused. Qed.
Print Assumptions C03_password_of_another_user_refused.
