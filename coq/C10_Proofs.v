Require Import V.Lib V.C10_Model.
Open Scope N_scope.

(* ---------- printing tokens ---------- *)
Fixpoint esc (t : list N) : list N :=
  match t with
  | [] => []
  | c :: r => if c =? QUOTE then BSL :: QUOTE :: esc r else c :: esc r
  end.
Definition quote_text (t : list N) : list N := QUOTE :: esc t ++ [QUOTE].

(* texts that can be written inside quotes: every backslash is followed by a character other
   than the quote (backslashes pair up with their successor, as the lexer does) *)
Fixpoint okq (t : list N) : bool :=
  match t with
  | [] => true
  | c :: r => if c =? BSL then match r with
                               | [] => false
                               | d :: r' => negb (d =? QUOTE) && okq r'
                               end
              else okq r
  end.

Definition sep_of (nl : bool) : N := if nl then NL else 32.
Fixpoint print (ts : list (list N * bool)) : list N :=
  match ts with
  | [] => []
  | (t, nl) :: r => quote_text t ++ sep_of nl :: print r
  end.

(* ---------- the quoted scan ---------- *)
Definition nlz (c : N) : Z := if c =? NL then 1%Z else 0%Z.

Lemma q_bsl r line val tl c :
  lex_go (BSL :: r) line val tl c true false = lex_go r line val tl c true true.
Proof. reflexivity. Qed.
Lemma q_esc_other d r line val tl c : (d =? QUOTE) = false ->
  lex_go (d :: r) line val tl c true true = lex_go r (line + nlz d)%Z (d :: BSL :: val) tl c true false.
Proof.
  intros H. cbn [lex_go negb andb]. rewrite H. cbn [negb andb]. unfold nlz.
  destruct (d =? NL); [reflexivity|rewrite Z.add_0_r; reflexivity].
Qed.
Lemma q_esc_quote r line val tl c :
  lex_go (QUOTE :: r) line val tl c true true = lex_go r line (QUOTE :: val) tl c true false.
Proof. reflexivity. Qed.
Lemma q_plain c0 r line val tl c : (c0 =? BSL) = false -> (c0 =? QUOTE) = false ->
  lex_go (c0 :: r) line val tl c true false = lex_go r (line + nlz c0)%Z (c0 :: val) tl c true false.
Proof.
  intros H1 H2. cbn [lex_go negb andb]. rewrite H1, H2. cbn [andb]. unfold nlz.
  destruct (c0 =? NL); [reflexivity|rewrite Z.add_0_r; reflexivity].
Qed.
Lemma q_close r line val tl c :
  lex_go (QUOTE :: r) line val tl c true false =
  {| t_file := 0; t_line := tl; t_text := rev val |} :: lex_go r line [] 0%Z false false false.
Proof. reflexivity. Qed.

Lemma count_nl_cons c t : count_nl (c :: t) = (nlz c + count_nl t)%Z.
Proof. reflexivity. Qed.

Lemma quoted_scan : forall n t, (length t <= n)%nat -> okq t = true ->
  forall rest line val tline comment,
  lex_go (esc t ++ QUOTE :: rest) line val tline comment true false =
  {| t_file := 0; t_line := tline; t_text := rev val ++ t |} ::
  lex_go rest (line + count_nl t)%Z [] 0%Z false false false.
Proof.
  induction n as [|n IH]; intros t Hlen Hok rest line val tline comment.
  - destruct t; [|simpl in Hlen; lia]. cbn [esc app]. rewrite q_close.
    cbn [count_nl]. rewrite app_nil_r, Z.add_0_r. reflexivity.
  - destruct t as [|c t].
    { cbn [esc app]. rewrite q_close. cbn [count_nl]. rewrite app_nil_r, Z.add_0_r. reflexivity. }
    cbn [okq] in Hok. cbn [esc]. simpl in Hlen.
    destruct (c =? BSL) eqn:Eb.
    + apply N.eqb_eq in Eb. subst c.
      destruct t as [|d t']; [discriminate|].
      apply andb_true_iff in Hok as [Hd Hok]. apply negb_true_iff in Hd.
      change (BSL =? QUOTE) with false. cbn iota. cbn [app]. rewrite q_bsl.
      cbn [esc]. rewrite Hd. cbn [app]. rewrite (q_esc_other d _ _ _ _ _ Hd).
      simpl in Hlen.
      rewrite (IH t' ltac:(lia) Hok). rewrite !count_nl_cons.
      cbn [rev]. rewrite <- !app_assoc. cbn [app].
      change (nlz BSL) with 0%Z. f_equal; try (f_equal; lia).
    + destruct (c =? QUOTE) eqn:Eq.
      * apply N.eqb_eq in Eq. subst c. cbn [app]. rewrite q_bsl, q_esc_quote.
        rewrite (IH t ltac:(lia) Hok). rewrite count_nl_cons. cbn [rev]. rewrite <- app_assoc. cbn [app].
        change (nlz QUOTE) with 0%Z. f_equal; try (f_equal; lia).
      * cbn [app]. rewrite (q_plain c _ _ _ _ _ Eb Eq).
        rewrite (IH t ltac:(lia) Hok). rewrite count_nl_cons. cbn [rev]. rewrite <- app_assoc. cbn [app].
        f_equal; try (f_equal; lia).
Qed.

Lemma lex_one t nl rest line :
  okq t = true ->
  lex_go (quote_text t ++ sep_of nl :: rest) line [] 0%Z false false false =
  {| t_file := 0; t_line := line; t_text := t |} ::
  lex_go rest (line + count_nl t + (if nl then 1 else 0))%Z [] 0%Z false false false.
Proof.
  intros Hok. unfold quote_text. cbn [app lex_go].
  change (is_space QUOTE) with false. change (QUOTE =? HASH) with false. cbn [orb].
  change (QUOTE =? QUOTE) with true. cbn iota.
  rewrite <- app_assoc. cbn [app].
  rewrite (quoted_scan (length t) t (le_n _) Hok). cbn [rev app]. f_equal.
  destruct nl; cbn [sep_of lex_go].
  - change (is_space NL) with true. change (NL =? CR) with false. change (NL =? NL) with true.
    cbn iota. reflexivity.
  - change (is_space 32) with true. change (32 =? CR) with false. change (32 =? NL) with false.
    cbn iota. rewrite Z.add_0_r. reflexivity.
Qed.

(* lines at which the printed tokens start *)
Fixpoint lines_from (line : Z) (ts : list (list N * bool)) : list Z :=
  match ts with
  | [] => []
  | (t, nl) :: r => line :: lines_from (line + count_nl t + (if nl then 1 else 0))%Z r
  end.

Lemma lex_go_print : forall ts line,
  forallb (fun p => okq (fst p)) ts = true ->
  lex_go (print ts) line [] 0%Z false false false =
  map (fun p => {| t_file := 0; t_line := fst p; t_text := snd p |})
      (combine (lines_from line ts) (map fst ts)).
Proof.
  induction ts as [|[t nl] ts IH]; intros line Hok; [reflexivity|].
  cbn [forallb fst] in Hok. apply andb_true_iff in Hok as [Ht Hok].
  cbn [print]. rewrite lex_one by exact Ht. cbn [lines_from map fst combine snd].
  f_equal. apply IH. exact Hok.
Qed.

Lemma map_snd_combine_eq {A B} : forall (l : list A) (l' : list B),
  length l = length l' -> map snd (combine l l') = l'.
Proof.
  induction l as [|a l IH]; intros [|b l'] H; simpl in *; try discriminate; [reflexivity|].
  f_equal. apply IH. lia.
Qed.
Lemma map_fst_combine_eq {A B} : forall (l : list A) (l' : list B),
  length l = length l' -> map fst (combine l l') = l.
Proof.
  induction l as [|a l IH]; intros [|b l'] H; simpl in *; try discriminate; [reflexivity|].
  f_equal. apply IH. lia.
Qed.

Lemma lines_from_length : forall ts l, length (lines_from l ts) = length (map fst ts).
Proof. induction ts as [|[t nl] ts IH]; intros l; cbn; [reflexivity|]. rewrite IH. reflexivity. Qed.

(* Round trip: every list of token texts (any runes — spaces, newlines, quotes, '#', braces —
   as long as backslashes can be written), printed quoted with a space or a line break after each,
   lexes back to exactly those texts, at exactly the lines where they were printed. *)
Theorem lex_print_roundtrip ts :
  forallb (fun p => okq (fst p)) ts = true ->
  map t_text (lex (print ts)) = map fst ts /\
  map t_line (lex (print ts)) = lines_from 1%Z ts.
Proof.
  intros Hok. unfold lex.
  assert (Hb : match print ts with c :: r => if c =? BOM then r else print ts | [] => [] end = print ts).
  { destruct ts as [|[t nl] ts]; [reflexivity|]. cbn [print quote_text app].
    change (QUOTE =? BOM) with false. reflexivity. }
  rewrite Hb, lex_go_print by exact Hok.
  pose proof (lines_from_length ts 1%Z) as Hlen.
  rewrite !map_map. cbn [t_text t_line]. split.
  - rewrite <- (map_map snd (fun x => x)), map_id. apply map_snd_combine_eq. exact Hlen.
  - rewrite <- (map_map fst (fun x => x)), map_id. apply map_fst_combine_eq. exact Hlen.
Qed.
