Require Import V.Lib V.GoPath V.C10_Model.
From Coq Require Import Lia ZArith List Bool.
Import ListNotations.
Open Scope N_scope.

(* ---------- printing tokens ---------- *)
Fixpoint esc (t : list N) : list N :=
  match t with
  | [] => []
  | c :: r => if c =? QUOTE then BSL :: QUOTE :: esc r else c :: esc r
  end.
Definition quote_text (t : list N) : list N := QUOTE :: esc t ++ [QUOTE].

(* texts that can be written inside quotes: every backslash is followed by a character other
   than the quote (backslashes pair up with their successor, as the lexer does) *)
Fixpoint okq (t : list N) : bool :=
  match t with
  | [] => true
  | c :: r => if c =? BSL then match r with
                               | [] => false
                               | d :: r' => negb (d =? QUOTE) && okq r'
                               end
              else okq r
  end.

Definition sep_of (nl : bool) : N := if nl then NL else 32.
Fixpoint print (ts : list (list N * bool)) : list N :=
  match ts with
  | [] => []
  | (t, nl) :: r => quote_text t ++ sep_of nl :: print r
  end.

(* ---------- the quoted scan ---------- *)
Definition nlz (c : N) : Z := if c =? NL then 1%Z else 0%Z.

Lemma q_bsl r line val tl c :
  lex_go (BSL :: r) line val tl c true false = lex_go r line val tl c true true.
Proof. reflexivity. Qed.
Lemma q_esc_other d r line val tl c : (d =? QUOTE) = false ->
  lex_go (d :: r) line val tl c true true = lex_go r (line + nlz d)%Z (d :: BSL :: val) tl c true false.
Proof.
  intros H. cbn [lex_go negb andb]. rewrite H. cbn [negb andb]. unfold nlz.
  destruct (d =? NL); [reflexivity|rewrite Z.add_0_r; reflexivity].
Qed.
Lemma q_esc_quote r line val tl c :
  lex_go (QUOTE :: r) line val tl c true true = lex_go r line (QUOTE :: val) tl c true false.
Proof. reflexivity. Qed.
Lemma q_plain c0 r line val tl c : (c0 =? BSL) = false -> (c0 =? QUOTE) = false ->
  lex_go (c0 :: r) line val tl c true false = lex_go r (line + nlz c0)%Z (c0 :: val) tl c true false.
Proof.
  intros H1 H2. cbn [lex_go negb andb]. rewrite H1, H2. cbn [andb]. unfold nlz.
  destruct (c0 =? NL); [reflexivity|rewrite Z.add_0_r; reflexivity].
Qed.
Lemma q_close r line val tl c :
  lex_go (QUOTE :: r) line val tl c true false =
  {| t_file := 0; t_line := tl; t_text := rev val; t_imp := 0; t_envnl := 0%Z |} :: lex_go r line [] 0%Z false false false.
Proof. reflexivity. Qed.

Lemma count_nl_cons c t : count_nl (c :: t) = (nlz c + count_nl t)%Z.
Proof. reflexivity. Qed.

Lemma quoted_scan : forall n t, (length t <= n)%nat -> okq t = true ->
  forall rest line val tline comment,
  lex_go (esc t ++ QUOTE :: rest) line val tline comment true false =
  {| t_file := 0; t_line := tline; t_text := rev val ++ t; t_imp := 0; t_envnl := 0%Z |} ::
  lex_go rest (line + count_nl t)%Z [] 0%Z false false false.
Proof.
  induction n as [|n IH]; intros t Hlen Hok rest line val tline comment.
  - destruct t; [|simpl in Hlen; lia]. cbn [esc app]. rewrite q_close.
    cbn [count_nl]. rewrite app_nil_r, Z.add_0_r. reflexivity.
  - destruct t as [|c t].
    { cbn [esc app]. rewrite q_close. cbn [count_nl]. rewrite app_nil_r, Z.add_0_r. reflexivity. }
    cbn [okq] in Hok. cbn [esc]. simpl in Hlen.
    destruct (c =? BSL) eqn:Eb.
    + apply N.eqb_eq in Eb. subst c.
      destruct t as [|d t']; [discriminate|].
      apply andb_true_iff in Hok as [Hd Hok]. apply negb_true_iff in Hd.
      change (BSL =? QUOTE) with false. cbn iota. cbn [app]. rewrite q_bsl.
      cbn [esc]. rewrite Hd. cbn [app]. rewrite (q_esc_other d _ _ _ _ _ Hd).
      simpl in Hlen.
      rewrite (IH t' ltac:(lia) Hok). rewrite !count_nl_cons.
      cbn [rev]. rewrite <- !app_assoc. cbn [app].
      change (nlz BSL) with 0%Z. f_equal; try (f_equal; lia).
    + destruct (c =? QUOTE) eqn:Eq.
      * apply N.eqb_eq in Eq. subst c. cbn [app]. rewrite q_bsl, q_esc_quote.
        rewrite (IH t ltac:(lia) Hok). rewrite count_nl_cons. cbn [rev]. rewrite <- app_assoc. cbn [app].
        change (nlz QUOTE) with 0%Z. f_equal; try (f_equal; lia).
      * cbn [app]. rewrite (q_plain c _ _ _ _ _ Eb Eq).
        rewrite (IH t ltac:(lia) Hok). rewrite count_nl_cons. cbn [rev]. rewrite <- app_assoc. cbn [app].
        f_equal; try (f_equal; lia).
Qed.

Lemma lex_one t nl rest line :
  okq t = true ->
  lex_go (quote_text t ++ sep_of nl :: rest) line [] 0%Z false false false =
  {| t_file := 0; t_line := line; t_text := t; t_imp := 0; t_envnl := 0%Z |} ::
  lex_go rest (line + count_nl t + (if nl then 1 else 0))%Z [] 0%Z false false false.
Proof.
  intros Hok. unfold quote_text. cbn [app lex_go].
  change (is_space QUOTE) with false. change (QUOTE =? HASH) with false. cbn [orb].
  change (QUOTE =? QUOTE) with true. cbn iota.
  rewrite <- app_assoc. cbn [app].
  rewrite (quoted_scan (length t) t (le_n _) Hok). cbn [rev app]. f_equal.
  destruct nl; cbn [sep_of lex_go].
  - change (is_space NL) with true. change (NL =? CR) with false. change (NL =? NL) with true.
    cbn iota. reflexivity.
  - change (is_space 32) with true. change (32 =? CR) with false. change (32 =? NL) with false.
    cbn iota. rewrite Z.add_0_r. reflexivity.
Qed.

(* lines at which the printed tokens start *)
Fixpoint lines_from (line : Z) (ts : list (list N * bool)) : list Z :=
  match ts with
  | [] => []
  | (t, nl) :: r => line :: lines_from (line + count_nl t + (if nl then 1 else 0))%Z r
  end.

Lemma lex_go_print : forall ts line,
  forallb (fun p => okq (fst p)) ts = true ->
  lex_go (print ts) line [] 0%Z false false false =
  map (fun p => {| t_file := 0; t_line := fst p; t_text := snd p; t_imp := 0; t_envnl := 0%Z |})
      (combine (lines_from line ts) (map fst ts)).
Proof.
  induction ts as [|[t nl] ts IH]; intros line Hok; [reflexivity|].
  cbn [forallb fst] in Hok. apply andb_true_iff in Hok as [Ht Hok].
  cbn [print]. rewrite lex_one by exact Ht. cbn [lines_from map fst combine snd].
  f_equal. apply IH. exact Hok.
Qed.

Lemma map_snd_combine_eq {A B} : forall (l : list A) (l' : list B),
  length l = length l' -> map snd (combine l l') = l'.
Proof.
  induction l as [|a l IH]; intros [|b l'] H; simpl in *; try discriminate; [reflexivity|].
  f_equal. apply IH. lia.
Qed.
Lemma map_fst_combine_eq {A B} : forall (l : list A) (l' : list B),
  length l = length l' -> map fst (combine l l') = l.
Proof.
  induction l as [|a l IH]; intros [|b l'] H; simpl in *; try discriminate; [reflexivity|].
  f_equal. apply IH. lia.
Qed.

Lemma lines_from_length : forall ts l, length (lines_from l ts) = length (map fst ts).
Proof. induction ts as [|[t nl] ts IH]; intros l; cbn; [reflexivity|]. rewrite IH. reflexivity. Qed.

(* Round trip: every list of token texts (any runes — spaces, newlines, quotes, '#', braces —
   as long as backslashes can be written), printed quoted with a space or a line break after each,
   lexes back to exactly those texts, at exactly the lines where they were printed. *)
Theorem lex_print_roundtrip ts :
  forallb (fun p => okq (fst p)) ts = true ->
  map t_text (lex (print ts)) = map fst ts /\
  map t_line (lex (print ts)) = lines_from 1%Z ts.
Proof.
  intros Hok. unfold lex.
  assert (Hb : match print ts with c :: r => if c =? BOM then r else print ts | [] => [] end = print ts).
  { destruct ts as [|[t nl] ts]; [reflexivity|]. cbn [print quote_text app].
    change (QUOTE =? BOM) with false. reflexivity. }
  rewrite Hb, lex_go_print by exact Hok.
  pose proof (lines_from_length ts 1%Z) as Hlen.
  rewrite !map_map. cbn [t_text t_line]. split.
  - rewrite <- (map_map snd (fun x => x)), map_id. apply map_snd_combine_eq. exact Hlen.
  - rewrite <- (map_map fst (fun x => x)), map_id. apply map_fst_combine_eq. exact Hlen.
Qed.

(* ================= parser: positions in the token list ================= *)
Definition at_pos (st : pst) (pre : list token) (x : token) (rest : list token) : Prop :=
  p_tokens st = pre ++ x :: rest /\ p_cursor st = Z.of_nat (length pre).

Lemma nth_error_mid {A} (pre : list A) x rest : nth_error (pre ++ x :: rest) (length pre) = Some x.
Proof. rewrite nth_error_app2 by lia. rewrite Nat.sub_diag. reflexivity. Qed.

Lemma tok_at_pos st pre x rest : at_pos st pre x rest -> tok_at st (p_cursor st) = Some x.
Proof.
  intros [Ht Hc]. unfold tok_at. rewrite Hc, Ht.
  destruct (Z.of_nat (length pre) <? 0)%Z eqn:E; [apply Z.ltb_lt in E; lia|].
  rewrite Nat2Z.id. apply nth_error_mid.
Qed.
Lemma pval_pos st pre x rest : at_pos st pre x rest -> pval st = t_text x.
Proof. intros H. unfold pval. rewrite (tok_at_pos _ _ _ _ H). reflexivity. Qed.

Lemma plen_pos st pre x rest : at_pos st pre x rest -> plen st = (Z.of_nat (length pre) + 1 + Z.of_nat (length rest))%Z.
Proof. intros [Ht _]. unfold plen. rewrite Ht, app_length. cbn [length]. lia. Qed.

Lemma p_next_more st pre x y rest : at_pos st pre x (y :: rest) ->
  p_next st = (true, set_cursor st (p_cursor st + 1)) /\ at_pos (set_cursor st (p_cursor st + 1)) (pre ++ [x]) y rest.
Proof.
  intros H. pose proof (plen_pos _ _ _ _ H) as Hl. destruct H as [Ht Hc]. cbn [length] in Hl.
  unfold p_next. destruct (p_cursor st <? plen st - 1)%Z eqn:E; [|apply Z.ltb_ge in E; lia].
  split; [reflexivity|]. split; cbn [set_cursor p_tokens p_cursor].
  - rewrite Ht, <- app_assoc. reflexivity.
  - rewrite Hc, app_length. cbn [length]. lia.
Qed.
Lemma p_next_end st pre x : at_pos st pre x [] -> p_next st = (false, st).
Proof.
  intros H. pose proof (plen_pos _ _ _ _ H) as Hl. destruct H as [Ht Hc]. cbn [length] in Hl.
  unfold p_next. destruct (p_cursor st <? plen st - 1)%Z eqn:E; [apply Z.ltb_lt in E; lia|reflexivity].
Qed.

Lemma is_new_line_pos st pre w x rest : at_pos st (pre ++ [w]) x rest -> is_new_line st = next_on_new_line w x.
Proof.
  intros H. pose proof (plen_pos _ _ _ _ H) as Hl. pose proof (tok_at_pos _ _ _ _ H) as Hx.
  destruct H as [Ht Hc]. rewrite app_length in Hc, Hl. cbn [length] in Hc, Hl.
  unfold is_new_line.
  destruct (p_cursor st <? 1)%Z eqn:E1; [apply Z.ltb_lt in E1; lia|].
  destruct (p_cursor st >? plen st - 1)%Z eqn:E2; [apply Z.gtb_lt in E2; lia|].
  rewrite Hx.
  assert (Hw : tok_at st (p_cursor st - 1) = Some w).
  { unfold tok_at. destruct (p_cursor st - 1 <? 0)%Z eqn:E3; [apply Z.ltb_lt in E3; lia|].
    rewrite Ht, Hc. replace (Z.to_nat (Z.of_nat (length pre + 1) - 1)) with (length pre) by lia.
    rewrite <- app_assoc. cbn [app]. apply nth_error_mid. }
  rewrite Hw. reflexivity.
Qed.
Lemma is_new_line_first st x rest : at_pos st [] x rest -> is_new_line st = true.
Proof. intros [_ Hc]. unfold is_new_line. cbn [length] in Hc. rewrite Hc. reflexivity. Qed.

Lemma set_tok_text_pos st pre x rest txt : at_pos st pre x rest ->
  p_tokens (set_tok_text st (p_cursor st) txt) = pre ++ retext x txt :: rest.
Proof.
  intros [Ht Hc]. cbn [set_tok_text p_tokens]. rewrite Hc, Nat2Z.id, Ht.
  rewrite firstn_app, Nat.sub_diag, firstn_all, skipn_app, Nat.sub_diag, skipn_all.
  cbn [firstn skipn app]. rewrite app_nil_r. reflexivity.
Qed.

(* ================= parser: execution lemmas on well-formed input ================= *)
Definition st_with (st : pst) (toks : list token) (c : Z) (bt : list (bytes * list token)) : pst :=
  {| p_tokens := toks; p_cursor := c; p_keys := p_keys st; p_btoks := bt; p_eof := p_eof st;
     p_snips := p_snips st; p_imports := p_imports st |}.

Lemma st_with_eta st : st = st_with st (p_tokens st) (p_cursor st) (p_btoks st).
Proof. destruct st; reflexivity. Qed.

Section Exec.
Variable env : list (bytes * bytes).
Variable maxi : N.
Variable globs : list ((N * bytes) * list N).
Variable files : list (N * option (list token)).

Definition exp_tok (t : token) : token := retext t (renv env (t_text t)).
Definition push_all (m : list (bytes * list token)) (dir : bytes) (ts : list token) :=
  fold_left (fun m t => add_btok m dir t) ts m.

(* substituting environment values never changes the line structure: a token ends on the line
   where it was written, whatever line breaks the values contain *)
Lemma tok_breaks_retext t txt : tok_breaks (retext t txt) = tok_breaks t.
Proof. unfold tok_breaks, retext. cbn [t_text t_envnl]. lia. Qed.
Lemma nnl_retext_l a b txt : next_on_new_line (retext a txt) b = next_on_new_line a b.
Proof. unfold next_on_new_line. rewrite tok_breaks_retext. reflexivity. Qed.
Lemma nnl_retext_r a b txt : next_on_new_line a (retext b txt) = next_on_new_line a b.
Proof. reflexivity. Qed.
Lemma same_line_retext_l a b txt : same_line (retext a txt) b = same_line a b.
Proof. unfold same_line. rewrite tok_breaks_retext. reflexivity. Qed.
Lemma same_line_retext_r a b txt : same_line a (retext b txt) = same_line a b.
Proof. reflexivity. Qed.
Lemma nnl_exp_l a b : next_on_new_line (exp_tok a) b = next_on_new_line a b.
Proof. apply nnl_retext_l. Qed.

(* the remainder [seg] of a directive line after the token [prev], AS WRITTEN (before environment
   expansion), at brace depth [nest]: braces balance, a token at depth 0 is on the line of its
   predecessor, a closing brace never comes at depth 0 and no token inside a sub-block is an
   `import` at the start of a line *)
Fixpoint line_ok (prev : token) (seg : list token) (nest : Z) : bool :=
  match seg with
  | [] => (nest =? 0)%Z
  | x :: r =>
    if beq (t_text x) LBRACE then line_ok x r (nest + 1)
    else if next_on_new_line prev x && (nest =? 0)%Z then false
    else if beq (t_text x) RBRACE then (0 <? nest)%Z && line_ok x r (nest - 1)
    else if beq (t_text x) IMPORT && next_on_new_line prev x then false
    else line_ok x r nest
  end.
Lemma line_ok_exp_prev p seg n : line_ok (exp_tok p) seg n = line_ok p seg n.
Proof. destruct seg as [|x r]; [reflexivity|]. cbn [line_ok]. rewrite nnl_exp_l. reflexivity. Qed.
Lemma last_map_exp : forall seg d, seg <> [] -> last (map exp_tok seg) d = exp_tok (last seg d).
Proof.
  induction seg as [|x r IH]; intros d H; [congruence|]. destruct r as [|y r']; [reflexivity|].
  change (last (map exp_tok (x :: y :: r')) d) with (last (map exp_tok (y :: r')) d).
  change (last (x :: y :: r') d) with (last (y :: r') d). apply IH. discriminate.
Qed.
Lemma nnl_last_exp seg d u : next_on_new_line (last (map exp_tok seg) d) u = next_on_new_line (last seg d) u.
Proof. destruct seg as [|x r]; [reflexivity|]. rewrite last_map_exp by discriminate. apply nnl_exp_l. Qed.

(* what follows a directive line: nothing, or a token that starts a new line and is not `{` *)
Definition post_ok (prev : token) (post : list token) : Prop :=
  match post with
  | [] => True
  | u :: _ => beq (t_text u) LBRACE = false /\ next_on_new_line prev u = true
  end.

Lemma dloop : forall seg pre cur post fuel dir nest st,
  at_pos st pre cur (seg ++ post) ->
  line_ok cur seg nest = true ->
  (length seg < fuel)%nat ->
  post_ok (last (map exp_tok seg) cur) post ->
  directive_loop env maxi globs files fuel st dir nest =
  POk (st_with st (pre ++ cur :: map exp_tok seg ++ post) (Z.of_nat (length pre + length seg))
               (push_all (p_btoks st) dir (map exp_tok seg))).
Proof.
  induction seg as [|x r IH]; intros pre cur post fuel dir nest st Hpos Hok Hfuel Hpost.
  - cbn [line_ok] in Hok. apply Z.eqb_eq in Hok. subst nest.
    destruct fuel as [|f]; [cbn in Hfuel; lia|]. cbn [directive_loop app map length push_all fold_left last] in *.
    destruct post as [|u post'].
    + rewrite (p_next_end _ _ _ Hpos). cbn [negb]. change (0 <? 0)%Z with false. cbn iota.
      destruct Hpos as [Ht Hc]. rewrite (st_with_eta st) at 1. rewrite Ht, Hc, Nat.add_0_r. reflexivity.
    + destruct (p_next_more _ _ _ _ _ Hpos) as [Hn Hpos1]. rewrite Hn. cbn [negb].
      destruct Hpost as [Hu Hnl].
      rewrite (pval_pos _ _ _ _ Hpos1), Hu, (is_new_line_pos _ _ _ _ _ Hpos1), Hnl.
      cbn [andb]. change (0 =? 0)%Z with true. cbn iota.
      destruct Hpos as [Ht Hc]. f_equal. unfold st_with, set_cursor. cbn [p_tokens p_cursor p_keys p_btoks p_eof p_snips p_imports].
      rewrite Ht, Hc, Nat.add_0_r. f_equal. lia.
  - destruct fuel as [|f]; [cbn in Hfuel; lia|]. cbn [length] in Hfuel.
    cbn [app] in Hpos. destruct (p_next_more _ _ _ _ _ Hpos) as [Hn Hpos1].
    cbn [directive_loop]. rewrite Hn. cbn [negb].
    set (st1 := set_cursor st (p_cursor st + 1)) in *.
    rewrite (pval_pos _ _ _ _ Hpos1), (is_new_line_pos _ _ _ _ _ Hpos1), (tok_at_pos _ _ _ _ Hpos1).
    cbn [line_ok] in Hok.
    assert (Hstep : forall n', line_ok x r n' = true ->
      directive_loop env maxi globs files f
        (push_tok (set_tok_text st1 (p_cursor st1) (t_text (retext x (renv env (t_text x))))) dir (retext x (renv env (t_text x)))) dir n' =
      POk (st_with st (pre ++ cur :: map exp_tok (x :: r) ++ post) (Z.of_nat (length pre + length (x :: r)))
               (push_all (p_btoks st) dir (map exp_tok (x :: r))))).
    { intros n' Hok'. rewrite <- line_ok_exp_prev in Hok'.
      assert (Hpos2 : at_pos (push_tok (set_tok_text st1 (p_cursor st1) (t_text (exp_tok x))) dir (exp_tok x))
                             (pre ++ [cur]) (exp_tok x) (r ++ post)).
      { split.
        - cbn [push_tok p_tokens]. rewrite (set_tok_text_pos _ _ _ _ _ Hpos1). reflexivity.
        - destruct Hpos1 as [_ Hc1]. exact Hc1. }
      cbn [map last] in Hpost.
      assert (Hpost' : post_ok (last (map exp_tok r) (exp_tok x)) post).
      { destruct (map exp_tok r) eqn:Em; [exact Hpost|]. rewrite <- Em in *.
        replace (last (map exp_tok r) (exp_tok x)) with (last (map exp_tok r) cur); [|rewrite Em; clear; revert t; induction l; intros; cbn; [reflexivity|apply IHl]].
        destruct (map exp_tok r); [discriminate|exact Hpost]. }
      unfold exp_tok in Hpos2 at 1 2. 
      rewrite (IH _ _ _ f dir n' _ Hpos2 Hok' ltac:(lia) Hpost').
      f_equal. unfold st_with. cbn [push_tok set_tok_text set_cursor st1 p_keys p_eof p_snips p_imports p_btoks map length push_all fold_left].
      rewrite <- app_assoc. cbn [app]. rewrite app_length. cbn [length].
      f_equal. lia. }
    destruct (beq (t_text x) LBRACE) eqn:Elb.
    { apply Hstep. exact Hok. }
    destruct (next_on_new_line cur x && (nest =? 0)%Z) eqn:Enl; [discriminate|].
    destruct (beq (t_text x) RBRACE) eqn:Erb.
    { apply andb_true_iff in Hok as [Hn0 Hok]. rewrite Hn0. cbn [andb]. apply Hstep. exact Hok. }
    cbn [andb].
    destruct (beq (t_text x) IMPORT && next_on_new_line cur x) eqn:Eim; [discriminate|].
    apply Hstep. exact Hok.
Qed.

Lemma st_with_with st a b c a' b' c' : st_with (st_with st a b c) a' b' c' = st_with st a' b' c'.
Proof. reflexivity. Qed.

(* cursor on the last token of [done] (or before the first token when [done] is empty) *)
Definition at_end (st : pst) (done rest : list token) : Prop :=
  p_tokens st = done ++ rest /\ p_cursor st = (Z.of_nat (length done) - 1)%Z.

Lemma at_end_pos st pre x rest : at_end st (pre ++ [x]) rest <-> at_pos st pre x rest.
Proof.
  unfold at_end, at_pos. rewrite <- app_assoc, app_length. cbn [app length].
  split; intros [H1 H2]; split; try exact H1; lia.
Qed.

Lemma p_next_end2 st done y rest : at_end st done (y :: rest) ->
  p_next st = (true, set_cursor st (p_cursor st + 1)) /\ at_pos (set_cursor st (p_cursor st + 1)) done y rest.
Proof.
  intros [Ht Hc]. unfold p_next, plen. rewrite Ht, app_length. cbn [length].
  destruct (p_cursor st <? Z.of_nat (length done + S (length rest)) - 1)%Z eqn:E; [|apply Z.ltb_ge in E; lia].
  split; [reflexivity|]. split; cbn [set_cursor p_tokens p_cursor]; [exact Ht|lia].
Qed.
Lemma p_next_end3 st done : at_end st done [] -> p_next st = (false, st).
Proof.
  intros [Ht Hc]. unfold p_next, plen. rewrite Ht, app_length. cbn [length].
  destruct (p_cursor st <? Z.of_nat (length done + 0) - 1)%Z eqn:E; [apply Z.ltb_lt in E; lia|reflexivity].
Qed.

Definition dline := (token * list token)%type.
Definition line_toks (l : dline) : list token := fst l :: snd l.
Definition exp_line (l : dline) : list token := fst l :: map exp_tok (snd l).
Definition flat_lines (ls : list dline) : list token := concat (map line_toks ls).
Definition exp_lines (ls : list dline) : list token := concat (map exp_line ls).
Definition push_line (m : list (bytes * list token)) (l : dline) :=
  push_all (add_btok m (renv env (t_text (fst l))) (fst l)) (renv env (t_text (fst l))) (map exp_tok (snd l)).
Definition push_lines (m : list (bytes * list token)) (ls : list dline) := fold_left push_line ls m.

Definition follow_ok (prev u : token) : bool := negb (beq (t_text u) LBRACE) && next_on_new_line prev u.
Definition head_after (ls : list dline) (rb : token) : token :=
  match ls with l :: _ => fst l | [] => rb end.

Lemma post_ok_follow seg d ls rb post : follow_ok (last seg d) (head_after ls rb) = true ->
  post_ok (last (map exp_tok seg) d) (flat_lines ls ++ rb :: post).
Proof.
  unfold follow_ok. rewrite <- (nnl_last_exp seg d). intros H. apply andb_true_iff in H as [H1 H2]. apply negb_true_iff in H1.
  destruct ls as [|[d' sg] r]; cbn; auto.
Qed.

Lemma directive_ok done d seg post fuel st :
  at_end st (done ++ [d]) (seg ++ post) ->
  line_ok d seg 0 = true -> (length seg < fuel)%nat ->
  post_ok (last (map exp_tok seg) d) post ->
  directive env maxi globs files fuel st =
  POk (st_with st ((done ++ exp_line (d, seg)) ++ post) (Z.of_nat (length (done ++ exp_line (d, seg))) - 1)
               (push_line (p_btoks st) (d, seg))).
Proof.
  intros Hend Hok Hf Hpost. apply at_end_pos in Hend.
  unfold directive. rewrite (tok_at_pos _ _ _ _ Hend).
  assert (Hpos' : at_pos (push_tok st (renv env (t_text d)) d) done d (seg ++ post)) by exact Hend.
  rewrite (dloop _ _ _ _ _ _ _ _ Hpos' Hok Hf Hpost).
  f_equal. unfold st_with, push_line, exp_line. cbn [push_tok p_keys p_btoks p_eof p_snips p_imports fst snd].
  rewrite <- !app_assoc. cbn [app]. rewrite !app_length. cbn [length]. rewrite map_length.
  f_equal. lia.
Qed.

Fixpoint lines_ok (ls : list dline) (rb : token) : bool :=
  match ls with
  | [] => true
  | (d, seg) :: r =>
      negb (beq (t_text d) RBRACE) && negb (beq (t_text d) IMPORT) && line_ok d seg 0 &&
      follow_ok (last seg d) (head_after r rb) && lines_ok r rb
  end.

Lemma flat_lines_cons l r : flat_lines (l :: r) = fst l :: snd l ++ flat_lines r.
Proof. reflexivity. Qed.
Lemma exp_lines_cons l r : exp_lines (l :: r) = fst l :: map exp_tok (snd l) ++ exp_lines r.
Proof. reflexivity. Qed.
Lemma exp_lines_length ls : length (exp_lines ls) = length (flat_lines ls).
Proof.
  induction ls as [|l r IH]; [reflexivity|]. rewrite flat_lines_cons, exp_lines_cons.
  cbn [length]. rewrite !app_length, map_length, IH. reflexivity.
Qed.

Lemma directives_ok : forall ls done rb post fuel st,
  at_end st done (flat_lines ls ++ rb :: post) ->
  lines_ok ls rb = true -> t_text rb = RBRACE ->
  (length (flat_lines ls) + 1 < fuel)%nat ->
  directives env maxi globs files fuel st =
  POk (st_with st (done ++ exp_lines ls ++ rb :: post) (Z.of_nat (length (done ++ exp_lines ls)))
               (push_lines (p_btoks st) ls)).
Proof.
  induction ls as [|[d seg] r IH]; intros done rb post fuel st Hend Hok Hrb Hf.
  - destruct fuel as [|f]; [lia|]. cbn [flat_lines map concat app] in Hend.
    destruct (p_next_end2 _ _ _ _ Hend) as [Hn Hpos]. cbn [directives]. rewrite Hn. cbn [negb].
    rewrite (pval_pos _ _ _ _ Hpos), Hrb. change (beq RBRACE RBRACE) with true. cbn iota.
    destruct Hend as [Ht Hc]. f_equal. unfold st_with, set_cursor. cbn [exp_lines map concat app push_lines fold_left].
    rewrite Ht, app_nil_r. f_equal. lia.
  - destruct fuel as [|f]; [lia|]. rewrite flat_lines_cons in Hend, Hf. cbn [fst snd] in Hend, Hf.
    cbn [app] in Hend. cbn [length] in Hf. rewrite app_length in Hf.
    destruct (p_next_end2 _ _ _ _ Hend) as [Hn Hpos]. cbn [directives]. rewrite Hn. cbn [negb].
    cbn [lines_ok] in Hok. repeat (apply andb_true_iff in Hok as [Hok ?]).
    rename H into Hrest, H0 into Hfol, H1 into Hline, H2 into Himp.
    apply negb_true_iff in Hok, Himp.
    rewrite (pval_pos _ _ _ _ Hpos), Hok, Himp.
    set (st1 := set_cursor st (p_cursor st + 1)) in *.
    assert (Hend1 : at_end st1 (done ++ [d]) (seg ++ flat_lines r ++ rb :: post)).
    { apply at_end_pos. rewrite <- app_assoc in Hpos. exact Hpos. }
    rewrite (directive_ok _ _ _ _ f _ Hend1 Hline ltac:(lia) (post_ok_follow _ _ _ _ _ Hfol)).
    match goal with |- context [directives _ _ _ _ f ?s] => set (st2 := s) end.
    assert (Hend2 : at_end st2 (done ++ exp_line (d, seg)) (flat_lines r ++ rb :: post)).
    { split; [reflexivity|]. reflexivity. }
    rewrite (IH _ _ _ f _ Hend2 Hrest Hrb ltac:(lia)).
    f_equal. unfold st2. rewrite st_with_with. unfold st_with. cbn [st1 set_cursor p_keys p_eof p_snips p_imports p_btoks push_lines fold_left].
    rewrite exp_lines_cons. unfold exp_line. cbn [fst snd]. rewrite <- !app_assoc. cbn [app].
    rewrite <- !app_assoc. reflexivity.
Qed.

Lemma renv_lbrace : renv env LBRACE = LBRACE.
Proof. reflexivity. Qed.
Opaque renv.

Definition key_name (tkn : bytes) : bytes :=
  match rev tkn with [] => tkn | last :: pre => if last =? COMMA then rev pre else tkn end.
Definition key_comma (tkn : bytes) : bool :=
  match rev tkn with [] => false | last :: _ => last =? COMMA end.

(* the keys of a server block: none expands to `import`, `{` or the empty text; a key is on the
   line of its predecessor unless that one ends in a comma; the last key has no comma *)
Fixpoint keys_ok (x : token) (ks : list token) : bool :=
  let tkn := renv env (t_text x) in
  negb (beq tkn IMPORT) && negb (beq tkn LBRACE) && negb (beq tkn []) &&
  match ks with
  | [] => negb (key_comma tkn)
  | y :: ks' => (key_comma tkn || negb (next_on_new_line x y)) && keys_ok y ks'
  end.

Definition st_keys (st : pst) (c : Z) (ks : list bytes) : pst :=
  {| p_tokens := p_tokens st; p_cursor := c; p_keys := ks; p_btoks := p_btoks st; p_eof := p_eof st;
     p_snips := p_snips st; p_imports := p_imports st |}.

Definition key_of (t : token) : bytes := key_name (renv env (t_text t)).

Lemma addr_ok : forall ks x done lb rest fuel st expecting,
  at_end st (done ++ [x]) (ks ++ lb :: rest) ->
  keys_ok x ks = true -> t_text lb = LBRACE -> (length ks + 1 < fuel)%nat ->
  addresses env maxi globs files fuel st expecting =
  POk (st_keys st (Z.of_nat (length (done ++ x :: ks))) (p_keys st ++ map key_of (x :: ks))).
Proof.
  induction ks as [|y ks IH]; intros x done lb rest fuel st expecting Hend Hok Hlb Hf;
    (destruct fuel as [|f]; [lia|]); cbn [keys_ok] in Hok;
    repeat (apply andb_true_iff in Hok as [Hok ?]);
    apply negb_true_iff in Hok; try apply negb_true_iff in H0; try apply negb_true_iff in H1.
  - rename H into Hcomma, H0 into Hnil, H1 into Hnlb. apply negb_true_iff in Hcomma.
    pose proof (proj1 (at_end_pos _ _ _ _) Hend) as Hpos.
    cbn [addresses]. rewrite (pval_pos _ _ _ _ Hpos), Hok, Hnlb. cbn [andb].
    unfold key_comma in Hcomma. unfold key_of, key_name. cbn [map].
    destruct (rev (renv env (t_text x))) as [|lastc pre] eqn:Erev.
    { apply (f_equal (@rev N)) in Erev. rewrite rev_involutive in Erev. cbn in Erev. rewrite Erev in Hnil. discriminate. }
    rewrite Hcomma.
    assert (Hend1 : at_end (add_key st (renv env (t_text x))) (done ++ [x]) (lb :: rest)) by exact Hend.
    destruct (p_next_end2 _ _ _ _ Hend1) as [Hn Hpos2]. rewrite Hn. cbn [negb andb].
    assert (Hfin : set_cursor (add_key st (renv env (t_text x))) (p_cursor (add_key st (renv env (t_text x))) + 1) =
                   st_keys st (Z.of_nat (length (done ++ [x]))) (p_keys st ++ [renv env (t_text x)])).
    { destruct Hend as [_ Hc]. unfold set_cursor, add_key, st_keys. cbn [p_tokens p_cursor p_keys p_btoks p_eof p_snips p_imports].
      f_equal. rewrite Hc. lia. }
    destruct (is_new_line _) eqn:Enl.
    + rewrite Hfin. reflexivity.
    + destruct f as [|f']; [lia|]. cbn [addresses].
      rewrite (pval_pos _ _ _ _ Hpos2), Hlb, renv_lbrace.
      change (beq LBRACE IMPORT) with false. cbn [andb]. change (beq LBRACE LBRACE) with true. cbn iota.
      rewrite Hfin. reflexivity.
  - rename H into Hrest, H0 into Hnil, H1 into Hnlb. apply andb_true_iff in Hrest as [Hadj Hrest].
    pose proof (proj1 (at_end_pos _ _ _ _) Hend) as Hpos.
    cbn [addresses]. rewrite (pval_pos _ _ _ _ Hpos), Hok, Hnlb. cbn [andb].
    unfold key_comma in Hadj. cbn [map]. unfold key_of at 1. unfold key_name.
    destruct (rev (renv env (t_text x))) as [|lastc pre] eqn:Erev.
    { apply (f_equal (@rev N)) in Erev. rewrite rev_involutive in Erev. cbn in Erev. rewrite Erev in Hnil. discriminate. }
    cbn [app] in Hend.
    assert (Hgen : forall nm e1, (e1 || negb (next_on_new_line x y)) = true ->
      (let '(has, st2) := p_next (add_key st nm) in
       if e1 && negb has then PErr ESyntax
       else if negb has then POk (set_eof st2)
       else if negb e1 && is_new_line st2 then POk st2
       else addresses env maxi globs files f st2 e1) =
      POk (st_keys st (Z.of_nat (length (done ++ x :: y :: ks))) (p_keys st ++ nm :: map key_of (y :: ks)))).
    { intros nm e1 He.
      assert (Hend1 : at_end (add_key st nm) (done ++ [x]) (y :: ks ++ lb :: rest)) by exact Hend.
      destruct (p_next_end2 _ _ _ _ Hend1) as [Hn Hpos2]. rewrite Hn. cbn [negb]. rewrite andb_false_r.
      rewrite (is_new_line_pos _ _ _ _ _ Hpos2).
      assert (E : negb e1 && next_on_new_line x y = false).
      { destruct e1; [reflexivity|]. cbn in He. apply negb_true_iff in He. rewrite He. reflexivity. }
      rewrite E.
      rewrite (IH y (done ++ [x]) lb rest f _ e1 (proj2 (at_end_pos _ _ _ _) Hpos2) Hrest Hlb ltac:(cbn [length] in Hf; lia)).
      f_equal. unfold st_keys, set_cursor, add_key. cbn [p_tokens p_cursor p_keys p_btoks p_eof p_snips p_imports].
      rewrite <- !app_assoc. cbn [app]. reflexivity. }
    destruct (lastc =? COMMA); apply Hgen; [reflexivity|exact Hadj].
Qed.

Record tblock := { b_key : token; b_keys : list token; b_lb : token; b_lines : list dline; b_rb : token }.
Definition flat_block (b : tblock) : list token :=
  b_key b :: b_keys b ++ b_lb b :: flat_lines (b_lines b) ++ [b_rb b].
Definition exp_block (b : tblock) : list token :=
  b_key b :: b_keys b ++ b_lb b :: exp_lines (b_lines b) ++ [b_rb b].
Definition block_names (b : tblock) : list bytes := map key_of (b_key b :: b_keys b).
Definition block_ok (b : tblock) : bool :=
  keys_ok (b_key b) (b_keys b) && beq (t_text (b_lb b)) LBRACE && lines_ok (b_lines b) (b_rb b) &&
  beq (t_text (b_rb b)) RBRACE && negb (is_snippet (block_names b)).
Definition block_res (b : tblock) : block := (block_names b, push_lines [] (b_lines b)).
Definition flat_blocks (bs : list tblock) : list token := concat (map flat_block bs).
Definition block_fuel (b : tblock) : nat := length (flat_block b).

Definition st_block (st : pst) (toks : list token) (c : Z) (b : tblock) : pst :=
  {| p_tokens := toks; p_cursor := c; p_keys := block_names b; p_btoks := push_lines [] (b_lines b);
     p_eof := p_eof st; p_snips := p_snips st; p_imports := p_imports st |}.

Definition reset_block (st : pst) : pst :=
  {| p_tokens := p_tokens st; p_cursor := p_cursor st; p_keys := []; p_btoks := [];
     p_eof := p_eof st; p_snips := p_snips st; p_imports := p_imports st |}.
Lemma parse_one_unfold fuel st : p_tokens st <> [] ->
  parse_one env maxi globs files fuel st =
  match addresses env maxi globs files fuel (reset_block st) false with
  | POk st1 =>
      if p_eof st1 then POk st1
      else if is_snippet (p_keys st1) then define_snippet fuel st1
      else block_contents env maxi globs files fuel st1
  | e => e
  end.
Proof.
  intros Hne. unfold parse_one, reset_block. cbn [p_tokens].
  destruct (p_tokens st); [congruence|reflexivity].
Qed.

Lemma parse_one_ok b done post fuel st :
  at_end st (done ++ [b_key b]) (b_keys b ++ b_lb b :: flat_lines (b_lines b) ++ b_rb b :: post) ->
  p_eof st = false -> block_ok b = true -> (block_fuel b < fuel)%nat ->
  parse_one env maxi globs files fuel st =
  POk (st_block st (done ++ exp_block b ++ post) (Z.of_nat (length (done ++ exp_block b)) - 1) b).
Proof.
  intros Hend Heof Hok Hf. unfold block_ok in Hok.
  repeat (apply andb_true_iff in Hok as [Hok ?]).
  rename H into Hsn, H0 into Hrb, H1 into Hlines, H2 into Hlb. apply beq_eq in Hrb, Hlb. apply negb_true_iff in Hsn.
  unfold block_fuel, flat_block in Hf. cbn [length] in Hf. rewrite !app_length in Hf. cbn [length] in Hf. rewrite app_length in Hf. cbn [length] in Hf.
  rewrite parse_one_unfold.
  2:{ destruct Hend as [Ht _]. rewrite Ht. destruct done; discriminate. }
  set (st0 := reset_block st).
  assert (Hend0 : at_end st0 (done ++ [b_key b]) (b_keys b ++ b_lb b :: flat_lines (b_lines b) ++ b_rb b :: post)) by exact Hend.
  rewrite (addr_ok _ _ _ _ _ fuel _ false Hend0 Hok Hlb ltac:(lia)).
  cbn [st_keys p_eof st0 reset_block p_keys app]. rewrite Heof. fold (block_names b). rewrite Hsn.
  match goal with |- block_contents _ _ _ _ _ ?s = _ => set (st1 := s) end.
  assert (Hpos1 : at_pos st1 (done ++ b_key b :: b_keys b) (b_lb b) (flat_lines (b_lines b) ++ b_rb b :: post)).
  { destruct Hend as [Ht Hc]. split; cbn [st1 st_keys st0 reset_block p_tokens p_cursor]; [|reflexivity].
    rewrite Ht, <- !app_assoc. reflexivity. }
  unfold block_contents. rewrite (pval_pos _ _ _ _ Hpos1), Hlb. change (beq LBRACE LBRACE) with true. cbn iota.
  rewrite (directives_ok _ _ _ _ fuel _ (proj2 (at_end_pos _ _ _ _) Hpos1) Hlines Hrb ltac:(lia)).
  match goal with |- context [pval ?s] => set (st2 := s) end.
  assert (Hpos2 : at_pos st2 ((done ++ b_key b :: b_keys b) ++ [b_lb b] ++ exp_lines (b_lines b)) (b_rb b) post).
  { split; cbn [st2 st_with st1 st_keys st0 reset_block p_tokens p_cursor]; [|rewrite <- !app_assoc; reflexivity].
    rewrite <- !app_assoc. reflexivity. }
  rewrite (pval_pos _ _ _ _ Hpos2), Hrb. change (beq RBRACE RBRACE) with true. cbn iota.
  f_equal. unfold st2, st_with, st_block, exp_block. cbn [st1 st_keys p_keys p_btoks p_eof p_snips p_imports st0 reset_block].
  f_equal.
  - repeat (rewrite <- ?app_assoc; cbn [app]). reflexivity.
  - repeat (rewrite ?app_length; cbn [length]). lia.
Qed.

Lemma flat_blocks_cons b bs : flat_blocks (b :: bs) =
  b_key b :: b_keys b ++ b_lb b :: flat_lines (b_lines b) ++ b_rb b :: flat_blocks bs.
Proof.
  unfold flat_blocks. cbn [map concat]. unfold flat_block. cbn [app]. rewrite <- !app_assoc. cbn [app].
  rewrite <- !app_assoc. reflexivity.
Qed.
Lemma exp_block_length b : length (exp_block b) = length (flat_block b).
Proof.
  unfold exp_block, flat_block. cbn [length]. rewrite !app_length. cbn [length]. rewrite !app_length, exp_lines_length. reflexivity.
Qed.

Lemma parse_all_ok : forall bs done fuel st acc,
  at_end st done (flat_blocks bs) -> p_eof st = false ->
  forallb block_ok bs = true -> (length (flat_blocks bs) + 1 < fuel)%nat ->
  parse_all env maxi globs files fuel st acc = POk (rev acc ++ map block_res bs).
Proof.
  induction bs as [|b bs IH]; intros done fuel st acc Hend Heof Hok Hf; (destruct fuel as [|f]; [lia|]).
  - cbn [parse_all]. rewrite (p_next_end3 _ _ Hend). cbn [negb map]. rewrite app_nil_r. reflexivity.
  - cbn [forallb] in Hok. apply andb_true_iff in Hok as [Hb Hbs].
    rewrite flat_blocks_cons in Hend.
    assert (Hlen : length (flat_blocks (b :: bs)) = (length (flat_block b) + length (flat_blocks bs))%nat).
    { unfold flat_blocks. cbn [map concat]. apply app_length. }
    rewrite Hlen in Hf.
    assert (Hb1 : (1 <= length (flat_block b))%nat) by (unfold flat_block; cbn [length]; lia).
    destruct (p_next_end2 _ _ _ _ Hend) as [Hn Hpos]. cbn [parse_all]. rewrite Hn. cbn [negb].
    set (st1 := set_cursor st (p_cursor st + 1)) in *.
    rewrite (parse_one_ok b done (flat_blocks bs) (S f) st1 (proj2 (at_end_pos _ _ _ _) Hpos) Heof Hb ltac:(unfold block_fuel; lia)).
    cbn [st_block p_keys p_btoks]. unfold block_names at 1. cbn [map].
    match goal with |- parse_all _ _ _ _ f ?s ?a = _ => set (st2 := s); set (acc2 := a) end.
    assert (Hend2 : at_end st2 (done ++ exp_block b) (flat_blocks bs)).
    { split; cbn [st2 st_block p_tokens p_cursor]; [rewrite <- app_assoc; reflexivity|reflexivity]. }
    rewrite (IH _ f st2 acc2 Hend2 Heof Hbs ltac:(lia)).
    unfold acc2. cbn [rev map]. rewrite <- app_assoc. reflexivity.
Qed.

Theorem parse_structure_tokens bs fuel :
  forallb block_ok bs = true -> (length (flat_blocks bs) + 1 < fuel)%nat ->
  parse_tokens env maxi globs files fuel (flat_blocks bs) = POk (map block_res bs).
Proof.
  intros Hok Hf. unfold parse_tokens.
  apply (parse_all_ok bs [] fuel (init_st (flat_blocks bs)) [] (conj eq_refl eq_refl) eq_refl Hok Hf).
Qed.
End Exec.

(* ================= from printed text to annotated tokens ================= *)
Definition ltok := (list N * bool)%type.   (* text, followed by a line break (else a space) *)
Definition adv (line : Z) (t : ltok) : Z := (line + count_nl (fst t) + (if snd t then 1 else 0))%Z.
Fixpoint toks_from (f : N) (line : Z) (ts : list ltok) : list token :=
  match ts with
  | [] => []
  | t :: r => {| t_file := f; t_line := line; t_text := fst t; t_imp := 0; t_envnl := 0%Z |} :: toks_from f (adv line t) r
  end.
Fixpoint end_line (line : Z) (ts : list ltok) : Z :=
  match ts with [] => line | t :: r => end_line (adv line t) r end.

Lemma toks_from_app f : forall a line b,
  toks_from f line (a ++ b) = toks_from f line a ++ toks_from f (end_line line a) b.
Proof. induction a as [|t a IH]; intros line b; cbn; [reflexivity|]. rewrite IH. reflexivity. Qed.
Lemma end_line_app : forall a line b, end_line line (a ++ b) = end_line (end_line line a) b.
Proof. induction a as [|t a IH]; intros line b; cbn; [reflexivity|]. apply IH. Qed.

Lemma lex_print_tokens ts : forallb (fun p => okq (fst p)) ts = true ->
  lex (print ts) = toks_from 0 1%Z ts.
Proof.
  intros Hok. unfold lex.
  assert (Hb : match print ts with c :: r => if c =? BOM then r else print ts | [] => [] end = print ts).
  { destruct ts as [|[t nl] ts]; [reflexivity|]. cbn [print quote_text app].
    change (QUOTE =? BOM) with false. reflexivity. }
  rewrite Hb, lex_go_print by exact Hok. clear. generalize 1%Z.
  induction ts as [|[t nl] r IH]; intros line; cbn; [reflexivity|].
  unfold adv. cbn [fst snd]. rewrite IH. reflexivity.
Qed.

(* a configuration as written: server blocks with keys and directive lines; every line is the
   directive's name followed by the rest of the line (arguments, nested `{ ... }` sub-blocks);
   the braces of the server block itself are implicit, each followed by a line break *)
Record ablock := { a_key : ltok; a_keys : list ltok; a_lines : list (ltok * list ltok) }.
Definition LB : ltok := (LBRACE, true).
Definition RB : ltok := (RBRACE, true).
Definition a_line_flat (l : ltok * list ltok) : list ltok := fst l :: snd l.
Definition a_flat (b : ablock) : list ltok :=
  a_key b :: a_keys b ++ LB :: concat (map a_line_flat (a_lines b)) ++ [RB].
Definition a_flat_all (bs : list ablock) : list ltok := concat (map a_flat bs).

Definition mk_tok (f : N) (line : Z) (t : ltok) : token := {| t_file := f; t_line := line; t_text := fst t; t_imp := 0; t_envnl := 0%Z |}.
Fixpoint annot_lines (f : N) (line : Z) (ls : list (ltok * list ltok)) : list dline :=
  match ls with
  | [] => []
  | l :: r => (mk_tok f line (fst l), toks_from f (adv line (fst l)) (snd l))
              :: annot_lines f (end_line line (a_line_flat l)) r
  end.
Definition annot_block (f : N) (line : Z) (b : ablock) : tblock :=
  let l1 := adv line (a_key b) in
  let l2 := end_line l1 (a_keys b) in
  let l3 := adv l2 LB in
  let l4 := end_line l3 (concat (map a_line_flat (a_lines b))) in
  {| b_key := mk_tok f line (a_key b); b_keys := toks_from f l1 (a_keys b); b_lb := mk_tok f l2 LB;
     b_lines := annot_lines f l3 (a_lines b); b_rb := mk_tok f l4 RB |}.
Fixpoint annot_blocks (f : N) (line : Z) (bs : list ablock) : list tblock :=
  match bs with
  | [] => []
  | b :: r => annot_block f line b :: annot_blocks f (end_line line (a_flat b)) r
  end.

Lemma flat_annot_lines f : forall ls line,
  flat_lines (annot_lines f line ls) = toks_from f line (concat (map a_line_flat ls)).
Proof.
  induction ls as [|l r IH]; intros line; [reflexivity|].
  cbn [annot_lines map concat]. rewrite flat_lines_cons, toks_from_app. cbn [fst snd].
  rewrite IH. reflexivity.
Qed.
Lemma flat_annot_block f line b : flat_block (annot_block f line b) = toks_from f line (a_flat b).
Proof.
  unfold flat_block, annot_block, a_flat. cbn [b_key b_keys b_lb b_lines b_rb toks_from].
  unfold mk_tok. f_equal. rewrite toks_from_app. f_equal. cbn [toks_from]. f_equal.
  rewrite toks_from_app, flat_annot_lines. reflexivity.
Qed.
Lemma flat_annot_blocks f : forall bs line,
  flat_blocks (annot_blocks f line bs) = toks_from f line (a_flat_all bs).
Proof.
  induction bs as [|b r IH]; intros line; [reflexivity|].
  unfold flat_blocks, a_flat_all in *. cbn [annot_blocks map concat].
  rewrite toks_from_app, flat_annot_block, IH. reflexivity.
Qed.

Theorem parse_structure env bs :
  forallb (fun p => okq (fst p)) (a_flat_all bs) = true ->
  forallb (block_ok env) (annot_blocks 0 1%Z bs) = true ->
  parse env (print (a_flat_all bs)) = POk (map (block_res env) (annot_blocks 0 1%Z bs)).
Proof.
  intros Hq Hok. unfold parse, parse_world. rewrite (lex_print_tokens _ Hq), <- flat_annot_blocks.
  apply parse_structure_tokens; [exact Hok|].
  unfold run_fuel. generalize ((N.to_nat 10000 + 1) * (total_len (lex_files []) + length (flat_blocks (annot_blocks 0 1%Z bs))))%nat.
  intros k. lia.
Qed.

(* the expected result only depends on what was written: keys and, per directive, its tokens in
   file order with environment references expanded (the directive's own token as written) *)
Local Open Scope string_scope.
Example parse_structure_nonvacuous :
  let env := [(bs "HOST"%string, bs "example.com"%string)] in
  let t (s : string) (nl : bool) : ltok := (bs s, nl) in
  let cfg := [ {| a_key := t "{$HOST}," true; a_keys := [t "www.{$HOST}" false];
                  a_lines := [ (t "root" false, [t "/var/www" true]);
                               (t "proxy" false, [t "/" false; t "b:80" false; t "{" true;
                                                  t "header_upstream" false; ([72; 10; 105], false); t "x y" true;
                                                  t "sub" false; t "{" true; t "opt" false; t "import" false; t "deep" true; t "}" true;
                                                  t "}" true]);
                               (t "root" false, [t "/other" true]) ] |};
               {| a_key := t ":2015" false; a_keys := []; a_lines := [ (t "gzip" true, []) ] |} ] in
  forallb (fun p => okq (fst p)) (a_flat_all cfg) = true /\
  forallb (block_ok env) (annot_blocks 0 1%Z cfg) = true /\
  map (fun b => (fst b, map (fun g => (fst g, length (snd g))) (snd b)))
      (map (block_res env) (annot_blocks 0 1%Z cfg)) =
  [ ([bs "example.com"%string; bs "www.example.com"%string], [(bs "root"%string, 4%nat); (bs "proxy"%string, 14%nat)]);
    ([bs ":2015"%string], [(bs "gzip"%string, 1%nat)]) ].
Proof. vm_compute. auto. Qed.
Local Close Scope string_scope.

(* ================= imports ================= *)
Section Imports.
Variable env : list (bytes * bytes).
Variable maxi : N.
Variable globs : list ((N * bytes) * list N).
Variable files : list (N * option (list token)).

Lemma next_arg_yes st pre x y rest : at_pos st pre x (y :: rest) -> same_line x y = true ->
  next_arg st = (true, set_cursor st (p_cursor st + 1)).
Proof.
  intros Hpos Hs. pose proof (plen_pos _ _ _ _ Hpos) as Hl. cbn [length] in Hl.
  destruct (p_next_more _ _ _ _ _ Hpos) as [_ Hpos1].
  unfold next_arg. pose proof (tok_at_pos _ _ _ _ Hpos) as Hx. pose proof (tok_at_pos _ _ _ _ Hpos1) as Hy.
  cbn [set_cursor p_cursor] in Hy. unfold tok_at in Hy. cbn [set_cursor p_tokens] in Hy. fold (tok_at st (p_cursor st + 1)) in Hy.
  destruct Hpos as [Ht Hc].
  destruct (p_cursor st <? 0)%Z eqn:E1; [apply Z.ltb_lt in E1; lia|].
  destruct (p_cursor st >=? plen st)%Z eqn:E2; [apply Z.geb_le in E2; lia|].
  rewrite Hx, Hy. rewrite Hs. reflexivity.
Qed.
Lemma next_arg_no st pre x rest :
  at_pos st pre x rest -> match rest with [] => True | y :: _ => same_line x y = false end ->
  fst (next_arg st) = false.
Proof.
  intros Hpos Hs. pose proof (plen_pos _ _ _ _ Hpos) as Hl.
  unfold next_arg. pose proof (tok_at_pos _ _ _ _ Hpos) as Hx.
  destruct (p_cursor st <? 0)%Z eqn:E1; [destruct Hpos as [_ Hc]; apply Z.ltb_lt in E1; lia|].
  destruct (p_cursor st >=? plen st)%Z eqn:E2; [reflexivity|].
  rewrite Hx. destruct rest as [|y rest].
  - assert (Hn : tok_at st (p_cursor st + 1) = None).
    { destruct Hpos as [Ht Hc]. unfold tok_at. rewrite Ht, Hc.
      destruct (Z.of_nat (length pre) + 1 <? 0)%Z; [reflexivity|].
      apply nth_error_None. rewrite app_length. cbn [length]. lia. }
    rewrite Hn. reflexivity.
  - destruct (p_next_more _ _ _ _ _ Hpos) as [_ Hpos1]. pose proof (tok_at_pos _ _ _ _ Hpos1) as Hy.
    cbn [set_cursor p_cursor] in Hy. unfold tok_at in Hy. cbn [set_cursor p_tokens] in Hy. fold (tok_at st (p_cursor st + 1)) in Hy.
    rewrite Hy. rewrite Hs. reflexivity.
Qed.

Definition st_imp (st : pst) (toks : list token) (c : Z) : pst :=
  {| p_tokens := toks; p_cursor := c; p_keys := p_keys st; p_btoks := p_btoks st; p_eof := p_eof st;
     p_snips := p_snips st; p_imports := (p_imports st + 1)%N |}.

(* the pattern names a defined snippet, or resolves (through the glob oracle) to files *)
Definition resolves (st : pst) (arg : token) (pat : bytes) (toks : list token) : Prop :=
  lookup_s (p_snips st) pat = Some toks \/
  (lookup_s (p_snips st) pat = None /\ glob_ok pat = true /\
   exists ids, ids <> [] /\ lookup_g globs (t_file arg) pat = Some ids /\ import_files files ids = POk toks).
(* an import statement [imp arg] whose pattern resolves to the tokens [toks] *)
Definition import_ready (st : pst) (imp arg : token) (post : list token) (pat : bytes) (toks : list token) : Prop :=
  same_line imp arg = true /\ renv env (t_text arg) = pat /\ pat <> [] /\
  match post with [] => True | y :: _ => same_line arg y = false end /\
  resolves st arg pat toks.

Lemma do_import_over st pre imp arg post pat toks :
  at_pos st pre imp (arg :: post) -> import_ready st imp arg post pat toks ->
  (maxi <? p_imports st + 1)%N = true ->
  do_import env maxi globs files st = PErr ECycle.
Proof.
  intros Hpos (Hs & Hpat & Hne & _) Hover.
  unfold do_import. rewrite (next_arg_yes _ _ _ _ _ Hpos Hs).
  destruct (p_next_more _ _ _ _ _ Hpos) as [_ Hpos1]. cbn [negb].
  rewrite (pval_pos _ _ _ _ Hpos1), Hpat. destruct pat; [congruence|].
  cbn [set_cursor p_imports]. rewrite Hover. reflexivity.
Qed.

Lemma do_import_ok st pre imp arg post pat toks :
  at_pos st pre imp (arg :: post) -> import_ready st imp arg post pat toks ->
  (maxi <? p_imports st + 1)%N = false ->
  do_import env maxi globs files st =
  POk (st_imp st (pre ++ map (set_imp (p_imports st + 1)) toks ++ post) (Z.of_nat (length pre))).
Proof.
  intros Hpos (Hs & Hpat & Hne & Hpost & Hres) Hcap.
  unfold do_import. rewrite (next_arg_yes _ _ _ _ _ Hpos Hs).
  destruct (p_next_more _ _ _ _ _ Hpos) as [_ Hpos1]. cbn [negb].
  set (st1 := set_cursor st (p_cursor st + 1)) in *.
  rewrite (pval_pos _ _ _ _ Hpos1), Hpat. destruct pat as [|p0 pt]; [congruence|].
  change (p_imports st1) with (p_imports st). rewrite Hcap.
  pose proof (next_arg_no _ _ _ _ Hpos1 Hpost) as Hno.
  destruct (next_arg st1) as [has2 stx]. cbn [fst] in Hno. subst has2.
  destruct Hpos1 as [Ht1 Hc1]. rewrite app_length in Hc1. cbn [length] in Hc1.
  unfold zslice_to, zslice_from. rewrite Hc1.
  destruct (Z.of_nat (length pre + 1) - 1 <? 0)%Z eqn:E1; [apply Z.ltb_lt in E1; lia|].
  destruct (Z.of_nat (length pre + 1) + 1 <? 0)%Z eqn:E2; [apply Z.ltb_lt in E2; lia|].
  replace (Z.to_nat (Z.of_nat (length pre + 1) - 1)) with (length pre) by lia.
  replace (Z.to_nat (Z.of_nat (length pre + 1) + 1)) with (length pre + 2)%nat by lia.
  unfold slice, slice_from. rewrite Ht1, <- app_assoc. cbn [app].
  rewrite !app_length. cbn [length].
  replace (Nat.leb 0 (length pre)) with true by (symmetry; apply Nat.leb_le; lia).
  replace (Nat.leb (length pre) (length pre + S (S (length post)))) with true by (symmetry; apply Nat.leb_le; lia).
  replace (Nat.leb (length pre + 2) (length pre + S (S (length post)))) with true by (symmetry; apply Nat.leb_le; lia).
  cbn [andb skipn]. rewrite Nat.sub_0_r, firstn_app, Nat.sub_diag, firstn_all. cbn [firstn]. rewrite app_nil_r.
  rewrite skipn_app, skipn_all2 by lia. replace (length pre + 2 - length pre)%nat with 2%nat by lia. cbn [skipn app].
  assert (Himp : imported_tokens globs files st1 (p0 :: pt) = POk toks).
  { unfold imported_tokens. change (p_snips st1) with (p_snips st).
    destruct Hres as [Hsn|(Hsn & Hg & ids & Hids & Hlg & Hif)]; rewrite Hsn; [reflexivity|]. rewrite Hg. cbn [negb].
    assert (Hf : tok_at st1 (p_cursor st1) = Some arg).
    { apply (tok_at_pos st1 (pre ++ [imp]) arg post). split; [rewrite Ht1, <- app_assoc; reflexivity|rewrite app_length; cbn [length]; lia]. }
    rewrite Hf, Hlg. destruct ids as [|i0 ids']; [congruence|]. exact Hif. }
  rewrite Himp.
  f_equal. unfold st_imp. cbn [st1 set_cursor p_keys p_btoks p_eof p_snips p_imports]. f_equal. lia.
Qed.

Lemma directives_lines : forall ls done nxt post f st,
  at_end st done (flat_lines ls ++ nxt :: post) ->
  lines_ok ls nxt = true -> (length (flat_lines ls) < f)%nat ->
  directives env maxi globs files (length ls + f) st =
  directives env maxi globs files f
    (st_with st (done ++ exp_lines env ls ++ nxt :: post) (Z.of_nat (length (done ++ exp_lines env ls)) - 1)
             (push_lines env (p_btoks st) ls)).
Proof.
  induction ls as [|[d seg] r IH]; intros done nxt post f st Hend Hok Hf.
  - cbn [length Nat.add exp_lines flat_lines map concat app push_lines fold_left] in *.
    rewrite app_nil_r. destruct Hend as [Ht Hc]. rewrite <- Ht, <- Hc, <- st_with_eta. reflexivity.
  - rewrite flat_lines_cons in Hend, Hf. cbn [fst snd app length] in Hend, Hf. rewrite app_length in Hf.
    destruct (p_next_end2 _ _ _ _ Hend) as [Hn Hpos]. cbn [length Nat.add directives]. rewrite Hn. cbn [negb].
    cbn [lines_ok] in Hok. repeat (apply andb_true_iff in Hok as [Hok ?]).
    rename H into Hrest, H0 into Hfol, H1 into Hline, H2 into Himp.
    apply negb_true_iff in Hok, Himp.
    rewrite (pval_pos _ _ _ _ Hpos), Hok, Himp.
    set (st1 := set_cursor st (p_cursor st + 1)) in *.
    assert (Hend1 : at_end st1 (done ++ [d]) (seg ++ flat_lines r ++ nxt :: post)).
    { apply at_end_pos. rewrite <- app_assoc in Hpos. exact Hpos. }
    assert (Hpo : post_ok (last (map (exp_tok env) seg) d) (flat_lines r ++ nxt :: post)).
    { apply (post_ok_follow _ _ _ _ _ _ Hfol). }
    rewrite (directive_ok env maxi globs files _ _ _ _ (length r + f) _ Hend1 Hline ltac:(lia) Hpo).
    match goal with |- directives _ _ _ _ _ ?s = _ => set (st2 := s) end.
    assert (Hend2 : at_end st2 (done ++ exp_line env (d, seg)) (flat_lines r ++ nxt :: post)).
    { split; reflexivity. }
    rewrite (IH _ _ _ f _ Hend2 Hrest ltac:(lia)).
    f_equal. unfold st2. rewrite st_with_with. unfold st_with. cbn [st1 set_cursor p_keys p_eof p_snips p_imports p_btoks push_lines fold_left].
    rewrite exp_lines_cons. unfold exp_line. cbn [fst snd].
    f_equal; repeat (rewrite <- ?app_assoc; cbn [app]); reflexivity.
Qed.

(* an import at directive level: the loop continues on the spliced list, one unit of fuel later *)
Lemma directives_import done imp arg post pat toks f st :
  at_end st done (imp :: arg :: post) -> t_text imp = IMPORT ->
  import_ready st imp arg post pat toks -> (maxi <? p_imports st + 1)%N = false ->
  directives env maxi globs files (S f) st =
  directives env maxi globs files f
    (st_imp st (done ++ map (set_imp (p_imports st + 1)) toks ++ post) (Z.of_nat (length done) - 1)).
Proof.
  intros Hend Himp Hready Hcap.
  destruct (p_next_end2 _ _ _ _ Hend) as [Hn Hpos]. cbn [directives]. rewrite Hn. cbn [negb].
  rewrite (pval_pos _ _ _ _ Hpos), Himp. change (beq IMPORT RBRACE) with false. change (beq IMPORT IMPORT) with true. cbn iota.
  assert (Hready' : import_ready (set_cursor st (p_cursor st + 1)) imp arg post pat toks) by exact Hready.
  rewrite (do_import_ok _ _ _ _ _ _ _ Hpos Hready') by exact Hcap.
  reflexivity.
Qed.

(* ---- import chains that never end: every reachable file is "lines; import next; rest" ---- *)
Record node := { n_lines : list dline; n_imp : token; n_arg : token; n_tail : list token; n_pat : bytes; n_next : N }.
Definition node_toks (nd : node) : list token :=
  flat_lines (n_lines nd) ++ n_imp nd :: n_arg nd :: n_tail nd.

Lemma lines_le_flat (ls : list dline) : (length ls <= length (flat_lines ls))%nat.
Proof.
  induction ls as [|l r IH]; [cbn; lia|]. rewrite flat_lines_cons. cbn [length]. rewrite app_length. lia.
Qed.

(* the tokens of a file as they stand after an import: all marked with the import's number *)
Definition tg (o : option N) (t : token) : token := match o with None => t | Some k => set_imp k t end.
Definition tg_line (o : option N) (l : dline) : dline := (tg o (fst l), map (tg o) (snd l)).
Definition tg_node (o : option N) (nd : node) : node :=
  {| n_lines := map (tg_line o) (n_lines nd); n_imp := tg o (n_imp nd); n_arg := tg o (n_arg nd);
     n_tail := map (tg o) (n_tail nd); n_pat := n_pat nd; n_next := n_next nd |}.
Lemma tg_text o t : t_text (tg o t) = t_text t.
Proof. destruct o; reflexivity. Qed.
Lemma tg_file o t : t_file (tg o t) = t_file t.
Proof. destruct o; reflexivity. Qed.
Lemma flat_lines_tg o ls : flat_lines (map (tg_line o) ls) = map (tg o) (flat_lines ls).
Proof.
  induction ls as [|l r IH]; [reflexivity|]. cbn [map]. rewrite !flat_lines_cons, IH.
  cbn [tg_line fst snd map]. rewrite map_app. reflexivity.
Qed.
Lemma node_toks_tg o nd : node_toks (tg_node o nd) = map (tg o) (node_toks nd).
Proof.
  unfold node_toks. cbn [tg_node n_lines n_imp n_arg n_tail]. rewrite flat_lines_tg, map_app. reflexivity.
Qed.

Section Chain.
Variable graph : N -> option node.     (* the files of the chain (and the importing block) *)
Variable L : nat.                      (* bound on the tokens before the import in each of them *)

(* a token that is not on the line of any import argument of the chain (however that is marked) *)
Definition far (y : token) : Prop := forall id nd o, graph id = Some nd -> same_line (tg o (n_arg nd)) y = false.

(* the line structure is required of the file's tokens as written and as marked by an import *)
Definition chain_node (nd : node) : Prop :=
  (forall o, lines_ok (n_lines (tg_node o nd)) (n_imp (tg_node o nd)) = true /\
             same_line (n_imp (tg_node o nd)) (n_arg (tg_node o nd)) = true /\
             Forall far (n_tail (tg_node o nd))) /\
  t_text (n_imp nd) = IMPORT /\
  renv env (t_text (n_arg nd)) = n_pat nd /\ n_pat nd <> [] /\
  glob_ok (n_pat nd) = true /\ lookup_g globs (t_file (n_arg nd)) (n_pat nd) = Some [n_next nd] /\
  (length (flat_lines (n_lines nd)) <= L)%nat /\
  exists nd', graph (n_next nd) = Some nd' /\ lookup_f files (n_next nd) = Some (Some (node_toks nd')).
Definition closed_chain : Prop := forall id nd, graph id = Some nd -> chain_node nd.

Lemma chain_directives : closed_chain -> forall r id nd0 o done post st fuel,
  graph id = Some nd0 -> at_end st done (node_toks (tg_node o nd0) ++ post) -> Forall far post -> p_snips st = [] ->
  (N.to_nat (p_imports st) + r = N.to_nat maxi)%nat ->
  (S r * (L + 2) + L <= fuel)%nat ->
  directives env maxi globs files fuel st = PErr ECycle.
Proof.
  intros Hclosed. induction r as [|r IH]; intros id nd0 o done post st fuel Hg Hend Hfar Hsn Hbud Hfuel;
    destruct (Hclosed _ _ Hg) as (Htag & Himp0 & Hpat0 & Hne & Hglob & Hlg0 & HL0 & nd' & Hg' & Hf');
    destruct (Htag o) as (Hlines & Hsame & Htail);
    set (nd := tg_node o nd0) in *;
    assert (Himp : t_text (n_imp nd) = IMPORT) by (cbn [nd tg_node n_imp]; rewrite tg_text; exact Himp0);
    assert (Hpat : renv env (t_text (n_arg nd)) = n_pat nd) by (cbn [nd tg_node n_arg n_pat]; rewrite tg_text; exact Hpat0);
    assert (Hlg : lookup_g globs (t_file (n_arg nd)) (n_pat nd) = Some [n_next nd]) by (cbn [nd tg_node n_arg n_pat n_next]; rewrite tg_file; exact Hlg0);
    assert (HL : (length (flat_lines (n_lines nd)) <= L)%nat) by (cbn [nd tg_node n_lines]; rewrite flat_lines_tg, map_length; exact HL0);
    rewrite Nat.mul_succ_l in Hfuel;
    pose proof (lines_le_flat (n_lines nd)) as Hll.
  all: unfold node_toks in Hend; rewrite <- app_assoc in Hend; cbn [app] in Hend.
  all: replace fuel with (length (n_lines nd) + (fuel - length (n_lines nd)))%nat by lia.
  all: rewrite (directives_lines (n_lines nd) done (n_imp nd) (n_arg nd :: n_tail nd ++ post) (fuel - length (n_lines nd)) st Hend Hlines ltac:(lia)).
  all: match goal with |- directives _ _ _ _ ?f ?s = _ => set (st1 := s); set (f1 := f) end.
  all: assert (Hend1 : at_end st1 (done ++ exp_lines env (n_lines nd)) (n_imp nd :: n_arg nd :: n_tail nd ++ post))
         by (split; [cbn [st1 st_with p_tokens]; rewrite <- app_assoc; reflexivity|reflexivity]).
  all: destruct f1 as [|f2] eqn:Ef1; [unfold f1 in Ef1; lia|].
  all: destruct (p_next_end2 _ _ _ _ Hend1) as [Hn Hpos]; cbn [directives]; rewrite Hn; cbn [negb].
  all: rewrite (pval_pos _ _ _ _ Hpos), Himp; change (beq IMPORT RBRACE) with false; change (beq IMPORT IMPORT) with true; cbn iota.
  all: set (st2 := set_cursor st1 (p_cursor st1 + 1)) in *.
  all: assert (Hfar2 : Forall far (n_tail nd ++ post)) by (apply Forall_app; split; assumption).
  all: assert (Hready : import_ready st2 (n_imp nd) (n_arg nd) (n_tail nd ++ post) (n_pat nd) (node_toks nd' ++ []))
        by (repeat split; try assumption;
            [ destruct (n_tail nd ++ post) as [|y tl]; [exact I|inversion Hfar2 as [|? ? Hy _]; exact (Hy _ _ o Hg)]
            | right; repeat split; try assumption;
              [ cbn [st2 st1 set_cursor st_with p_snips]; rewrite Hsn; reflexivity
              | exists [n_next nd]; repeat split; [discriminate|exact Hlg|cbn [import_files]; cbn [nd tg_node n_next]; rewrite Hf'; reflexivity] ] ]).
  - (* budget exhausted *)
    rewrite (do_import_over _ _ _ _ _ _ _ Hpos Hready); [reflexivity|].
    cbn [st2 st1 set_cursor st_with p_imports]. apply N.ltb_lt. lia.
  - rewrite (do_import_ok _ _ _ _ _ _ _ Hpos Hready).
    2:{ cbn [st2 st1 set_cursor st_with p_imports]. apply N.ltb_ge. lia. }
    match goal with |- directives _ _ _ _ f2 ?s = _ => set (st3 := s) end.
    apply (IH (n_next nd) nd' (Some (p_imports st2 + 1)) (done ++ exp_lines env (n_lines nd)) (n_tail nd ++ post) st3 f2 Hg').
    + split; cbn [st3 st_imp set_cursor p_tokens p_cursor].
      * rewrite node_toks_tg, app_nil_r, <- !app_assoc. reflexivity.
      * lia.
    + exact Hfar2.
    + cbn [st3 st_imp set_cursor p_snips st2 st1 st_with]. exact Hsn.
    + cbn [st3 st_imp set_cursor p_imports st2 st1 st_with]. lia.
    + unfold f1 in Ef1. lia.
Qed.

(* a server block whose directives run into such a chain: the parse reports the import-cycle error
   (never PFuel), whatever the bound maxi, the length of the cycle, the directive lines in front of
   each import and the tokens after it *)
Theorem parse_cycle_error : closed_chain -> forall id0 entry k ks lb post fuel,
  graph id0 = Some entry ->
  keys_ok env k ks = true -> is_snippet (map (key_of env) (k :: ks)) = false -> t_text lb = LBRACE ->
  Forall far post ->
  (S (N.to_nat maxi) * (L + 2) + L + length ks + 3 <= fuel)%nat ->
  parse_tokens env maxi globs files fuel (k :: ks ++ lb :: node_toks entry ++ post) = PErr ECycle.
Proof.
  intros Hclosed id0 entry k ks lb post fuel Hg Hkeys Hsn Hlb Hfar Hfuel.
  unfold parse_tokens. destruct fuel as [|f]; [lia|]. cbn [parse_all].
  set (T := k :: ks ++ lb :: node_toks entry ++ post).
  assert (Hend : at_end (init_st T) [] T) by (split; reflexivity).
  destruct (p_next_end2 _ _ _ _ Hend) as [Hn Hpos]. rewrite Hn. cbn [negb].
  set (st1 := set_cursor (init_st T) (p_cursor (init_st T) + 1)) in *.
  rewrite parse_one_unfold by (cbn; discriminate).
  assert (Hend0 : at_end (reset_block st1) ([] ++ [k]) (ks ++ lb :: node_toks entry ++ post)) by (split; reflexivity).
  rewrite (addr_ok env maxi globs files _ _ _ _ _ (S f) _ false Hend0 Hkeys Hlb ltac:(lia)).
  cbn [st_keys p_eof reset_block st1 set_cursor init_st p_keys app]. rewrite Hsn.
  match goal with |- context [block_contents _ _ _ _ _ ?s] => set (st2 := s) end.
  assert (Hpos2 : at_pos st2 (k :: ks) lb (node_toks (tg_node None entry) ++ post)).
  { split; cbn [st2 p_tokens p_cursor app]; [rewrite node_toks_tg, map_id; reflexivity|reflexivity]. }
  unfold block_contents. rewrite (pval_pos _ _ _ _ Hpos2), Hlb. change (beq LBRACE LBRACE) with true. cbn iota.
  rewrite (chain_directives Hclosed (N.to_nat maxi) id0 entry None ((k :: ks) ++ [lb]) post st2 (S f) Hg
             (proj2 (at_end_pos _ _ _ _) Hpos2) Hfar eq_refl ltac:(cbn; lia) ltac:(lia)).
  reflexivity.
Qed.
End Chain.

(* ================= snippets: the split text parses like the inline text ================= *)
(* What the repair of F-C10-4/5 establishes about the marks: a token spliced in by import number n
   is on a new line relative to every token that does not carry that number (for NextLine /
   nextOnSameLine / NextBlock and for NextArg alike), and among themselves the spliced tokens keep
   exactly the line structure of their definition. *)
Lemma imported_boundary_l a b n : t_imp a <> n ->
  next_on_new_line a (set_imp n b) = true /\ same_line a (set_imp n b) = false.
Proof.
  intros H. unfold next_on_new_line, same_line. cbn [set_imp t_imp t_file t_line].
  apply N.eqb_neq in H. rewrite H. cbn [negb]. rewrite orb_true_r, andb_false_r. split; reflexivity.
Qed.
Lemma imported_boundary_r a b n : t_imp b <> n ->
  next_on_new_line (set_imp n a) b = true /\ same_line (set_imp n a) b = false.
Proof.
  intros H. unfold next_on_new_line, same_line. cbn [set_imp t_imp t_file t_line].
  assert (H' : (n =? t_imp b) = false) by (apply N.eqb_neq; congruence). rewrite H'.
  cbn [negb]. rewrite orb_true_r, andb_false_r. split; reflexivity.
Qed.
Lemma imported_interior a b n : t_imp a = t_imp b ->
  next_on_new_line (set_imp n a) (set_imp n b) = next_on_new_line a b /\
  same_line (set_imp n a) (set_imp n b) = same_line a b.
Proof.
  intros H. unfold next_on_new_line, same_line, tok_breaks. cbn [set_imp t_imp t_file t_line t_text t_envnl].
  rewrite H, !N.eqb_refl. split; reflexivity.
Qed.

Lemma imported_tokens_line_structure a b n :
  (t_imp a <> n -> next_on_new_line a (set_imp n b) = true /\ same_line a (set_imp n b) = false) /\
  (t_imp b <> n -> next_on_new_line (set_imp n a) b = true /\ same_line (set_imp n a) b = false) /\
  (t_imp a = t_imp b -> next_on_new_line (set_imp n a) (set_imp n b) = next_on_new_line a b /\
                        same_line (set_imp n a) (set_imp n b) = same_line a b).
Proof.
  split; [apply imported_boundary_l|]. split; [apply imported_boundary_r|apply imported_interior].
Qed.
Lemma env_value_keeps_line_structure (t u : token) :
  next_on_new_line (exp_tok env t) u = next_on_new_line t u /\
  same_line (exp_tok env t) u = same_line t u /\
  next_on_new_line u (exp_tok env t) = next_on_new_line u t /\
  same_line u (exp_tok env t) = same_line u t.
Proof.
  split; [apply nnl_retext_l|]. split; [apply same_line_retext_l|]. split; reflexivity.
Qed.

Section Snippets.
Variable snips : list (bytes * list token).
Variable post : list token.            (* what follows the directive *)

(* [seg_exp prev n nest src out n' k]: after the token [prev], with import counter [n], at brace depth
   [nest], the rest [src] of a directive AS WRITTEN — in which an `import <snippet>` may stand at the
   start of any line inside a sub-block, the snippet bodies again containing such imports, to any
   depth — is the same directive as the token list [out] written INLINE: [out] is [src] with every
   such import statement replaced by the tokens of the snippet (marked with the number of the
   import), recursively; [n'] is the counter afterwards and [k] the number of parser steps.  The
   side conditions of the token rules are those of the inline guard [line_ok]. *)
Inductive seg_exp : token -> N -> Z -> list token -> list token -> N -> nat -> Prop :=
| se_nil prev n : seg_exp prev n 0%Z [] [] n 0
| se_lb prev n nest x r out n' k : beq (t_text x) LBRACE = true ->
    seg_exp x n (nest + 1)%Z r out n' k -> seg_exp prev n nest (x :: r) (x :: out) n' (S k)
| se_rb prev n nest x r out n' k : beq (t_text x) LBRACE = false ->
    (next_on_new_line prev x && (nest =? 0)%Z) = false -> beq (t_text x) RBRACE = true -> (0 <? nest)%Z = true ->
    seg_exp x n (nest - 1)%Z r out n' k -> seg_exp prev n nest (x :: r) (x :: out) n' (S k)
| se_tok prev n nest x r out n' k : beq (t_text x) LBRACE = false ->
    (next_on_new_line prev x && (nest =? 0)%Z) = false -> beq (t_text x) RBRACE = false ->
    (beq (t_text x) IMPORT && next_on_new_line prev x) = false ->
    seg_exp x n nest r out n' k -> seg_exp prev n nest (x :: r) (x :: out) n' (S k)
| se_imp prev n nest imp arg r body out n' k :
    t_text imp = IMPORT -> next_on_new_line prev imp = true -> (nest =? 0)%Z = false ->
    same_line imp arg = true -> renv env (t_text arg) <> [] ->
    match r ++ post with [] => True | y :: _ => same_line arg y = false end ->
    lookup_s snips (renv env (t_text arg)) = Some body ->
    (maxi <? n + 1)%N = false ->
    seg_exp prev (n + 1) nest (map (set_imp (n + 1)) body ++ r) out n' k ->
    seg_exp prev n nest (imp :: arg :: r) out n' (S k).

(* the expansion satisfies the guard of the structure theorem: it is a well-formed inline line *)
Lemma seg_exp_line_ok prev n nest src out n' k :
  seg_exp prev n nest src out n' k -> line_ok prev out nest = true.
Proof.
  induction 1 as [| ? ? ? ? ? ? ? ? Hlb _ IH | ? ? ? ? ? ? ? ? Hlb Hnl Hrb Hn _ IH
                  | ? ? ? ? ? ? ? ? Hlb Hnl Hrb Him _ IH | ]; cbn [line_ok].
  - reflexivity.
  - rewrite Hlb. exact IH.
  - rewrite Hlb, Hnl, Hrb, Hn. exact IH.
  - rewrite Hlb, Hnl, Hrb, Him. exact IH.
  - assumption.
Qed.
Lemma seg_exp_len prev n nest src out n' k :
  seg_exp prev n nest src out n' k -> (length out <= k)%nat.
Proof. induction 1; cbn [length]; lia. Qed.

Definition st_out (st : pst) (toks : list token) (c : Z) (bt : list (bytes * list token)) (n : N) : pst :=
  {| p_tokens := toks; p_cursor := c; p_keys := p_keys st; p_btoks := bt; p_eof := p_eof st;
     p_snips := p_snips st; p_imports := n |}.

Lemma last_cons_def {A} (x : A) l d : last (x :: l) d = last l x.
Proof. revert x d. induction l as [|y l IH]; intros x d; [reflexivity|]. change (last (x :: y :: l) d) with (last (y :: l) d). change (last (y :: l) x) with (last (y :: l) x). rewrite !IH. reflexivity. Qed.

(* the parser on the text AS WRITTEN reaches exactly the state it reaches on the inline tokens *)
Lemma dloop_exp prev n nest src out n' k : seg_exp prev n nest src out n' k ->
  forall pre cur fuel dir st,
  at_pos st pre cur (src ++ post) -> (forall y, next_on_new_line cur y = next_on_new_line prev y) ->
  p_snips st = snips -> p_imports st = n -> (k < fuel)%nat ->
  post_ok (last out prev) post ->
  directive_loop env maxi globs files fuel st dir nest =
  POk (st_out st (pre ++ cur :: map (exp_tok env) out ++ post) (Z.of_nat (length pre + length out))
              (push_all (p_btoks st) dir (map (exp_tok env) out)) n').
Proof.
  induction 1 as [ prev n
                 | prev n nest x r out n' k Hlb Hse IH
                 | prev n nest x r out n' k Hlb Hnl Hrb Hn Hse IH
                 | prev n nest x r out n' k Hlb Hnl Hrb Him Hse IH
                 | prev n nest imp arg r body out n' k Himp Hnl Hnest Hsame Hne Hpost Hlook Hcap Hse IH ];
    intros pre cur fuel dir st Hpos Hsim Hsn Hcnt Hfuel Hpo.
  - (* end of the directive *)
    destruct fuel as [|f]; [lia|]. cbn [directive_loop app map length push_all fold_left last] in *.
    destruct post as [|u post'].
    + rewrite (p_next_end _ _ _ Hpos). cbn [negb]. change (0 <? 0)%Z with false. cbn iota.
      destruct Hpos as [Ht Hc]. f_equal. unfold st_out. destruct st; cbn in *. subst. f_equal. lia.
    + destruct (p_next_more _ _ _ _ _ Hpos) as [Hn1 Hpos1]. rewrite Hn1. cbn [negb].
      destruct Hpo as [Hu Hnlu].
      rewrite (pval_pos _ _ _ _ Hpos1), Hu, (is_new_line_pos _ _ _ _ _ Hpos1), Hsim, Hnlu.
      cbn [andb]. change (0 =? 0)%Z with true. cbn iota.
      destruct Hpos as [Ht Hc]. f_equal. unfold st_out, set_cursor. destruct st; cbn in *. subst. f_equal. lia.
  - (* "{" *)
    destruct fuel as [|f]; [lia|]. cbn [app] in Hpos. destruct (p_next_more _ _ _ _ _ Hpos) as [Hn1 Hpos1].
    cbn [directive_loop]. rewrite Hn1. cbn [negb].
    set (st1 := set_cursor st (p_cursor st + 1)) in *.
    rewrite (pval_pos _ _ _ _ Hpos1), (tok_at_pos _ _ _ _ Hpos1), Hlb.
    match goal with |- directive_loop _ _ _ _ f ?s dir _ = _ => set (st2 := s) end.
    assert (Hpos2 : at_pos st2 (pre ++ [cur]) (exp_tok env x) (r ++ post)).
    { split; [cbn [st2 push_tok p_tokens]; rewrite (set_tok_text_pos _ _ _ _ _ Hpos1); reflexivity|destruct Hpos1 as [_ Hc1]; exact Hc1]. }
    rewrite last_cons_def in Hpo.
    rewrite (IH _ _ f dir st2 Hpos2 (fun y => nnl_exp_l env x y) Hsn Hcnt ltac:(lia) Hpo).
    f_equal. unfold st_out. cbn [st2 push_tok set_tok_text set_cursor st1 p_keys p_eof p_snips p_imports p_btoks map length push_all fold_left].
    rewrite <- app_assoc. cbn [app]. rewrite app_length. cbn [length]. f_equal. lia.
  - (* "}" *)
    destruct fuel as [|f]; [lia|]. cbn [app] in Hpos. destruct (p_next_more _ _ _ _ _ Hpos) as [Hn1 Hpos1].
    cbn [directive_loop]. rewrite Hn1. cbn [negb].
    set (st1 := set_cursor st (p_cursor st + 1)) in *.
    rewrite (pval_pos _ _ _ _ Hpos1), (is_new_line_pos _ _ _ _ _ Hpos1), (tok_at_pos _ _ _ _ Hpos1), Hlb, Hsim, Hnl, Hrb, Hn.
    cbn [andb].
    match goal with |- directive_loop _ _ _ _ f ?s dir _ = _ => set (st2 := s) end.
    assert (Hpos2 : at_pos st2 (pre ++ [cur]) (exp_tok env x) (r ++ post)).
    { split; [cbn [st2 push_tok p_tokens]; rewrite (set_tok_text_pos _ _ _ _ _ Hpos1); reflexivity|destruct Hpos1 as [_ Hc1]; exact Hc1]. }
    rewrite last_cons_def in Hpo.
    rewrite (IH _ _ f dir st2 Hpos2 (fun y => nnl_exp_l env x y) Hsn Hcnt ltac:(lia) Hpo).
    f_equal. unfold st_out. cbn [st2 push_tok set_tok_text set_cursor st1 p_keys p_eof p_snips p_imports p_btoks map length push_all fold_left].
    rewrite <- app_assoc. cbn [app]. rewrite app_length. cbn [length]. f_equal. lia.
  - (* an ordinary token *)
    destruct fuel as [|f]; [lia|]. cbn [app] in Hpos. destruct (p_next_more _ _ _ _ _ Hpos) as [Hn1 Hpos1].
    cbn [directive_loop]. rewrite Hn1. cbn [negb].
    set (st1 := set_cursor st (p_cursor st + 1)) in *.
    rewrite (pval_pos _ _ _ _ Hpos1), (is_new_line_pos _ _ _ _ _ Hpos1), (tok_at_pos _ _ _ _ Hpos1), Hlb, Hsim, Hnl, Hrb, Him.
    cbn [andb].
    match goal with |- directive_loop _ _ _ _ f ?s dir _ = _ => set (st2 := s) end.
    assert (Hpos2 : at_pos st2 (pre ++ [cur]) (exp_tok env x) (r ++ post)).
    { split; [cbn [st2 push_tok p_tokens]; rewrite (set_tok_text_pos _ _ _ _ _ Hpos1); reflexivity|destruct Hpos1 as [_ Hc1]; exact Hc1]. }
    rewrite last_cons_def in Hpo.
    rewrite (IH _ _ f dir st2 Hpos2 (fun y => nnl_exp_l env x y) Hsn Hcnt ltac:(lia) Hpo).
    f_equal. unfold st_out. cbn [st2 push_tok set_tok_text set_cursor st1 p_keys p_eof p_snips p_imports p_btoks map length push_all fold_left].
    rewrite <- app_assoc. cbn [app]. rewrite app_length. cbn [length]. f_equal. lia.
  - (* `import <snippet>` at the start of a line inside a sub-block *)
    destruct fuel as [|f]; [lia|]. cbn [app] in Hpos. destruct (p_next_more _ _ _ _ _ Hpos) as [Hn1 Hpos1].
    cbn [directive_loop]. rewrite Hn1. cbn [negb].
    set (st1 := set_cursor st (p_cursor st + 1)) in *.
    rewrite (pval_pos _ _ _ _ Hpos1), (is_new_line_pos _ _ _ _ _ Hpos1), Himp, Hsim, Hnl, Hnest.
    change (beq IMPORT LBRACE) with false. change (beq IMPORT RBRACE) with false. change (beq IMPORT IMPORT) with true.
    cbn [andb]. cbn iota.
    assert (Hready : import_ready st1 imp arg (r ++ post) (renv env (t_text arg)) body).
    { repeat split; try assumption. left. cbn [st1 set_cursor p_snips]. rewrite Hsn. exact Hlook. }
    rewrite (do_import_ok _ _ _ _ _ _ _ Hpos1 Hready) by (cbn [st1 set_cursor p_imports]; rewrite Hcnt; exact Hcap).
    match goal with |- directive_loop _ _ _ _ f ?s dir _ = _ => set (st2 := s) end.
    assert (Hpos2 : at_pos st2 pre cur ((map (set_imp (n + 1)) body ++ r) ++ post)).
    { destruct Hpos as [Ht Hc]. split; cbn [st2 st_imp set_cursor st1 p_tokens p_cursor p_imports].
      - rewrite Hcnt, <- !app_assoc. reflexivity.
      - rewrite app_length. cbn [length]. lia. }
    rewrite (IH _ _ f dir st2 Hpos2 Hsim Hsn ltac:(cbn [st2 st_imp set_cursor st1 p_imports]; rewrite Hcnt; reflexivity) ltac:(lia) Hpo).
    reflexivity.
Qed.

(* THE EQUIVALENCE: a directive written with snippet imports (at the start of lines inside its
   sub-blocks, nested to any depth, snippets importing snippets) is parsed into exactly the state
   into which the directive written inline — the snippet tokens in place of the import statements —
   is parsed; only the import counter differs.  In particular the directive's tokens, their order
   and their line structure are those of the inline text. *)
Definition with_imports (n : N) (r : pres pst) : pres pst :=
  match r with
  | POk st => POk (st_out st (p_tokens st) (p_cursor st) (p_btoks st) n)
  | e => e
  end.
Theorem import_equiv_snippet d src out n' k done fuel st :
  seg_exp d (p_imports st) 0%Z src out n' k ->
  at_end st (done ++ [d]) (src ++ post) -> p_snips st = snips -> (k < fuel)%nat ->
  post_ok (last out d) post ->
  directive env maxi globs files fuel st =
  with_imports n' (directive env maxi globs files fuel
                     (st_with st ((done ++ [d]) ++ out ++ post) (p_cursor st) (p_btoks st))) /\
  exists r, directive env maxi globs files fuel st = POk r.
Proof.
  intros Hse Hend Hsn Hfuel Hpo.
  pose proof (seg_exp_line_ok _ _ _ _ _ _ _ Hse) as Hline.
  pose proof (seg_exp_len _ _ _ _ _ _ _ Hse) as Hlen.
  set (sti := st_with st ((done ++ [d]) ++ out ++ post) (p_cursor st) (p_btoks st)).
  assert (Hendi : at_end sti (done ++ [d]) (out ++ post)).
  { destruct Hend as [_ Hc]. split; [reflexivity|exact Hc]. }
  assert (Hpoi : post_ok (last (map (exp_tok env) out) d) post).
  { destruct post as [|u post']; [exact I|]. destruct Hpo as [H1 H2]. split; [exact H1|].
    rewrite nnl_last_exp. exact H2. }
  rewrite (directive_ok env maxi globs files _ _ _ _ fuel sti Hendi Hline ltac:(lia) Hpoi).
  assert (Hdir : directive env maxi globs files fuel st =
    POk (st_out st ((done ++ exp_line env (d, out)) ++ post) (Z.of_nat (length (done ++ exp_line env (d, out))) - 1)
                (push_line env (p_btoks st) (d, out)) n')).
  { apply at_end_pos in Hend. unfold directive. rewrite (tok_at_pos _ _ _ _ Hend).
    assert (Hpos' : at_pos (push_tok st (renv env (t_text d)) d) done d (src ++ post)) by exact Hend.
    rewrite (dloop_exp _ _ _ _ _ _ _ Hse done d fuel (renv env (t_text d)) _ Hpos' (fun y => eq_refl) Hsn eq_refl Hfuel Hpo).
    f_equal. unfold st_out, push_line, exp_line. cbn [push_tok p_keys p_btoks p_eof p_snips p_imports fst snd].
    rewrite <- !app_assoc. cbn [app]. rewrite !app_length. cbn [length]. rewrite map_length.
    f_equal. lia. }
  split; [|eexists; exact Hdir].
  rewrite Hdir. cbn [with_imports]. unfold st_out, st_with, sti. cbn [p_tokens p_cursor p_btoks p_keys p_eof p_snips st_with]. reflexivity.
Qed.
End Snippets.
End Imports.

(* a concrete chain: the main block imports c.conf, which imports itself *)
Module CycleExample.
Local Open Scope string_scope.
Definition tk (f : N) (l : Z) (s : string) : token := {| t_file := f; t_line := l; t_text := bs s; t_imp := 0; t_envnl := 0%Z |}.
Definition entry : node :=
  {| n_lines := [(tk 0 2 "gzip", [])]; n_imp := tk 0 3 "import"; n_arg := tk 0 3 "c.conf"; n_tail := [];
     n_pat := bs "c.conf"; n_next := 1 |}.
Definition node1 : node :=
  {| n_lines := [(tk 1 1 "dir1", [tk 1 1 "x"])]; n_imp := tk 1 2 "import"; n_arg := tk 1 2 "c.conf";
     n_tail := [tk 1 3 "dir2"; tk 1 3 "after"]; n_pat := bs "c.conf"; n_next := 1 |}.
Definition graph (id : N) : option node :=
  if id =? 0 then Some entry else if id =? 1 then Some node1 else None.
Definition files : list (N * option (list token)) := [(1, Some (node_toks node1))].
Definition globs : list ((N * bytes) * list N) := [((0, bs "c.conf"), [1]); ((1, bs "c.conf"), [1])].
Definition rb : token := tk 0 4 "}".

Ltac sl_tac := unfold same_line, tg, set_imp; cbn; rewrite ?andb_false_r; reflexivity.
Ltac far_tac :=
  let i := fresh "i" in let n := fresh "n" in let o' := fresh "o" in let Hi := fresh "Hi" in
  intros i n o' Hi; unfold graph in Hi;
  destruct (i =? 0); [injection Hi as <-; destruct o'; sl_tac|];
  destruct (i =? 1); [injection Hi as <-; destruct o'; sl_tac|discriminate].

Lemma chain_closed : closed_chain [] globs files graph 2 .
Proof.
  intros id nd H. unfold graph in H.
  destruct (id =? 0); [injection H as <-|destruct (id =? 1); [injection H as <-|discriminate]].
  all: unfold chain_node.
  all: split; [intros o; split; [|split];
                [ destruct o; [cbn; unfold follow_ok, next_on_new_line; cbn; rewrite ?N.eqb_refl; reflexivity|vm_compute; reflexivity]
                | destruct o; [unfold same_line; cbn; rewrite ?N.eqb_refl; reflexivity|vm_compute; reflexivity]
                | destruct o; cbn [tg_node n_tail map entry node1]; repeat constructor; far_tac ]|].
  all: split; [reflexivity|]; split; [vm_compute; reflexivity|]; split; [discriminate|];
       split; [vm_compute; reflexivity|]; split; [vm_compute; reflexivity|]; split; [vm_compute; lia|];
       exists node1; split; reflexivity.
Qed.
Lemma rb_far : Forall (far graph) [rb].
Proof. repeat constructor; far_tac. Qed.
(* the tokens are those of the texts *)
Lemma texts :
  lex (bs "a.com {
gzip
import c.conf
}
") = tk 0 1 "a.com" :: [] ++ tk 0 1 "{" :: node_toks entry ++ [rb] /\
  retag 1 (lex (bs "dir1 x
import c.conf
dir2 after
")) = node_toks node1.
Proof. split; vm_compute; reflexivity. Qed.
End CycleExample.

(* the former witness of F-C10-5, as tokens: a snippet whose body starts with an import, used inside
   a sub-block after a later line *)
Module SnippetExample.
Local Open Scope string_scope.
Definition split := bs "(t) {
	inner1 x
}
(s) {
	import t
}
a.com {
	proxy / b {
		opt y
		import s
	}
}
".
Definition inline := bs "a.com {
	proxy / b {
		opt y
		inner1 x
	}
}
".
Definition tk (l : Z) (s : string) (i : N) : token := {| t_file := 0; t_line := l; t_text := bs s; t_imp := i; t_envnl := 0%Z |}.
Definition snips : list (bytes * list token) := [(bs "t", [tk 2 "inner1" 0; tk 2 "x" 0]); (bs "s", [tk 5 "import" 0; tk 5 "t" 0])].
Definition d := tk 8 "proxy" 0.
Definition src := [tk 8 "/" 0; tk 8 "b" 0; tk 8 "{" 0; tk 9 "opt" 0; tk 9 "y" 0; tk 10 "import" 0; tk 10 "s" 0; tk 11 "}" 0].
Definition out := [tk 8 "/" 0; tk 8 "b" 0; tk 8 "{" 0; tk 9 "opt" 0; tk 9 "y" 0; tk 2 "inner1" 2; tk 2 "x" 2; tk 11 "}" 0].
Definition post := [tk 12 "}" 0].
Ltac side := vm_compute; first [reflexivity | discriminate | exact I].
Ltac step :=
  first [ eapply se_nil
        | eapply se_lb; [side|]
        | eapply se_rb; [side|side|side|side|]
        | eapply se_tok; [side|side|side|side|]
        | eapply se_imp; [side|side|side|side|side|side|side|side|cbn [map app set_imp t_file t_line t_text t_imp t_envnl]] ].
Lemma expands : seg_exp [] 100 snips post d 0 0%Z src out 2 10.
Proof. unfold src, out, d, post, snips. repeat step. Qed.
End SnippetExample.

(* ================= environment expansion: one pass, no rescanning ================= *)
Transparent renv.
Lemma index_sub_from_spec : forall s sub i n, index_sub_from s sub i = Some n ->
  exists k, n = (i + k)%nat /\ (k <= length s)%nat /\ has_prefix (skipn k s) sub = true.
Proof.
  induction s as [|c r IH]; intros sub i n H; cbn [index_sub_from] in H.
  - destruct (has_prefix [] sub) eqn:E; [|discriminate]. injection H as <-. exists 0%nat. cbn. repeat split; [lia|lia|exact E].
  - destruct (has_prefix (c :: r) sub) eqn:E.
    + injection H as <-. exists 0%nat. repeat split; [lia|cbn; lia|exact E].
    + apply IH in H as (k & -> & Hk & Hp). exists (S k). repeat split; [lia|cbn; lia|exact Hp].
Qed.

(* replace_refs only ever appends to [done]: whatever has been produced (including substituted
   values) is a prefix of the result and is never looked at again *)
Lemma replace_refs_prefix : forall fuel env done s rs re,
  exists tl, replace_refs fuel env done s rs re = done ++ tl.
Proof.
  induction fuel as [|f IH]; intros env done s rs re; cbn [replace_refs]; [eexists; reflexivity|].
  destruct (index_sub s rs) as [i|]; [|eexists; reflexivity].
  destruct (index_sub (skipn i s) re) as [e0|]; [|eexists; reflexivity].
  destruct (Nat.ltb (length rs) e0); [|eexists; reflexivity].
  destruct (IH env (done ++ firstn i s ++ getenv env (firstn (e0 - length rs) (skipn (i + length rs) s)))
               (skipn (i + e0 + length re) s) rs re) as [tl Htl].
  rewrite Htl, <- app_assoc. eexists; reflexivity.
Qed.

(* the output does not depend on what is already done: the scan state is the unread suffix only *)
Lemma replace_refs_done : forall fuel env done s rs re,
  replace_refs fuel env done s rs re = done ++ replace_refs fuel env [] s rs re.
Proof.
  induction fuel as [|f IH]; intros env done s rs re; cbn [replace_refs]; [reflexivity|].
  destruct (index_sub s rs) as [i|]; [|reflexivity].
  destruct (index_sub (skipn i s) re) as [e0|]; [|reflexivity].
  destruct (Nat.ltb (length rs) e0); [|reflexivity].
  rewrite IH. rewrite (IH env ([] ++ _)). cbn [app]. rewrite <- !app_assoc. reflexivity.
Qed.

(* one step of the pass: text before the reference, the VALUE VERBATIM, then the expansion of the
   rest of the input only — the value is never scanned, even if it contains a reference *)
Lemma replace_refs_step f env s rs re i e0 :
  index_sub s rs = Some i -> index_sub (skipn i s) re = Some e0 -> Nat.ltb (length rs) e0 = true ->
  replace_refs (S f) env [] s rs re =
  firstn i s ++ getenv env (firstn (e0 - length rs) (skipn (i + length rs) s)) ++
  replace_refs f env [] (skipn (i + e0 + length re) s) rs re.
Proof.
  intros H1 H2 H3. cbn [replace_refs]. rewrite H1, H2, H3. rewrite replace_refs_done. cbn [app].
  rewrite <- app_assoc. reflexivity.
Qed.

(* termination of the pass: each step consumes at least one character, so the length of the input
   is enough fuel: more fuel never changes the result *)
Lemma skipn_length_lt {A} (s : list A) n : (0 < n)%nat -> s <> [] -> (length (skipn n s) < length s)%nat.
Proof. intros Hn Hs. rewrite skipn_length. destruct s; [congruence|]. cbn [length]. lia. Qed.

Lemma replace_refs_fuel : forall n f env done s rs re, (length s < n)%nat -> (n <= f)%nat -> re <> [] ->
  replace_refs f env done s rs re = replace_refs n env done s rs re.
Proof.
  induction n as [|n IH]; intros f env done s rs re Hs Hf Hre; [lia|].
  destruct f as [|f]; [lia|]. cbn [replace_refs].
  destruct (index_sub s rs) as [i|] eqn:E1; [|reflexivity].
  destruct (index_sub (skipn i s) re) as [e0|] eqn:E2; [|reflexivity].
  destruct (Nat.ltb (length rs) e0) eqn:E3; [|reflexivity].
  apply IH; [|lia|exact Hre].
  apply Nat.ltb_lt in E3.
  assert (length (skipn (i + e0 + length re) s) < length s)%nat; [|lia].
  apply skipn_length_lt; [destruct re; [congruence|cbn; lia]|].
  intros ->. unfold index_sub in E1. apply index_sub_from_spec in E1 as (k & -> & Hk & _). cbn in Hk.
  assert (k = 0%nat) by lia. subst k. cbn in E2.
  destruct re; [congruence|discriminate].
Qed.

(* ================= lexer: totality facts over ALL rune lists ================= *)
Inductive subseq : list N -> list N -> Prop :=
| ss_nil : subseq [] []
| ss_skip x a b : subseq a b -> subseq a (x :: b)
| ss_take x a b : subseq a b -> subseq (x :: a) (x :: b).

Lemma subseq_nil_l b : subseq [] b.
Proof. induction b; constructor; assumption. Qed.

Definition texts (ts : list token) : list N := concat (map t_text ts).

(* every character of every token text comes from the input, in input order: the lexer only drops
   characters (separators, comments, quotes, the backslash of an escaped quote), it never invents,
   duplicates or reorders one; the text accumulated so far is emitted first *)
Lemma lex_go_subseq : forall inp line val tline c q e,
  exists tl, texts (lex_go inp line val tline c q e) = rev val ++ tl /\
             subseq tl ((if e then [BSL] else []) ++ inp).
Proof.
  induction inp as [|ch r IH]; intros line val tline c q e.
  - cbn [lex_go]. destruct val as [|v0 vr].
    + exists []. split; [reflexivity|]. apply subseq_nil_l.
    + exists []. split; [cbn [texts map concat t_text]; rewrite !app_nil_r; reflexivity|apply subseq_nil_l].
  - cbn [lex_go]. destruct q.
    + (* quoted *)
      destruct (negb e && (ch =? BSL)) eqn:E1.
      { destruct e; [discriminate|]. destruct (IH line val tline c true true) as (tl & H1 & H2).
        exists tl. split; [exact H1|]. cbn [app] in *.
        apply andb_true_iff in E1 as [_ E1]. apply N.eqb_eq in E1. subst ch. exact H2. }
      destruct (negb e && (ch =? QUOTE)) eqn:E2.
      { destruct e; [discriminate|]. destruct (IH line [] 0%Z false false false) as (tl & H1 & H2).
        cbn [rev app] in H1. exists tl. cbn [texts map concat t_text]. fold (texts (lex_go r line [] 0%Z false false false)).
        rewrite H1. split; [reflexivity|]. cbn [app] in *. apply ss_skip. exact H2. }
      destruct e.
      * cbn [andb]. destruct (ch =? QUOTE) eqn:Eq.
        -- cbn [negb]. match goal with |- context [lex_go r ?l ?v tline c true false] => destruct (IH l v tline c true false) as (tl & H1 & H2) end.
           cbn [rev] in H1. rewrite <- app_assoc in H1. cbn [app] in H1, H2 |- *.
           exists (ch :: tl). split; [exact H1|]. apply ss_skip, ss_take, H2.
        -- cbn [negb]. match goal with |- context [lex_go r ?l ?v tline c true false] => destruct (IH l v tline c true false) as (tl & H1 & H2) end.
           cbn [rev] in H1. rewrite <- !app_assoc in H1. cbn [app] in H1, H2 |- *.
           exists (BSL :: ch :: tl). split; [exact H1|]. apply ss_take, ss_take, H2.
      * cbn [andb]. match goal with |- context [lex_go r ?l ?v tline c true false] => destruct (IH l v tline c true false) as (tl & H1 & H2) end.
        cbn [rev] in H1. rewrite <- app_assoc in H1. cbn [app] in H1, H2 |- *.
        exists (ch :: tl). split; [exact H1|]. apply ss_take, H2.
    + (* not quoted: [e] is false on every path that reaches here from [lex]; in general the
         pending backslash is simply dropped *)
      assert (Hdrop : forall tl, subseq tl r -> subseq tl ((if e then [BSL] else []) ++ ch :: r)).
      { intros tl H. destruct e; cbn [app]; repeat apply ss_skip; exact H. }
      assert (Htake : forall tl, subseq tl r -> subseq (ch :: tl) ((if e then [BSL] else []) ++ ch :: r)).
      { intros tl H. destruct e; cbn [app]; [apply ss_skip|]; apply ss_take; exact H. }
      destruct (is_space ch).
      * destruct (ch =? CR).
        { destruct (IH line val tline c false false) as (tl & H1 & H2). exists tl. split; [exact H1|]. apply Hdrop, H2. }
        destruct val as [|v0 vr].
        { match goal with |- context [lex_go r ?l [] tline ?cc false false] => destruct (IH l [] tline cc false false) as (tl & H1 & H2) end.
          exists tl. split; [exact H1|]. apply Hdrop, H2. }
        match goal with |- context [lex_go r ?l [] 0%Z false false false] => destruct (IH l [] 0%Z false false false) as (tl & H1 & H2) end.
        cbn [rev app] in H1. exists tl. cbn [texts map concat t_text].
        match goal with |- context [concat (map t_text ?x)] => change (concat (map t_text x)) with (texts x) end.
        rewrite H1. split; [reflexivity|]. apply Hdrop, H2.
      * destruct (c || (ch =? HASH)).
        { destruct (IH line val tline true false false) as (tl & H1 & H2). exists tl. split; [exact H1|]. apply Hdrop, H2. }
        destruct val as [|v0 vr].
        { destruct (ch =? QUOTE).
          - destruct (IH line [] line false true false) as (tl & H1 & H2). exists tl. split; [exact H1|]. apply Hdrop, H2.
          - destruct (IH line [ch] line false false false) as (tl & H1 & H2). cbn [rev app] in H1.
            exists (ch :: tl). split; [exact H1|]. apply Htake, H2. }
        destruct (IH line (ch :: v0 :: vr) tline false false false) as (tl & H1 & H2).
        cbn [rev] in H1 |- *. rewrite <- !app_assoc in H1. cbn [app] in H1.
        exists (ch :: tl). split; [rewrite <- app_assoc; exact H1|]. apply Htake, H2.
Qed.

Theorem lex_subseq inp : subseq (texts (lex inp)) inp.
Proof.
  unfold lex. destruct inp as [|c r]; [constructor|].
  destruct (c =? BOM).
  - destruct (lex_go_subseq r 1%Z [] 0%Z false false false) as (tl & H1 & H2).
    cbn [rev app] in H1, H2. rewrite H1. apply ss_skip, H2.
  - destruct (lex_go_subseq (c :: r) 1%Z [] 0%Z false false false) as (tl & H1 & H2).
    cbn [rev app] in H1, H2. rewrite H1. exact H2.
Qed.

Lemma subseq_length a b : subseq a b -> (length a <= length b)%nat.
Proof. induction 1; cbn; lia. Qed.
(* consequently the lexer consumes its whole input and its output is bounded by it *)
Corollary lex_texts_length inp : (length (texts (lex inp)) <= length inp)%nat.
Proof. apply subseq_length, lex_subseq. Qed.

(* text projection of a parse result *)
Definition texts_of (r : pres (list block)) : option (list (list bytes * list (bytes * list bytes))) :=
  match r with
  | POk bl => Some (map (fun b => (fst b, map (fun g => (fst g, map t_text (snd g))) (snd b))) bl)
  | _ => None
  end.

(* ================= snippet imports at directive level: the lines of the snippet, then the rest ================= *)
(* An `import <snippet>` standing where a directive may stand, the snippet body being well-formed
   directive lines, followed by ANY token [nxt] that does not carry the mark of this import — a token
   of the importing text, or, on the RETURN from a nested import, a token of the enclosing snippet
   (which carries the mark of an EARLIER import, a smaller number) — whatever the definition-site
   file and line numbers of the body and of [nxt] are (the body may be defined above, below or on the
   very line of [nxt]): the marked body satisfies the guard of the structure theorem with [nxt] as the
   token that follows it, and the parser consumes it as exactly those lines, one directive each,
   leaving [nxt] to start the next line. *)
Section SnippetLines.
Variable env : list (bytes * bytes).
Variable maxi : N.
Variable globs : list ((N * bytes) * list N).
Variable files : list (N * option (list token)).

Definition marked (m : N) (ts : list token) : Prop := Forall (fun t => t_imp t = m) ts.

Lemma line_ok_marked n m : forall seg d nest, t_imp d = m -> marked m seg ->
  line_ok (set_imp n d) (map (set_imp n) seg) nest = line_ok d seg nest.
Proof.
  induction seg as [|x r IH]; intros d nest Hd Hm; [reflexivity|].
  inversion Hm as [|? ? Hx Hr]; subst.
  cbn [map line_ok]. change (t_text (set_imp n x)) with (t_text x).
  destruct (imported_interior d x n ltac:(congruence)) as [Hnl _]. rewrite Hnl.
  rewrite !(IH x) by assumption. reflexivity.
Qed.

Lemma last_map_set_imp n : forall seg d, last (map (set_imp n) seg) (set_imp n d) = set_imp n (last seg d).
Proof.
  induction seg as [|x r IH]; intros d; [reflexivity|].
  cbn [map]. rewrite !last_cons_def. apply IH.
Qed.

Lemma last_marked m : forall seg d, t_imp d = m -> marked m seg -> t_imp (last seg d) = m.
Proof.
  induction seg as [|x r IH]; intros d Hd Hm; [exact Hd|].
  inversion Hm; subst. rewrite last_cons_def. apply IH; assumption.
Qed.

Lemma lines_ok_marked n m nxt : forall ls rb0,
  marked m (flat_lines ls) -> lines_ok ls rb0 = true ->
  t_imp nxt <> n -> beq (t_text nxt) LBRACE = false ->
  lines_ok (map (tg_line (Some n)) ls) nxt = true.
Proof.
  induction ls as [|[d seg] r IH]; intros rb0 Hm Hok Hnx Hlb; [reflexivity|].
  rewrite flat_lines_cons in Hm. cbn [fst snd] in Hm.
  inversion Hm as [|? ? Hd Hm']; subst. apply Forall_app in Hm' as [Hseg Hr].
  cbn [lines_ok] in Hok. repeat (apply andb_true_iff in Hok as [Hok ?]).
  rename H into Hrest, H0 into Hfol, H1 into Hline, H2 into Himp.
  cbn [map tg_line tg fst snd lines_ok]. change (tg (Some n)) with (set_imp n) in *. change (t_text (set_imp n d)) with (t_text d).
  rewrite Hok, Himp, (line_ok_marked n (t_imp d)), Hline by (reflexivity || assumption). cbn [andb].
  rewrite (IH rb0 Hr Hrest Hnx Hlb), andb_true_r.
  rewrite last_map_set_imp. unfold follow_ok in *.
  destruct r as [|[d' seg'] r'].
  - cbn [map head_after]. rewrite Hlb. cbn [negb andb].
    apply (imported_boundary_r (last seg d) nxt n Hnx).
  - cbn [map head_after tg_line tg fst] in *. change (t_text (set_imp n d')) with (t_text d').
    apply andb_true_iff in Hfol as [H1 H2]. rewrite H1. cbn [andb].
    rewrite flat_lines_cons in Hr. cbn [fst] in Hr. inversion Hr as [|? ? Hd' _]; subst.
    destruct (imported_interior (last seg d) d' n) as [Hnl _]; [rewrite Hd'; apply last_marked; [reflexivity|assumption]|].
    rewrite Hnl. exact H2.
Qed.

Theorem import_snippet_lines done imp arg nxt rest pat ls rb0 m f st :
  at_end st done (imp :: arg :: nxt :: rest) -> t_text imp = IMPORT ->
  import_ready env globs files st imp arg (nxt :: rest) pat (flat_lines ls) ->
  (maxi <? p_imports st + 1)%N = false ->
  marked m (flat_lines ls) -> lines_ok ls rb0 = true ->
  t_imp nxt <> (p_imports st + 1)%N -> beq (t_text nxt) LBRACE = false ->
  (length (flat_lines ls) < f)%nat ->
  let n := (p_imports st + 1)%N in
  let ls' := map (tg_line (Some n)) ls in
  lines_ok ls' nxt = true /\
  directives env maxi globs files (S (length ls + f)) st =
  directives env maxi globs files f
    (st_with (st_imp st (done ++ flat_lines ls' ++ nxt :: rest) (Z.of_nat (length done) - 1))
             (done ++ exp_lines env ls' ++ nxt :: rest) (Z.of_nat (length (done ++ exp_lines env ls')) - 1)
             (push_lines env (p_btoks st) ls')).
Proof.
  intros Hend Himp Hready Hcap Hm Hok Hnx Hlb Hf n ls'.
  assert (Hok' : lines_ok ls' nxt = true) by (apply (lines_ok_marked n m nxt ls rb0); assumption).
  split; [exact Hok'|].
  rewrite (directives_import env maxi globs files _ _ _ _ _ _ (length ls + f) _ Hend Himp Hready Hcap).
  fold n. change (set_imp n) with (tg (Some n)). rewrite <- (flat_lines_tg (Some n) ls). fold ls'.
  set (st1 := st_imp st (done ++ flat_lines ls' ++ nxt :: rest) (Z.of_nat (length done) - 1)).
  assert (Hend1 : at_end st1 done (flat_lines ls' ++ nxt :: rest)) by (split; reflexivity).
  assert (Hlen : length ls' = length ls) by apply map_length.
  assert (Hfl : length (flat_lines ls') = length (flat_lines ls)).
  { unfold ls'. rewrite flat_lines_tg. apply map_length. }
  rewrite <- Hlen.
  rewrite (directives_lines env maxi globs files ls' done nxt rest f st1 Hend1 Hok' ltac:(lia)).
  reflexivity.
Qed.
End SnippetLines.

Module ReturnExample.
Import String. Local Open Scope string_scope.
(* the outer snippet is defined ABOVE the inner one: on return from `import inner` the next token,
   `root`, carries the mark 1 of the first import and a line number SMALLER than that of `gzip` *)
Definition split := bs "(outer) {
	import inner
	root /srv
}
(inner) {
	gzip
}
a.com {
	import outer
}
".
Definition inline := bs "a.com {
	gzip
	root /srv
}
".
Definition tk (l : Z) (s : string) (i : N) : token := {| t_file := 0; t_line := l; t_text := bs s; t_imp := i; t_envnl := 0%Z |}.
Definition done := [tk 1 "(outer)" 0; tk 1 "{" 0; tk 2 "import" 0; tk 2 "inner" 0; tk 3 "root" 0; tk 3 "/srv" 0; tk 4 "}" 0;
                    tk 5 "(inner)" 0; tk 5 "{" 0; tk 6 "gzip" 0; tk 7 "}" 0; tk 8 "a.com" 0; tk 8 "{" 0].
Definition imp := tk 2 "import" 1.
Definition arg := tk 2 "inner" 1.
Definition nxt := tk 3 "root" 1.
Definition rest := [tk 3 "/srv" 1; tk 10 "}" 0].
Definition ls : list dline := [(tk 6 "gzip" 0, [])].
Definition st : pst :=
  {| p_tokens := done ++ imp :: arg :: nxt :: rest; p_cursor := 12%Z; p_keys := [bs "a.com"]; p_btoks := []; p_eof := false;
     p_snips := [(bs "outer", [tk 2 "import" 0; tk 2 "inner" 0; tk 3 "root" 0; tk 3 "/srv" 0]); (bs "inner", [tk 6 "gzip" 0])];
     p_imports := 1 |}.
End ReturnExample.

(* the line structure of a printed text is the one written, whatever the values contain: a token
   printed with a line break after it ends its line, one printed with a space does not — for every
   text that can be written inside quotes, line breaks and backslash-line-break continuations included *)
Lemma nth_error_app_len {A} (a : list A) x r : nth_error (a ++ x :: r) (length a) = Some x.
Proof. induction a; cbn; auto. Qed.
Lemma nth_error_app_len_S {A} (a : list A) x y r : nth_error (a ++ x :: y :: r) (S (length a)) = Some y.
Proof. induction a; cbn; auto. Qed.

Theorem printed_value_ends_its_line ts1 t nl u ts2 :
  forallb (fun p => okq (fst p)) (ts1 ++ (t, nl) :: u :: ts2) = true ->
  exists a b,
    nth_error (lex (print (ts1 ++ (t, nl) :: u :: ts2))) (length ts1) = Some a /\
    nth_error (lex (print (ts1 ++ (t, nl) :: u :: ts2))) (S (length ts1)) = Some b /\
    t_text a = t /\ t_text b = fst u /\
    next_on_new_line a b = nl /\ same_line a b = negb nl.
Proof.
  intros Hok. rewrite (lex_print_tokens _ Hok), toks_from_app. cbn [toks_from].
  assert (Hlen : forall l, length (toks_from 0 l ts1) = length ts1).
  { clear. induction ts1 as [|x r IH]; intros l; cbn [toks_from length]; [reflexivity|]. rewrite IH. reflexivity. }
  rewrite <- (Hlen 1%Z).
  eexists. eexists. split; [apply nth_error_app_len|]. split; [apply nth_error_app_len_S|].
  split; [reflexivity|]. split; [reflexivity|].
  unfold next_on_new_line, same_line, tok_breaks, adv. cbn [t_file t_imp t_line t_text t_envnl fst snd].
  rewrite !N.eqb_refl. cbn [negb orb andb].
  destruct nl; [split; [apply Z.ltb_lt; lia|apply Z.eqb_neq; lia]|split; [apply Z.ltb_ge; lia|apply Z.eqb_eq; lia]].
Qed.


(* an expanded token ends where it was written *)
Lemma env_expanded_token_ends_where_written env t u :
  tok_breaks (exp_tok env t) = (count_nl (t_text t) - t_envnl t)%Z /\
  same_line (exp_tok env t) u =
    ((t_file t =? t_file u) && (t_imp t =? t_imp u) && (t_line t + (count_nl (t_text t) - t_envnl t) =? t_line u)%Z).
Proof. split; [apply tok_breaks_retext|unfold exp_tok; rewrite same_line_retext_l; reflexivity]. Qed.

(* ================= where an import argument points ================= *)
Lemma lookup_g_In {B} (l : list ((N * bytes) * B)) f p v :
  lookup_g l f p = Some v -> In ((f, p), v) l.
Proof.
  induction l as [|[[f' p'] v'] l IH]; cbn; [discriminate|].
  destruct ((f' =? f) && beq p' p) eqn:E.
  - intros H. injection H as <-. apply andb_prop in E as [E1 E2].
    apply N.eqb_eq in E1. apply beq_eq in E2. subst. left; reflexivity.
  - intros H. right. apply IH, H.
Qed.

Lemma ids_eqb_eq a : forall b, ids_eqb a b = true -> a = b.
Proof.
  unfold ids_eqb. induction a as [|x a IH]; intros [|y b] H; cbn in H; try discriminate; [reflexivity|].
  apply andb_prop in H as [H1 H2]. apply N.eqb_eq in H1. subst. f_equal. apply IH, H2.
Qed.

Lemma oracle_entry_follows_rule abspaths known globs f pat ids af :
  globs_resolve_ok abspaths known globs = true ->
  lookup_g globs f pat = Some ids -> has_meta pat = false ->
  lookup_f abspaths f = Some af ->
  ids = literal_matches known (glob_pattern af pat).
Proof.
  intros Hok Hl Hm Haf. apply lookup_g_In in Hl.
  unfold globs_resolve_ok in Hok. rewrite forallb_forall in Hok. specialize (Hok _ Hl).
  cbn [fst snd] in Hok. rewrite Hm in Hok. cbn [orb] in Hok.
  unfold resolve_literal in Hok. rewrite Haf in Hok. apply ids_eqb_eq, Hok.
Qed.

(* a relative import argument without meta characters is looked up in the directory of the file that
   contains the import token *)
Lemma import_resolves_relative_to_importer globs files abspaths known st t pat af ids :
  globs_resolve_ok abspaths known globs = true ->
  tok_at st (p_cursor st) = Some t -> lookup_f abspaths (t_file t) = Some af ->
  lookup_s (p_snips st) pat = None -> glob_ok pat = true -> has_meta pat = false -> is_abs pat = false ->
  lookup_g globs (t_file t) pat = Some ids ->
  ids = literal_matches known (fjoin (path_dir af) pat) /\
  imported_tokens globs files st pat =
    match literal_matches known (fjoin (path_dir af) pat) with
    | [] => if has_glob_char pat then POk [] else PErr EImport
    | l => import_files files l
    end.
Proof.
  intros Hok Ht Haf Hs Hg Hm Ha Hl.
  assert (E : ids = literal_matches known (fjoin (path_dir af) pat)).
  { rewrite (oracle_entry_follows_rule _ _ _ _ _ _ _ Hok Hl Hm Haf). unfold glob_pattern. rewrite Ha. reflexivity. }
  split; [exact E|].
  unfold imported_tokens. rewrite Hs, Hg. cbn [negb]. rewrite Ht, Hl, E.
  destruct (literal_matches known (fjoin (path_dir af) pat)); reflexivity.
Qed.

Lemma import_absolute_as_written globs abspaths known st t pat af ids :
  globs_resolve_ok abspaths known globs = true ->
  tok_at st (p_cursor st) = Some t -> lookup_f abspaths (t_file t) = Some af ->
  has_meta pat = false -> is_abs pat = true ->
  lookup_g globs (t_file t) pat = Some ids ->
  ids = literal_matches known pat.
Proof.
  intros Hok Ht Haf Hm Ha Hl.
  rewrite (oracle_entry_follows_rule _ _ _ _ _ _ _ Hok Hl Hm Haf). unfold glob_pattern. rewrite Ha. reflexivity.
Qed.

(* the same relative name written in files of two different directories, each directory holding its
   own file of that name (distinct paths, each known once): the two import sites get DIFFERENT files *)
Lemma literal_matches_unique known gp i :
  NoDup (map snd known) -> In (i, gp) known -> literal_matches known gp = [i].
Proof.
  unfold literal_matches. induction known as [|[j q] known IH]; intros Hnd Hin; [destruct Hin|].
  cbn [map snd] in Hnd. inversion Hnd as [|? ? Hnotin Hnd']; subst.
  cbn [filter snd]. destruct Hin as [Hin|Hin].
  - injection Hin as -> ->. rewrite beq_refl. cbn [map fst]. f_equal.
    assert (F : filter (fun e => beq (snd e) gp) known = []).
    { clear IH Hnd Hnd'. induction known as [|[k r] known IHk]; [reflexivity|].
      cbn [filter snd]. destruct (beq r gp) eqn:E.
      - apply beq_eq in E. subst r. exfalso. apply Hnotin. left; reflexivity.
      - apply IHk. intros H. apply Hnotin. right; exact H. }
    rewrite F. reflexivity.
  - destruct (beq q gp) eqn:E.
    + apply beq_eq in E. subst q. exfalso. apply Hnotin. apply in_map_iff. exists (i, gp). split; [reflexivity|exact Hin].
    + apply IH; assumption.
Qed.

Lemma same_name_two_directories globs files abspaths known st1 st2 t1 t2 pat af1 af2 i1 i2 ids1 ids2 :
  globs_resolve_ok abspaths known globs = true ->
  NoDup (map snd known) ->
  tok_at st1 (p_cursor st1) = Some t1 -> lookup_f abspaths (t_file t1) = Some af1 ->
  tok_at st2 (p_cursor st2) = Some t2 -> lookup_f abspaths (t_file t2) = Some af2 ->
  glob_ok pat = true -> has_meta pat = false -> is_abs pat = false ->
  lookup_s (p_snips st1) pat = None -> lookup_s (p_snips st2) pat = None ->
  In (i1, fjoin (path_dir af1) pat) known -> In (i2, fjoin (path_dir af2) pat) known ->
  lookup_g globs (t_file t1) pat = Some ids1 -> lookup_g globs (t_file t2) pat = Some ids2 ->
  imported_tokens globs files st1 pat = import_files files [i1] /\
  imported_tokens globs files st2 pat = import_files files [i2].
Proof.
  intros Hok Hnd Ht1 Ha1 Ht2 Ha2 Hg Hm Hab Hs1 Hs2 Hi1 Hi2 Hl1 Hl2.
  destruct (import_resolves_relative_to_importer globs files abspaths known st1 t1 pat af1 ids1 Hok Ht1 Ha1 Hs1 Hg Hm Hab Hl1) as [_ E1].
  destruct (import_resolves_relative_to_importer globs files abspaths known st2 t2 pat af2 ids2 Hok Ht2 Ha2 Hs2 Hg Hm Hab Hl2) as [_ E2].
  rewrite (literal_matches_unique _ _ _ Hnd Hi1) in E1. rewrite (literal_matches_unique _ _ _ Hnd Hi2) in E2.
  split; assumption.
Qed.

(* witness: two sites in two directories, both say `import common.conf`, each directory has its own *)
Definition w_base : bytes := bs "/srv/conf"%string.
Definition w_names : list (N * bytes) :=
  [(1, bs "Casketfile"); (2, bs "sites"); (3, bs "sites/a"); (4, bs "sites/a/common.conf"); (5, bs "sites/a/site.conf");
   (6, bs "sites/b"); (7, bs "sites/b/common.conf"); (8, bs "sites/b/site.conf")]%string.
Definition w_files : list (N * option (list N)) :=
  [(1, None); (2, None); (3, None);
   (4, Some (bs "root /srv/a
"%string)); (5, Some (bs "a.example {
  import common.conf
}
"%string));
   (6, None);
   (7, Some (bs "root /srv/b
basicauth / u p
"%string)); (8, Some (bs "b.example {
  import common.conf
}
"%string))].
Definition w_main : list N := bs "import sites/a/site.conf
import sites/b/site.conf
"%string.
Definition w_globs := literal_globs (abs_of w_base w_names) (known_of w_base w_names)
  [(0, bs "sites/a/site.conf"); (0, bs "sites/b/site.conf"); (5, bs "common.conf"); (8, bs "common.conf")]%string.
Definition block_texts (b : block) : list bytes * list (bytes * list bytes) :=
  (fst b, map (fun g => (fst g, map t_text (snd g))) (snd b)).
Definition w_result : option (list (list bytes * list (bytes * list bytes))) :=
  match parse_world [] 100 w_globs w_files w_main with POk bl => Some (map block_texts bl) | _ => None end.
Lemma two_directories_witness :
  globs_resolve_ok (abs_of w_base w_names) (known_of w_base w_names) w_globs = true /\
  lookup_g w_globs 5 (bs "common.conf"%string) = Some [4] /\
  lookup_g w_globs 8 (bs "common.conf"%string) = Some [7] /\
  w_result = Some
      [([bs "a.example"], [(bs "root", [bs "root"; bs "/srv/a"])]);
       ([bs "b.example"], [(bs "root", [bs "root"; bs "/srv/b"]); (bs "basicauth", [bs "basicauth"; bs "/"; bs "u"; bs "p"])])]%string.
Proof.
  split; [vm_compute; reflexivity|]. split; [vm_compute; reflexivity|]. split; [vm_compute; reflexivity|].
  vm_compute. reflexivity.
Qed.

(* ---------- comments of any length are insignificant (round 5: seeded change m10) ---------- *)

Lemma c10_lex_go_in_comment : forall c r line tl,
  Forall (fun ch => ch <> NL) c ->
  lex_go (c ++ NL :: r) line [] tl true false false = lex_go r (line + 1)%Z [] tl false false false.
Proof.
  induction c as [|ch c IH]; intros r line tl Hc.
  - reflexivity.
  - inversion Hc as [|x l Hch Hrest]; subst x l.
    change ((ch :: c) ++ NL :: r) with (ch :: (c ++ NL :: r)).
    cbn [lex_go].
    destruct (is_space ch) eqn:Hs.
    + destruct (ch =? CR) eqn:Hcr.
      * apply IH; assumption.
      * assert (Hnl : (ch =? NL) = false) by (apply N.eqb_neq; assumption).
        rewrite Hnl. apply IH; assumption.
    + cbn [orb]. apply IH; assumption.
Qed.

Lemma c10_comment_any_length : forall c r line tl esc,
  Forall (fun ch => ch <> NL) c ->
  lex_go (HASH :: c ++ NL :: r) line [] tl false false esc = lex_go (NL :: r) line [] tl false false esc.
Proof.
  intros c r line tl esc Hc.
  transitivity (lex_go r (line + 1)%Z [] tl false false false).
  - cbn [lex_go]. change (is_space HASH) with false. cbn [orb]. change (HASH =? HASH) with true. cbn [orb].
    apply c10_lex_go_in_comment; assumption.
  - reflexivity.
Qed.

Lemma c10_comment_at_eof : forall c line tl esc,
  Forall (fun ch => ch <> NL) c ->
  lex_go (HASH :: c) line [] tl false false esc = [].
Proof.
  intros c line tl esc Hc.
  assert (H : forall c line tl, Forall (fun ch => ch <> NL) c -> lex_go c line [] tl true false false = []).
  { clear. induction c as [|ch c IH]; intros line tl Hc; [reflexivity|].
    inversion Hc as [|x l Hch Hrest]; subst x l. cbn [lex_go].
    destruct (is_space ch) eqn:Hs.
    - destruct (ch =? CR) eqn:Hcr; [apply IH; assumption|].
      assert (Hnl : (ch =? NL) = false) by (apply N.eqb_neq; assumption).
      rewrite Hnl. apply IH; assumption.
    - cbn [orb]. apply IH; assumption. }
  cbn [lex_go]. change (is_space HASH) with false. cbn [orb]. change (HASH =? HASH) with true. cbn [orb].
  apply H; assumption.
Qed.

(* a 5000-byte comment (longer than any buffer of the reader) after two tokens, then a third token:
   same tokens, same line numbers as with the bare line break *)
Lemma c10_comment_witness :
  Forall (fun ch => ch <> NL) (repeat 120 5000) /\
  lex (bs "a b #"%string ++ repeat 120 5000 ++ NL :: bs "c"%string) = lex (bs "a b "%string ++ NL :: bs "c"%string) /\
  map (fun t => (t_line t, t_text t)) (lex (bs "a b #"%string ++ repeat 120 5000 ++ NL :: bs "c"%string)) =
    [(1%Z, bs "a"%string); (1%Z, bs "b"%string); (2%Z, bs "c"%string)].
Proof.
  split; [|split; vm_compute; reflexivity].
  apply Forall_forall. intros x Hx. apply repeat_spec in Hx. subst x. discriminate.
Qed.
