(* C10 — Casketfile lexer and (import-free) parser: executable model.
   Lexer mirrors casketfile/lexer.go (lexer.next, load: BOM), rune level.
   Parser mirrors casketfile/parse.go (parseAll/parseOne/begin/addresses/blockContents/directives/
   directive/replaceEnvVars) over the Dispenser cursor; `import` and snippet definitions are
   outside this model (the harness feeds the model the INLINE rendering of a configuration and the
   implementation the same configuration split into imports and snippets). *)
Require Import V.Lib V.GoPath.
Open Scope N_scope.

(* ---------- lexer ---------- *)
Record token := { t_file : N; t_line : Z; t_text : list N }.

Definition is_space (c : N) : bool :=
  (c =? 9) || (c =? 10) || (c =? 11) || (c =? 12) || (c =? 13) || (c =? 32) ||
  (c =? 133) || (c =? 160) || (c =? 5760) || ((8192 <=? c) && (c <=? 8202)) ||
  (c =? 8232) || (c =? 8233) || (c =? 8239) || (c =? 8287) || (c =? 12288).

Definition NL : N := 10.
Definition CR : N := 13.
Definition QUOTE : N := 34.
Definition BSL : N := 92.
Definition HASH : N := 35.
Definition BOM : N := 65279.

(* one pass over the runes; [val] is the current token text reversed, [has] whether a token has
   been started (needed for the empty quoted token), [tline] its line *)
Fixpoint lex_go (inp : list N) (line : Z) (val : list N) (tline : Z)
         (comment quoted escaped : bool) : list token :=
  let mk := {| t_file := 0; t_line := tline; t_text := rev val |} in
  match inp with
  | [] => match val with [] => [] | _ => [mk] end
  | ch :: r =>
    if quoted then
      if negb escaped && (ch =? BSL) then lex_go r line val tline comment true true
      else if negb escaped && (ch =? QUOTE) then mk :: lex_go r line [] 0%Z false false false
      else
        let line' := if ch =? NL then (line + 1)%Z else line in
        let val' := if escaped && negb (ch =? QUOTE) then ch :: BSL :: val else ch :: val in
        lex_go r line' val' tline comment true false
    else if is_space ch then
      if ch =? CR then lex_go r line val tline comment false false
      else
        let line' := if ch =? NL then (line + 1)%Z else line in
        let comment' := if ch =? NL then false else comment in
        match val with
        | [] => lex_go r line' [] tline comment' false false
        | _ => mk :: lex_go r line' [] 0%Z false false false
        end
    else
      let comment' := comment || (ch =? HASH) in
      if comment' then lex_go r line val tline true false false
      else match val with
           | [] => if ch =? QUOTE then lex_go r line [] line false true false
                   else lex_go r line [ch] line false false false
           | _ => lex_go r line (ch :: val) tline false false false
           end
  end.
(* NB: when a token ends inside a comment-free stretch the flags reset, as each call of
   lexer.next starts with fresh locals. *)

Definition lex (inp : list N) : list token :=
  let inp' := match inp with c :: r => if c =? BOM then r else inp | [] => [] end in
  lex_go inp' 1%Z [] 0%Z false false false.

(* ---------- env replacement ---------- *)
Fixpoint index_sub_from (s sub : bytes) (i : nat) : option nat :=
  if has_prefix s sub then Some i
  else match s with [] => None | _ :: r => index_sub_from r sub (S i) end.
Definition index_sub (s sub : bytes) : option nat := index_sub_from s sub 0.

Fixpoint replace_all_fuel (fuel : nat) (s old new : bytes) : bytes :=
  match fuel with
  | O => s
  | S f => match s with
           | [] => []
           | c :: r => if has_prefix s old then new ++ replace_all_fuel f (skipn (length old) s) old new
                       else c :: replace_all_fuel f r old new
           end
  end.
Definition replace_all (s old new : bytes) : bytes :=
  match old with [] => s | _ => replace_all_fuel (S (length s)) s old new end.

Definition getenv (env : list (bytes * bytes)) (name : bytes) : bytes :=
  match find (fun kv => beq (fst kv) name) env with Some kv => snd kv | None => [] end.

(* replaceEnvReferences (single left-to-right pass; substituted text is never re-scanned) *)
Fixpoint replace_refs (fuel : nat) (env : list (bytes * bytes)) (done s rs re : bytes) : bytes :=
  match fuel with
  | O => done ++ s
  | S f =>
    match index_sub s rs with
    | None => done ++ s
    | Some i =>
      match index_sub (skipn i s) re with
      | None => done ++ s
      | Some e0 =>
        if Nat.ltb (length rs) e0 then
          let name := firstn (e0 - length rs) (skipn (i + length rs) s) in
          replace_refs f env (done ++ firstn i s ++ getenv env name) (skipn (i + e0 + length re) s) rs re
        else done ++ s
      end
    end
  end.

Definition replace_env (env : list (bytes * bytes)) (s : bytes) : option bytes :=
  let s1 := replace_refs (S (length s)) env [] s (bs "{%"%string) (bs "%}"%string) in
  Some (replace_refs (S (length s1)) env [] s1 (bs "{$"%string) (bs "}"%string)).

(* ---------- parser ---------- *)
Fixpoint count_nl (s : list N) : Z :=
  match s with [] => 0%Z | c :: r => ((if (c =? NL)%N then 1 else 0) + count_nl r)%Z end.
Definition next_on_new_line (t1 t2 : token) : bool :=
  negb (t_file t1 =? t_file t2) || (t_line t1 + count_nl (t_text t1) <? t_line t2)%Z.

Record pst := { p_tokens : list token; p_cursor : Z; p_keys : list bytes;
                p_btoks : list (bytes * list token); p_eof : bool }.

Definition plen (st : pst) : Z := Z.of_nat (length (p_tokens st)).
Definition tok_at (st : pst) (c : Z) : option token :=
  if (c <? 0)%Z then None else nth_error (p_tokens st) (Z.to_nat c).
Definition pval (st : pst) : bytes :=
  match tok_at st (p_cursor st) with Some t => t_text t | None => [] end.
Definition set_cursor (st : pst) (c : Z) : pst :=
  {| p_tokens := p_tokens st; p_cursor := c; p_keys := p_keys st; p_btoks := p_btoks st; p_eof := p_eof st |}.
Definition p_next (st : pst) : bool * pst :=
  if (p_cursor st <? plen st - 1)%Z then (true, set_cursor st (p_cursor st + 1)) else (false, st).
Definition is_new_line (st : pst) : bool :=
  if (p_cursor st <? 1)%Z then true
  else if (p_cursor st >? plen st - 1)%Z then false
  else match tok_at st (p_cursor st - 1), tok_at st (p_cursor st) with
       | Some a, Some b => next_on_new_line a b
       | _, _ => false
       end.

Inductive pres (A : Type) := POk (v : A) | PErr | PFuel | PUnsupported.
Arguments POk {A} v. Arguments PErr {A}. Arguments PFuel {A}. Arguments PUnsupported {A}.

Definition IMPORT := bs "import"%string.
Definition LBRACE : bytes := [123].
Definition RBRACE : bytes := [125].
Definition COMMA : N := 44.

Definition add_key (st : pst) (k : bytes) : pst :=
  {| p_tokens := p_tokens st; p_cursor := p_cursor st; p_keys := p_keys st ++ [k];
     p_btoks := p_btoks st; p_eof := p_eof st |}.

Section Parser.
Variable env : list (bytes * bytes).

Fixpoint addresses (fuel : nat) (st : pst) (expecting : bool) : pres pst :=
  match fuel with
  | O => PFuel
  | S f =>
    match replace_env env (pval st) with
    | None => PFuel
    | Some tkn =>
      if beq tkn IMPORT && is_new_line st then PUnsupported
      else if beq tkn LBRACE then (if expecting then PErr else POk st)
      else
        let '(st1, exp1) :=
          match rev tkn with
          | [] => (st, expecting)
          | last :: pre => if last =? COMMA then (add_key st (rev pre), true) else (add_key st tkn, false)
          end in
        let '(has, st2) := p_next st1 in
        if exp1 && negb has then PErr
        else if negb has then
          POk {| p_tokens := p_tokens st2; p_cursor := p_cursor st2; p_keys := p_keys st2;
                 p_btoks := p_btoks st2; p_eof := true |}
        else if negb exp1 && is_new_line st2 then POk st2
        else addresses f st2 exp1
    end
  end.

Fixpoint add_btok (m : list (bytes * list token)) (dir : bytes) (t : token) : list (bytes * list token) :=
  match m with
  | [] => [(dir, [t])]
  | (d, ts) :: r => if beq d dir then (d, ts ++ [t]) :: r else (d, ts) :: add_btok r dir t
  end.

Definition set_tok_text (st : pst) (c : Z) (txt : bytes) : pst :=
  let i := Z.to_nat c in
  {| p_tokens := firstn i (p_tokens st) ++
       match skipn i (p_tokens st) with
       | t :: r => {| t_file := t_file t; t_line := t_line t; t_text := txt |} :: r
       | [] => []
       end;
     p_cursor := p_cursor st; p_keys := p_keys st; p_btoks := p_btoks st; p_eof := p_eof st |}.

Definition push_cur (st : pst) (dir : bytes) : pst :=
  match tok_at st (p_cursor st) with
  | Some t => {| p_tokens := p_tokens st; p_cursor := p_cursor st; p_keys := p_keys st;
                 p_btoks := add_btok (p_btoks st) dir t; p_eof := p_eof st |}
  | None => st
  end.

Fixpoint directive_loop (fuel : nat) (st : pst) (dir : bytes) (nesting : Z) : pres pst :=
  match fuel with
  | O => PFuel
  | S f =>
    let '(has, st1) := p_next st in
    if negb has then (if (0 <? nesting)%Z then PErr else POk st1)
    else
      let v := pval st1 in
      let cont (st' : pst) (n' : Z) :=
        match replace_env env (pval st') with
        | None => PFuel
        | Some txt => let st'' := set_tok_text st' (p_cursor st') txt in
                      directive_loop f (push_cur st'' dir) dir n'
        end in
      if beq v LBRACE then cont st1 (nesting + 1)%Z
      else if is_new_line st1 && (nesting =? 0)%Z then POk (set_cursor st1 (p_cursor st1 - 1))
      else if beq v RBRACE && (0 <? nesting)%Z then cont st1 (nesting - 1)%Z
      else if beq v RBRACE && (nesting =? 0)%Z then PErr
      else if beq v IMPORT && is_new_line st1 then PUnsupported
      else cont st1 nesting
  end.

Definition directive (fuel : nat) (st : pst) : pres pst :=
  match replace_env env (pval st) with
  | None => PFuel
  | Some dir => directive_loop fuel (push_cur st dir) dir 0%Z
  end.

Fixpoint directives (fuel : nat) (st : pst) : pres pst :=
  match fuel with
  | O => PFuel
  | S f =>
    let '(has, st1) := p_next st in
    if negb has then POk st1
    else if beq (pval st1) RBRACE then POk st1
    else if beq (pval st1) IMPORT then PUnsupported
    else match directive f st1 with
         | POk st2 => directives f st2
         | e => e
         end
  end.

Definition is_snippet (keys : list bytes) : bool :=
  match keys with
  | [k] => has_prefix k [40] && has_suffix k [41]
  | _ => false
  end.

Definition block_contents (fuel : nat) (st : pst) : pres pst :=
  let opened := beq (pval st) LBRACE in
  let st0 := if opened then st else set_cursor st (p_cursor st - 1) in
  match directives fuel st0 with
  | POk st1 => if opened then (if beq (pval st1) RBRACE then POk st1 else PErr) else POk st1
  | e => e
  end.

Definition parse_one (fuel : nat) (st : pst) : pres pst :=
  let st0 := {| p_tokens := p_tokens st; p_cursor := p_cursor st; p_keys := []; p_btoks := []; p_eof := p_eof st |} in
  match p_tokens st0 with
  | [] => POk st0
  | _ =>
    match addresses fuel st0 false with
    | POk st1 =>
        if p_eof st1 then POk st1
        else if is_snippet (p_keys st1) then PUnsupported
        else block_contents fuel st1
    | e => e
    end
  end.

Definition block := (list bytes * list (bytes * list token))%type.

Fixpoint parse_all (fuel : nat) (st : pst) (acc : list block) : pres (list block) :=
  match fuel with
  | O => PFuel
  | S f =>
    let '(has, st1) := p_next st in
    if negb has then POk (rev acc)
    else match parse_one fuel st1 with
         | POk st2 => parse_all f st2 (match p_keys st2 with [] => acc | _ => (p_keys st2, p_btoks st2) :: acc end)
         | PErr => PErr | PFuel => PFuel | PUnsupported => PUnsupported
         end
  end.
End Parser.

Definition parse (env : list (bytes * bytes)) (inp : list N) : pres (list block) :=
  let toks := lex inp in
  parse_all env (2 * length toks + 4) {| p_tokens := toks; p_cursor := (-1)%Z; p_keys := []; p_btoks := []; p_eof := false |} [].

(* ---------- observable projection and cases ---------- *)
(* blocks projected to texts; directive groups sorted by the harness on both sides (Go map) *)
Definition oblock := (list bytes * list (bytes * list bytes))%type.
Definition project (b : block) : oblock :=
  (fst b, map (fun g => (fst g, map t_text (snd g))) (snd b)).

Fixpoint bytes_leb (a b : bytes) : bool :=
  match a, b with
  | [], _ => true
  | _ :: _, [] => false
  | x :: a', y :: b' => if x <? y then true else if y <? x then false else bytes_leb a' b'
  end.
Fixpoint insert_group (g : bytes * list bytes) (l : list (bytes * list bytes)) :=
  match l with
  | [] => [g]
  | h :: r => if bytes_leb (fst g) (fst h) then g :: l else h :: insert_group g r
  end.
Definition sort_groups (l : list (bytes * list bytes)) := fold_right insert_group [] l.
Definition canon (b : block) : oblock := (fst (project b), sort_groups (snd (project b))).

Definition oblock_eqb (a b : oblock) : bool :=
  list_beq beq (fst a) (fst b) &&
  list_beq (fun g h => beq (fst g) (fst h) && list_beq beq (snd g) (snd h)) (snd a) (snd b).

Inductive obs :=
| OBlocks (bs : list oblock)      (* groups already sorted by directive name *)
| OError (names_file_line : bool)
| OPanic
| OTimeout.

Inductive case :=
(* lexer through NewDispenser: observed (line, text) of every token *)
| CLex (inp : list N) (obs_toks : list (Z * list N))
(* parser: [inp] = the inline text (runes); the implementation parsed [kind]: 0 = the same text,
   1 = the same configuration split into imported files, 2 = with snippets;
   [expected] = the generating AST when the text was rendered from one *)
| CParse (kind : N) (env : list (bytes * bytes)) (inp : list N) (o : obs)
         (expected : option (list oblock)).

Definition judge (c : case) : N :=
  match c with
  | CLex inp ot =>
      let m := map (fun t => (t_line t, t_text t)) (lex inp) in
      verdict (list_beq (fun a b => (fst a =? fst b)%Z && beq (snd a) (snd b)) m ot) true
  | CParse kind env inp o expected =>
      let m := parse env inp in
      let agree :=
        match m, o with
        | POk bl, OBlocks ob => list_beq oblock_eqb (map canon bl) ob
        | PErr, OError _ => true
        | PUnsupported, _ => true
        | PFuel, OTimeout => true
        | _, _ => false
        end in
      let spec :=
        match o with
        | OPanic => false
        | OTimeout => false
        | OError nfl => nfl && match expected with Some _ => false | None => true end
        | OBlocks ob => match expected with Some ex => list_beq oblock_eqb ex ob | None => true end
        end in
      verdict agree spec
  end.
