(* C10 — Casketfile lexer and parser: executable model.
   Lexer mirrors casketfile/lexer.go (lexer.next, load: BOM), rune level.
   Parser mirrors casketfile/parse.go (parseAll/parseOne/begin/addresses/blockContents/directives/
   directive/doImport/doSingleImport/snippetTokens/isSnippet/replaceEnvVars) over the Dispenser
   cursor, with explicit fuel, the import counter (maxImports), checked slice/index operations
   ([PPanic]) and a world oracle for glob expansion and file contents.  Dispenser operations used by
   directive setup code (NextArg, nextOnSameLine, NextBlockNesting, RemainingArgs) are modelled for
   the line-structure observable. *)
Require Import V.Lib V.GoPath.
Open Scope N_scope.

(* ---------- lexer ---------- *)
(* [t_imp]: Token.importID, the number of the import statement that spliced the token in (0: a token
   of the input); [t_envnl]: Token.envLineBreaks, the line breaks that environment values have put
   into the text *)
Record token := { t_file : N; t_line : Z; t_text : list N; t_imp : N; t_envnl : Z }.

Definition is_space (c : N) : bool :=
  (c =? 9) || (c =? 10) || (c =? 11) || (c =? 12) || (c =? 13) || (c =? 32) ||
  (c =? 133) || (c =? 160) || (c =? 5760) || ((8192 <=? c) && (c <=? 8202)) ||
  (c =? 8232) || (c =? 8233) || (c =? 8239) || (c =? 8287) || (c =? 12288).

Definition NL : N := 10.
Definition CR : N := 13.
Definition QUOTE : N := 34.
Definition BSL : N := 92.
Definition HASH : N := 35.
Definition BOM : N := 65279.

(* one pass over the runes; [val] is the current token text reversed, [has] whether a token has
   been started (needed for the empty quoted token), [tline] its line *)
Fixpoint lex_go (inp : list N) (line : Z) (val : list N) (tline : Z)
         (comment quoted escaped : bool) : list token :=
  let mk := {| t_file := 0; t_line := tline; t_text := rev val; t_imp := 0; t_envnl := 0%Z |} in
  match inp with
  | [] => match val with [] => [] | _ => [mk] end
  | ch :: r =>
    if quoted then
      if negb escaped && (ch =? BSL) then lex_go r line val tline comment true true
      else if negb escaped && (ch =? QUOTE) then mk :: lex_go r line [] 0%Z false false false
      else
        let line' := if ch =? NL then (line + 1)%Z else line in
        let val' := if escaped && negb (ch =? QUOTE) then ch :: BSL :: val else ch :: val in
        lex_go r line' val' tline comment true false
    else if is_space ch then
      if ch =? CR then lex_go r line val tline comment false false
      else
        let line' := if ch =? NL then (line + 1)%Z else line in
        let comment' := if ch =? NL then false else comment in
        match val with
        | [] => lex_go r line' [] tline comment' false false
        | _ => mk :: lex_go r line' [] 0%Z false false false
        end
    else
      let comment' := comment || (ch =? HASH) in
      if comment' then lex_go r line val tline true false false
      else match val with
           | [] => if ch =? QUOTE then lex_go r line [] line false true false
                   else lex_go r line [ch] line false false false
           | _ => lex_go r line (ch :: val) tline false false false
           end
  end.
(* NB: when a token ends inside a comment-free stretch the flags reset, as each call of
   lexer.next starts with fresh locals. *)

Definition lex (inp : list N) : list token :=
  let inp' := match inp with c :: r => if c =? BOM then r else inp | [] => [] end in
  lex_go inp' 1%Z [] 0%Z false false false.

(* ---------- env replacement ---------- *)
Fixpoint index_sub_from (s sub : bytes) (i : nat) : option nat :=
  if has_prefix s sub then Some i
  else match s with [] => None | _ :: r => index_sub_from r sub (S i) end.
Definition index_sub (s sub : bytes) : option nat := index_sub_from s sub 0.

Fixpoint replace_all_fuel (fuel : nat) (s old new : bytes) : bytes :=
  match fuel with
  | O => s
  | S f => match s with
           | [] => []
           | c :: r => if has_prefix s old then new ++ replace_all_fuel f (skipn (length old) s) old new
                       else c :: replace_all_fuel f r old new
           end
  end.
Definition replace_all (s old new : bytes) : bytes :=
  match old with [] => s | _ => replace_all_fuel (S (length s)) s old new end.

Definition getenv (env : list (bytes * bytes)) (name : bytes) : bytes :=
  match find (fun kv => beq (fst kv) name) env with Some kv => snd kv | None => [] end.

(* replaceEnvReferences (single left-to-right pass; substituted text is never re-scanned) *)
Fixpoint replace_refs (fuel : nat) (env : list (bytes * bytes)) (done s rs re : bytes) : bytes :=
  match fuel with
  | O => done ++ s
  | S f =>
    match index_sub s rs with
    | None => done ++ s
    | Some i =>
      match index_sub (skipn i s) re with
      | None => done ++ s
      | Some e0 =>
        if Nat.ltb (length rs) e0 then
          let name := firstn (e0 - length rs) (skipn (i + length rs) s) in
          replace_refs f env (done ++ firstn i s ++ getenv env name) (skipn (i + e0 + length re) s) rs re
        else done ++ s
      end
    end
  end.

Definition replace_env (env : list (bytes * bytes)) (s : bytes) : option bytes :=
  let s1 := replace_refs (S (length s)) env [] s (bs "{%"%string) (bs "%}"%string) in
  Some (replace_refs (S (length s1)) env [] s1 (bs "{$"%string) (bs "}"%string)).

(* ---------- parser ---------- *)
Fixpoint count_nl (s : list N) : Z :=
  match s with [] => 0%Z | c :: r => ((if (c =? NL)%N then 1 else 0) + count_nl r)%Z end.
(* Token.NumLineBreaks: the line breaks of the input in the text *)
Definition tok_breaks (t : token) : Z := (count_nl (t_text t) - t_envnl t)%Z.
(* isNextOnNewLine *)
Definition next_on_new_line (t1 t2 : token) : bool :=
  negb (t_file t1 =? t_file t2) || negb (t_imp t1 =? t_imp t2) || (t_line t1 + tok_breaks t1 <? t_line t2)%Z.
(* the test of Dispenser.NextArg *)
Definition same_line (a b : token) : bool :=
  (t_file a =? t_file b) && (t_imp a =? t_imp b) && (t_line a + tok_breaks a =? t_line b)%Z.

Record pst := { p_tokens : list token; p_cursor : Z; p_keys : list bytes;
                p_btoks : list (bytes * list token); p_eof : bool;
                p_snips : list (bytes * list token); p_imports : N }.

Definition plen (st : pst) : Z := Z.of_nat (length (p_tokens st)).
Definition tok_at (st : pst) (c : Z) : option token :=
  if (c <? 0)%Z then None else nth_error (p_tokens st) (Z.to_nat c).
Definition pval (st : pst) : bytes :=
  match tok_at st (p_cursor st) with Some t => t_text t | None => [] end.
Definition set_cursor (st : pst) (c : Z) : pst :=
  {| p_tokens := p_tokens st; p_cursor := c; p_keys := p_keys st; p_btoks := p_btoks st;
     p_eof := p_eof st; p_snips := p_snips st; p_imports := p_imports st |}.
Definition p_next (st : pst) : bool * pst :=
  if (p_cursor st <? plen st - 1)%Z then (true, set_cursor st (p_cursor st + 1)) else (false, st).
Definition is_new_line (st : pst) : bool :=
  if (p_cursor st <? 1)%Z then true
  else if (p_cursor st >? plen st - 1)%Z then false
  else match tok_at st (p_cursor st - 1), tok_at st (p_cursor st) with
       | Some a, Some b => next_on_new_line a b
       | _, _ => false
       end.
(* Dispenser.NextArg *)
Definition next_arg (st : pst) : bool * pst :=
  let c := p_cursor st in
  if (c <? 0)%Z then (true, set_cursor st (c + 1))
  else if (c >=? plen st)%Z then (false, st)
  else match tok_at st c, tok_at st (c + 1) with
       | Some a, Some b =>
           if same_line a b
           then (true, set_cursor st (c + 1)) else (false, st)
       | _, _ => (false, st)
       end.

(* error classes: 0 syntax, 1 too many imports (cycle), 2 import (file/glob/pattern), 3 argument *)
Inductive perr := ESyntax | ECycle | EImport | EArg.
Inductive pres (A : Type) := POk (v : A) | PErr (e : perr) | PFuel | PPanic | PUnknown.
Arguments POk {A} v. Arguments PErr {A} e. Arguments PFuel {A}. Arguments PPanic {A}. Arguments PUnknown {A}.

Definition IMPORT := bs "import"%string.
Definition LBRACE : bytes := [123].
Definition RBRACE : bytes := [125].
Definition COMMA : N := 44.

Definition add_key (st : pst) (k : bytes) : pst :=
  {| p_tokens := p_tokens st; p_cursor := p_cursor st; p_keys := p_keys st ++ [k];
     p_btoks := p_btoks st; p_eof := p_eof st; p_snips := p_snips st; p_imports := p_imports st |}.
Definition set_eof (st : pst) : pst :=
  {| p_tokens := p_tokens st; p_cursor := p_cursor st; p_keys := p_keys st;
     p_btoks := p_btoks st; p_eof := true; p_snips := p_snips st; p_imports := p_imports st |}.

Fixpoint add_btok (m : list (bytes * list token)) (dir : bytes) (t : token) : list (bytes * list token) :=
  match m with
  | [] => [(dir, [t])]
  | (d, ts) :: r => if beq d dir then (d, ts ++ [t]) :: r else (d, ts) :: add_btok r dir t
  end.

(* tkn.envLineBreaks += Count(txt, "\n") - Count(tkn.Text, "\n"); tkn.Text = txt *)
Definition retext (t : token) (txt : bytes) : token :=
  {| t_file := t_file t; t_line := t_line t; t_text := txt; t_imp := t_imp t;
     t_envnl := (t_envnl t + count_nl txt - count_nl (t_text t))%Z |}.
(* tkn.importID = n *)
Definition set_imp (n : N) (t : token) : token :=
  {| t_file := t_file t; t_line := t_line t; t_text := t_text t; t_imp := n; t_envnl := t_envnl t |}.

(* p.tokens[p.cursor].Text = txt  (checked index) *)
Definition set_tok_text (st : pst) (c : Z) (txt : bytes) : pst :=
  let i := Z.to_nat c in
  {| p_tokens := firstn i (p_tokens st) ++
       match skipn i (p_tokens st) with
       | t :: r => retext t txt :: r
       | [] => []
       end;
     p_cursor := p_cursor st; p_keys := p_keys st; p_btoks := p_btoks st; p_eof := p_eof st;
     p_snips := p_snips st; p_imports := p_imports st |}.

Definition push_tok (st : pst) (dir : bytes) (t : token) : pst :=
  {| p_tokens := p_tokens st; p_cursor := p_cursor st; p_keys := p_keys st;
     p_btoks := add_btok (p_btoks st) dir t; p_eof := p_eof st;
     p_snips := p_snips st; p_imports := p_imports st |}.

Definition zslice_to {A} (l : list A) (hi : Z) : res (list A) :=
  if (hi <? 0)%Z then Panic else slice l 0 (Z.to_nat hi).
Definition zslice_from {A} (l : list A) (lo : Z) : res (list A) :=
  if (lo <? 0)%Z then Panic else slice_from l (Z.to_nat lo).

Fixpoint count_occ_N (c : N) (s : bytes) : nat :=
  match s with [] => O | x :: r => ((if (x =? c)%N then 1 else 0) + count_occ_N c r)%nat end.
Definition mem_N (c : N) (s : bytes) : bool := existsb (fun x => x =? c) s.
(* "Glob pattern may only contain one wildcard" *)
Definition glob_ok (pat : bytes) : bool :=
  negb (Nat.ltb 1 (count_occ_N 42 pat) || Nat.ltb 1 (count_occ_N 63 pat) || (mem_N 91 pat && mem_N 93 pat)).
Definition has_glob_char (pat : bytes) : bool :=
  existsb (fun c => (c =? 42) || (c =? 63) || (c =? 91) || (c =? 93)) pat.

Fixpoint lookup_f {B} (l : list (N * B)) (k : N) : option B :=
  match l with [] => None | (k', v) :: r => if k' =? k then Some v else lookup_f r k end.
Fixpoint lookup_g {B} (l : list ((N * bytes) * B)) (f : N) (p : bytes) : option B :=
  match l with
  | [] => None
  | ((f', p'), v) :: r => if (f' =? f) && beq p' p then Some v else lookup_g r f p
  end.
Fixpoint lookup_s (l : list (bytes * list token)) (k : bytes) : option (list token) :=
  match l with [] => None | (k', v) :: r => if beq k' k then Some v else lookup_s r k end.

Definition is_snippet (keys : list bytes) : bool :=
  match keys with
  | [k] => has_prefix k [40] && has_suffix k [41]
  | _ => false
  end.
(* strings.TrimSuffix(keys[0][1:], ")") *)
Definition snippet_name (k : bytes) : bytes :=
  match k with [] => [] | _ :: r => removelast r end.

Section Parser.
Variable env : list (bytes * bytes).
Variable maxi : N.                                    (* maxImports *)
Variable globs : list ((N * bytes) * list N).         (* (file of the import token, pattern) -> matched files *)
Variable files : list (N * option (list token)).      (* file -> its tokens (tagged); None: unreadable / directory *)

Definition renv (s : bytes) : bytes :=
  match replace_env env s with Some x => x | None => s end.

Fixpoint import_files (ids : list N) : pres (list token) :=
  match ids with
  | [] => POk []
  | i :: r =>
    match lookup_f files i with
    | None => PUnknown
    | Some None => PErr EImport
    | Some (Some ts) =>
        match import_files r with
        | POk rest => POk (ts ++ rest)
        | e => e
        end
    end
  end.

Definition imported_tokens (st : pst) (pat : bytes) : pres (list token) :=
  match lookup_s (p_snips st) pat with
  | Some body => POk body
  | None =>
    if negb (glob_ok pat) then PErr EImport
    else
      let f := match tok_at st (p_cursor st) with Some t => t_file t | None => 0 end in
      match lookup_g globs f pat with
      | None => PUnknown
      | Some [] => if has_glob_char pat then POk [] else PErr EImport
      | Some ids => import_files ids
      end
  end.

(* doImport; cursor on the "import" token *)
Definition do_import (st : pst) : pres pst :=
  let '(has, st1) := next_arg st in
  if negb has then PErr EArg
  else
    let pat := renv (pval st1) in
    match pat with
    | [] => PErr EImport
    | _ =>
      let n := (p_imports st1 + 1)%N in
      if (maxi <? n)%N then PErr ECycle
      else
        let '(has2, _) := next_arg st1 in
        if has2 then PErr EImport
        else
          let c := p_cursor st1 in
          match zslice_to (p_tokens st1) (c - 1), zslice_from (p_tokens st1) (c + 1) with
          | Ok before, Ok after =>
            match imported_tokens st1 pat with
            | POk imp =>
                POk {| p_tokens := before ++ map (set_imp n) imp ++ after; p_cursor := (c - 1)%Z; p_keys := p_keys st1;
                       p_btoks := p_btoks st1; p_eof := p_eof st1; p_snips := p_snips st1; p_imports := n |}
            | PErr e => PErr e | PFuel => PFuel | PPanic => PPanic | PUnknown => PUnknown
            end
          | _, _ => PPanic
          end
    end.

Fixpoint addresses (fuel : nat) (st : pst) (expecting : bool) : pres pst :=
  match fuel with
  | O => PFuel
  | S f =>
    let tkn := renv (pval st) in
    if beq tkn IMPORT && is_new_line st then
      match do_import st with
      | POk st' => addresses f st' expecting
      | e => e
      end
    else if beq tkn LBRACE then (if expecting then PErr ESyntax else POk st)
    else
      let '(st1, exp1) :=
        match rev tkn with
        | [] => (st, expecting)
        | last :: pre => if last =? COMMA then (add_key st (rev pre), true) else (add_key st tkn, false)
        end in
      let '(has, st2) := p_next st1 in
      if exp1 && negb has then PErr ESyntax
      else if negb has then POk (set_eof st2)
      else if negb exp1 && is_new_line st2 then POk st2
      else addresses f st2 exp1
  end.

Fixpoint directive_loop (fuel : nat) (st : pst) (dir : bytes) (nesting : Z) : pres pst :=
  match fuel with
  | O => PFuel
  | S f =>
    let '(has, st1) := p_next st in
    if negb has then (if (0 <? nesting)%Z then PErr ESyntax else POk st1)
    else
      let v := pval st1 in
      let cont (n' : Z) :=
        match tok_at st1 (p_cursor st1) with
        | None => PPanic
        | Some t =>
          let t' := retext t (renv (t_text t)) in
          directive_loop f (push_tok (set_tok_text st1 (p_cursor st1) (t_text t')) dir t') dir n'
        end in
      if beq v LBRACE then cont (nesting + 1)%Z
      else if is_new_line st1 && (nesting =? 0)%Z then POk (set_cursor st1 (p_cursor st1 - 1))
      else if beq v RBRACE && (0 <? nesting)%Z then cont (nesting - 1)%Z
      else if beq v RBRACE && (nesting =? 0)%Z then PErr ESyntax
      else if beq v IMPORT && is_new_line st1 then
        match do_import st1 with
        | POk st2 => directive_loop f (set_cursor st2 (p_cursor st2 - 1)) dir nesting
        | e => e
        end
      else cont nesting
  end.

Definition directive (fuel : nat) (st : pst) : pres pst :=
  match tok_at st (p_cursor st) with
  | None => PPanic
  | Some t => directive_loop fuel (push_tok st (renv (t_text t)) t) (renv (t_text t)) 0%Z
  end.

Fixpoint directives (fuel : nat) (st : pst) : pres pst :=
  match fuel with
  | O => PFuel
  | S f =>
    let '(has, st1) := p_next st in
    if negb has then POk st1
    else if beq (pval st1) RBRACE then POk st1
    else if beq (pval st1) IMPORT then
      match do_import st1 with
      | POk st2 => directives f (set_cursor st2 (p_cursor st2 - 1))
      | e => e
      end
    else match directive f st1 with
         | POk st2 => directives f st2
         | e => e
         end
  end.

Definition block_contents (fuel : nat) (st : pst) : pres pst :=
  let opened := beq (pval st) LBRACE in
  let st0 := if opened then st else set_cursor st (p_cursor st - 1) in
  match directives fuel st0 with
  | POk st1 => if opened then (if beq (pval st1) RBRACE then POk st1 else PErr ESyntax) else POk st1
  | e => e
  end.

(* snippetTokens after the open brace check; [count] starts at 1 *)
Fixpoint snippet_tokens (fuel : nat) (st : pst) (count : Z) (acc : list token) : pres (pst * list token) :=
  match fuel with
  | O => PFuel
  | S f =>
    let '(has, st1) := p_next st in
    if negb has then PErr ESyntax
    else
      let v := pval st1 in
      if beq v RBRACE && (count =? 1)%Z then POk (st1, acc)
      else
        let c1 := if beq v RBRACE then (count - 1)%Z else count in
        let c2 := if beq v LBRACE then (c1 + 1)%Z else c1 in
        match tok_at st1 (p_cursor st1) with
        | None => PPanic
        | Some t => snippet_tokens f st1 c2 (acc ++ [t])
        end
  end.

Definition define_snippet (fuel : nat) (st : pst) : pres pst :=
  match p_keys st with
  | [k] =>
    let name := snippet_name k in
    match lookup_s (p_snips st) name with
    | Some _ => PErr ESyntax
    | None =>
      if negb (beq (pval st) LBRACE) then PErr ESyntax
      else match snippet_tokens fuel st 1%Z [] with
           | POk (st1, body) =>
               POk {| p_tokens := p_tokens st1; p_cursor := p_cursor st1; p_keys := [];
                      p_btoks := p_btoks st1; p_eof := p_eof st1;
                      p_snips := p_snips st1 ++ [(name, body)]; p_imports := p_imports st1 |}
           | PErr e => PErr e | PFuel => PFuel | PPanic => PPanic | PUnknown => PUnknown
           end
    end
  | _ => PPanic
  end.

Definition parse_one (fuel : nat) (st : pst) : pres pst :=
  let st0 := {| p_tokens := p_tokens st; p_cursor := p_cursor st; p_keys := []; p_btoks := [];
                p_eof := p_eof st; p_snips := p_snips st; p_imports := p_imports st |} in
  match p_tokens st0 with
  | [] => POk st0
  | _ =>
    match addresses fuel st0 false with
    | POk st1 =>
        if p_eof st1 then POk st1
        else if is_snippet (p_keys st1) then define_snippet fuel st1
        else block_contents fuel st1
    | e => e
    end
  end.

Definition block := (list bytes * list (bytes * list token))%type.

Fixpoint parse_all (fuel : nat) (st : pst) (acc : list block) : pres (list block) :=
  match fuel with
  | O => PFuel
  | S f =>
    let '(has, st1) := p_next st in
    if negb has then POk (rev acc)
    else match parse_one fuel st1 with
         | POk st2 => parse_all f st2 (match p_keys st2 with [] => acc | _ => (p_keys st2, p_btoks st2) :: acc end)
         | PErr e => PErr e | PFuel => PFuel | PPanic => PPanic | PUnknown => PUnknown
         end
  end.

Definition init_st (toks : list token) : pst :=
  {| p_tokens := toks; p_cursor := (-1)%Z; p_keys := []; p_btoks := []; p_eof := false;
     p_snips := []; p_imports := 0 |}.
Definition parse_tokens (fuel : nat) (toks : list token) : pres (list block) :=
  parse_all fuel (init_st toks) [].
End Parser.

(* ---------- where an import argument points (doImport: filepath.Abs / IsAbs / Dir / Join / Glob) ---------- *)
(* The parser's world oracle [globs] is keyed by (file of the import token, pattern).  For patterns
   without meta characters the rule by which doImport arrives at the file is part of the model: a
   relative pattern is joined to the DIRECTORY OF THE FILE THAT CONTAINS THE IMPORT TOKEN (not the
   working directory, not the directory of the main file, not that of an earlier import of the same
   pattern), an absolute one is taken as written, and filepath.Glob returns the pattern itself iff a
   file or directory of exactly that path exists. *)
Definition is_abs (p : bytes) : bool := has_prefix p [47].
Fixpoint dir_rev (r : bytes) : bytes :=
  match r with [] => [] | c :: t => if c =? 47 then t else dir_rev t end.
(* filepath.Dir of a clean absolute path *)
Definition path_dir (p : bytes) : bytes :=
  match rev (dir_rev (rev p)) with [] => [47] | d => d end.
(* filepath.Join(a, b) for non-empty a *)
Definition fjoin (a b : bytes) : bytes := clean (a ++ [47] ++ b).
Definition glob_pattern (absfile pat : bytes) : bytes :=
  if is_abs pat then pat else fjoin (path_dir absfile) pat.
(* filepath's hasMeta (non-Windows) *)
Definition has_meta (p : bytes) : bool :=
  existsb (fun c => (c =? 42) || (c =? 63) || (c =? 91) || (c =? 92)) p.
(* [abspaths]: file id -> absolute path; [known]: the ids filepath.Glob can return (every file and
   directory next to the Casketfile) *)
Definition literal_matches (known : list (N * bytes)) (gp : bytes) : list N :=
  map fst (filter (fun e => beq (snd e) gp) known).
Definition resolve_literal (abspaths known : list (N * bytes)) (f : N) (pat : bytes) : option (list N) :=
  match lookup_f abspaths f with
  | Some af => Some (literal_matches known (glob_pattern af pat))
  | None => None
  end.
Definition ids_eqb (a b : list N) : bool := list_beq N.eqb a b.
(* the oracle follows the rule on every pattern without meta characters *)
Definition globs_resolve_ok (abspaths known : list (N * bytes)) (globs : list ((N * bytes) * list N)) : bool :=
  forallb (fun e => has_meta (snd (fst e)) ||
                    match resolve_literal abspaths known (fst (fst e)) (snd (fst e)) with
                    | Some ids => ids_eqb (snd e) ids
                    | None => false
                    end) globs.
(* the oracle the rule itself gives for a list of (file, pattern) keys *)
Definition literal_globs (abspaths known : list (N * bytes)) (keys : list (N * bytes)) : list ((N * bytes) * list N) :=
  flat_map (fun k => match resolve_literal abspaths known (fst k) (snd k) with
                     | Some ids => [(k, ids)] | None => [] end) keys.
(* the harness's numbering: 0 = the main file, i+1 = the i-th name next to it (files and directories) *)
Definition abs_of (base : bytes) (names : list (N * bytes)) : list (N * bytes) :=
  (0, fjoin base (bs "Casketfile"%string)) :: map (fun e => (fst e, fjoin base (snd e))) names.
Definition known_of (base : bytes) (names : list (N * bytes)) : list (N * bytes) :=
  map (fun e => (fst e, fjoin base (snd e))) names.

Definition retag (f : N) (ts : list token) : list token :=
  map (fun t => {| t_file := f; t_line := t_line t; t_text := t_text t; t_imp := t_imp t; t_envnl := t_envnl t |}) ts.
Definition lex_files (files : list (N * option (list N))) : list (N * option (list token)) :=
  (* an empty file cannot be imported (lexer.load returns EOF: "Could not read tokens") *)
  map (fun e => (fst e, match snd e with Some [] => None | Some txt => Some (retag (fst e) (lex txt)) | None => None end)) files.
Fixpoint total_len (files : list (N * option (list token))) : nat :=
  match files with
  | [] => O
  | (_, Some ts) :: r => (length ts + total_len r)%nat
  | (_, None) :: r => total_len r
  end.

(* fuel used by the executable reference: enough for [maxi] imports each splicing every file *)
Definition run_fuel (maxi : N) (n0 m : nat) : nat := (2 * (n0 + (N.to_nat maxi + 1) * (m + n0)) + 8)%nat.

Definition parse_world (env : list (bytes * bytes)) (maxi : N) (globs : list ((N * bytes) * list N))
           (files : list (N * option (list N))) (inp : list N) : pres (list block) :=
  let toks := lex inp in
  let fl := lex_files files in
  parse_tokens env maxi globs fl (run_fuel maxi (length toks) (total_len fl)) toks.

(* the import-free entry point (no files: every import of a file fails) *)
Definition parse (env : list (bytes * bytes)) (inp : list N) : pres (list block) :=
  parse_world env 10000 [] [] inp.

(* a token that is no import directive: its text is not `import`, as written or after expansion *)
Definition noimpb (env : list (bytes * bytes)) (t : token) : bool :=
  negb (beq (t_text t) IMPORT) && negb (beq (renv env (t_text t)) IMPORT).
(* a token soup WITHOUT import directives, run with the PROVED fuel (C10_parse_total_no_imports:
   tokens + 4) and the implementation's own import bound; PFuel if the soup holds an import directive
   (the harness never generates one in this stream) *)
Definition parse_soup (env : list (bytes * bytes)) (globs : list ((N * bytes) * list N))
           (files : list (N * option (list N))) (inp : list N) : pres (list block) :=
  let toks := lex inp in
  if forallb (noimpb env) toks
  then parse_tokens env 10000 globs (lex_files files) (length toks + 4) toks
  else PFuel.

(* ---------- Dispenser operations used by directive setup code ---------- *)
(* over a bare token list and cursor (NewDispenserTokens of one directive group) *)
Definition d_tok (ts : list token) (c : Z) : option token :=
  if (c <? 0)%Z then None else nth_error ts (Z.to_nat c).
Definition d_next_on_same_line (ts : list token) (c : Z) : bool * Z :=
  if (c <? 0)%Z then (true, (c + 1)%Z)
  else if (c >=? Z.of_nat (length ts) - 1)%Z then (false, c)
  else match d_tok ts c, d_tok ts (c + 1) with
       | Some a, Some b => if next_on_new_line a b then (false, c) else (true, (c + 1)%Z)
       | _, _ => (false, c)
       end.
Definition d_next_arg (ts : list token) (c : Z) : bool * Z :=
  if (c <? 0)%Z then (true, (c + 1)%Z)
  else if (c >=? Z.of_nat (length ts))%Z then (false, c)
  else match d_tok ts c, d_tok ts (c + 1) with
       | Some a, Some b =>
           if same_line a b
           then (true, (c + 1)%Z) else (false, c)
       | _, _ => (false, c)
       end.

(* ---------- observable projection and cases ---------- *)
(* directive groups are sorted by the harness on both sides (Go map) *)
(* file, line, text, and what the Dispenser says about the token relative to the previous token of
   its group: (NextLine would load it, NextArg would load it); (false, false) for the first *)
Definition otok := (N * Z * bytes * (bool * bool))%type.
Definition o_file (o : otok) : N := fst (fst (fst o)).
Definition o_line (o : otok) : Z := snd (fst (fst o)).
Definition o_text (o : otok) : bytes := snd (fst o).
Definition o_nl (o : otok) : bool := fst (snd o).
Definition o_same (o : otok) : bool := snd (snd o).
Definition oblock := (list bytes * list (bytes * list otok))%type.
Fixpoint otoks_of (prev : option token) (ts : list token) : list otok :=
  match ts with
  | [] => []
  | t :: r => (t_file t, t_line t, t_text t,
               match prev with None => (false, false) | Some p => (next_on_new_line p t, same_line p t) end)
              :: otoks_of (Some t) r
  end.
Definition project (b : block) : oblock :=
  (fst b, map (fun g => (fst g, otoks_of None (snd g))) (snd b)).

Fixpoint bytes_leb (a b : bytes) : bool :=
  match a, b with
  | [], _ => true
  | _ :: _, [] => false
  | x :: a', y :: b' => if x <? y then true else if y <? x then false else bytes_leb a' b'
  end.
Fixpoint insert_group {T} (g : bytes * T) (l : list (bytes * T)) :=
  match l with
  | [] => [g]
  | h :: r => if bytes_leb (fst g) (fst h) then g :: l else h :: insert_group g r
  end.
Definition sort_groups {T} (l : list (bytes * T)) := fold_right insert_group [] l.
Definition canon (b : block) : oblock := (fst (project b), sort_groups (snd (project b))).

Definition otok_eqb (a b : otok) : bool :=
  (o_file a =? o_file b) && (o_line a =? o_line b)%Z && beq (o_text a) (o_text b) &&
  Bool.eqb (o_nl a) (o_nl b) && Bool.eqb (o_same a) (o_same b).
Definition oblock_eqb (a b : oblock) : bool :=
  list_beq beq (fst a) (fst b) &&
  list_beq (fun g h => beq (fst g) (fst h) && list_beq otok_eqb (snd g) (snd h)) (snd a) (snd b).

(* what the generating AST says: per block the keys and, per directive (sorted by name), the token
   texts with a flag "starts on a new line relative to the previous token of the group" *)
Definition eblock := (list bytes * list (bytes * list (bytes * bool)))%type.

(* line structure of an observed group against the expected flags: what the implementation's
   Dispenser itself answered between consecutive tokens — NextLine (the isNextOnNewLine test, also
   used by nextOnSameLine / NextBlock) and NextArg — must both say what was written *)
Fixpoint struct_ok (first : bool) (obs : list otok) (ex : list (bytes * bool)) : bool :=
  match obs, ex with
  | [], [] => true
  | o :: obs', (txt, nl) :: ex' =>
      beq (o_text o) txt &&
      (first || (Bool.eqb (o_nl o) nl && Bool.eqb (o_same o) (negb nl))) &&
      struct_ok false obs' ex'
  | _, _ => false
  end.
Fixpoint texts_ok (obs : list otok) (ex : list (bytes * bool)) : bool :=
  match obs, ex with
  | [], [] => true
  | o :: obs', (txt, _) :: ex' => beq (o_text o) txt && texts_ok obs' ex'
  | _, _ => false
  end.
Fixpoint all2 {A B} (f : A -> B -> bool) (a : list A) (b : list B) : bool :=
  match a, b with
  | [], [] => true
  | x :: a', y :: b' => f x y && all2 f a' b'
  | _, _ => false
  end.
Definition eblock_ok (with_struct : bool) (o : oblock) (e : eblock) : bool :=
  list_beq beq (fst o) (fst e) &&
  all2 (fun g h => beq (fst g) (fst h) &&
                       (if with_struct then struct_ok true (snd g) (snd h) else texts_ok (snd g) (snd h)))
           (snd o) (snd e).

Inductive obs :=
| OBlocks (bs : list oblock)      (* groups already sorted by directive name *)
| OError (names_file_line : bool) (class : N)   (* 0 syntax, 1 too many imports, 2 import, 3 argument *)
| OPanic
| OTimeout.

Definition perr_class (e : perr) : N :=
  match e with ESyntax => 0 | ECycle => 1 | EImport => 2 | EArg => 3 end.

(* the environment the harness sets for every parser case (c10Env in harness/c10.go) *)
Definition std_env : list (bytes * bytes) :=
  [(hex "565f41"%string, hex "616c706861"%string); (hex "565f4252"%string, hex "7b"%string); (hex "565f45"%string, hex ""%string); (hex "565f46"%string, hex "696e63312e636f6e66"%string); (hex "565f494d50"%string, hex "696d706f7274"%string); (hex "565f4c4f4f50"%string, hex "787b24565f4c4f4f507d"%string); (hex "565f4e4c"%string, hex "6c310a6c32"%string); (hex "565f504354"%string, hex "7b25565f41257d"%string); (hex "565f524543"%string, hex "617b24565f417d62"%string); (hex "565f5350"%string, hex "74776f20776f726473"%string)].

Inductive case :=
(* lexer through NewDispenser: observed (line, text) of every token *)
| CLex (inp : list N) (obs_toks : list (Z * list N))
(* parser: the implementation parsed [main] with the files [files] next to it; [globs] is what
   filepath.Glob returned for every (importing file, pattern) the harness could anticipate;
   [cap] = the import bound used when evaluating the model (the implementation's is 10000);
   [expected] = the generating AST when the text was rendered from one *)
| CParse (kind : N) (env : list (bytes * bytes)) (cap : N) (main : list N)
         (files : list (N * option (list N))) (globs : list ((N * bytes) * list N))
         (o : obs) (expected : option (list eblock))
(* the same with the place of every file: [base] = the directory of the Casketfile (absolute),
   [names] = id -> path relative to it of every file and directory next to it *)
| CParseAt (base : bytes) (names : list (N * bytes))
         (kind : N) (env : list (bytes * bytes)) (cap : N) (main : list N)
         (files : list (N * option (list N))) (globs : list ((N * bytes) * list N))
         (o : obs) (expected : option (list eblock)).

Definition judge_with (m : pres (list block)) (o : obs) (expected : option (list eblock)) : bool * bool :=
  let agree :=
    match m, o with
    | POk bl, OBlocks ob => list_beq oblock_eqb (map canon bl) ob
    | PErr e, OError _ cls => perr_class e =? cls
    | PUnknown, _ => true
    | PFuel, OTimeout => true
    | _, _ => false
    end in
  let spec :=
    match o with
    | OPanic => false
    | OTimeout => false
    | OError nfl _ => nfl && match expected with Some _ => false | None => true end
    | OBlocks ob => match expected with
                    | Some ex => all2 (eblock_ok true) ob ex
                    | None => true
                    end
    end in
  (agree, spec).
Definition judge_parse (env : list (bytes * bytes)) (cap : N) (main : list N)
           (files : list (N * option (list N))) (globs : list ((N * bytes) * list N))
           (o : obs) (expected : option (list eblock)) : bool * bool :=
  judge_with (parse_world env cap globs files main) o expected.
(* kind 1: the totality theorem applies — the model's answer must be blocks or an error class *)
Definition is_res {A} (m : pres A) : bool := match m with POk _ | PErr _ => true | _ => false end.
Definition judge_soup (env : list (bytes * bytes)) (main : list N)
           (files : list (N * option (list N))) (globs : list ((N * bytes) * list N))
           (o : obs) (expected : option (list eblock)) : bool * bool :=
  let m := parse_soup env globs files main in
  let '(agree, spec) := judge_with m o expected in (agree && is_res m, spec).

Definition judge (c : case) : N :=
  match c with
  | CLex inp ot =>
      let m := map (fun t => (t_line t, t_text t)) (lex inp) in
      verdict (list_beq (fun a b => (fst a =? fst b)%Z && beq (snd a) (snd b)) m ot) true
  | CParse kind env cap main files globs o expected =>
      let '(agree, spec) := judge_parse env cap main files globs o expected in
      verdict agree spec
  | CParseAt base names kind env cap main files globs o expected =>
      let '(agree, spec) := if kind =? 1 then judge_soup env main files globs o expected
                            else judge_parse env cap main files globs o expected in
      (* what filepath.Glob returned for every literal pattern is what the resolution rule says *)
      verdict (agree && globs_resolve_ok (abs_of base names) (known_of base names) globs) spec
  end.
