(* C07 — reloading the configuration never drops or misroutes a request: property theorems only.
   Each is closed by [exact] of a lemma proved in C07_Proofs.v and followed by Print Assumptions.

   [reachable s]: s is produced from the first Start (ANY duplicate-free set of listen addresses,
   ANY set of addresses occupied by foreign sockets) by ANY finite sequence of atomic steps of
   the model in C07_Model.v: any number of Restart calls with any configurations (any listen
   addresses kept, dropped, added; valid, failing while loading, failing in a startup callback,
   failing at listen time), each progressing through load / startup callbacks / dup / bind /
   spawn / stop (cleanly or with a drain timeout) exactly in the order of the code, interleaved
   arbitrarily with any number of clients connecting, being accepted, answered and served.

   [owner s] is the instance whose service is guaranteed in s: the instance in force ([cur]),
   and the new instance from the moment the old one starts to be stopped.  The kernel accept
   queue, dup semantics of File()/FileListener, Shutdown's draining and the goroutine scheduler
   are ASSUMPTIONS built into the step relation (see C07_Model.v); the correspondence runs
   sample them on the real server. *)
Require Import V.Lib V.C07_Model V.C07_Proofs.
Open Scope nat_scope.

(* The listening socket of every served address is never closed: from the first Start on, under
   every interleaving and any sequence of reloads, the serving instance itself holds an open
   descriptor of it ... *)
Theorem C07_socket_never_closed :
  forall s a, reachable s -> In a (addrs_of s (owner s)) -> fdh s a <> [].
Proof. exact socket_never_closed. Qed.
Print Assumptions C07_socket_never_closed.

(* ... and has a committed acceptor on it (so has every intermediate state of a hand-over: the
   new acceptors are spawned before the first old one is stopped). *)
Theorem C07_always_an_acceptor :
  forall s a, reachable s -> In a (addrs_of s (owner s)) ->
  In (owner s) (fdh s a) /\ In (owner s) (acc s a).
Proof. exact owner_serves. Qed.
Print Assumptions C07_always_an_acceptor.

Example C07_always_an_acceptor_nonvacuous :
  match run (init [0; 1] [9]) [LCall [1; 0] 0; LLoadOk; LCbOk; LDup; LDup; LAdv; LSpawn; LSpawn; LAdv; LStop] with
  | Some s => owner s = 1 /\ addrs_of s (owner s) = [1; 0] /\ fdh s 0 = [1] /\ acc s 0 = [1] /\
              fdh s 1 = [1; 0] /\ acc s 1 = [1; 0]
  | None => False
  end.
Proof. vm_compute. repeat split; reflexivity. Qed.

(* Handed over, never closed and rebound: no step replaces the socket of a served address, and
   along any run during which an address stays served its socket is the very same one. *)
Theorem C07_socket_never_rebound :
  forall s l s' a, reachable s -> step s l = Some s' -> In a (addrs_of s (owner s)) -> sid s' a = sid s a.
Proof. exact socket_never_rebound. Qed.
Print Assumptions C07_socket_never_rebound.

Theorem C07_socket_identity_along_run :
  forall a ls s s', reachable s -> run s ls = Some s' -> served_along a s ls ->
  sid s' a = sid s a /\ fdh s' a <> [].
Proof. exact socket_identity_along_run. Qed.
Print Assumptions C07_socket_identity_along_run.

(* Never dropped: a connect to a served address is queued (not refused); a queued connection to
   an address that stays served is never reset and never has to be given up by the client; and
   it can always be taken by the serving instance. *)
Theorem C07_connect_never_refused :
  forall s k c s', reachable s -> nth_error (conns s) k = Some c -> In (caddr c) (addrs_of s (owner s)) ->
  step s (LConnect k) = Some s' ->
  exists c', nth_error (conns s') k = Some c' /\ cst c' = CQueued /\ caddr c' = caddr c /\ csite c' = csite c.
Proof. exact connect_not_refused. Qed.
Print Assumptions C07_connect_never_refused.

Theorem C07_queued_never_lost :
  forall s l s' k c, reachable s -> step s l = Some s' -> nth_error (conns s) k = Some c -> cst c = CQueued ->
  In (caddr c) (addrs_of s' (owner s')) ->
  exists c', nth_error (conns s') k = Some c' /\ caddr c' = caddr c /\ csite c' = csite c /\
             cst c' <> CReset /\ cst c' <> CRefused /\ (cst c' = CFailed -> False).
Proof. exact queued_never_reset. Qed.
Print Assumptions C07_queued_never_lost.

Theorem C07_queued_can_be_accepted :
  forall s k c, reachable s -> nth_error (conns s) k = Some c -> cst c = CQueued ->
  In (caddr c) (addrs_of s (owner s)) -> exists s', step s (LAccept k (owner s)) = Some s'.
Proof. exact queued_can_be_accepted. Qed.
Print Assumptions C07_queued_can_be_accepted.

(* ... and carried through: in EVERY reachable state (in the middle of a hand-over or not) a
   request to a served address that has not been answered yet can be completed right away —
   connect, accept, answer, receive — with the complete response of the site it asked for, by an
   instance that serves its address; no interleaving leads to a state where a request is stuck. *)
Theorem C07_request_can_always_complete :
  forall s k c, reachable s -> nth_error (conns s) k = Some c -> In (caddr c) (addrs_of s (owner s)) ->
  finished (cst c) = false -> lost (cst c) = false ->
  exists ls s' i,
    run s ls = Some s' /\
    hist s' = EEnd k (Some (i, csite c, true)) :: hist s /\
    (exists c', nth_error (conns s') k = Some c' /\ cst c' = CDone i) /\
    In (caddr c) (addrs_of s i) /\ rst s' = rst s /\ cur s' = cur s.
Proof. exact can_complete. Qed.
Print Assumptions C07_request_can_always_complete.

(* Never misrouted: a connection is taken by exactly one instance, for good (whatever happens
   afterwards, including that instance being stopped: it still answers), that instance serves
   the connection's address, and it is the instance in force when the request started or a
   later one. *)
Theorem C07_each_conn_one_instance :
  forall ls s s' k c i, run s ls = Some s' -> nth_error (conns s) k = Some c -> accepted_by (cst c) = Some i ->
  exists c', nth_error (conns s') k = Some c' /\ accepted_by (cst c') = Some i /\
             caddr c' = caddr c /\ csite c' = csite c.
Proof. exact one_instance_per_conn. Qed.
Print Assumptions C07_each_conn_one_instance.

Theorem C07_after_return_new_config :
  forall s k c i, reachable s -> nth_error (conns s) k = Some c -> accepted_by (cst c) = Some i ->
  cborn c <= i /\ i < length (cfgs s) /\ In (caddr c) (addrs_of s i).
Proof. exact accepted_by_current_or_later. Qed.
Print Assumptions C07_after_return_new_config.

(* [cborn] is the instance in force when the request started; when a successful Restart
   returns, that is the new instance, which holds every socket and acceptor of its
   configuration, and nobody else accepts any more. *)
Theorem C07_return_installs_new :
  forall s s', reachable s -> step s LReturn = Some s' ->
  exists n, pending s = Some n /\ cur s' = n /\ rst s' = RIdle /\ cur s < n /\ fate_of s n = 0 /\
            (forall a, In a (addrs_of s' n) -> In n (fdh s' a) /\ In n (acc s' a)) /\
            (forall a i, In i (acc s' a) -> i = n).
Proof. exact return_installs_new. Qed.
Print Assumptions C07_return_installs_new.

Example C07_return_installs_new_nonvacuous :
  match run (init [0] []) [LNew 0 0; LCall [0] 0; LLoadOk; LCbOk; LDup; LAdv; LSpawn; LAdv; LStop; LReturn;
                           LNew 0 1; LConnect 1; LAccept 1 1; LConnect 0; LAccept 0 1] with
  | Some s => cur s = 1 /\ map cborn (conns s) = [0; 1] /\ map cst (conns s) = [CAccepted 1; CAccepted 1]
  | None => False
  end.
Proof. vm_compute. repeat split; reflexivity. Qed.

(* Only the instance in force and the one being started (by a configuration that loads) ever
   accept: an instance whose start failed never serves anything. *)
Theorem C07_only_live_instances_accept :
  forall s a i, reachable s -> In i (acc s a) ->
  In i (fdh s a) /\ In a (addrs_of s i) /\ (i = cur s \/ pending s = Some i /\ fate_of s i = 0).
Proof. exact only_live_instances_accept. Qed.
Print Assumptions C07_only_live_instances_accept.

(* If a reload fails — while loading, in a startup callback of the new instance n, or at listen
   time — the previous instance keeps everything: same sockets, its descriptors, its acceptors, for
   all of its addresses; it is the only one accepting; and NOTHING of the rejected instance is
   left: every descriptor is the old instance's (when a Listen failed, startServers has closed the
   descriptors n had got: [fdh s' a = rem n (fdh s a)]).  Connections to the old configuration's
   addresses are untouched (the only connections that change are those queued at a socket the
   rejected instance had bound itself, which disappears with it). *)
Theorem C07_failed_reload_keeps_old :
  forall s l s', reachable s -> (l = LLoadFail \/ l = LCbFail \/ l = LListenFail) -> step s l = Some s' ->
  exists n, pending s = Some n /\
  cur s' = cur s /\ rst s' = RIdle /\ cfgs s' = cfgs s /\
  (forall a, sid s' a = sid s a /\ acc s' a = acc s a /\ fdh s' a = rem n (fdh s a)) /\
  (l <> LListenFail -> conns s' = conns s /\ forall a, fdh s' a = fdh s a) /\
  (forall k c, nth_error (conns s) k = Some c -> In (caddr c) (addrs_of s (cur s)) ->
               nth_error (conns s') k = Some c) /\
  (forall a i, In i (fdh s' a) -> i = cur s' /\ In a (addrs_of s' (cur s'))) /\
  (forall a, In a (addrs_of s' (cur s')) -> In (cur s') (fdh s' a) /\ In (cur s') (acc s' a)) /\
  (forall a i, In i (acc s' a) -> i = cur s').
Proof. exact failed_reload_keeps_old. Qed.
Print Assumptions C07_failed_reload_keeps_old.

Example C07_failed_reload_keeps_old_nonvacuous :
  (* the descriptors dup'ed for 0 and 1 and the socket bound at 5 are closed again when 9 cannot be bound *)
  match run (init [0; 1] [9]) [LCall [0; 5; 1; 9] 2; LLoadOk; LCbOk; LDup; LBind; LDup] with
  | Some s1 =>
      fdh s1 0 = [1; 0] /\ fdh s1 5 = [1] /\
      match run s1 [LNew 5 0; LConnect 0; LListenFail] with
      | Some s => cur s = 0 /\ rst s = RIdle /\ fdh s 0 = [0] /\ fdh s 1 = [0] /\ fdh s 5 = [] /\ acc s 0 = [0] /\
                  map cst (conns s) = [CReset] /\
                  hist s = [ERet 2; EStart 0 5 0; ECall [0; 5; 1; 9] 2]
      | None => False
      end
  | None => False
  end.
Proof. vm_compute. repeat split; reflexivity. Qed.

(* ---- nothing leaks ---- *)
(* in every reachable state every descriptor of a listening socket is held by the instance in
   force, for an address of its configuration, or by the instance being started, for an address
   of its configuration: failed reloads leave none behind, replaced instances keep none *)
Theorem C07_no_descriptor_leak :
  forall s a i, reachable s -> In i (fdh s a) ->
  (i = cur s /\ In a (addrs_of s (cur s))) \/ (pending s = Some i /\ In a (addrs_of s i)).
Proof. exact no_descriptor_leak. Qed.
Print Assumptions C07_no_descriptor_leak.

(* ... in numbers: whenever no reload is in progress the process holds exactly ONE descriptor of
   the listening socket of every served address, the serving instance's, and none of any other
   address (what [EFds] events report of the real process is compared with this count) *)
Theorem C07_one_descriptor_when_idle :
  forall s a, reachable s -> rst s = RIdle ->
  fdh s a = if mem a (addrs_of s (cur s)) then [cur s] else [].
Proof. exact one_descriptor_when_idle. Qed.
Print Assumptions C07_one_descriptor_when_idle.

Example C07_one_descriptor_when_idle_nonvacuous :
  match run (init [0; 1] [9]) [LCall [0; 5; 1; 9] 2; LLoadOk; LCbOk; LDup; LBind; LDup; LFds 0; LFds 5; LListenFail; LFds 0; LFds 5;
                               LCall [1; 0] 0; LLoadOk; LCbOk; LDup; LDup; LAdv; LSpawn; LSpawn; LAdv; LStop; LStop; LReturn; LFds 0; LFds 1] with
  | Some s => rst s = RIdle /\
              filter (fun e => match e with EFds _ _ => true | _ => false end) (rev (hist s)) =
              [EFds 0 2; EFds 5 1; EFds 0 1; EFds 5 0; EFds 0 1; EFds 1 1]
  | None => False
  end.
Proof. vm_compute. split; reflexivity. Qed.

(* ---- the rejected configuration never accepts ---- *)
(* an instance whose configuration is not valid (fate 1, 2 or 3) never has an acceptor, in any
   reachable state — during its reload or at any later time *)
Theorem C07_failed_never_accepts :
  forall s i a, reachable s -> fate_of s i <> 0 -> ~ In i (acc s a).
Proof. exact failed_never_accepts. Qed.
Print Assumptions C07_failed_never_accepts.

(* while the configuration of the new instance n is loaded and while its startup callbacks run,
   n holds no descriptor, has no acceptor and has taken no connection: the startup callbacks run
   BEFORE startServers obtains the listeners and starts the acceptors *)
Theorem C07_not_listening_before_callbacks_done :
  forall s n, reachable s -> (rst s = RLoad n \/ rst s = RCb n) ->
  (forall a, ~ In n (fdh s a)) /\ (forall a, ~ In n (acc s a)) /\
  (forall k c, nth_error (conns s) k = Some c -> accepted_by (cst c) <> Some n).
Proof. exact not_listening_before_callbacks_done. Qed.
Print Assumptions C07_not_listening_before_callbacks_done.

(* a startup callback of the new instance fails: Restart returns an error, the state is exactly
   what it was before the call (sockets, descriptors, acceptors, connections), the old instance
   serves all of its addresses, and the rejected instance has not accepted anything and never
   will, whatever happens afterwards *)
Theorem C07_failed_startup_callback_keeps_old :
  forall s s', reachable s -> step s LCbFail = Some s' ->
  exists n, rst s = RCb n /\ fate_of s n = 3 /\ hist s' = ERet 1 :: hist s /\
    cur s' = cur s /\ rst s' = RIdle /\ conns s' = conns s /\ cfgs s' = cfgs s /\
    (forall a, sid s' a = sid s a /\ fdh s' a = fdh s a /\ acc s' a = acc s a) /\
    (forall a, ~ In n (fdh s' a) /\ ~ In n (acc s' a)) /\
    (forall k c, nth_error (conns s') k = Some c -> accepted_by (cst c) <> Some n) /\
    (forall a, In a (addrs_of s' (cur s')) -> In (cur s') (fdh s' a) /\ In (cur s') (acc s' a)) /\
    (forall ls s'', run s' ls = Some s'' -> forall a, ~ In n (acc s'' a)).
Proof. exact failed_startup_callback_keeps_old. Qed.
Print Assumptions C07_failed_startup_callback_keeps_old.

Example C07_failed_startup_callback_keeps_old_nonvacuous :
  match run (init [0; 1] []) [LNew 0 0; LCall [0; 1] 3; LLoadOk; LConnect 0; LCbFail; LAccept 0 0; LAnswer 0; LRecv 0] with
  | Some s => cur s = 0 /\ fdh s 0 = [0] /\ acc s 1 = [0] /\
              rev (hist s) = [EStart 0 0 0; ECall [0; 1] 3; ERet 1; EEnd 0 (Some (0, 0, true))]
  | None => False
  end /\
  (* the callbacks cannot be skipped, and a configuration whose callback fails gets no listener *)
  run (init [0] []) [LCall [0] 3; LLoadOk; LCbOk] = None /\
  run (init [0] []) [LCall [0] 0; LLoadOk; LDup] = None.
Proof. vm_compute. repeat split; reflexivity. Qed.

(* ---- drain timeouts ---- *)
(* once the acceptors of the new instance have been spawned the reload cannot fail any more:
   the only way out of the spawn / stop-old phases is the successful return *)
Theorem C07_no_failure_after_spawn :
  forall s l s', spawning s -> step s l = Some s' ->
  spawning s' \/ (l = LReturn /\ hist s' = ERet 0 :: hist s /\ rst s' = RIdle).
Proof. exact no_failure_after_spawn. Qed.
Print Assumptions C07_no_failure_after_spawn.

(* the stop-old phase can always be carried through, whatever connections the old instance holds *)
Theorem C07_stop_phase_completes :
  forall todo s n, reachable s -> rst s = RStop n todo ->
  exists s', run s (map (fun _ => LStop) todo ++ [LReturn]) = Some s' /\
             cur s' = n /\ rst s' = RIdle /\ hist s' = ERet 0 :: hist s /\
             (forall a i, In i (acc s' a) -> i = n) /\
             (forall a, In a (addrs_of s' n) -> In n (fdh s' a) /\ In n (acc s' a)).
Proof. exact stop_phase_completes. Qed.
Print Assumptions C07_stop_phase_completes.

(* a connection of the old server at address a outlives the graceful timeout ([LStopTimeout]):
   the shutdown does to the socket exactly what a clean one does (descriptor closed, acceptor
   stopped), the error is only logged ([EDrain a]) and the REMAINING old servers are stopped; the
   connections an instance holds stay with it; the reload is carried through to a successful
   return, after which the new instance serves all of its addresses and only it accepts *)
Theorem C07_drain_timeout_reload_succeeds :
  forall s s1, reachable s -> step s LStopTimeout = Some s1 ->
  exists n a t,
    rst s = RStop n (a :: t) /\ rst s1 = RStop n t /\ hist s1 = EDrain a :: hist s /\
    step s LStop = Some (with_rst (stop_old s a) (RStop n t)) /\
    s1 = with_hist (with_rst (stop_old s a) (RStop n t)) (EDrain a) /\
    (forall k c i, nth_error (conns s) k = Some c -> accepted_by (cst c) = Some i ->
       exists c', nth_error (conns s1) k = Some c' /\ accepted_by (cst c') = Some i /\ caddr c' = caddr c /\ csite c' = csite c) /\
    exists s', run s1 (map (fun _ => LStop) t ++ [LReturn]) = Some s' /\
               cur s' = n /\ rst s' = RIdle /\ hist s' = ERet 0 :: hist s1 /\
               (forall b i, In i (acc s' b) -> i = n) /\
               (forall b, In b (addrs_of s' n) -> In n (fdh s' b) /\ In n (acc s' b)).
Proof. exact drain_timeout_reload_succeeds. Qed.
Print Assumptions C07_drain_timeout_reload_succeeds.

Example C07_drain_timeout_nonvacuous :
  (* a request held open on the old instance at address 0 while it is replaced: the drain times
     out there, address 1 is stopped all the same, the reload returns ok; the held request is
     answered by the OLD configuration afterwards, a request started after the return by the NEW *)
  match run (init [0; 1] [])
            [LNew 0 0; LConnect 0; LAccept 0 0; LCall [0; 1] 0; LLoadOk; LCbOk; LDup; LDup; LAdv; LSpawn; LSpawn; LAdv;
             LStopTimeout; LStop; LReturn; LNew 0 0; LConnect 1; LAccept 1 1; LAnswer 1; LRecv 1; LAnswer 0; LRecv 0] with
  | Some s => cur s = 1 /\ fdh s 0 = [1] /\ acc s 0 = [1] /\ fdh s 1 = [1] /\ acc s 1 = [1] /\
      rev (hist s) = [EStart 0 0 0; ECall [0; 1] 0; EDrain 0; ERet 0; EStart 1 0 0;
                      EEnd 1 (Some (1, 0, true)); EEnd 0 (Some (0, 0, true))] /\
      accepts [0; 1] [] (rev (hist s)) = true
  | None => False
  end /\
  (* no timeout without a connection held by the old server there *)
  run (init [0] []) [LCall [0] 0; LLoadOk; LCbOk; LDup; LAdv; LSpawn; LAdv; LStopTimeout] = None.
Proof. vm_compute. repeat split; reflexivity. Qed.

(* The property as observed from outside.  [spec_trace] is the executable statement evaluated by
   the check on the real server's histories: no transport error and a complete response of the
   right site for every request whose address is served throughout; the response comes from a
   configuration that was in force or being started between the request's start and its end —
   hence from the new configuration for every request started after a successful reload
   returned, and from the old one after a failed reload; reloads end as their configuration
   dictates; the listening socket of a continuously served address exists at every observation
   and is always the same one.
   EVERY observable history of the model satisfies it: any interleaving, any number of reloads
   and clients. *)
Theorem C07_model_histories_satisfy_spec :
  forall a0 blocked ls s, nodupb a0 = true -> run (init a0 blocked) ls = Some s ->
  spec_trace a0 (rev (hist s)) = true.
Proof. exact model_traces_satisfy_spec. Qed.
Print Assumptions C07_model_histories_satisfy_spec.

Example C07_model_histories_satisfy_spec_nonvacuous :
  match run (init [0; 1] [9])
            [LObs 0; LNew 0 1; LConnect 0; LCall [1; 0] 0; LLoadOk; LCbOk; LDup; LDup; LAdv; LSpawn; LSpawn;
             LNew 1 0; LConnect 1; LAccept 1 0; LAccept 0 1; LAdv; LStop; LStop; LReturn; LObs 1;
             LNew 0 0; LConnect 2; LAccept 2 1; LAnswer 1; LRecv 1; LAnswer 0; LAnswer 2; LRecv 2; LRecv 0;
             LCall [0; 1; 9] 2; LLoadOk; LCbOk; LDup; LDup; LListenFail; LNew 1 1; LConnect 3; LAccept 3 1; LAnswer 3; LRecv 3] with
  | Some s => rev (hist s) =
      [EObs 0 true 0; EStart 0 0 1; ECall [1; 0] 0; EStart 1 1 0; ERet 0; EObs 1 true 0; EStart 2 0 0;
       EEnd 1 (Some (0, 0, true)); EEnd 2 (Some (1, 0, true)); EEnd 0 (Some (1, 1, true));
       ECall [0; 1; 9] 2; ERet 2; EStart 3 1 1; EEnd 3 (Some (1, 1, true))]
  | None => False
  end.
Proof. vm_compute. reflexivity. Qed.

(* the specification is not trivially true: it rejects the old configuration answering a request
   started after the reload returned, a transport error at a served address, an answer from a
   configuration whose load failed (after, during or across the failed reload), a reload result other than the configuration's, a socket
   that disappeared or was replaced *)
Example C07_spec_rejects :
  spec_trace [0] [ECall [0] 0; ERet 0; EStart 0 0 0; EEnd 0 (Some (0, 0, true))] = false /\
  spec_trace [0] [ECall [0] 0; EStart 0 0 0; ERet 0; EEnd 0 None] = false /\
  spec_trace [0] [ECall [0] 1; ERet 1; EStart 0 0 0; EEnd 0 (Some (1, 0, true))] = false /\
  spec_trace [0] [EStart 0 0 0; EEnd 0 (Some (0, 1, true))] = false /\
  spec_trace [0] [EStart 0 0 0; EEnd 0 (Some (0, 0, false))] = false /\
  spec_trace [0] [ECall [0] 0; ERet 1] = false /\
  spec_trace [0] [ECall [0] 1; EStart 0 0 0; EEnd 0 (Some (1, 0, true)); ERet 1] = false /\
  spec_trace [0] [ECall [0] 1; EStart 0 0 0; ERet 1; EEnd 0 (Some (1, 0, true))] = false /\
  spec_trace [0] [ECall [0] 1; EStart 0 0 0; ERet 1; EEnd 0 (Some (0, 0, true))] = true /\
  spec_trace [0] [EObs 0 true 0; ECall [0] 0; EObs 0 false 0; ERet 0] = false /\
  spec_trace [0] [EObs 0 true 0; ECall [0] 0; ERet 0; EObs 0 true 1] = false /\
  (* a drain timeout makes no difference to what the reload must return and to who answers; a
     reload whose startup callback fails must return an error and never answer *)
  spec_trace [0] [EStart 0 0 0; ECall [0] 0; EDrain 0; ERet 1] = false /\
  spec_trace [0] [EStart 0 0 0; ECall [0] 0; EDrain 0; ERet 0; EStart 1 0 0; EEnd 1 (Some (0, 0, true))] = false /\
  spec_trace [0] [EStart 0 0 0; ECall [0] 0; EDrain 0; ERet 0; EEnd 0 (Some (0, 0, true))] = true /\
  spec_trace [0] [EDrain 0] = false /\
  spec_trace [0] [ECall [0] 3; ERet 0] = false /\
  spec_trace [0] [ECall [0] 3; ERet 1; EStart 0 0 0; EEnd 0 (Some (1, 0, true))] = false /\
  spec_trace [0] [ECall [0] 3; ERet 1; EStart 0 0 0; EEnd 0 (Some (0, 0, true))] = true.
Proof. vm_compute. repeat split; reflexivity. Qed.

(* The judge's acceptance check is sound: when it says that the model accepts an observed
   history, a run of the model with exactly that observable history exists (it was executed
   step by step by the kernel); consequently an accepted history satisfies the specification. *)
Theorem C07_accepts_sound :
  forall a0 blocked evs, accepts a0 blocked evs = true ->
  nodupb a0 = true /\ exists ls s, run (init a0 blocked) ls = Some s /\ rev (hist s) = evs.
Proof. exact accepts_sound. Qed.
Print Assumptions C07_accepts_sound.

Theorem C07_accepted_history_satisfies_spec :
  forall a0 blocked evs, accepts a0 blocked evs = true -> spec_trace a0 evs = true.
Proof. exact accepted_history_satisfies_spec. Qed.
Print Assumptions C07_accepted_history_satisfies_spec.

Example C07_accepts_nonvacuous :
  accepts [0; 1] [9]
    [EObs 0 true 0; EStart 0 0 1; ECall [1; 0] 0; EStart 1 1 0; ERet 0; EObs 1 true 0; EStart 2 0 0;
     EEnd 1 (Some (0, 0, true)); EEnd 2 (Some (1, 0, true)); EEnd 0 (Some (1, 1, true));
     ECall [0; 1; 9] 2; ERet 2; EStart 3 1 1; EEnd 3 (Some (1, 1, true))] = true.
Proof. vm_compute. reflexivity. Qed.

(* ---------------------------------------------------------------------------------------------
   Event hooks across reloads: the SIGUSR1 handler of sigtrap_posix.go (cloneEventHooks,
   purgeEventHooks, EmitEvent(InstanceRestartEvent), Restart, restoreEventHooks on error) and
   Restart's own clone / restore in startWithListenerFds, over EVERY sequence of reloads
   ([hrun (hinit names0) cs]: any hook names for the first configuration, any list of calls,
   each through the signal handler or direct, with any hook names, valid or failing). *)

(* A reload that fails, by whichever path and for whichever reason (also a hook name that is
   already registered: RegisterEventHook panics, Restart recovers), leaves the registry, the
   generation in force and its hooks exactly as they were. *)
Theorem C07_hooks_failed_reload_unchanged :
  forall s c, snd (hreload s c) = false ->
  hs_reg (fst (hreload s c)) = hs_reg s /\ hs_cur (fst (hreload s c)) = hs_cur s
  /\ hs_names (fst (hreload s c)) = hs_names s /\ hs_okg (fst (hreload s c)) = hs_okg s.
Proof. exact hreload_failed_unchanged. Qed.
Print Assumptions C07_hooks_failed_reload_unchanged.

Example C07_hooks_failed_reload_unchanged_nonvacuous :
  (* a failing configuration registers hook 7 before it fails; through the handler and direct *)
  snd (hreload (hinit [0; 1]) {| hc_sig := true; hc_names := [7]; hc_fate := 1 |}) = false /\
  snd (hreload (hinit [0; 1]) {| hc_sig := false; hc_names := [7]; hc_fate := 3 |}) = false /\
  (* a valid configuration that re-uses a registered name, direct call: panic, recovered *)
  snd (hreload (hinit [0; 1]) {| hc_sig := false; hc_names := [1]; hc_fate := 0 |}) = false.
Proof. vm_compute. auto. Qed.

(* Whatever the history, every hook in the registry was registered by a configuration that was
   started successfully (the first one or one whose reload returned success): nothing of a
   rejected configuration stays behind. *)
Theorem C07_hooks_owned_by_started :
  forall names0 cs p,
  In p (hs_reg (hrun (hinit names0) cs)) -> In (snd p) (hs_okg (hrun (hinit names0) cs)).
Proof. exact hooks_owned_by_started. Qed.
Print Assumptions C07_hooks_owned_by_started.

Theorem C07_hooks_started_generations :
  forall s c g, In g (hs_okg (fst (hreload s c))) ->
  In g (hs_okg s) \/ (g = S (hs_calls s) /\ snd (hreload s c) = true).
Proof. exact hokg_bound. Qed.
Print Assumptions C07_hooks_started_generations.

(* Reloads through the SIGUSR1 handler: after ANY sequence of them, successful and failed in any
   order, the registry is exactly the hooks of the configuration in force, registered by it. *)
Theorem C07_hooks_sigusr1_exactly_current :
  forall names0 cs, forallb hc_sig cs = true ->
  let s := hrun (hinit names0) cs in hs_reg s = map (fun x => (x, hs_cur s)) (hs_names s).
Proof. exact hooks_sigusr1_exactly_current. Qed.
Print Assumptions C07_hooks_sigusr1_exactly_current.

Example C07_hooks_sigusr1_exactly_current_nonvacuous :
  let s := hrun (hinit [0; 1]) [{| hc_sig := true; hc_names := [2; 3]; hc_fate := 0 |};
                                {| hc_sig := true; hc_names := [4]; hc_fate := 1 |};
                                {| hc_sig := true; hc_names := [0]; hc_fate := 0 |}] in
  hs_reg s = [(0, 3)] /\ hs_cur s = 3 /\ hs_okg s = [3; 1; 0].
Proof. vm_compute. auto. Qed.

(* ... and a valid configuration with distinct hook names is always taken over by that path
   (the purge has emptied the registry: no name can clash). *)
Theorem C07_hooks_sigusr1_valid_succeeds :
  forall s c, hc_sig c = true -> hc_fate c = 0 -> nodupb (hc_names c) = true -> snd (hreload s c) = true.
Proof. exact hreload_sig_valid_succeeds. Qed.
Print Assumptions C07_hooks_sigusr1_valid_succeeds.

Example C07_hooks_sigusr1_valid_succeeds_nonvacuous :
  snd (hreload (hinit [0; 1]) {| hc_sig := true; hc_names := [1; 0]; hc_fate := 0 |}) = true.
Proof. vm_compute. reflexivity. Qed.

(* Instance.Restart called directly purges nothing: a successful reload ADDS the new hooks. *)
Theorem C07_hooks_direct_restart_keeps_old :
  forall s c, hc_sig c = false -> snd (hreload s c) = true ->
  hs_reg (fst (hreload s c)) = hs_reg s ++ map (fun x => (x, S (hs_calls s))) (hc_names c)
  /\ hs_cur (fst (hreload s c)) = S (hs_calls s).
Proof. exact hreload_ok_direct. Qed.
Print Assumptions C07_hooks_direct_restart_keeps_old.

Example C07_hooks_direct_restart_keeps_old_nonvacuous :
  snd (hreload (hinit [0]) {| hc_sig := false; hc_names := [2]; hc_fate := 0 |}) = true.
Proof. vm_compute. reflexivity. Qed.

(* "only the configuration in force has hooks registered" is therefore FALSE of the code for
   direct Restart calls (hooks of a stopped generation keep receiving events); the strongest
   true statements are C07_hooks_owned_by_started (all paths) and
   C07_hooks_sigusr1_exactly_current (handler path). *)
Theorem C07_hooks_only_current_refuted :
  exists names0 cs p, In p (hs_reg (hrun (hinit names0) cs)) /\ snd p <> hs_cur (hrun (hinit names0) cs).
Proof. exact hooks_only_current_refuted. Qed.
Print Assumptions C07_hooks_only_current_refuted.

Theorem C07_hooks_only_current_partial :
  forall names0 cs p, In p (hs_reg (hrun (hinit names0) cs)) ->
  In (snd p) (hs_okg (hrun (hinit names0) cs)) /\
  (forallb hc_sig cs = true -> snd p = hs_cur (hrun (hinit names0) cs)).
Proof. exact hooks_only_current_partial. Qed.
Print Assumptions C07_hooks_only_current_partial.

(* The InstanceRestartEvent the handler emits comes AFTER purgeEventHooks: in no history does any
   hook receive it (the code as it is; stated so that a change of that order shows up). *)
Theorem C07_restart_event_reaches_no_hook :
  forall names0 cs, Forall (fun r => r = []) (hs_emit (hrun (hinit names0) cs)).
Proof. exact restart_event_reaches_no_hook. Qed.
Print Assumptions C07_restart_event_reaches_no_hook.

(* ---------------------------------------------------------------------------------------------
   Generations.  A connection is only ever taken by the generation in force or by the one being
   started by a valid configuration, and that generation serves the connection's address. *)
Theorem C07_accept_only_by_live_generation :
  forall s k i s', reachable s -> step s (LAccept k i) = Some s' ->
  exists c, nth_error (conns s) k = Some c /\ cst c = CQueued /\ In (caddr c) (addrs_of s i) /\
            (i = cur s \/ pending s = Some i /\ fate_of s i = 0).
Proof. exact accept_only_by_live. Qed.
Print Assumptions C07_accept_only_by_live_generation.

Example C07_accept_only_by_live_generation_nonvacuous :
  exists s s', reachable s /\ step s (LAccept 0 1) = Some s' /\ cur s = 0 /\ pending s = Some 1.
Proof.
  destruct (run (init [0] []) [LNew 0 0; LConnect 0; LCall [0] 0; LLoadOk; LCbOk; LDup; LAdv; LSpawn]) as [s|] eqn:E;
    [|vm_compute in E; discriminate].
  exists s. eexists. split; [exists [0], []; eexists; split; [reflexivity|exact E]|].
  vm_compute in E. injection E as <-. vm_compute. repeat split; reflexivity.
Qed.

(* The generation in force only moves forward, and once a generation has been replaced (its Stop
   has completed: a later one is in force) it never again has an acceptor or a descriptor of any
   listening socket, whatever reloads and requests follow: it takes no connection after that. *)
Theorem C07_generation_in_force_monotone :
  forall ls s s', reachable s -> run s ls = Some s' -> cur s <= cur s'.
Proof. exact cur_monotone. Qed.
Print Assumptions C07_generation_in_force_monotone.

Theorem C07_stopped_generation_never_accepts_again :
  forall s i ls s' a, reachable s -> i < cur s -> run s ls = Some s' ->
  ~ In i (acc s' a) /\ ~ In i (fdh s' a).
Proof. exact stopped_never_accepts_again. Qed.
Print Assumptions C07_stopped_generation_never_accepts_again.

(* "No generation ANSWERS after its Stop has completed" is false of the code: a connection the
   old server holds beyond the graceful timeout stays with it and is answered by the OLD
   configuration after the successful return (Shutdown's context expires; nothing kills the
   connection).  Witness: the drain-timeout schedule; the old generation has no acceptor left. The
   strongest true statements: C07_stopped_generation_never_accepts_again (it takes nothing new),
   C07_each_conn_one_instance / C07_after_return_new_config (what it answers it had accepted
   while it was live, at an address it served). *)
Theorem C07_no_answer_after_stop_refuted :
  exists s k c i s', reachable s /\ rst s = RIdle /\ nth_error (conns s) k = Some c /\ cst c = CAccepted i /\
                     i <> cur s /\ acc s (caddr c) = [cur s] /\ step s (LAnswer k) = Some s'.
Proof. exact no_answer_after_stop_refuted. Qed.
Print Assumptions C07_no_answer_after_stop_refuted.

Theorem C07_no_answer_after_stop_partial :
  forall s i ls s' a k c, reachable s -> i < cur s -> run s ls = Some s' ->
  (~ In i (acc s' a) /\ ~ In i (fdh s' a)) /\
  (nth_error (conns s') k = Some c -> accepted_by (cst c) = Some i ->
   cborn c <= i /\ In (caddr c) (addrs_of s' i)).
Proof. exact no_answer_after_stop_partial. Qed.
Print Assumptions C07_no_answer_after_stop_partial.
