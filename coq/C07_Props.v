(* C07 — property theorems only. *)
Require Import V.Lib V.C07_Model V.C07_Proofs.
Open Scope nat_scope.

Theorem C07_init_owner : forall a0 b, owner (init a0 b) = 0.
Proof. exact placeholder_init_owner. Qed.
Print Assumptions C07_init_owner.
