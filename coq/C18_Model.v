(* C18 — gzip transparency: executable model.
   Mirrors caskethttp/gzip/gzip.go (Gzip.ServeHTTP, gzipResponseWriter.WriteHeader/Write),
   gzip/responsefilter.go (SkipCompressedFilter, LengthFilter, ResponseFilterWriter),
   gzip/requestfilter.go (ExtFilter, PathFilter), gzip/setup.go (filter assembly, pooled writer
   closed at the end of the request), staticfiles/fileserver.go (precompressed sibling choice),
   and the part of net/http's ResponseWriter both of them rely on (header map is snapshotted
   by the first WriteHeader / Write / Flush; later WriteHeader calls are ignored).

   The compressor itself is NOT modelled: a compressed body is the symbolic segment [SG ws]
   ("one gzip stream holding the writes ws"); theorems quantify over every codec [gz]/[gunzip]
   with gunzip (gz ws) = Some (concat ws), the harness decodes with Go's compress/gzip.

   Everything that is a table in the Go source (default extensions, sibling priority) is a
   Section variable / parameter here; the judge instantiates it with the lists regenerated
   from the Go AST (Gen_C18.v), the theorems hold for every list. *)
Require Import V.Lib V.GoPath V.Gen_C18.
Require V.C18_LibPack.   (* not imported: only so that it is built with the model; case files import it *)
Open Scope N_scope.
Local Open Scope string_scope.

(* ---------- small string helpers ---------- *)
(* strings.Trim(s, " \t") *)
Definition is_ows (c : N) : bool := (c =? 32) || (c =? 9).
Fixpoint ltrim (s : bytes) : bytes := match s with c :: r => if is_ows c then ltrim r else s | [] => [] end.
Definition trim (s : bytes) : bytes := rev (ltrim (rev (ltrim s))).

(* path.Ext: suffix starting at the last '.' of the last '/'-separated element *)
Fixpoint ext_rev (r acc : bytes) : bytes :=
  match r with
  | [] => []
  | c :: r' => if c =? SLASH then [] else if c =? DOT then c :: acc else ext_rev r' (c :: acc)
  end.
Definition path_ext (p : bytes) : bytes := ext_rev (rev p) [].

(* strconv.ParseInt(s, 10, 64): optional sign, decimal digits, range check; None = error *)
Definition is_digit (c : N) : bool := (48 <=? c) && (c <=? 57).
Fixpoint digits_val (s : bytes) (acc : Z) : option Z :=
  match s with
  | [] => Some acc
  | c :: r => if is_digit c then digits_val r (10 * acc + Z.of_N (c - 48))%Z else None
  end.
Definition MAXI64 : Z := 9223372036854775807%Z.
Definition parse_int (s : bytes) : option Z :=
  match s with
  | [] => None
  | c :: r =>
      if c =? 43 then
        match r with [] => None
        | _ => match digits_val r 0 with Some v => if (v <=? MAXI64)%Z then Some v else None | None => None end end
      else if c =? 45 then
        match r with [] => None
        | _ => match digits_val r 0 with Some v => if (v <=? MAXI64 + 1)%Z then Some (- v)%Z else None | None => None end end
      else match digits_val s 0 with Some v => if (v <=? MAXI64)%Z then Some v else None | None => None end
  end.

(* strconv.FormatInt(n, 10) for n >= 0 *)
Fixpoint dec_fuel (fuel : nat) (n : N) (acc : bytes) : bytes :=
  match fuel with
  | O => acc
  | S f => let acc' := (48 + n mod 10) :: acc in
           if n / 10 =? 0 then acc' else dec_fuel f (n / 10) acc'
  end.
Definition decimal (n : N) : bytes := dec_fuel 40 n [].

(* ---------- header map (keys are canonical MIME keys) ---------- *)
Definition headers := list (bytes * list bytes).
Fixpoint hvals (h : headers) (k : bytes) : list bytes :=
  match h with
  | [] => []
  | kv :: r => if beq k (fst kv) then snd kv else hvals r k
  end.
Definition hget (h : headers) (k : bytes) : bytes := match hvals h k with v :: _ => v | [] => [] end.
Definition hdel (h : headers) (k : bytes) : headers := filter (fun kv => negb (beq k (fst kv))) h.
Definition hset (h : headers) (k v : bytes) : headers := (k, [v]) :: hdel h k.
Definition hadd (h : headers) (k v : bytes) : headers := (k, hvals h k ++ [v]) :: hdel h k.

Definition K_CE : bytes := bs "Content-Encoding".
Definition K_CL : bytes := bs "Content-Length".
Definition K_VARY : bytes := bs "Vary".
Definition K_ETAG : bytes := bs "Etag".
Definition K_CT : bytes := bs "Content-Type".
Definition K_XCTO : bytes := bs "X-Content-Type-Options".
Definition GZIP : bytes := bs "gzip".
Definition IDENTITY : bytes := bs "identity".
Definition V_AE : bytes := bs "Accept-Encoding".
Definition WEAK : bytes := bs "W/".
Definition STAR : bytes := bs "*".

(* ---------- what a handler does to its ResponseWriter ---------- *)
Inductive op :=
| OSet (k v : bytes)          (* w.Header().Set *)
| OAdd (k v : bytes)          (* w.Header().Add *)
| ODel (k : bytes)            (* w.Header().Del *)
| OWriteHeader (code : Z)
| OWrite (b : bytes)
| OFlush.

Definition hdr_fun (o : op) (h : headers) : headers :=
  match o with
  | OSet k v => hset h k v
  | OAdd k v => hadd h k v
  | ODel k => hdel h k
  | _ => h
  end.
Definition is_hdr (o : op) : bool := match o with OSet _ _ | OAdd _ _ | ODel _ => true | _ => false end.
Definition is_body (o : op) : bool := match o with OWrite _ | OFlush => true | _ => false end.
Definition writes (s : list op) : list bytes :=
  flat_map (fun o => match o with OWrite b => [b] | _ => [] end) s.

(* ---------- net/http's response writer, as far as it matters here ---------- *)
Inductive seg := SP (b : bytes) | SG (ws : list bytes).
Record uw := { u_hdr : headers; u_commit : option (Z * headers); u_body : list seg (* newest first *) }.

Definition uw_commit (code : Z) (u : uw) : uw :=
  match u_commit u with
  | Some _ => u
  | None => {| u_hdr := u_hdr u; u_commit := Some (code, u_hdr u); u_body := u_body u |}
  end.
Definition uw_write (s : seg) (u : uw) : uw :=
  let u' := uw_commit 200 u in
  {| u_hdr := u_hdr u'; u_commit := u_commit u'; u_body := s :: u_body u' |}.
Definition uw_sethdr (f : headers -> headers) (u : uw) : uw :=
  {| u_hdr := f (u_hdr u); u_commit := u_commit u; u_body := u_body u |}.

Definition pstep (u : uw) (o : op) : uw :=
  match o with
  | OWriteHeader c => uw_commit c u
  | OWrite b => uw_write (SP b) u
  | OFlush => uw_commit 200 u
  | _ => uw_sethdr (hdr_fun o) u
  end.
Definition u0 : uw := {| u_hdr := []; u_commit := None; u_body := [] |}.
Definition run_plain (s : list op) : uw := fold_left pstep s u0.

(* the response as sent: a handler that never commits gets 200 and the final header map *)
Definition r_status (u : uw) : Z := match u_commit u with Some (c, _) => c | None => 200%Z end.
Definition r_hdr (u : uw) : headers := match u_commit u with Some (_, h) => h | None => u_hdr u end.
Definition r_ce (u : uw) : list bytes := hvals (r_hdr u) K_CE.
Definition r_cl (u : uw) : list bytes := hvals (r_hdr u) K_CL.
Definition r_segs (u : uw) : list seg := rev (u_body u).
Definition bodyless (head : bool) (status : Z) : bool :=
  head || (status =? 204)%Z || (status =? 304)%Z || ((100 <=? status)%Z && (status <? 200)%Z).
Definition has_gz (u : uw) : bool := existsb (fun s => match s with SG _ => true | _ => false end) (u_body u).
(* the codings the gzip layer actually applied to this response *)
Definition applied (u : uw) : list bytes := if has_gz u then [GZIP] else [].

Section Codec.
Variable gz : list bytes -> bytes.
Definition render (s : seg) : bytes := match s with SP b => b | SG ws => gz ws end.
Definition wire (head : bool) (u : uw) : bytes :=
  if bodyless head (r_status u) then [] else concat (map render (r_segs u)).
End Codec.

(* ---------- vocabulary of the theorems ---------- *)
(* Content-Encoding values that name no coding ("" and "identity"), and the codings a header names *)
Definition is_identity (v : bytes) : bool := beq v [] || beq v IDENTITY.
Definition no_coding (vals : list bytes) : bool := forallb is_identity vals.
Definition codings (vals : list bytes) : list bytes := filter (fun v => negb (is_identity v)) vals.

Section Client.
Variable gz : list bytes -> bytes.
Variable gunzip : bytes -> option bytes.
(* what a client honouring Content-Encoding obtains (None: it cannot decode the response) *)
Definition client_body (head : bool) (u : uw) : option bytes :=
  if bodyless head (r_status u) then Some []
  else match codings (r_ce u) with
       | [] => Some (wire gz head u)
       | [c] => if beq c GZIP then gunzip (wire gz head u) else None
       | _ => None
       end.
(* [out] (gzip enabled) carries the same content as [inn] (identity run) and says so:
   either the representation is untouched, or exactly one gzip layer was added on an
   unencoded response and Content-Encoding names exactly that layer *)
Definition transparent (head : bool) (out inn : uw) : Prop :=
  r_status out = r_status inn /\
  ((r_ce out = r_ce inn /\ wire gz head out = wire gz head inn) \/
   (no_coding (r_ce inn) = true /\ r_ce out = [GZIP] /\
    (bodyless head (r_status out) = true \/ gunzip (wire gz head out) = Some (wire gz head inn)))).
(* Content-Length, when the handler chain fixes it, is the length of what is sent *)
Definition cl_correct (head : bool) (u : uw) : Prop :=
  r_cl u = [] \/ exists v, r_cl u = [v] /\ parse_int v = Some (Z.of_nat (length (wire gz head u))).
End Client.
Definition weak_of (e : bytes) : bytes :=
  if negb (beq e []) && negb (has_prefix e WEAK) then WEAK ++ e else e.

(* ---------- the gzip directive ---------- *)
Record gcfg := { c_exts : list bytes; c_not : list bytes; c_min : Z (* 0 = no min_length *) }.

Section Tables.
Variable dexts : list bytes.         (* defaultExtensions *)

(* SkipCompressedFilter.ShouldCompress: false as soon as one Content-Encoding value is neither
   "" nor "identity" *)
Definition skip_ok (ces : list bytes) : bool :=
  forallb (fun e => negb (negb (beq e []) && negb (beq e IDENTITY))) ces.
Definition length_ok (min : Z) (cl : bytes) : bool :=
  match parse_int cl with
  | None => false
  | Some n => negb (n =? 0)%Z && negb (min =? 0)%Z && (min <=? n)%Z
  end.
Definition resp_ok (c : gcfg) (h : headers) : bool :=
  skip_ok (hvals h K_CE) && (if (c_min c =? 0)%Z then true else length_ok (c_min c) (hget h K_CL)).

Definition req_ok (cs : bool) (path : bytes) (c : gcfg) : bool :=
  negb (existsb (path_matches cs path) (c_not c)) &&
  (let es := match c_exts c with [] => dexts | l => l end in
   existsb (beq STAR) es || existsb (beq (path_ext path)) es).

(* gzipResponseWriter.WriteHeader's header rewriting *)
Definition gz_hdr (h : headers) : headers :=
  let h1 := hset (hdel h K_CL) K_CE GZIP in
  let h2 := if existsb (beq V_AE) (hvals h1 K_VARY) then h1 else hadd h1 K_VARY V_AE in
  let e := hget h2 K_ETAG in
  if negb (beq e []) && negb (has_prefix e WEAK) then hset h2 K_ETAG (WEAK ++ e) else h2.

(* ResponseFilterWriter wrapping gzipResponseWriter wrapping the real writer *)
Record gst := { g_u : uw;
                g_rfw : bool;      (* ResponseFilterWriter.statusCodeWritten *)
                g_should : bool;   (* ResponseFilterWriter.shouldCompress *)
                g_gzw : bool;      (* gzipResponseWriter.statusCodeWritten *)
                g_active : bool;   (* gzipResponseWriter.internalWriter != nil *)
                g_ws : list bytes  (* what went into the gzip.Writer, newest first *) }.

Definition gz_write_header (code : Z) (g : gst) : gst :=
  {| g_u := uw_commit code (uw_sethdr gz_hdr (g_u g)); g_rfw := g_rfw g; g_should := g_should g;
     g_gzw := true; g_active := g_active g; g_ws := g_ws g |}.

Definition rf_write_header (c : gcfg) (code : Z) (g : gst) : gst :=
  if g_rfw g then
    (* a repeated call: the decision stands, the call is passed on *)
    if g_should g then gz_write_header code g
    else {| g_u := uw_commit code (g_u g); g_rfw := g_rfw g; g_should := g_should g; g_gzw := g_gzw g;
            g_active := g_active g; g_ws := g_ws g |}
  else
  if resp_ok c (u_hdr (g_u g)) then
    let g1 := gz_write_header code
                {| g_u := g_u g; g_rfw := g_rfw g; g_should := g_should g; g_gzw := g_gzw g;
                   g_active := true; g_ws := g_ws g |} in
    {| g_u := g_u g1; g_rfw := true; g_should := true; g_gzw := g_gzw g1; g_active := g_active g1; g_ws := g_ws g1 |}
  else
    {| g_u := uw_commit code (g_u g); g_rfw := true; g_should := false; g_gzw := g_gzw g;
       g_active := g_active g; g_ws := g_ws g |}.

Definition rf_write (c : gcfg) (b : bytes) (g : gst) : gst :=
  let g1 := if g_rfw g then g else rf_write_header c 200 g in
  if g_should g1 then
    let g2 := if g_gzw g1 then g1 else gz_write_header 200 g1 in
    {| g_u := g_u g2; g_rfw := g_rfw g2; g_should := g_should g2; g_gzw := g_gzw g2;
       g_active := true; g_ws := b :: g_ws g2 |}
  else
    {| g_u := uw_write (SP b) (g_u g1); g_rfw := g_rfw g1; g_should := g_should g1; g_gzw := g_gzw g1;
       g_active := g_active g1; g_ws := g_ws g1 |}.

Definition g_with_u (f : uw -> uw) (g : gst) : gst :=
  {| g_u := f (g_u g); g_rfw := g_rfw g; g_should := g_should g; g_gzw := g_gzw g;
     g_active := g_active g; g_ws := g_ws g |}.

(* ResponseFilterWriter.Flush: WriteHeader(200) first if the header is not written yet, then the
   wrapped writer's Flush *)
Definition rf_flush (c : gcfg) (g : gst) : gst :=
  g_with_u (uw_commit 200) (if g_rfw g then g else rf_write_header c 200 g).

Definition gstep (c : gcfg) (g : gst) (o : op) : gst :=
  match o with
  | OWriteHeader code => rf_write_header c code g
  | OWrite b => rf_write c b g
  | OFlush => rf_flush c g
  | _ => g_with_u (uw_sethdr (hdr_fun o)) g
  end.
Definition g0 : gst := {| g_u := u0; g_rfw := false; g_should := false; g_gzw := false; g_active := false; g_ws := [] |}.
(* deferred putWriter: Close() emits the whole stream (header, blocks, trailer) *)
Definition g_finish (g : gst) : uw :=
  if g_active g then uw_write (SG (rev (g_ws g))) (g_u g) else g_u g.
Definition run_gz (c : gcfg) (s : list op) : uw := g_finish (fold_left (gstep c) s g0).

(* isZeroQValue: "0", or "0." followed by zeros only *)
Definition zero_qvalue (q : bytes) : bool :=
  beq q (bs "0") || (has_prefix q (bs "0.") && forallb (N.eqb 48) (skipn 2 q)).
(* acceptsGzip: some element of the comma separated list is named gzip or x-gzip (after trimming
   blanks, case-sensitively) and none of its ;-parameters is q= / Q= with a zero value *)
Definition q_refuses (param : bytes) : bool :=
  match trim param with
  | c1 :: c2 :: v => ((c1 =? 113) || (c1 =? 81)) && (c2 =? 61) && zero_qvalue (trim v)
  | _ => false
  end.
Definition coding_offers_gzip (coding : bytes) : bool :=
  let params := split 59 coding in
  let name := trim (hd [] params) in
  (beq name GZIP || beq name (bs "x-gzip")) && negb (existsb q_refuses (tl params)).
Definition accepts_gzip (ae : bytes) : bool := existsb coding_offers_gzip (split 44 ae).

(* Gzip.ServeHTTP *)
Definition gzip_serve (cs : bool) (cfgs : list gcfg) (path ae : bytes) (s : list op) : uw :=
  if negb (accepts_gzip ae) then run_plain s
  else match find (req_ok cs path) cfgs with
       | None => run_plain s
       | Some c => run_gz c s
       end.
(* ---------- informational responses (net/http since Go 1.19) ----------
   WriteHeader(code) with 100 <= code <= 199, code <> 101, sends an informational response with
   the header map as it is and does NOT start the final response: the header map stays open and
   a later WriteHeader / Write / Flush commits the final status.  The model above treats every
   WriteHeader as the final one; the [_i] functions below are the faithful ones (the judge uses
   them), and coincide with the ones above on every script without informational WriteHeader
   (C18_info_free_same_model).  Below the gzip layer an informational WriteHeader is NOT inert:
   ResponseFilterWriter.WriteHeader takes its decision and gzipResponseWriter.WriteHeader
   rewrites the header map at that moment. *)
Definition is_info (code : Z) : bool := (100 <=? code)%Z && (code <=? 199)%Z && negb (code =? 101)%Z.
Definition is_info_op (o : op) : bool := match o with OWriteHeader c => is_info c | _ => false end.
Definition info_free (s : list op) : bool := forallb (fun o => negb (is_info_op o)) s.
Definition commit_i (code : Z) (u : uw) : uw := if is_info code then u else uw_commit code u.

Definition pstep_i (u : uw) (o : op) : uw :=
  match o with
  | OWriteHeader c => commit_i c u
  | _ => pstep u o
  end.
Definition run_plain_i (s : list op) : uw := fold_left pstep_i s u0.

Definition gz_write_header_i (code : Z) (g : gst) : gst :=
  {| g_u := commit_i code (uw_sethdr gz_hdr (g_u g)); g_rfw := g_rfw g; g_should := g_should g;
     g_gzw := true; g_active := g_active g; g_ws := g_ws g |}.
Definition rf_write_header_i (c : gcfg) (code : Z) (g : gst) : gst :=
  if g_rfw g then
    if g_should g then gz_write_header_i code g
    else {| g_u := commit_i code (g_u g); g_rfw := g_rfw g; g_should := g_should g; g_gzw := g_gzw g;
            g_active := g_active g; g_ws := g_ws g |}
  else
  if resp_ok c (u_hdr (g_u g)) then
    let g1 := gz_write_header_i code
                {| g_u := g_u g; g_rfw := g_rfw g; g_should := g_should g; g_gzw := g_gzw g;
                   g_active := true; g_ws := g_ws g |} in
    {| g_u := g_u g1; g_rfw := true; g_should := true; g_gzw := g_gzw g1; g_active := g_active g1; g_ws := g_ws g1 |}
  else
    {| g_u := commit_i code (g_u g); g_rfw := true; g_should := false; g_gzw := g_gzw g;
       g_active := g_active g; g_ws := g_ws g |}.
Definition gstep_i (c : gcfg) (g : gst) (o : op) : gst :=
  match o with
  | OWriteHeader code => rf_write_header_i c code g
  | _ => gstep c g o
  end.
Definition run_gz_i (c : gcfg) (s : list op) : uw := g_finish (fold_left (gstep_i c) s g0).
Definition gzip_serve_i (cs : bool) (cfgs : list gcfg) (path ae : bytes) (s : list op) : uw :=
  if negb (accepts_gzip ae) then run_plain_i s
  else match find (req_ok cs path) cfgs with
       | None => run_plain_i s
       | Some c => run_gz_i c s
       end.
End Tables.

(* ---------- what the next handler is ---------- *)
(* a handler returning status >= 400 without writing gets the plain-text error page
   (errors middleware below gzip / Server.ServeHTTP without it): WriteTextResponse *)
Definition with_error_page (s : list op) (ret : Z) (errbody : bytes) : list op :=
  if (400 <=? ret)%Z then
    s ++ [OSet K_CT (bs "text/plain; charset=utf-8"); OSet K_XCTO (bs "nosniff"); OWriteHeader ret; OWrite errbody]
  else s.

(* staticfiles.serveFile: sibling choice and the headers it sets before http.ServeContent *)
(* the Accept-Encoding header is split at commas; an element names a coding iff, stripped of the
   optional white space HTTP allows around a list element (strings.Trim(acc, " \t"): SP / HTAB,
   nothing else — no Unicode white space, no other control), it IS the coding's name *)
Definition accepted (ae name : bytes) : bool := existsb (fun e => beq (trim e) name) (split 44 ae).
Definition select_sibling (prio : list (bytes * bytes)) (ae : bytes) (avail : bytes -> bool) : option (bytes * bytes) :=
  find (fun ne => accepted ae (fst ne) && avail (snd ne)) prio.
Definition sib_data (sibs : list (bytes * bytes)) (ext : bytes) : option bytes :=
  match find (fun s => beq ext (fst s)) sibs with Some s => Some (snd s) | None => None end.
Definition ETAG_TOKEN : bytes := bs """etag""".

(* headers set by serveFile + http.ServeContent before the body, and the bytes served *)
Definition static_hdrs (prio : list (bytes * bytes)) (ae : bytes) (data : bytes)
           (sibs : list (bytes * bytes)) : list op * bytes :=
  let avail := fun ext => match sib_data sibs ext with Some _ => true | None => false end in
  match select_sibling prio ae avail with
  | Some (name, ext) =>
      let d := match sib_data sibs ext with Some d => d | None => [] end in
      ([OAdd K_VARY V_AE; OSet K_CE name; OSet K_CL (decimal (N.of_nat (length d))); OSet K_ETAG ETAG_TOKEN], d)
  | None =>
      ([OSet K_ETAG ETAG_TOKEN; OSet K_CL (decimal (N.of_nat (length data)))], data)
  end.
Definition static_script (prio : list (bytes * bytes)) (head : bool) (ae : bytes)
           (data : bytes) (sibs : list (bytes * bytes)) : list op :=
  fst (static_hdrs prio ae data sibs) ++
  OWriteHeader 200 :: (if head then [] else [OWrite (snd (static_hdrs prio ae data sibs))]).

(* the table as it was when the property was written (for the examples) *)
Definition priority_snapshot : list (bytes * bytes) :=
  [(bs "zstd", bs ".zst"); (bs "br", bs ".br"); (bs "gzip", bs ".gz")].

(* ---------- executable spec helpers (independent of the model functions above) ---------- *)
(* RFC 7231 5.3.4 reading of Accept-Encoding: comma list, coding name before ';',
   case-insensitive, q=0 means "not acceptable", "*" covers codings not listed *)
Definition is_zero_q (v : bytes) : bool :=
  beq v (bs "0") || (has_prefix v (bs "0.") && forallb (N.eqb 48) (skipn 2 v)).
Definition qzero (params : list bytes) : bool :=
  existsb (fun p => let p' := to_lower (trim p) in has_prefix p' (bs "q=") && is_zero_q (trim (skipn 2 p'))) params.
Definition ae_entries (ae : bytes) : list (bytes * bool) :=
  map (fun e => let parts := split 59 e in (to_lower (trim (hd [] parts)), qzero (tl parts))) (split 44 ae).
Definition offers (names : list bytes) (ae : bytes) : bool :=
  let es := ae_entries ae in
  match filter (fun e => existsb (beq (fst e)) names) es with
  | [] => existsb (fun e => beq (fst e) STAR && negb (snd e)) es
  | ex => existsb (fun e => negb (snd e)) ex
  end.
Definition offers_gzip (ae : bytes) : bool := offers [GZIP; bs "x-gzip"] ae.
Definition offers_coding (ae c : bytes) : bool :=
  if beq c GZIP || beq c (bs "x-gzip") then offers_gzip ae else offers [to_lower c] ae.

(* ---------- observations of one real round trip ---------- *)
Record obs := { o_status : Z; o_ce : list bytes; o_cl : list bytes; o_vary : list bytes; o_etag : bytes;
                o_body : bytes;              (* wire body after de-chunking *)
                o_gunz : option bytes;       (* compress/gzip's decoding of o_body, if it is one gzip stream *)
                o_vcod : list bytes;         (* codings of Content-Encoding the harness could not peel *)
                o_view : bytes;              (* body after peeling the codings it could *)
                o_vok : bool;                (* every peel succeeded *)
                o_err : bool }.              (* transport error (short body, reset, unparsable) *)

Definition lbeq := list_beq beq.
Definition obeq (a b : option bytes) : bool :=
  match a, b with Some x, Some y => beq x y | None, None => true | _, _ => false end.
Definition all_plain (l : list seg) : option bytes :=
  fold_right (fun s acc => match s, acc with SP b, Some r => Some (b ++ r) | _, _ => None end) (Some []) l.

(* model response vs observed response (projected observables) *)
Definition agree_obs (head : bool) (u : uw) (o : obs) : bool :=
  (r_status u =? o_status o)%Z &&
  lbeq (r_ce u) (o_ce o) &&
  lbeq (hvals (r_hdr u) K_VARY) (o_vary o) &&
  (if bodyless head (r_status u) then beq (o_body o) []
   else
     (match r_cl u with [] => true | vs => lbeq vs (o_cl o) end) &&
     match all_plain (r_segs u) with
     | Some b => beq b (o_body o)
     | None => match r_segs u with
               | [SG ws] => obeq (o_gunz o) (Some (concat ws))
               | _ => false    (* plain and compressed bytes are never mixed (C18_one_representation) *)
               end
     end).
(* ETag: values are mtime-derived for static files, so only the relation between the two runs
   is compared: the gzip run's ETag is the plain run's, weakened exactly when the model weakens it *)
Definition agree_etag (mg mp : uw) (G P : obs) : bool :=
  if beq (hget (r_hdr mg) K_ETAG) (hget (r_hdr mp) K_ETAG) then beq (o_etag G) (o_etag P)
  else beq (o_etag G) (WEAK ++ o_etag P).

(* ---------- the property, evaluated on the two observed responses only ---------- *)
Definition same_repr (G P : obs) : bool := lbeq (o_ce G) (o_ce P) && beq (o_body G) (o_body P).
Definition cl_ok (o : obs) : bool :=
  match o_cl o with
  | [] => true
  | [v] => match parse_int v with Some n => (n =? Z.of_nat (length (o_body o)))%Z | None => false end
  | _ => false
  end.
(* the inner response names no coding: no Content-Encoding, or only empty / "identity" values *)
Definition ce_none (vals : list bytes) : bool :=
  forallb (fun v => beq v [] || beq v (bs "identity")) vals.
Definition spec_common (head : bool) (ae : bytes) (G P : obs) : bool :=
  (o_status G =? o_status P)%Z &&
  (o_err P || negb (o_err G)) &&
  (if bodyless head (o_status G) then beq (o_body G) []
   else
     (* the client decodes to the same content *)
     o_vok G && o_vok P && lbeq (o_vcod G) (o_vcod P) && beq (o_view G) (o_view P) &&
     (* Content-Encoding names exactly what was applied; encoded responses are left alone *)
     (same_repr G P || (ce_none (o_ce P) && lbeq (o_ce G) [GZIP] && obeq (o_gunz G) (Some (o_body P)))) &&
     (* Content-Length absent or correct *)
     cl_ok G) &&
  (* no gzip offered: the response is the identity one *)
  (offers_gzip ae || same_repr G P).

Definition ce_tokens (vals : list bytes) : list bytes :=
  filter (fun t => negb (beq t [])) (flat_map (fun v => map (fun t => to_lower (trim t)) (split 44 v)) vals).
Definition spec_static (head : bool) (ae : bytes) (data : option bytes) (G : obs) : bool :=
  match data with
  | None => true
  | Some d => bodyless head (o_status G) ||
              (lbeq (o_vcod G) [] && beq (o_view G) d && forallb (offers_coding ae) (ce_tokens (o_ce G)))
  end.

(* ---------- the pooled gzip writers (gzip/setup.go: writerPool, getWriter, putWriter) ---------- *)
(* Requests run concurrently; what they share is the sync.Pool of *gzip.Writer per level.  A
   request fetches a writer at most once (gzipResponseWriter.Writer() is lazy: getWriter, then
   Reset onto the request's own ResponseWriter), writes into it, and Gzip.ServeHTTP hands it back
   on its way out (the deferred putWriter = Close + Put; the status >= 400 path and panics
   included).  An execution is ANY interleaving of these events for any number of requests;
   which object a Get returns is part of the event (k-th element of the pool, or a new writer
   when k is out of range: sync.Pool may return any element or call New), and the runtime may
   drop pooled objects at any time.
   [nput err] = how often the writer is handed back on the way out ([err]: the handler returned
   a status >= 400).  In the code this is 1 on every path; the theorems are about that instance,
   the examples show what a second put on the error path would do. *)
Inductive pev :=
| PGet (r k : nat)             (* request r: getWriter + Reset *)
| PWrite (r : nat) (b : bytes) (* request r: Write(b) on its gzip writer *)
| PFinish (r : nat) (err : bool) (* request r: Gzip.ServeHTTP returns *)
| PDrop (k : nat).             (* the k-th pooled writer is garbage collected *)

Record pst := mkP {
  p_pool : list nat;               (* writers in the pool: a multiset of object identities *)
  p_held : nat -> option nat;      (* request -> the writer it holds *)
  p_done : nat -> bool;            (* request finished *)
  p_got : nat -> bool;             (* request has fetched a writer at some time *)
  p_dst : nat -> nat;              (* writer -> the request whose response it was last Reset onto *)
  p_buf : nat -> list bytes;       (* writer -> what was written since the Reset, newest first *)
  p_closed : nat -> bool;          (* writer closed since the Reset *)
  p_out : nat -> list (list bytes);(* request -> gzip streams that reached its response (each: the writes it holds) *)
  p_log : nat -> list bytes;       (* request -> what its handler wrote into its writer, newest first (ghost) *)
  p_next : nat }.                  (* next fresh object identity *)

Definition upd {A} (f : nat -> A) (k : nat) (v : A) : nat -> A := fun x => if Nat.eqb x k then v else f x.
Definition remove_nth {A} (k : nat) (l : list A) : list A := firstn k l ++ skipn (S k) l.

Definition p0 : pst := mkP [] (fun _ => None) (fun _ => false) (fun _ => false) (fun _ => O) (fun _ => [])
                           (fun _ => false) (fun _ => []) (fun _ => []) O.

(* gzip.Writer.Close: the stream goes to the writer the object is bound to; a second Close is a no-op *)
Definition close_w (w : nat) (s : pst) : pst :=
  if p_closed s w then s
  else mkP (p_pool s) (p_held s) (p_done s) (p_got s) (p_dst s) (p_buf s) (upd (p_closed s) w true)
           (upd (p_out s) (p_dst s w) (p_out s (p_dst s w) ++ [rev (p_buf s w)])) (p_log s) (p_next s).
(* putWriter: Close, then sync.Pool.Put *)
Definition put_w (w : nat) (s : pst) : pst :=
  let s1 := close_w w s in
  mkP (w :: p_pool s1) (p_held s1) (p_done s1) (p_got s1) (p_dst s1) (p_buf s1) (p_closed s1) (p_out s1) (p_log s1) (p_next s1).
Fixpoint put_n (n : nat) (w : nat) (s : pst) : pst :=
  match n with O => s | S n' => put_n n' w (put_w w s) end.

Section Pool.
Variable nput : bool -> nat.

Definition pool_step (s : pst) (e : pev) : pst :=
  match e with
  | PGet r k =>
      if p_done s r then s else
      match p_held s r with
      | Some _ => s
      | None =>
          let '(w, pool', next') :=
            match nth_error (p_pool s) k with
            | Some w => (w, remove_nth k (p_pool s), p_next s)
            | None => (p_next s, p_pool s, S (p_next s))
            end in
          mkP pool' (upd (p_held s) r (Some w)) (p_done s) (upd (p_got s) r true) (upd (p_dst s) w r)
              (upd (p_buf s) w []) (upd (p_closed s) w false) (p_out s) (p_log s) next'
      end
  | PWrite r b =>
      match p_held s r with
      | Some w =>
          if p_closed s w then s   (* Write on a closed gzip.Writer fails *)
          else mkP (p_pool s) (p_held s) (p_done s) (p_got s) (p_dst s) (upd (p_buf s) w (b :: p_buf s w))
                   (p_closed s) (p_out s) (upd (p_log s) r (b :: p_log s r)) (p_next s)
      | None => s
      end
  | PFinish r err =>
      if p_done s r then s else
      let s1 := match p_held s r with Some w => put_n (nput err) w s | None => s end in
      mkP (p_pool s1) (upd (p_held s1) r None) (upd (p_done s1) r true) (p_got s1) (p_dst s1) (p_buf s1)
          (p_closed s1) (p_out s1) (p_log s1) (p_next s1)
  | PDrop k =>
      mkP (remove_nth k (p_pool s)) (p_held s) (p_done s) (p_got s) (p_dst s) (p_buf s) (p_closed s)
          (p_out s) (p_log s) (p_next s)
  end.
Definition prun (t : list pev) : pst := fold_left pool_step t p0.
End Pool.

(* the code: one put on every path *)
Definition nput_code (err : bool) : nat := 1%nat.
(* a second put on the status >= 400 path *)
Definition nput_twice_on_error (err : bool) : nat := if err then 2%nat else 1%nat.

(* ---------- cases ---------- *)
Inductive case :=
| CScript (cs : bool) (cfgs : list gcfg) (head : bool) (path ae : bytes)
          (script : list op) (ret : Z) (errbody : bytes) (G P : obs)
| CStatic (cs : bool) (cfgs : list gcfg) (head : bool) (path ae : bytes)
          (data : option bytes) (sibs : list (bytes * bytes)) (errbody : bytes) (G P : obs)
| CBig (same_status same_view ce_exact cl_fine : bool)   (* large bodies: judged by the harness *)
(* a history of [npre] requests (error statuses after a partial compressed body, panics, aborted
   downloads, ...) followed by concurrent requests through the same pooled writers; per response
   of the burst: status 200 without transport error, the client view is the request's own body,
   Content-Encoding exact, Content-Length fine (each decoded by the harness) *)
| CBurst (npre : N) (resps : list (bool * bool * bool * bool))
| CExt (p e : bytes)                                     (* path.Ext differential *)
| CSkip.

Definition judge (c : case) : N :=
  match c with
  | CScript cs cfgs head path ae script ret errbody G P =>
      let s := with_error_page script ret errbody in
      let mg := gzip_serve_i gen_c18_default_exts cs cfgs path ae s in
      let mp := run_plain_i s in
      verdict (agree_obs head mg G && agree_obs head mp P && agree_etag mg mp G P)
              (spec_common head ae G P)
  | CStatic cs cfgs head path ae data sibs errbody G P =>
      let s := match data with
               | Some d => static_script gen_c18_static_priority head ae d sibs
               | None => with_error_page [] 404 errbody
               end in
      let mg := gzip_serve gen_c18_default_exts cs cfgs path ae s in
      let mp := run_plain s in
      verdict (agree_obs head mg G && agree_obs head mp P && agree_etag mg mp G P)
              (spec_common head ae G P && spec_static head ae data G && spec_static head ae data P)
  | CBig a b c d => verdict true (a && b && c && d)
  | CBurst _ resps => verdict true (forallb (fun r => match r with (a, b, c, d) => a && b && c && d end) resps)
  | CExt p e => verdict (beq (path_ext p) e) true
  | CSkip => 0
  end.
