(* C04 — proofs about the model of C04_Model.v. *)
Require Import V.Lib V.GoPath V.GoNet V.Gen_C04 V.C04_Model.
Open Scope N_scope.

(* ---------- byte-string equality ---------- *)
Lemma beq_false_iff a b : beq a b = false <-> a <> b.
Proof.
  split.
  - intros H E. apply beq_eq in E. congruence.
  - intros H. destruct (beq a b) eqn:E; [|reflexivity]. apply beq_eq in E. contradiction.
Qed.

Lemma beq_sym a b : beq a b = beq b a.
Proof.
  destruct (beq a b) eqn:E.
  - apply beq_eq in E. subst b. symmetry. apply beq_refl.
  - symmetry. apply beq_false_iff. apply beq_false_iff in E. congruence.
Qed.

Lemma beq_trans_false k k1 k2 : beq k k1 = true -> beq k k2 = beq k1 k2.
Proof. intros H. apply beq_eq in H. subst k1. reflexivity. Qed.

(* ---------- header maps, pointwise ---------- *)
Lemma hlookup_app a b k :
  hlookup (a ++ b) k = match hlookup a k with Some v => Some v | None => hlookup b k end.
Proof.
  induction a as [|[k' v] a IH]; simpl; [reflexivity|].
  destruct (beq k' k); [reflexivity|apply IH].
Qed.

Lemma hlookup_hdel_raw h k k' :
  hlookup (hdel_raw h k) k' = if beq k k' then None else hlookup h k'.
Proof.
  unfold hdel_raw. induction h as [|[k0 v] h IH]; simpl.
  - destruct (beq k k'); reflexivity.
  - destruct (beq k0 k) eqn:E0; simpl.
    + rewrite IH. apply beq_eq in E0. subst k0. destruct (beq k k'); reflexivity.
    + rewrite IH. destruct (beq k0 k') eqn:E1; [|reflexivity].
      apply beq_eq in E1. subst k0. rewrite beq_sym, E0. reflexivity.
Qed.

Lemma hlookup_hput h k vs k' :
  hlookup (hput h k vs) k' = if beq k k' then Some vs else hlookup h k'.
Proof.
  unfold hput. rewrite hlookup_app, hlookup_hdel_raw. simpl.
  destruct (beq k k'); [reflexivity|]. destruct (hlookup h k'); reflexivity.
Qed.

Lemma hlookup_hdel h n k : hlookup (hdel h n) k = if beq (canon_key n) k then None else hlookup h k.
Proof. apply hlookup_hdel_raw. Qed.

Lemma hlookup_hset h n v k : hlookup (hset h n v) k = if beq (canon_key n) k then Some [v] else hlookup h k.
Proof. apply hlookup_hput. Qed.

Lemma hlookup_hadd h n v k :
  hlookup (hadd h n v) k =
  if beq (canon_key n) k then Some (olist (hlookup h (canon_key n)) ++ [v]) else hlookup h k.
Proof.
  unfold hadd. rewrite hlookup_hput. destruct (beq (canon_key n) k); [|reflexivity].
  destruct (hlookup h (canon_key n)); reflexivity.
Qed.

(* hget only depends on the lookup of the canonical key *)
Lemma hget_ext h1 h2 n : hlookup h1 (canon_key n) = hlookup h2 (canon_key n) -> hget h1 n = hget h2 n.
Proof. unfold hget. intros ->. reflexivity. Qed.

Lemma hget_none h n : hlookup h (canon_key n) = None -> hget h n = [].
Proof. unfold hget. intros ->. reflexivity. Qed.

(* ---------- deleting a list of names ---------- *)
Lemma hlookup_fold_hdel toks h k :
  hlookup (fold_left hdel toks h) k =
  if existsb (fun t => beq (canon_key t) k) toks then None else hlookup h k.
Proof.
  revert h. induction toks as [|t toks IH]; intros h; simpl; [reflexivity|].
  rewrite IH, hlookup_hdel. destruct (beq (canon_key t) k); simpl; [|reflexivity].
  destruct (existsb _ toks); reflexivity.
Qed.

(* ---------- the hop-by-hop loop of createUpstreamRequest ---------- *)
Definition hop_step (h : hdr) (k : bytes) : hdr := hdel h k.

Lemma hop_step_lookup h k0 k :
  hlookup (hop_step h k0) k = hlookup h k \/ hlookup (hop_step h k0) k = None.
Proof.
  unfold hop_step.
  rewrite hlookup_hdel. destruct (beq (canon_key k0) k); [right|left]; reflexivity.
Qed.

Lemma hop_fold_none L h k : hlookup h k = None -> hlookup (fold_left hop_step L h) k = None.
Proof.
  revert h. induction L as [|k0 L IH]; intros h H; simpl; [exact H|].
  apply IH. destruct (hop_step_lookup h k0 k) as [E|E]; congruence.
Qed.

(* a listed key in canonical form (every entry of hopHeaders is) is gone, whatever its values *)
Lemma hop_fold_removed L h k0 :
  In k0 L -> canon_key k0 = k0 -> hlookup (fold_left hop_step L h) k0 = None.
Proof.
  revert h. induction L as [|k1 L IH]; intros h HIn Hc; [destruct HIn|]. simpl.
  destruct HIn as [->|HIn].
  - apply hop_fold_none. unfold hop_step.
    rewrite hlookup_hdel, Hc, beq_refl. reflexivity.
  - apply IH; assumption.
Qed.

Lemma hop_fold_kept L h k :
  (forall k0, In k0 L -> canon_key k0 <> k) -> hlookup (fold_left hop_step L h) k = hlookup h k.
Proof.
  revert h. induction L as [|k1 L IH]; intros h H; simpl; [reflexivity|].
  rewrite IH by (intros k0 H0; apply H; right; exact H0).
  unfold hop_step.
  rewrite hlookup_hdel. assert (Hk : canon_key k1 <> k) by (apply H; left; reflexivity).
  apply beq_false_iff in Hk. rewrite Hk. reflexivity.
Qed.

Lemma strip_hop_req_eq h : strip_hop_req h = fold_left hop_step gen_hop_headers h.
Proof. reflexivity. Qed.

Lemma gen_hop_canonical : forallb (fun k => beq (canon_key k) k) gen_hop_headers = true.
Proof. vm_compute. reflexivity. Qed.

Lemma gen_hop_canon k : In k gen_hop_headers -> canon_key k = k.
Proof.
  intros H. pose proof gen_hop_canonical as G. rewrite forallb_forall in G.
  apply beq_eq. apply G. exact H.
Qed.

(* ---------- createUpstreamRequest ---------- *)
Lemma xff_not_hop : existsb (beq K_XFF) gen_hop_headers = false.
Proof. vm_compute. reflexivity. Qed.

Lemma add_xff_other remote h k : k <> K_XFF -> hlookup (add_xff remote h) k = hlookup h k.
Proof.
  intros Hk. unfold add_xff. destruct (split_host_port remote) as [[ip p]|]; [|reflexivity].
  rewrite hlookup_hset. change (canon_key K_XFF) with K_XFF.
  assert (E : beq K_XFF k = false) by (apply beq_false_iff; congruence). rewrite E. reflexivity.
Qed.

(* the tokens the request and response loops delete are the tokens of ALL Connection lines (the spec's notion) *)
Lemma listed_conn_tokens_all h : listed_conn_tokens h = all_conn_tokens h.
Proof. unfold listed_conn_tokens, conn_values, all_conn_tokens. destruct (hlookup h K_CONNECTION); reflexivity. Qed.

Lemma strip_conn_listed_lookup h k :
  hlookup (strip_conn_listed h) k =
  if existsb (fun t => beq (canon_key t) k) (all_conn_tokens h) then None else hlookup h k.
Proof. unfold strip_conn_listed. rewrite hlookup_fold_hdel, listed_conn_tokens_all. reflexivity. Qed.

(* every header named in ANY Connection line is removed *)
Lemma conn_listed_removed h remote tok :
  In tok (all_conn_tokens h) -> canon_key tok <> K_XFF ->
  hlookup (create_upstream_headers remote h) (canon_key tok) = None.
Proof.
  intros HIn Hx. unfold create_upstream_headers. rewrite add_xff_other by exact Hx.
  rewrite strip_hop_req_eq. apply hop_fold_none.
  rewrite strip_conn_listed_lookup.
  assert (E : existsb (fun t => beq (canon_key t) (canon_key tok)) (all_conn_tokens h) = true).
  { apply existsb_exists. exists tok. split; [exact HIn|apply beq_refl]. }
  rewrite E. reflexivity.
Qed.

(* every hop-by-hop header is removed, whatever its values *)
Lemma hop_removed h remote k :
  In k gen_hop_headers ->
  hlookup (create_upstream_headers remote h) k = None.
Proof.
  intros HIn. unfold create_upstream_headers.
  assert (Hx : k <> K_XFF).
  { intros ->. pose proof xff_not_hop as X.
    assert (Y : existsb (beq K_XFF) gen_hop_headers = true)
      by (apply existsb_exists; exists K_XFF; split; [exact HIn|apply beq_refl]).
    congruence. }
  rewrite add_xff_other by exact Hx. rewrite strip_hop_req_eq.
  apply hop_fold_removed; [exact HIn|exact (gen_hop_canon k HIn)].
Qed.

(* ... in the spec's own terms: every header that is hop-by-hop per RFC 7230 / RFC 2616 (spec_hop) or
   named in any Connection line (is_hop_for) is absent upstream *)
Lemma spec_hop_in_gen k : mem k spec_hop = true -> In k gen_hop_headers.
Proof.
  intros H. unfold mem in H. apply existsb_exists in H. destruct H as [x [Hx E]]. apply beq_eq in E. subst x.
  assert (G : forallb (fun k => mem k gen_hop_headers) spec_hop = true) by (vm_compute; reflexivity).
  rewrite forallb_forall in G. specialize (G k Hx). unfold mem in G.
  apply existsb_exists in G. destruct G as [y [Hy E]]. apply beq_eq in E. subst y. exact Hy.
Qed.

Lemma is_hop_for_removed h remote k :
  is_hop_for h k = true -> k <> K_XFF -> hlookup (create_upstream_headers remote h) k = None.
Proof.
  intros H Hx. unfold is_hop_for in H. apply orb_true_iff in H. destruct H as [H|H].
  - apply hop_removed. apply spec_hop_in_gen. exact H.
  - apply existsb_exists in H. destruct H as [tok [HIn E]]. apply beq_eq in E. subst k.
    apply conn_listed_removed; assumption.
Qed.

(* a hop-by-hop header that is absent stays absent *)
Lemma absent_stays_absent h remote k :
  k <> K_XFF -> hlookup h k = None -> hlookup (create_upstream_headers remote h) k = None.
Proof.
  intros Hx Hn. unfold create_upstream_headers. rewrite add_xff_other by exact Hx.
  rewrite strip_hop_req_eq. apply hop_fold_none.
  rewrite strip_conn_listed_lookup. destruct (existsb _ _); [reflexivity|exact Hn].
Qed.

(* end-to-end headers are preserved *)
Lemma e2e_preserved h remote k :
  ~ In k gen_hop_headers ->
  (forall tok, In tok (all_conn_tokens h) -> canon_key tok <> k) ->
  k <> K_XFF ->
  hlookup (create_upstream_headers remote h) k = hlookup h k.
Proof.
  intros Hnh Hnc Hx. unfold create_upstream_headers. rewrite add_xff_other by exact Hx.
  rewrite strip_hop_req_eq, hop_fold_kept.
  - rewrite strip_conn_listed_lookup.
    destruct (existsb _ _) eqn:E; [|reflexivity].
    apply existsb_exists in E. destruct E as [tok [H1 H2]]. apply beq_eq in H2.
    exfalso. exact (Hnc tok H1 H2).
  - intros k0 H0 E. apply Hnh. rewrite <- E. rewrite (gen_hop_canon k0 H0). exact H0.
Qed.

(* X-Forwarded-For: the client address is appended to whatever survived the stripping *)
Lemma xff_appended h remote ip port :
  split_host_port remote = Some (ip, port) ->
  hlookup (create_upstream_headers remote h) K_XFF =
  Some [match hlookup (strip_hop_req (strip_conn_listed h)) K_XFF with
        | Some prior => join COMMA_SP prior ++ COMMA_SP ++ ip
        | None => ip
        end].
Proof.
  intros H. unfold create_upstream_headers, add_xff. rewrite H. rewrite hlookup_hset.
  change (canon_key K_XFF) with K_XFF. rewrite beq_refl. reflexivity.
Qed.

Lemma join_snoc sep l x : l <> [] -> join sep (l ++ [x]) = join sep l ++ sep ++ x.
Proof.
  induction l as [|a l IH]; intros H; [congruence|].
  destruct l as [|b l]; simpl; [reflexivity|].
  simpl in IH. rewrite IH by discriminate. rewrite <- !app_assoc. reflexivity.
Qed.

(* ... in the usual situation (X-Forwarded-For not itself declared hop-by-hop by the client) *)
Lemma xff_folded h remote ip port prior :
  split_host_port remote = Some (ip, port) ->
  (forall tok, In tok (all_conn_tokens h) -> canon_key tok <> K_XFF) ->
  hlookup h K_XFF = Some prior -> prior <> [] ->
  hlookup (create_upstream_headers remote h) K_XFF = Some [join COMMA_SP (prior ++ [ip])].
Proof.
  intros Hs Hc Hp Hne. rewrite (xff_appended _ _ _ _ Hs).
  assert (E : hlookup (strip_hop_req (strip_conn_listed h)) K_XFF = Some prior).
  { rewrite strip_hop_req_eq, hop_fold_kept.
    - rewrite strip_conn_listed_lookup.
      destruct (existsb _ _) eqn:E; [|exact Hp].
      apply existsb_exists in E. destruct E as [tok [H1 H2]]. apply beq_eq in H2.
      exfalso. exact (Hc tok H1 H2).
    - intros k0 H0 E. pose proof xff_not_hop as X.
      assert (Y : existsb (beq K_XFF) gen_hop_headers = true).
      { apply existsb_exists. exists k0. split; [exact H0|]. rewrite <- E, (gen_hop_canon k0 H0). apply beq_refl. }
      congruence. }
  rewrite E, join_snoc by exact Hne. reflexivity.
Qed.

Lemma xff_fresh h remote ip port :
  split_host_port remote = Some (ip, port) -> hlookup h K_XFF = None ->
  hlookup (create_upstream_headers remote h) K_XFF = Some [ip].
Proof.
  intros Hs Hp. rewrite (xff_appended _ _ _ _ Hs).
  rewrite strip_hop_req_eq, hop_fold_none; [reflexivity|].
  rewrite strip_conn_listed_lookup. destruct (existsb _ _); [reflexivity|exact Hp].
Qed.

(* ---------- singleJoiningSlash ---------- *)
Lemma has_suffix_slash a : has_suffix a [SLASH] = true -> a = removelast a ++ [SLASH].
Proof.
  unfold has_suffix. simpl. intros H.
  destruct (rev a) as [|c r] eqn:E; simpl in H; [discriminate|].
  apply andb_true_iff in H. destruct H as [H _]. apply N.eqb_eq in H. subst c.
  assert (Ea : a = rev r ++ [SLASH]).
  { rewrite <- (rev_involutive a), E. reflexivity. }
  rewrite Ea at 1 2. rewrite removelast_last. reflexivity.
Qed.

Lemma has_prefix_nil s : has_prefix s [] = true.
Proof. destruct s; reflexivity. Qed.

Lemma has_prefix_slash c b : has_prefix (c :: b) [SLASH] = (c =? SLASH).
Proof. simpl. rewrite has_prefix_nil. apply andb_true_r. Qed.

Lemma sjs_spec a b : sjs a b = join_one_slash a b.
Proof.
  unfold sjs, join_one_slash, strip_trailing_slash, strip_leading_slash.
  destruct b as [|c b].
  - simpl. rewrite !andb_false_r. simpl. apply app_nil_r.
  - rewrite !has_prefix_slash.
    destruct (has_suffix a [SLASH]) eqn:Ha; destruct (c =? SLASH) eqn:Hc; simpl.
    + rewrite (has_suffix_slash a Ha) at 1. rewrite <- app_assoc. reflexivity.
    + rewrite (has_suffix_slash a Ha) at 1. rewrite <- app_assoc. reflexivity.
    + apply N.eqb_eq in Hc. subst c. reflexivity.
    + reflexivity.
Qed.

(* ---------- director ---------- *)
Lemma director_path t w u : u_path (director t w u) = spec_path t w (u_path u).
Proof. unfold director, spec_path. simpl. rewrite sjs_spec. reflexivity. Qed.

Lemma director_query t w u : u_query (director t w u) = spec_query t (u_query u).
Proof.
  unfold director, spec_query. simpl.
  destruct (t_query t) as [|a tq]; simpl; [reflexivity|].
  destruct (u_query u) as [|b q]; simpl; [rewrite app_nil_r|]; reflexivity.
Qed.

Lemma director_query_no_target_query t w u : t_query t = [] -> u_query (director t w u) = u_query u.
Proof. intros H. rewrite director_query. unfold spec_query. rewrite H. reflexivity. Qed.

Lemma director_rawpath_plain t u :
  u_rawpath (director t [] u) = spec_rawpath t [] u.
Proof.
  unfold director, spec_rawpath, prefer. simpl.
  destruct (u_rawpath u) as [|c r]; simpl.
  - destruct (t_rawpath t) as [|d s]; simpl; [reflexivity|]. rewrite sjs_spec. reflexivity.
  - rewrite sjs_spec. reflexivity.
Qed.

(* ---------- header rules, pointwise ---------- *)
Lemma fold_add_lookup (repl : bytes -> bytes) name vals h k :
  hlookup (fold_left (fun h v => if is_nil (repl v) then h else hadd h name (repl v)) vals h) k =
  if beq (canon_key name) k
  then match filter (fun x => negb (is_nil x)) (map repl vals) with
       | [] => hlookup h k
       | xs => Some (olist (hlookup h k) ++ xs)
       end
  else hlookup h k.
Proof.
  revert h. induction vals as [|v vals IH]; intros h.
  - simpl. destruct (beq (canon_key name) k); reflexivity.
  - simpl fold_left. rewrite IH. simpl map. simpl filter.
    destruct (beq (canon_key name) k) eqn:E.
    + destruct (is_nil (repl v)) eqn:En; simpl negb; cbv iota; [reflexivity|].
      rewrite hlookup_hadd, E. apply beq_eq in E. rewrite E. simpl olist.
      destruct (filter (fun x => negb (is_nil x)) (map repl vals)) as [|y ys].
      * reflexivity.
      * rewrite <- app_assoc. reflexivity.
    + destruct (is_nil (repl v)); [reflexivity|]. rewrite hlookup_hadd, E. reflexivity.
Qed.

Lemma set_rule_lookup (sub : bytes -> bytes) f vals h k :
  hlookup (match rev vals with
           | [] => h
           | v :: _ => let x := replace_ph sub v in if is_nil x then h else hset h f x
           end) k =
  fold_left vop_apply
    (if negb (beq (canon_key f) k) then []
     else match rev vals with [] => [] | v :: _ => [VSet (replace_ph sub v)] end) (hlookup h k).
Proof.
  destruct (rev vals) as [|v r]; simpl.
  - destruct (negb (beq (canon_key f) k)); reflexivity.
  - destruct (is_nil (replace_ph sub v)) eqn:En.
    + destruct (negb (beq (canon_key f) k)); simpl; [reflexivity|]. rewrite En. reflexivity.
    + rewrite hlookup_hset. destruct (beq (canon_key f) k); simpl; [|reflexivity]. rewrite En. reflexivity.
Qed.

Lemma apply_rule_lookup e h0 h (r : rule) k :
  hlookup (apply_rule e h0 h r) k =
  fold_left vop_apply (vops_for (subst_of e h0) [r] k) (hlookup h k).
Proof.
  destruct r as [f vals]. unfold vops_for. simpl flat_map. rewrite app_nil_r.
  unfold apply_rule.
  destruct f as [|c name].
  - apply (set_rule_lookup (subst_of e h0) [] vals h k).
  - destruct (c =? PLUS) eqn:Ep.
    + rewrite (fold_add_lookup (replace_ph (subst_of e h0)) name vals h k).
      destruct (beq (canon_key name) k); simpl; [|reflexivity].
      destruct (filter _ _); reflexivity.
    + destruct (c =? MINUS) eqn:Em.
      * rewrite hlookup_hdel. destruct (beq (canon_key name) k); reflexivity.
      * apply (set_rule_lookup (subst_of e h0) (c :: name) vals h k).
Qed.

Lemma vops_for_cons sub (r : rule) rs k : vops_for sub (r :: rs) k = vops_for sub [r] k ++ vops_for sub rs k.
Proof. unfold vops_for. simpl. rewrite app_nil_r. reflexivity. Qed.

Lemma rules_lookup e h0 rules h k :
  hlookup (fold_left (apply_rule e h0) rules h) k =
  fold_left vop_apply (vops_for (subst_of e h0) rules k) (hlookup h k).
Proof.
  revert h. induction rules as [|r rs IH]; intros h; [reflexivity|].
  simpl fold_left at 1. rewrite IH, apply_rule_lookup, (vops_for_cons _ r rs), fold_left_app. reflexivity.
Qed.

Lemma rerule_fold_lookup e h0 f pts h k :
  hlookup (fold_left (fun h pt =>
               let x := replace_ph (subst_of e h0) (snd pt) in
               let orig := hget h f in
               if negb (is_nil x) && negb (is_nil orig) then hset h f (replace_all (fst pt) x orig) else h)
            pts h) k =
  fold_left vop_apply
    (if beq (canon_key f) k then map (fun pt => VRe (fst pt) (replace_ph (subst_of e h0) (snd pt))) pts else [])
    (hlookup h k).
Proof.
  revert h. induction pts as [|pt pts IH]; intros h.
  - simpl. destruct (beq (canon_key f) k); reflexivity.
  - simpl fold_left at 1. rewrite IH.
    destruct (beq (canon_key f) k) eqn:E.
    + simpl map. simpl fold_left at 2. f_equal.
      apply beq_eq in E. unfold hget. rewrite E.
      destruct (hlookup h k) as [[|orig rest]|] eqn:El; simpl.
      * rewrite andb_false_r. exact El.
      * destruct (negb (is_nil (replace_ph (subst_of e h0) (snd pt))) && negb (is_nil orig)) eqn:C.
        -- rewrite hlookup_hset. rewrite E, beq_refl. reflexivity.
        -- exact El.
      * rewrite andb_false_r. exact El.
    + destruct (negb _ && negb _); [|reflexivity]. rewrite hlookup_hset, E. reflexivity.
Qed.

Lemma apply_rerule_lookup e h0 h (r : rerule) k :
  hlookup (apply_rerule e h0 h r) k =
  fold_left vop_apply (revops_for (subst_of e h0) [r] k) (hlookup h k).
Proof.
  unfold apply_rerule, revops_for. simpl flat_map. rewrite app_nil_r.
  apply rerule_fold_lookup.
Qed.

Lemma rerules_lookup e h0 res h k :
  hlookup (fold_left (apply_rerule e h0) res h) k =
  fold_left vop_apply (revops_for (subst_of e h0) res k) (hlookup h k).
Proof.
  revert h. induction res as [|r rs IH]; intros h; [reflexivity|].
  simpl fold_left at 1. rewrite IH, apply_rerule_lookup.
  unfold revops_for. simpl flat_map. rewrite app_nil_r, fold_left_app. reflexivity.
Qed.

(* exactly the configured changes: the value of every header after mutateHeadersByRules is the
   value before, transformed by the operations of the rules that target it, in table order *)
Lemma mutate_headers_lookup e h0 rules res h k :
  hlookup (mutate_headers e h0 rules res h) k =
  fold_left vop_apply (vops_for (subst_of e h0) rules k ++ revops_for (subst_of e h0) res k) (hlookup h k).
Proof. unfold mutate_headers. rewrite rerules_lookup, rules_lookup, fold_left_app. reflexivity. Qed.

Lemma vops_for_one_nil sub f vals k : beq (rule_target f) k = false -> vops_for sub [(f, vals)] k = [].
Proof.
  intros Hf. unfold vops_for. simpl flat_map. rewrite app_nil_r.
  unfold rule_target in Hf. destruct f as [|c name].
  - change (canon_key []) with (@nil N). rewrite Hf. reflexivity.
  - destruct (c =? PLUS); simpl orb in Hf.
    + rewrite Hf. reflexivity.
    + destruct (c =? MINUS); simpl orb in Hf; rewrite Hf; reflexivity.
Qed.

Lemma mutate_headers_untouched e h0 rules res h k :
  (forall r, In r rules -> rule_target (fst r) <> k) ->
  (forall r, In r res -> canon_key (fst r) <> k) ->
  hlookup (mutate_headers e h0 rules res h) k = hlookup h k.
Proof.
  intros H1 H2. rewrite mutate_headers_lookup.
  assert (E1 : vops_for (subst_of e h0) rules k = []).
  { induction rules as [|[f vals] rs IH]; [reflexivity|].
    rewrite vops_for_cons, vops_for_one_nil, IH; [reflexivity| |].
    - intros r Hr. apply H1. right. exact Hr.
    - apply beq_false_iff. apply (H1 (f, vals)). left. reflexivity. }
  assert (E2 : revops_for (subst_of e h0) res k = []).
  { unfold revops_for. induction res as [|r rs IH]; [reflexivity|]. simpl.
    assert (Hf : beq (canon_key (fst r)) k = false) by (apply beq_false_iff; apply H2; left; reflexivity).
    rewrite Hf. simpl. apply IH. intros r' Hr. apply H2. right. exact Hr. }
  rewrite E1, E2. reflexivity.
Qed.

(* ---------- response direction ---------- *)
Lemma resp_strip_lookup h k :
  hlookup (resp_strip h) k =
  if existsb (fun t => beq (canon_key t) k) gen_hop_headers then None
  else if existsb (fun t => beq (canon_key t) k) (all_conn_tokens h) then None
  else hlookup h k.
Proof. unfold resp_strip. rewrite !hlookup_fold_hdel, listed_conn_tokens_all. reflexivity. Qed.

Lemma resp_hop_removed h k : In k gen_hop_headers -> hlookup (resp_strip h) k = None.
Proof.
  intros H. rewrite resp_strip_lookup.
  assert (E : existsb (fun t => beq (canon_key t) k) gen_hop_headers = true).
  { apply existsb_exists. exists k. split; [exact H|]. rewrite (gen_hop_canon k H). apply beq_refl. }
  rewrite E. reflexivity.
Qed.

Lemma resp_conn_listed_removed h tok :
  In tok (all_conn_tokens h) -> hlookup (resp_strip h) (canon_key tok) = None.
Proof.
  intros H. rewrite resp_strip_lookup. destruct (existsb _ gen_hop_headers); [reflexivity|].
  assert (E : existsb (fun t => beq (canon_key t) (canon_key tok)) (all_conn_tokens h) = true).
  { apply existsb_exists. exists tok. split; [exact H|apply beq_refl]. }
  rewrite E. reflexivity.
Qed.

Lemma resp_e2e_preserved h k :
  ~ In k gen_hop_headers -> (forall tok, In tok (all_conn_tokens h) -> canon_key tok <> k) ->
  hlookup (resp_strip h) k = hlookup h k.
Proof.
  intros H1 H2. rewrite resp_strip_lookup.
  destruct (existsb _ gen_hop_headers) eqn:E1.
  - apply existsb_exists in E1. destruct E1 as [t [Ht Et]]. apply beq_eq in Et.
    exfalso. apply H1. rewrite <- Et, (gen_hop_canon t Ht). exact Ht.
  - destruct (existsb _ (all_conn_tokens h)) eqn:E2; [|reflexivity].
    apply existsb_exists in E2. destruct E2 as [t [Ht Et]]. apply beq_eq in Et.
    exfalso. exact (H2 t Ht Et).
Qed.

(* ---------- trailers ---------- *)
Lemma fold_hput_other (l : hdr) init k :
  (forall kv, In kv l -> fst kv <> k) ->
  hlookup (fold_left (fun t kv => hput t (fst kv) (snd kv)) l init) k = hlookup init k.
Proof.
  revert init. induction l as [|kv l IH]; intros init H; [reflexivity|]. simpl.
  rewrite IH by (intros kv' H'; apply H; right; exact H').
  rewrite hlookup_hput. assert (E : beq (fst kv) k = false) by (apply beq_false_iff; apply H; left; reflexivity).
  rewrite E. reflexivity.
Qed.

Lemma fold_hput_in (l : hdr) init k vs :
  NoDup (map fst l) -> In (k, vs) l ->
  hlookup (fold_left (fun t kv => hput t (fst kv) (snd kv)) l init) k = Some vs.
Proof.
  revert init. induction l as [|kv l IH]; intros init Hnd HIn; [destruct HIn|].
  simpl in Hnd. inversion Hnd as [|x xs Hx Hnd']. subst x xs. simpl.
  destruct HIn as [->|HIn].
  - rewrite fold_hput_other.
    + rewrite hlookup_hput. simpl. rewrite beq_refl. reflexivity.
    + intros kv' H' E. apply Hx. simpl. rewrite <- E. apply in_map. exact H'.
  - apply IH; assumption.
Qed.

(* every trailer the backend sent reaches the client side of the model with its values *)
Lemma trailers_relayed b k vs :
  NoDup (map fst (b_trailers b)) -> In (k, vs) (b_trailers b) ->
  hlookup (final_trailers b) k = Some vs.
Proof. intros H1 H2. unfold final_trailers. apply fold_hput_in; assumption. Qed.

(* nothing is invented: a key that is neither announced nor sent is not a trailer *)
Lemma trailers_nothing_else b k :
  ~ In k (b_announced b) -> ~ In k (map fst (b_trailers b)) -> hlookup (final_trailers b) k = None.
Proof.
  intros H1 H2. unfold final_trailers. rewrite fold_hput_other.
  - induction (b_announced b) as [|a l IH]; [reflexivity|]. simpl.
    assert (E : beq a k = false) by (apply beq_false_iff; intros ->; apply H1; left; reflexivity).
    rewrite E. apply IH. intros H. apply H1. right. exact H.
  - intros kv H E. apply H2. rewrite <- E. apply in_map. exact H.
Qed.

Lemma client_view_status c e live pre b : v_status (client_view c e live pre b) = b_status b.
Proof. reflexivity. Qed.

Lemma client_view_trailers c e live pre b : v_trailers (client_view c e live pre b) = final_trailers b.
Proof. reflexivity. Qed.

(* ---------- one attempt of the retry loop (placeholders read a header map [h0] the rules do not touch) ---------- *)
Definition auth_hdr (t : target) (h : hdr) : hdr :=
  match t_auth t with
  | Some a => if is_nil (hget h K_AUTHZ) then hset h K_AUTHZ a else h
  | None => h
  end.

Lemma attempt_spec c e h0 st t :
  let o := snd (attempt c e h0 st t) in
  (forall k, hlookup (o_hdr o) k =
             fold_left vop_apply (vops_for (subst_of e h0) (c_up c) k ++ revops_for (subst_of e h0) (c_upre c) k)
                       (hlookup (auth_hdr t (s_hdr st)) k)) /\
  u_path (o_url o) = spec_path t (c_without c) (u_path (s_url st)) /\
  u_query (o_url o) = spec_query t (u_query (s_url st)) /\
  o_urlhost o = t_host t.
Proof.
  unfold attempt. simpl. split; [|split; [|split]].
  - intros k. rewrite mutate_headers_lookup. reflexivity.
  - apply (director_path t (c_without c) (s_url st)).
  - apply (director_query t (c_without c) (s_url st)).
  - reflexivity.
Qed.

(* ---------- retries: every attempt starts from the request createUpstreamRequest produced ---------- *)
Lemma attempts_fresh c e h0 st0 ts : forall st i t,
  nth_error ts i = Some t ->
  nth_error (fst (attempts c e h0 true st0 st ts)) i = Some (snd (attempt c e h0 st0 t)).
Proof.
  induction ts as [|t0 ts IH]; intros st i t H; [destruct i; discriminate|].
  cbn [attempts]. destruct (attempt c e h0 st0 t0) as [st' o] eqn:Ea.
  destruct (attempts c e h0 true st0 st' ts) as [os stf] eqn:Er. cbn [fst].
  destruct i as [|i]; cbn [nth_error] in *.
  - injection H as <-. rewrite Ea. reflexivity.
  - specialize (IH st' i t H). rewrite Er in IH. exact IH.
Qed.

Lemma attempts_length c e h0 retriable st0 ts : forall st,
  length (fst (attempts c e h0 retriable st0 st ts)) = length ts.
Proof.
  induction ts as [|t0 ts IH]; intros st; [reflexivity|]. cbn [attempts].
  destruct (attempt c e h0 (if retriable then st0 else st) t0) as [st' o].
  specialize (IH st'). destruct (attempts c e h0 retriable st0 st' ts) as [os stf]. cbn [fst length] in *. rewrite IH. reflexivity.
Qed.

(* the FIRST attempt, with or without retries: placeholders read the client's own header map *)
Lemma first_attempt_spec c retriable q t ts :
  exists o os, fst (run_request c retriable q (t :: ts)) = o :: os /\
    u_path (o_url o) = spec_path t (c_without c) (u_path (q_url q)) /\
    u_query (o_url o) = spec_query t (u_query (q_url q)) /\
    o_urlhost o = t_host t /\
    (forall k, hlookup (o_hdr o) k =
               fold_left vop_apply (vops_for (subst_of (env_of q) (q_hdr q)) (c_up c) k ++
                                    revops_for (subst_of (env_of q) (q_hdr q)) (c_upre c) k)
                         (hlookup (auth_hdr t (create_upstream_headers (q_remote q) (q_hdr q))) k)).
Proof.
  unfold run_request. cbn [attempts].
  assert (E : (if retriable then init_state q else init_state q) = init_state q) by (destruct retriable; reflexivity).
  rewrite E. destruct (attempt c (env_of q) (q_hdr q) (init_state q) t) as [st' o] eqn:Ea.
  destruct (attempts c (env_of q) (q_hdr q) retriable (init_state q) st' ts) as [os stf].
  exists o, os. split; [reflexivity|].
  pose proof (attempt_spec c (env_of q) (q_hdr q) (init_state q) t) as S. rewrite Ea in S. simpl in S.
  destruct S as [S1 [S2 [S3 S4]]]. split; [exact S2|]. split; [exact S3|]. split; [exact S4|exact S1].
Qed.

(* EVERY attempt (first or retry) to target t: path/query per the director applied ONCE to the client's
   URL, headers = (stripped headers + that upstream's credentials) transformed ONCE by the rules *)
Lemma retry_every_attempt_spec c q ts i t :
  nth_error ts i = Some t ->
  exists o, nth_error (fst (run_request c true q ts)) i = Some o /\
    u_path (o_url o) = spec_path t (c_without c) (u_path (q_url q)) /\
    u_query (o_url o) = spec_query t (u_query (q_url q)) /\
    o_urlhost o = t_host t /\
    (forall k, hlookup (o_hdr o) k =
               fold_left vop_apply (vops_for (subst_of (env_of q) (q_hdr q)) (c_up c) k ++
                                    revops_for (subst_of (env_of q) (q_hdr q)) (c_upre c) k)
                         (hlookup (auth_hdr t (create_upstream_headers (q_remote q) (q_hdr q))) k)).
Proof.
  intros H. unfold run_request.
  exists (snd (attempt c (env_of q) (q_hdr q) (init_state q) t)).
  split; [apply attempts_fresh; exact H|].
  pose proof (attempt_spec c (env_of q) (q_hdr q) (init_state q) t) as S. simpl in S.
  destruct S as [S1 [S2 [S3 S4]]]. split; [exact S2|]. split; [exact S3|]. split; [exact S4|exact S1].
Qed.

(* ---------- the hop-by-hop table covers the RFC list ---------- *)
Lemma spec_hop_covered : forallb (fun k => mem k gen_hop_headers) spec_hop = true.
Proof. vm_compute. reflexivity. Qed.

(* ---------- refutations (witnesses) ---------- *)
Definition wit_h1 : hdr := [(bs "Proxy-Authorization"%string, [[]; bs "Basic abc"%string])].
(* the witness of the former finding F-C04-2 (hop-by-hop header whose first value is empty): removed now *)
Lemma hop_empty_first_value_removed :
  In (bs "Proxy-Authorization"%string) gen_hop_headers /\
  hlookup wit_h1 (bs "Proxy-Authorization"%string) = Some [[]; bs "Basic abc"%string] /\
  hlookup (create_upstream_headers (bs "192.0.2.7:4711"%string) wit_h1) (bs "Proxy-Authorization"%string) = None.
Proof. vm_compute. tauto. Qed.

Definition wit_h2 : hdr := [(K_CONNECTION, [bs "close"%string; bs "X-Secret"%string]); (bs "X-Secret"%string, [bs "v1"%string])].
(* the witness of the former finding F-C04-1 (a header named in a second Connection line): removed now *)
Lemma second_connection_line_removed :
  In (bs "X-Secret"%string) (all_conn_tokens wit_h2) /\ hlookup wit_h2 (bs "X-Secret"%string) = Some [bs "v1"%string] /\
  hlookup (create_upstream_headers (bs "192.0.2.7:4711"%string) wit_h2) (bs "X-Secret"%string) = None.
Proof. vm_compute. tauto. Qed.

(* the witness of the former finding F-C04-3 (response header named in a second Connection line): removed now *)
Lemma response_second_connection_line_removed :
  In (bs "X-Secret"%string) (all_conn_tokens wit_h2) /\ hlookup wit_h2 (bs "X-Secret"%string) = Some [bs "v1"%string] /\
  hlookup (resp_strip wit_h2) (bs "X-Secret"%string) = None.
Proof. vm_compute. tauto. Qed.

(* in the spec's own terms: no hop-by-hop header of the backend response (RFC list or named in any
   Connection line) survives *)
Lemma resp_is_hop_for_removed h k : is_hop_for h k = true -> hlookup (resp_strip h) k = None.
Proof.
  intros E. unfold is_hop_for in E. apply orb_true_iff in E. destruct E as [E|E].
  - apply resp_hop_removed. apply spec_hop_in_gen. exact E.
  - apply existsb_exists in E. destruct E as [tok [HIn E]]. apply beq_eq in E. subst k.
    apply resp_conn_listed_removed. exact HIn.
Qed.

Definition wit_t : target := {| t_host := bs "h0.test"%string; t_path := bs "/base"%string; t_rawpath := []; t_query := bs "tq=1"%string; t_auth := None |}.
Definition wit_q : request :=
  {| q_method := bs "GET"%string; q_host := bs "front.test"%string; q_remote := bs "192.0.2.7:4711"%string;
     q_url := {| u_path := bs "/x"%string; u_rawpath := []; u_query := bs "a=b"%string |}; q_hdr := [(K_XFF, [bs "1.1.1.1"%string])] |}.
Definition wit_c : pcfg := parse_cfg [DUp (bs "+X-A"%string) (bs "lit"%string)].

(* the witness of the former finding F-C04-4 (retry): the second attempt is NOT rewritten again *)
Lemma retry_rewrite_once :
  exists o1 o2, fst (run_request wit_c true wit_q [wit_t; wit_t]) = [o1; o2] /\
    u_path (o_url o2) = bs "/base/x"%string /\ u_query (o_url o2) = bs "tq=1&a=b"%string /\
    hlookup (o_hdr o2) (bs "X-A"%string) = Some [bs "lit"%string] /\ o2 = o1.
Proof.
  eexists. eexists. split; [vm_compute; reflexivity|].
  repeat split; vm_compute; reflexivity.
Qed.

(* the witness of the former finding F-C04-5 (header-map aliasing): {>X-Forwarded-For} reads what the
   client sent whether or not the client also sent `Connection: keep-alive` *)
Definition wit_q' : request :=
  {| q_method := q_method wit_q; q_host := q_host wit_q; q_remote := q_remote wit_q; q_url := q_url wit_q;
     q_hdr := q_hdr wit_q ++ [(K_CONNECTION, [bs "keep-alive"%string])] |}.
Definition wit_c5 : pcfg := parse_cfg [DUp (bs "X-New"%string) (bs "{>X-Forwarded-For}"%string)].
Lemma placeholder_reads_client_headers :
  exists o o',
    fst (run_request wit_c5 false wit_q [wit_t]) = [o] /\ fst (run_request wit_c5 false wit_q' [wit_t]) = [o'] /\
    hlookup (o_hdr o) (bs "X-New"%string) = Some [bs "1.1.1.1"%string] /\
    hlookup (o_hdr o') (bs "X-New"%string) = Some [bs "1.1.1.1"%string] /\
    hlookup (o_hdr o) K_XFF = Some [bs "1.1.1.1, 192.0.2.7"%string].
Proof.
  eexists. eexists. split; [vm_compute; reflexivity|]. split; [vm_compute; reflexivity|].
  repeat split; vm_compute; reflexivity.
Qed.
