(* C04 — proofs about the model of C04_Model.v. *)
Require Import V.Lib V.GoPath V.GoNet V.Gen_C04 V.C04_Model.
Open Scope N_scope.

Lemma hlookup_app a b k :
  hlookup (a ++ b) k = match hlookup a k with Some v => Some v | None => hlookup b k end.
Proof.
  induction a as [|[k' v] a IH]; simpl; [reflexivity|].
  destruct (beq k' k); [reflexivity|apply IH].
Qed.
