(* C04 — proofs about the model of C04_Model.v. *)
Require Import V.Lib V.GoPath V.GoNet V.Gen_C04 V.C04_Model.
Open Scope N_scope.

(* ---------- byte-string equality ---------- *)
Lemma beq_false_iff a b : beq a b = false <-> a <> b.
Proof.
  split.
  - intros H E. apply beq_eq in E. congruence.
  - intros H. destruct (beq a b) eqn:E; [|reflexivity]. apply beq_eq in E. contradiction.
Qed.

Lemma beq_sym a b : beq a b = beq b a.
Proof.
  destruct (beq a b) eqn:E.
  - apply beq_eq in E. subst b. symmetry. apply beq_refl.
  - symmetry. apply beq_false_iff. apply beq_false_iff in E. congruence.
Qed.

Lemma beq_trans_false k k1 k2 : beq k k1 = true -> beq k k2 = beq k1 k2.
Proof. intros H. apply beq_eq in H. subst k1. reflexivity. Qed.

(* ---------- header maps, pointwise ---------- *)
Lemma hlookup_app a b k :
  hlookup (a ++ b) k = match hlookup a k with Some v => Some v | None => hlookup b k end.
Proof.
  induction a as [|[k' v] a IH]; simpl; [reflexivity|].
  destruct (beq k' k); [reflexivity|apply IH].
Qed.

Lemma hlookup_hdel_raw h k k' :
  hlookup (hdel_raw h k) k' = if beq k k' then None else hlookup h k'.
Proof.
  unfold hdel_raw. induction h as [|[k0 v] h IH]; simpl.
  - destruct (beq k k'); reflexivity.
  - destruct (beq k0 k) eqn:E0; simpl.
    + rewrite IH. apply beq_eq in E0. subst k0. destruct (beq k k'); reflexivity.
    + rewrite IH. destruct (beq k0 k') eqn:E1; [|reflexivity].
      apply beq_eq in E1. subst k0. rewrite beq_sym, E0. reflexivity.
Qed.

Lemma hlookup_hput h k vs k' :
  hlookup (hput h k vs) k' = if beq k k' then Some vs else hlookup h k'.
Proof.
  unfold hput. rewrite hlookup_app, hlookup_hdel_raw. simpl.
  destruct (beq k k'); [reflexivity|]. destruct (hlookup h k'); reflexivity.
Qed.

Lemma hlookup_hdel h n k : hlookup (hdel h n) k = if beq (canon_key n) k then None else hlookup h k.
Proof. apply hlookup_hdel_raw. Qed.

Lemma hlookup_hset h n v k : hlookup (hset h n v) k = if beq (canon_key n) k then Some [v] else hlookup h k.
Proof. apply hlookup_hput. Qed.

Lemma hlookup_hadd h n v k :
  hlookup (hadd h n v) k =
  if beq (canon_key n) k then Some (olist (hlookup h (canon_key n)) ++ [v]) else hlookup h k.
Proof.
  unfold hadd. rewrite hlookup_hput. destruct (beq (canon_key n) k); [|reflexivity].
  destruct (hlookup h (canon_key n)); reflexivity.
Qed.

(* hget only depends on the lookup of the canonical key *)
Lemma hget_ext h1 h2 n : hlookup h1 (canon_key n) = hlookup h2 (canon_key n) -> hget h1 n = hget h2 n.
Proof. unfold hget. intros ->. reflexivity. Qed.

Lemma hget_none h n : hlookup h (canon_key n) = None -> hget h n = [].
Proof. unfold hget. intros ->. reflexivity. Qed.

(* ---------- deleting a list of names ---------- *)
Lemma hlookup_fold_hdel toks h k :
  hlookup (fold_left hdel toks h) k =
  if existsb (fun t => beq (canon_key t) k) toks then None else hlookup h k.
Proof.
  revert h. induction toks as [|t toks IH]; intros h; simpl; [reflexivity|].
  rewrite IH, hlookup_hdel. destruct (beq (canon_key t) k); simpl; [|reflexivity].
  destruct (existsb _ toks); reflexivity.
Qed.

(* ---------- the hop-by-hop loop of createUpstreamRequest ---------- *)
Definition hop_step (h : hdr) (k : bytes) : hdr := hdel h k.

Lemma hop_step_lookup h k0 k :
  hlookup (hop_step h k0) k = hlookup h k \/ hlookup (hop_step h k0) k = None.
Proof.
  unfold hop_step.
  rewrite hlookup_hdel. destruct (beq (canon_key k0) k); [right|left]; reflexivity.
Qed.

Lemma hop_fold_none L h k : hlookup h k = None -> hlookup (fold_left hop_step L h) k = None.
Proof.
  revert h. induction L as [|k0 L IH]; intros h H; simpl; [exact H|].
  apply IH. destruct (hop_step_lookup h k0 k) as [E|E]; congruence.
Qed.

(* a listed key in canonical form (every entry of hopHeaders is) is gone, whatever its values *)
Lemma hop_fold_removed L h k0 :
  In k0 L -> canon_key k0 = k0 -> hlookup (fold_left hop_step L h) k0 = None.
Proof.
  revert h. induction L as [|k1 L IH]; intros h HIn Hc; [destruct HIn|]. simpl.
  destruct HIn as [->|HIn].
  - apply hop_fold_none. unfold hop_step.
    rewrite hlookup_hdel, Hc, beq_refl. reflexivity.
  - apply IH; assumption.
Qed.

Lemma hop_fold_kept L h k :
  (forall k0, In k0 L -> canon_key k0 <> k) -> hlookup (fold_left hop_step L h) k = hlookup h k.
Proof.
  revert h. induction L as [|k1 L IH]; intros h H; simpl; [reflexivity|].
  rewrite IH by (intros k0 H0; apply H; right; exact H0).
  unfold hop_step.
  rewrite hlookup_hdel. assert (Hk : canon_key k1 <> k) by (apply H; left; reflexivity).
  apply beq_false_iff in Hk. rewrite Hk. reflexivity.
Qed.

Lemma strip_hop_req_eq h : strip_hop_req h = fold_left hop_step gen_hop_headers h.
Proof. reflexivity. Qed.

Lemma gen_hop_canonical : forallb (fun k => beq (canon_key k) k) gen_hop_headers = true.
Proof. vm_compute. reflexivity. Qed.

Lemma gen_hop_canon k : In k gen_hop_headers -> canon_key k = k.
Proof.
  intros H. pose proof gen_hop_canonical as G. rewrite forallb_forall in G.
  apply beq_eq. apply G. exact H.
Qed.

(* ---------- createUpstreamRequest ---------- *)
Lemma xff_not_hop : existsb (beq K_XFF) gen_hop_headers = false.
Proof. vm_compute. reflexivity. Qed.

Lemma add_xff_other remote h k : k <> K_XFF -> hlookup (add_xff remote h) k = hlookup h k.
Proof.
  intros Hk. unfold add_xff. destruct (split_host_port remote) as [[ip p]|]; [|reflexivity].
  rewrite hlookup_hset. change (canon_key K_XFF) with K_XFF.
  assert (E : beq K_XFF k = false) by (apply beq_false_iff; congruence). rewrite E. reflexivity.
Qed.

(* the tokens the request and response loops delete are the tokens of ALL Connection lines (the spec's notion) *)
Lemma listed_conn_tokens_all h : listed_conn_tokens h = all_conn_tokens h.
Proof. unfold listed_conn_tokens, conn_values, all_conn_tokens. destruct (hlookup h K_CONNECTION); reflexivity. Qed.

Lemma strip_conn_listed_lookup h k :
  hlookup (strip_conn_listed h) k =
  if existsb (fun t => beq (canon_key t) k) (all_conn_tokens h) then None else hlookup h k.
Proof. unfold strip_conn_listed. rewrite hlookup_fold_hdel, listed_conn_tokens_all. reflexivity. Qed.

(* every header named in ANY Connection line is removed *)
Lemma conn_listed_removed h remote tok :
  In tok (all_conn_tokens h) -> canon_key tok <> K_XFF ->
  hlookup (create_upstream_headers remote h) (canon_key tok) = None.
Proof.
  intros HIn Hx. unfold create_upstream_headers. rewrite add_xff_other by exact Hx.
  rewrite strip_hop_req_eq. apply hop_fold_none.
  rewrite strip_conn_listed_lookup.
  assert (E : existsb (fun t => beq (canon_key t) (canon_key tok)) (all_conn_tokens h) = true).
  { apply existsb_exists. exists tok. split; [exact HIn|apply beq_refl]. }
  rewrite E. reflexivity.
Qed.

(* every hop-by-hop header is removed, whatever its values *)
Lemma hop_removed h remote k :
  In k gen_hop_headers ->
  hlookup (create_upstream_headers remote h) k = None.
Proof.
  intros HIn. unfold create_upstream_headers.
  assert (Hx : k <> K_XFF).
  { intros ->. pose proof xff_not_hop as X.
    assert (Y : existsb (beq K_XFF) gen_hop_headers = true)
      by (apply existsb_exists; exists K_XFF; split; [exact HIn|apply beq_refl]).
    congruence. }
  rewrite add_xff_other by exact Hx. rewrite strip_hop_req_eq.
  apply hop_fold_removed; [exact HIn|exact (gen_hop_canon k HIn)].
Qed.

(* ... in the spec's own terms: every header that is hop-by-hop per RFC 7230 / RFC 2616 (spec_hop) or
   named in any Connection line (is_hop_for) is absent upstream *)
Lemma spec_hop_in_gen k : mem k spec_hop = true -> In k gen_hop_headers.
Proof.
  intros H. unfold mem in H. apply existsb_exists in H. destruct H as [x [Hx E]]. apply beq_eq in E. subst x.
  assert (G : forallb (fun k => mem k gen_hop_headers) spec_hop = true) by (vm_compute; reflexivity).
  rewrite forallb_forall in G. specialize (G k Hx). unfold mem in G.
  apply existsb_exists in G. destruct G as [y [Hy E]]. apply beq_eq in E. subst y. exact Hy.
Qed.

Lemma is_hop_for_removed h remote k :
  is_hop_for h k = true -> k <> K_XFF -> hlookup (create_upstream_headers remote h) k = None.
Proof.
  intros H Hx. unfold is_hop_for in H. apply orb_true_iff in H. destruct H as [H|H].
  - apply hop_removed. apply spec_hop_in_gen. exact H.
  - apply existsb_exists in H. destruct H as [tok [HIn E]]. apply beq_eq in E. subst k.
    apply conn_listed_removed; assumption.
Qed.

(* a hop-by-hop header that is absent stays absent *)
Lemma absent_stays_absent h remote k :
  k <> K_XFF -> hlookup h k = None -> hlookup (create_upstream_headers remote h) k = None.
Proof.
  intros Hx Hn. unfold create_upstream_headers. rewrite add_xff_other by exact Hx.
  rewrite strip_hop_req_eq. apply hop_fold_none.
  rewrite strip_conn_listed_lookup. destruct (existsb _ _); [reflexivity|exact Hn].
Qed.

(* end-to-end headers are preserved *)
Lemma e2e_preserved h remote k :
  ~ In k gen_hop_headers ->
  (forall tok, In tok (all_conn_tokens h) -> canon_key tok <> k) ->
  k <> K_XFF ->
  hlookup (create_upstream_headers remote h) k = hlookup h k.
Proof.
  intros Hnh Hnc Hx. unfold create_upstream_headers. rewrite add_xff_other by exact Hx.
  rewrite strip_hop_req_eq, hop_fold_kept.
  - rewrite strip_conn_listed_lookup.
    destruct (existsb _ _) eqn:E; [|reflexivity].
    apply existsb_exists in E. destruct E as [tok [H1 H2]]. apply beq_eq in H2.
    exfalso. exact (Hnc tok H1 H2).
  - intros k0 H0 E. apply Hnh. rewrite <- E. rewrite (gen_hop_canon k0 H0). exact H0.
Qed.

(* X-Forwarded-For: the client address is appended to whatever survived the stripping *)
Lemma xff_appended h remote ip port :
  split_host_port remote = Some (ip, port) ->
  hlookup (create_upstream_headers remote h) K_XFF =
  Some [match hlookup (strip_hop_req (strip_conn_listed h)) K_XFF with
        | Some prior => join COMMA_SP prior ++ COMMA_SP ++ ip
        | None => ip
        end].
Proof.
  intros H. unfold create_upstream_headers, add_xff. rewrite H. rewrite hlookup_hset.
  change (canon_key K_XFF) with K_XFF. rewrite beq_refl. reflexivity.
Qed.

Lemma join_snoc sep l x : l <> [] -> join sep (l ++ [x]) = join sep l ++ sep ++ x.
Proof.
  induction l as [|a l IH]; intros H; [congruence|].
  destruct l as [|b l]; simpl; [reflexivity|].
  simpl in IH. rewrite IH by discriminate. rewrite <- !app_assoc. reflexivity.
Qed.

(* ... in the usual situation (X-Forwarded-For not itself declared hop-by-hop by the client) *)
Lemma xff_folded h remote ip port prior :
  split_host_port remote = Some (ip, port) ->
  (forall tok, In tok (all_conn_tokens h) -> canon_key tok <> K_XFF) ->
  hlookup h K_XFF = Some prior -> prior <> [] ->
  hlookup (create_upstream_headers remote h) K_XFF = Some [join COMMA_SP (prior ++ [ip])].
Proof.
  intros Hs Hc Hp Hne. rewrite (xff_appended _ _ _ _ Hs).
  assert (E : hlookup (strip_hop_req (strip_conn_listed h)) K_XFF = Some prior).
  { rewrite strip_hop_req_eq, hop_fold_kept.
    - rewrite strip_conn_listed_lookup.
      destruct (existsb _ _) eqn:E; [|exact Hp].
      apply existsb_exists in E. destruct E as [tok [H1 H2]]. apply beq_eq in H2.
      exfalso. exact (Hc tok H1 H2).
    - intros k0 H0 E. pose proof xff_not_hop as X.
      assert (Y : existsb (beq K_XFF) gen_hop_headers = true).
      { apply existsb_exists. exists k0. split; [exact H0|]. rewrite <- E, (gen_hop_canon k0 H0). apply beq_refl. }
      congruence. }
  rewrite E, join_snoc by exact Hne. reflexivity.
Qed.

Lemma xff_fresh h remote ip port :
  split_host_port remote = Some (ip, port) -> hlookup h K_XFF = None ->
  hlookup (create_upstream_headers remote h) K_XFF = Some [ip].
Proof.
  intros Hs Hp. rewrite (xff_appended _ _ _ _ Hs).
  rewrite strip_hop_req_eq, hop_fold_none; [reflexivity|].
  rewrite strip_conn_listed_lookup. destruct (existsb _ _); [reflexivity|exact Hp].
Qed.

(* ... and when the client itself names X-Forwarded-For in a Connection line: the Connection-listed
   removal runs BEFORE the prior value is read, so nothing the client sent under that name survives
   and the backend sees the client address alone *)
Lemma xff_listed_in_connection h remote ip port tok :
  split_host_port remote = Some (ip, port) ->
  In tok (all_conn_tokens h) -> canon_key tok = K_XFF ->
  hlookup (create_upstream_headers remote h) K_XFF = Some [ip].
Proof.
  intros Hs Hin Hc. rewrite (xff_appended _ _ _ _ Hs).
  rewrite strip_hop_req_eq, hop_fold_none; [reflexivity|].
  rewrite strip_conn_listed_lookup.
  assert (E : existsb (fun t => beq (canon_key t) K_XFF) (all_conn_tokens h) = true).
  { apply existsb_exists. exists tok. split; [exact Hin|]. rewrite Hc. apply beq_refl. }
  rewrite E. reflexivity.
Qed.

Definition wit_xff_conn : hdr :=
  [(K_CONNECTION, [bs "close, x-forwarded-for"%string]); (K_XFF, [bs "6.6.6.6"%string; bs "10.0.0.1"%string])].
Lemma xff_listed_nonvacuous :
  (split_host_port (bs "192.0.2.7:4711"%string) = Some (bs "192.0.2.7"%string, bs "4711"%string)) /\
  (In (bs "x-forwarded-for"%string) (all_conn_tokens wit_xff_conn)) /\
  (canon_key (bs "x-forwarded-for"%string) = K_XFF) /\
  (hlookup (create_upstream_headers (bs "192.0.2.7:4711"%string) wit_xff_conn) K_XFF = Some [bs "192.0.2.7"%string]).
Proof. vm_compute. repeat split; auto. Qed.

(* ---------- singleJoiningSlash ---------- *)
Lemma has_suffix_slash a : has_suffix a [SLASH] = true -> a = removelast a ++ [SLASH].
Proof.
  unfold has_suffix. simpl. intros H.
  destruct (rev a) as [|c r] eqn:E; simpl in H; [discriminate|].
  apply andb_true_iff in H. destruct H as [H _]. apply N.eqb_eq in H. subst c.
  assert (Ea : a = rev r ++ [SLASH]).
  { rewrite <- (rev_involutive a), E. reflexivity. }
  rewrite Ea at 1 2. rewrite removelast_last. reflexivity.
Qed.

Lemma has_prefix_nil s : has_prefix s [] = true.
Proof. destruct s; reflexivity. Qed.

Lemma has_prefix_slash c b : has_prefix (c :: b) [SLASH] = (c =? SLASH).
Proof. simpl. rewrite has_prefix_nil. apply andb_true_r. Qed.

Lemma sjs_spec a b : sjs a b = join_one_slash a b.
Proof.
  unfold sjs, join_one_slash, strip_trailing_slash, strip_leading_slash.
  destruct b as [|c b].
  - simpl. rewrite !andb_false_r. simpl. apply app_nil_r.
  - rewrite !has_prefix_slash.
    destruct (has_suffix a [SLASH]) eqn:Ha; destruct (c =? SLASH) eqn:Hc; simpl.
    + rewrite (has_suffix_slash a Ha) at 1. rewrite <- app_assoc. reflexivity.
    + rewrite (has_suffix_slash a Ha) at 1. rewrite <- app_assoc. reflexivity.
    + apply N.eqb_eq in Hc. subst c. reflexivity.
    + reflexivity.
Qed.

(* ---------- director ---------- *)
Lemma director_path t w u : u_path (director t w u) = spec_path t w (u_path u).
Proof. unfold director, spec_path. simpl. rewrite sjs_spec. reflexivity. Qed.

Lemma director_query t w u : u_query (director t w u) = spec_query t (u_query u).
Proof.
  unfold director, spec_query. simpl.
  destruct (t_query t) as [|a tq]; simpl; [reflexivity|].
  destruct (u_query u) as [|b q]; simpl; [rewrite app_nil_r|]; reflexivity.
Qed.

Lemma director_query_no_target_query t w u : t_query t = [] -> u_query (director t w u) = u_query u.
Proof. intros H. rewrite director_query. unfold spec_query. rewrite H. reflexivity. Qed.

Lemma director_rawpath_plain t u :
  u_rawpath (director t [] u) = spec_rawpath t [] u.
Proof.
  unfold director, spec_rawpath, prefer. simpl.
  destruct (u_rawpath u) as [|c r]; simpl.
  - destruct (t_rawpath t) as [|d s]; simpl; [reflexivity|]. rewrite sjs_spec. reflexivity.
  - rewrite sjs_spec. reflexivity.
Qed.

(* ---------- header rules, pointwise ---------- *)
Lemma fold_add_lookup (repl : bytes -> bytes) name vals h k :
  hlookup (fold_left (fun h v => if is_nil (repl v) then h else hadd h name (repl v)) vals h) k =
  if beq (canon_key name) k
  then match filter (fun x => negb (is_nil x)) (map repl vals) with
       | [] => hlookup h k
       | xs => Some (olist (hlookup h k) ++ xs)
       end
  else hlookup h k.
Proof.
  revert h. induction vals as [|v vals IH]; intros h.
  - simpl. destruct (beq (canon_key name) k); reflexivity.
  - simpl fold_left. rewrite IH. simpl map. simpl filter.
    destruct (beq (canon_key name) k) eqn:E.
    + destruct (is_nil (repl v)) eqn:En; simpl negb; cbv iota; [reflexivity|].
      rewrite hlookup_hadd, E. apply beq_eq in E. rewrite E. simpl olist.
      destruct (filter (fun x => negb (is_nil x)) (map repl vals)) as [|y ys].
      * reflexivity.
      * rewrite <- app_assoc. reflexivity.
    + destruct (is_nil (repl v)); [reflexivity|]. rewrite hlookup_hadd, E. reflexivity.
Qed.

Lemma set_rule_lookup (sub : bytes -> bytes) f vals h k :
  hlookup (match rev vals with
           | [] => h
           | v :: _ => let x := replace_ph sub v in if is_nil x then h else hset h f x
           end) k =
  fold_left vop_apply
    (if negb (beq (canon_key f) k) then []
     else match rev vals with [] => [] | v :: _ => [VSet (replace_ph sub v)] end) (hlookup h k).
Proof.
  destruct (rev vals) as [|v r]; simpl.
  - destruct (negb (beq (canon_key f) k)); reflexivity.
  - destruct (is_nil (replace_ph sub v)) eqn:En.
    + destruct (negb (beq (canon_key f) k)); simpl; [reflexivity|]. rewrite En. reflexivity.
    + rewrite hlookup_hset. destruct (beq (canon_key f) k); simpl; [|reflexivity]. rewrite En. reflexivity.
Qed.

Lemma apply_rule_lookup e h0 h (r : rule) k :
  hlookup (apply_rule e h0 h r) k =
  fold_left vop_apply (vops_for (subst_of e h0) [r] k) (hlookup h k).
Proof.
  destruct r as [f vals]. unfold vops_for. simpl flat_map. rewrite app_nil_r.
  unfold apply_rule.
  destruct f as [|c name].
  - apply (set_rule_lookup (subst_of e h0) [] vals h k).
  - destruct (c =? PLUS) eqn:Ep.
    + rewrite (fold_add_lookup (replace_ph (subst_of e h0)) name vals h k).
      destruct (beq (canon_key name) k); simpl; [|reflexivity].
      destruct (filter _ _); reflexivity.
    + destruct (c =? MINUS) eqn:Em.
      * rewrite hlookup_hdel. destruct (beq (canon_key name) k); reflexivity.
      * apply (set_rule_lookup (subst_of e h0) (c :: name) vals h k).
Qed.

Lemma vops_for_cons sub (r : rule) rs k : vops_for sub (r :: rs) k = vops_for sub [r] k ++ vops_for sub rs k.
Proof. unfold vops_for. simpl. rewrite app_nil_r. reflexivity. Qed.

Lemma rules_lookup e h0 rules h k :
  hlookup (fold_left (apply_rule e h0) rules h) k =
  fold_left vop_apply (vops_for (subst_of e h0) rules k) (hlookup h k).
Proof.
  revert h. induction rules as [|r rs IH]; intros h; [reflexivity|].
  simpl fold_left at 1. rewrite IH, apply_rule_lookup, (vops_for_cons _ r rs), fold_left_app. reflexivity.
Qed.

Lemma rerule_fold_lookup e h0 f pts h k :
  hlookup (fold_left (fun h pt =>
               let x := replace_ph (subst_of e h0) (snd pt) in
               let orig := hget h f in
               if negb (is_nil x) && negb (is_nil orig) then hset h f (replace_all (fst pt) x orig) else h)
            pts h) k =
  fold_left vop_apply
    (if beq (canon_key f) k then map (fun pt => VRe (fst pt) (replace_ph (subst_of e h0) (snd pt))) pts else [])
    (hlookup h k).
Proof.
  revert h. induction pts as [|pt pts IH]; intros h.
  - simpl. destruct (beq (canon_key f) k); reflexivity.
  - simpl fold_left at 1. rewrite IH.
    destruct (beq (canon_key f) k) eqn:E.
    + simpl map. simpl fold_left at 2. f_equal.
      apply beq_eq in E. unfold hget. rewrite E.
      destruct (hlookup h k) as [[|orig rest]|] eqn:El; simpl.
      * rewrite andb_false_r. exact El.
      * destruct (negb (is_nil (replace_ph (subst_of e h0) (snd pt))) && negb (is_nil orig)) eqn:C.
        -- rewrite hlookup_hset. rewrite E, beq_refl. reflexivity.
        -- exact El.
      * rewrite andb_false_r. exact El.
    + destruct (negb _ && negb _); [|reflexivity]. rewrite hlookup_hset, E. reflexivity.
Qed.

Lemma apply_rerule_lookup e h0 h (r : rerule) k :
  hlookup (apply_rerule e h0 h r) k =
  fold_left vop_apply (revops_for (subst_of e h0) [r] k) (hlookup h k).
Proof.
  unfold apply_rerule, revops_for. simpl flat_map. rewrite app_nil_r.
  apply rerule_fold_lookup.
Qed.

Lemma rerules_lookup e h0 res h k :
  hlookup (fold_left (apply_rerule e h0) res h) k =
  fold_left vop_apply (revops_for (subst_of e h0) res k) (hlookup h k).
Proof.
  revert h. induction res as [|r rs IH]; intros h; [reflexivity|].
  simpl fold_left at 1. rewrite IH, apply_rerule_lookup.
  unfold revops_for. simpl flat_map. rewrite app_nil_r, fold_left_app. reflexivity.
Qed.

(* exactly the configured changes: the value of every header after mutateHeadersByRules is the
   value before, transformed by the operations of the rules that target it, in table order *)
Lemma mutate_headers_lookup e h0 rules res h k :
  hlookup (mutate_headers e h0 rules res h) k =
  fold_left vop_apply (vops_for (subst_of e h0) rules k ++ revops_for (subst_of e h0) res k) (hlookup h k).
Proof. unfold mutate_headers. rewrite rerules_lookup, rules_lookup, fold_left_app. reflexivity. Qed.

Lemma vops_for_one_nil sub f vals k : beq (rule_target f) k = false -> vops_for sub [(f, vals)] k = [].
Proof.
  intros Hf. unfold vops_for. simpl flat_map. rewrite app_nil_r.
  unfold rule_target in Hf. destruct f as [|c name].
  - change (canon_key []) with (@nil N). rewrite Hf. reflexivity.
  - destruct (c =? PLUS); simpl orb in Hf.
    + rewrite Hf. reflexivity.
    + destruct (c =? MINUS); simpl orb in Hf; rewrite Hf; reflexivity.
Qed.

Lemma mutate_headers_untouched e h0 rules res h k :
  (forall r, In r rules -> rule_target (fst r) <> k) ->
  (forall r, In r res -> canon_key (fst r) <> k) ->
  hlookup (mutate_headers e h0 rules res h) k = hlookup h k.
Proof.
  intros H1 H2. rewrite mutate_headers_lookup.
  assert (E1 : vops_for (subst_of e h0) rules k = []).
  { induction rules as [|[f vals] rs IH]; [reflexivity|].
    rewrite vops_for_cons, vops_for_one_nil, IH; [reflexivity| |].
    - intros r Hr. apply H1. right. exact Hr.
    - apply beq_false_iff. apply (H1 (f, vals)). left. reflexivity. }
  assert (E2 : revops_for (subst_of e h0) res k = []).
  { unfold revops_for. induction res as [|r rs IH]; [reflexivity|]. simpl.
    assert (Hf : beq (canon_key (fst r)) k = false) by (apply beq_false_iff; apply H2; left; reflexivity).
    rewrite Hf. simpl. apply IH. intros r' Hr. apply H2. right. exact Hr. }
  rewrite E1, E2. reflexivity.
Qed.

(* ---------- response direction ---------- *)
Lemma resp_strip_lookup h k :
  hlookup (resp_strip h) k =
  if existsb (fun t => beq (canon_key t) k) gen_hop_headers then None
  else if existsb (fun t => beq (canon_key t) k) (all_conn_tokens h) then None
  else hlookup h k.
Proof. unfold resp_strip. rewrite !hlookup_fold_hdel, listed_conn_tokens_all. reflexivity. Qed.

Lemma resp_hop_removed h k : In k gen_hop_headers -> hlookup (resp_strip h) k = None.
Proof.
  intros H. rewrite resp_strip_lookup.
  assert (E : existsb (fun t => beq (canon_key t) k) gen_hop_headers = true).
  { apply existsb_exists. exists k. split; [exact H|]. rewrite (gen_hop_canon k H). apply beq_refl. }
  rewrite E. reflexivity.
Qed.

Lemma resp_conn_listed_removed h tok :
  In tok (all_conn_tokens h) -> hlookup (resp_strip h) (canon_key tok) = None.
Proof.
  intros H. rewrite resp_strip_lookup. destruct (existsb _ gen_hop_headers); [reflexivity|].
  assert (E : existsb (fun t => beq (canon_key t) (canon_key tok)) (all_conn_tokens h) = true).
  { apply existsb_exists. exists tok. split; [exact H|apply beq_refl]. }
  rewrite E. reflexivity.
Qed.

Lemma resp_e2e_preserved h k :
  ~ In k gen_hop_headers -> (forall tok, In tok (all_conn_tokens h) -> canon_key tok <> k) ->
  hlookup (resp_strip h) k = hlookup h k.
Proof.
  intros H1 H2. rewrite resp_strip_lookup.
  destruct (existsb _ gen_hop_headers) eqn:E1.
  - apply existsb_exists in E1. destruct E1 as [t [Ht Et]]. apply beq_eq in Et.
    exfalso. apply H1. rewrite <- Et, (gen_hop_canon t Ht). exact Ht.
  - destruct (existsb _ (all_conn_tokens h)) eqn:E2; [|reflexivity].
    apply existsb_exists in E2. destruct E2 as [t [Ht Et]]. apply beq_eq in Et.
    exfalso. exact (H2 t Ht Et).
Qed.

(* ---------- trailers ---------- *)
Lemma fold_hput_other (l : hdr) init k :
  (forall kv, In kv l -> fst kv <> k) ->
  hlookup (fold_left (fun t kv => hput t (fst kv) (snd kv)) l init) k = hlookup init k.
Proof.
  revert init. induction l as [|kv l IH]; intros init H; [reflexivity|]. simpl.
  rewrite IH by (intros kv' H'; apply H; right; exact H').
  rewrite hlookup_hput. assert (E : beq (fst kv) k = false) by (apply beq_false_iff; apply H; left; reflexivity).
  rewrite E. reflexivity.
Qed.

Lemma fold_hput_in (l : hdr) init k vs :
  NoDup (map fst l) -> In (k, vs) l ->
  hlookup (fold_left (fun t kv => hput t (fst kv) (snd kv)) l init) k = Some vs.
Proof.
  revert init. induction l as [|kv l IH]; intros init Hnd HIn; [destruct HIn|].
  simpl in Hnd. inversion Hnd as [|x xs Hx Hnd']. subst x xs. simpl.
  destruct HIn as [->|HIn].
  - rewrite fold_hput_other.
    + rewrite hlookup_hput. simpl. rewrite beq_refl. reflexivity.
    + intros kv' H' E. apply Hx. simpl. rewrite <- E. apply in_map. exact H'.
  - apply IH; assumption.
Qed.

(* every trailer the backend sent reaches the client side of the model with its values *)
Lemma trailers_relayed b k vs :
  NoDup (map fst (b_trailers b)) -> In (k, vs) (b_trailers b) ->
  hlookup (final_trailers b) k = Some vs.
Proof. intros H1 H2. unfold final_trailers. apply fold_hput_in; assumption. Qed.

(* nothing is invented: a key that is neither announced nor sent is not a trailer *)
Lemma trailers_nothing_else b k :
  ~ In k (b_announced b) -> ~ In k (map fst (b_trailers b)) -> hlookup (final_trailers b) k = None.
Proof.
  intros H1 H2. unfold final_trailers. rewrite fold_hput_other.
  - induction (b_announced b) as [|a l IH]; [reflexivity|]. simpl.
    assert (E : beq a k = false) by (apply beq_false_iff; intros ->; apply H1; left; reflexivity).
    rewrite E. apply IH. intros H. apply H1. right. exact H.
  - intros kv H E. apply H2. rewrite <- E. apply in_map. exact H.
Qed.

Lemma client_view_status c e live pre b : v_status (client_view c e live pre b) = b_status b.
Proof. reflexivity. Qed.

Lemma client_view_trailers c e live pre b : v_trailers (client_view c e live pre b) = final_trailers b.
Proof. reflexivity. Qed.

(* ---------- one attempt of the retry loop (placeholders read a header map [h0] the rules do not touch) ---------- *)
Definition auth_hdr (t : target) (h : hdr) : hdr :=
  match t_auth t with
  | Some a => if is_nil (hget h K_AUTHZ) then hset h K_AUTHZ a else h
  | None => h
  end.

Lemma attempt_spec c e h0 st t :
  let o := snd (attempt c e h0 st t) in
  (forall k, hlookup (o_hdr o) k =
             fold_left vop_apply (vops_for (subst_of e h0) (c_up c) k ++ revops_for (subst_of e h0) (c_upre c) k)
                       (hlookup (auth_hdr t (s_hdr st)) k)) /\
  u_path (o_url o) = spec_path t (c_without c) (u_path (s_url st)) /\
  u_query (o_url o) = spec_query t (u_query (s_url st)) /\
  o_urlhost o = t_host t.
Proof.
  unfold attempt. simpl. split; [|split; [|split]].
  - intros k. rewrite mutate_headers_lookup. reflexivity.
  - apply (director_path t (c_without c) (s_url st)).
  - apply (director_query t (c_without c) (s_url st)).
  - reflexivity.
Qed.

(* ---------- retries: every attempt starts from the request createUpstreamRequest produced ---------- *)
Lemma attempts_fresh c e h0 st0 ts : forall st i t,
  nth_error ts i = Some t ->
  nth_error (fst (attempts c e h0 true st0 st ts)) i = Some (snd (attempt c e h0 st0 t)).
Proof.
  induction ts as [|t0 ts IH]; intros st i t H; [destruct i; discriminate|].
  cbn [attempts]. destruct (attempt c e h0 st0 t0) as [st' o] eqn:Ea.
  destruct (attempts c e h0 true st0 st' ts) as [os stf] eqn:Er. cbn [fst].
  destruct i as [|i]; cbn [nth_error] in *.
  - injection H as <-. rewrite Ea. reflexivity.
  - specialize (IH st' i t H). rewrite Er in IH. exact IH.
Qed.

Lemma attempts_length c e h0 retriable st0 ts : forall st,
  length (fst (attempts c e h0 retriable st0 st ts)) = length ts.
Proof.
  induction ts as [|t0 ts IH]; intros st; [reflexivity|]. cbn [attempts].
  destruct (attempt c e h0 (if retriable then st0 else st) t0) as [st' o].
  specialize (IH st'). destruct (attempts c e h0 retriable st0 st' ts) as [os stf]. cbn [fst length] in *. rewrite IH. reflexivity.
Qed.

(* the FIRST attempt, with or without retries: placeholders read the client's own header map *)
Lemma first_attempt_spec c retriable q t ts :
  exists o os, fst (run_request c retriable q (t :: ts)) = o :: os /\
    u_path (o_url o) = spec_path t (c_without c) (u_path (q_url q)) /\
    u_query (o_url o) = spec_query t (u_query (q_url q)) /\
    o_urlhost o = t_host t /\
    (forall k, hlookup (o_hdr o) k =
               fold_left vop_apply (vops_for (subst_of (env_of q) (q_hdr q)) (c_up c) k ++
                                    revops_for (subst_of (env_of q) (q_hdr q)) (c_upre c) k)
                         (hlookup (auth_hdr t (create_upstream_headers (q_remote q) (q_hdr q))) k)).
Proof.
  unfold run_request. cbn [attempts].
  assert (E : (if retriable then init_state q else init_state q) = init_state q) by (destruct retriable; reflexivity).
  rewrite E. destruct (attempt c (env_of q) (q_hdr q) (init_state q) t) as [st' o] eqn:Ea.
  destruct (attempts c (env_of q) (q_hdr q) retriable (init_state q) st' ts) as [os stf].
  exists o, os. split; [reflexivity|].
  pose proof (attempt_spec c (env_of q) (q_hdr q) (init_state q) t) as S. rewrite Ea in S. simpl in S.
  destruct S as [S1 [S2 [S3 S4]]]. split; [exact S2|]. split; [exact S3|]. split; [exact S4|exact S1].
Qed.

(* EVERY attempt (first or retry) to target t: path/query per the director applied ONCE to the client's
   URL, headers = (stripped headers + that upstream's credentials) transformed ONCE by the rules *)
Lemma retry_every_attempt_spec c q ts i t :
  nth_error ts i = Some t ->
  exists o, nth_error (fst (run_request c true q ts)) i = Some o /\
    u_path (o_url o) = spec_path t (c_without c) (u_path (q_url q)) /\
    u_query (o_url o) = spec_query t (u_query (q_url q)) /\
    o_urlhost o = t_host t /\
    (forall k, hlookup (o_hdr o) k =
               fold_left vop_apply (vops_for (subst_of (env_of q) (q_hdr q)) (c_up c) k ++
                                    revops_for (subst_of (env_of q) (q_hdr q)) (c_upre c) k)
                         (hlookup (auth_hdr t (create_upstream_headers (q_remote q) (q_hdr q))) k)).
Proof.
  intros H. unfold run_request.
  exists (snd (attempt c (env_of q) (q_hdr q) (init_state q) t)).
  split; [apply attempts_fresh; exact H|].
  pose proof (attempt_spec c (env_of q) (q_hdr q) (init_state q) t) as S. simpl in S.
  destruct S as [S1 [S2 [S3 S4]]]. split; [exact S2|]. split; [exact S3|]. split; [exact S4|exact S1].
Qed.

(* ---------- the hop-by-hop table covers the RFC list ---------- *)
Lemma spec_hop_covered : forallb (fun k => mem k gen_hop_headers) spec_hop = true.
Proof. vm_compute. reflexivity. Qed.

(* ---------- refutations (witnesses) ---------- *)
Definition wit_h1 : hdr := [(bs "Proxy-Authorization"%string, [[]; bs "Basic abc"%string])].
(* the witness of the former finding F-C04-2 (hop-by-hop header whose first value is empty): removed now *)
Lemma hop_empty_first_value_removed :
  In (bs "Proxy-Authorization"%string) gen_hop_headers /\
  hlookup wit_h1 (bs "Proxy-Authorization"%string) = Some [[]; bs "Basic abc"%string] /\
  hlookup (create_upstream_headers (bs "192.0.2.7:4711"%string) wit_h1) (bs "Proxy-Authorization"%string) = None.
Proof. vm_compute. tauto. Qed.

Definition wit_h2 : hdr := [(K_CONNECTION, [bs "close"%string; bs "X-Secret"%string]); (bs "X-Secret"%string, [bs "v1"%string])].
(* the witness of the former finding F-C04-1 (a header named in a second Connection line): removed now *)
Lemma second_connection_line_removed :
  In (bs "X-Secret"%string) (all_conn_tokens wit_h2) /\ hlookup wit_h2 (bs "X-Secret"%string) = Some [bs "v1"%string] /\
  hlookup (create_upstream_headers (bs "192.0.2.7:4711"%string) wit_h2) (bs "X-Secret"%string) = None.
Proof. vm_compute. tauto. Qed.

(* the witness of the former finding F-C04-3 (response header named in a second Connection line): removed now *)
Lemma response_second_connection_line_removed :
  In (bs "X-Secret"%string) (all_conn_tokens wit_h2) /\ hlookup wit_h2 (bs "X-Secret"%string) = Some [bs "v1"%string] /\
  hlookup (resp_strip wit_h2) (bs "X-Secret"%string) = None.
Proof. vm_compute. tauto. Qed.

(* in the spec's own terms: no hop-by-hop header of the backend response (RFC list or named in any
   Connection line) survives *)
Lemma resp_is_hop_for_removed h k : is_hop_for h k = true -> hlookup (resp_strip h) k = None.
Proof.
  intros E. unfold is_hop_for in E. apply orb_true_iff in E. destruct E as [E|E].
  - apply resp_hop_removed. apply spec_hop_in_gen. exact E.
  - apply existsb_exists in E. destruct E as [tok [HIn E]]. apply beq_eq in E. subst k.
    apply resp_conn_listed_removed. exact HIn.
Qed.

Definition wit_t : target := {| t_host := bs "h0.test"%string; t_path := bs "/base"%string; t_rawpath := []; t_query := bs "tq=1"%string; t_auth := None |}.
Definition wit_q : request :=
  {| q_method := bs "GET"%string; q_host := bs "front.test"%string; q_remote := bs "192.0.2.7:4711"%string;
     q_url := {| u_path := bs "/x"%string; u_rawpath := []; u_query := bs "a=b"%string |}; q_hdr := [(K_XFF, [bs "1.1.1.1"%string])] |}.
Definition wit_c : pcfg := parse_cfg [DUp (bs "+X-A"%string) (bs "lit"%string)].

(* the witness of the former finding F-C04-4 (retry): the second attempt is NOT rewritten again *)
Lemma retry_rewrite_once :
  exists o1 o2, fst (run_request wit_c true wit_q [wit_t; wit_t]) = [o1; o2] /\
    u_path (o_url o2) = bs "/base/x"%string /\ u_query (o_url o2) = bs "tq=1&a=b"%string /\
    hlookup (o_hdr o2) (bs "X-A"%string) = Some [bs "lit"%string] /\ o2 = o1.
Proof.
  eexists. eexists. split; [vm_compute; reflexivity|].
  repeat split; vm_compute; reflexivity.
Qed.

(* the witness of the former finding F-C04-5 (header-map aliasing): {>X-Forwarded-For} reads what the
   client sent whether or not the client also sent `Connection: keep-alive` *)
Definition wit_q' : request :=
  {| q_method := q_method wit_q; q_host := q_host wit_q; q_remote := q_remote wit_q; q_url := q_url wit_q;
     q_hdr := q_hdr wit_q ++ [(K_CONNECTION, [bs "keep-alive"%string])] |}.
Definition wit_c5 : pcfg := parse_cfg [DUp (bs "X-New"%string) (bs "{>X-Forwarded-For}"%string)].
Lemma placeholder_reads_client_headers :
  exists o o',
    fst (run_request wit_c5 false wit_q [wit_t]) = [o] /\ fst (run_request wit_c5 false wit_q' [wit_t]) = [o'] /\
    hlookup (o_hdr o) (bs "X-New"%string) = Some [bs "1.1.1.1"%string] /\
    hlookup (o_hdr o') (bs "X-New"%string) = Some [bs "1.1.1.1"%string] /\
    hlookup (o_hdr o) K_XFF = Some [bs "1.1.1.1, 192.0.2.7"%string].
Proof.
  eexists. eexists. split; [vm_compute; reflexivity|]. split; [vm_compute; reflexivity|].
  repeat split; vm_compute; reflexivity.
Qed.

(* ====================================================================================== *)
From Coq Require Import Lia ZifyBool ZifyN ZifyNat.
(* ---------- copyHeader: which backend headers reach the client, overwrite vs add ---------- *)
Lemma hlookup_notin (h : hdr) k : ~ In k (map fst h) -> hlookup h k = None.
Proof.
  induction h as [|[k0 v0] h IH]; intros H; [reflexivity|]. simpl.
  destruct (beq k0 k) eqn:E.
  - apply beq_eq in E. exfalso. apply H. left. exact E.
  - apply IH. intros H'. apply H. right. exact H'.
Qed.

Lemma fold_hadd_lookup k vv : canon_key k = k -> forall d k',
  hlookup (fold_left (fun d v => hadd d k v) vv d) k' =
  if beq k k' then (match vv with [] => hlookup d k' | _ => Some (olist (hlookup d k) ++ vv) end) else hlookup d k'.
Proof.
  intros Hc. induction vv as [|v vv IH]; intros d k'; simpl.
  - destruct (beq k k'); reflexivity.
  - rewrite IH. destruct (beq k k') eqn:E.
    + rewrite !hlookup_hadd, Hc, beq_refl, E. destruct vv as [|v2 vv]; simpl.
      * reflexivity.
      * rewrite <- app_assoc. reflexivity.
    + rewrite hlookup_hadd, Hc, E. reflexivity.
Qed.

Lemma copy_header_step_lookup dst k vv k' : canon_key k = k ->
  hlookup (copy_header_step dst (k, vv)) k' =
  if beq k k' then copy_value gen_skip_headers (hlookup dst k) (Some vv) k else hlookup dst k'.
Proof.
  intros Hc. unfold copy_header_step, copy_value, mem, nonempty.
  destruct (hlookup dst k) as [pv|] eqn:Ed.
  - destruct (existsb (beq k) gen_skip_headers) eqn:Es.
    + destruct (beq k k') eqn:E; [|reflexivity]. apply beq_eq in E. subst k'. exact Ed.
    + rewrite (fold_hadd_lookup k vv Hc). destruct (beq k k') eqn:E.
      * apply beq_eq in E. subst k'. destruct (beq k K_SERVER) eqn:Esv.
        -- rewrite Ed. destruct vv; simpl; [rewrite app_nil_r|]; reflexivity.
        -- rewrite hlookup_hdel, Hc, beq_refl. destruct vv; reflexivity.
      * destruct (beq k K_SERVER); [reflexivity|]. rewrite hlookup_hdel, Hc, E. reflexivity.
  - rewrite (fold_hadd_lookup k vv Hc). destruct (beq k k') eqn:E; [|reflexivity].
    apply beq_eq in E. subst k'. rewrite Ed. destruct vv; reflexivity.
Qed.

Lemma copy_header_lookup src : forall dst k,
  NoDup (map fst src) -> (forall k', In k' (map fst src) -> canon_key k' = k') ->
  hlookup (copy_header dst src) k = copy_value gen_skip_headers (hlookup dst k) (hlookup src k) k.
Proof.
  unfold copy_header. induction src as [|[k0 v0] src IH]; intros dst k Hnd Hc; cbn [fold_left].
  - reflexivity.
  - inversion Hnd as [|x xs Hx Hnd']. subst x xs.
    rewrite IH by (try assumption; intros k' H'; apply Hc; right; exact H').
    rewrite copy_header_step_lookup by (apply Hc; left; reflexivity).
    cbn [hlookup]. destruct (beq k0 k) eqn:E.
    + apply beq_eq in E. subst k0. rewrite (hlookup_notin src k Hx). reflexivity.
    + reflexivity.
Qed.

(* the skip table regenerated from reverseproxy.go is the documented one *)
Lemma mem_In k l : mem k l = true <-> In k l.
Proof.
  unfold mem. rewrite existsb_exists. split.
  - intros [x [Hx E]]. apply beq_eq in E. subst x. exact Hx.
  - intros H. exists k. split; [exact H|apply beq_refl].
Qed.

Lemma skip_table_documented k : mem k gen_skip_headers = mem k spec_skip.
Proof.
  assert (A : forallb (fun x => mem x spec_skip) gen_skip_headers = true) by (vm_compute; reflexivity).
  assert (B : forallb (fun x => mem x gen_skip_headers) spec_skip = true) by (vm_compute; reflexivity).
  rewrite forallb_forall in A, B.
  destruct (mem k gen_skip_headers) eqn:E1; destruct (mem k spec_skip) eqn:E2; try reflexivity.
  - apply mem_In in E1. rewrite (A k E1) in E2. discriminate.
  - apply mem_In in E2. rewrite (B k E2) in E1. discriminate.
Qed.

(* ---------- canonical keys stay canonical, maps stay maps ---------- *)
Lemma canon_go_idem s : forall u, canon_go u (canon_go u s) = canon_go u s.
Proof.
  induction s as [|c r IH]; intros u; [reflexivity|]. simpl.
  set (c' := if u && is_lower c then c - 32 else if negb u && is_upper c then c + 32 else c).
  assert (E : (if u && is_lower c' then c' - 32 else if negb u && is_upper c' then c' + 32 else c') = c').
  { subst c'. unfold is_lower, is_upper. destruct u; simpl.
    - destruct ((97 <=? c) && (c <=? 122)) eqn:L.
      + assert (X : (97 <=? c - 32) && (c - 32 <=? 122) = false) by lia. rewrite X. reflexivity.
      + rewrite L. reflexivity.
    - destruct ((65 <=? c) && (c <=? 90)) eqn:U.
      + assert (X : (65 <=? c + 32) && (c + 32 <=? 90) = false) by lia. rewrite X. reflexivity.
      + rewrite U. reflexivity. }
  rewrite E. rewrite IH. reflexivity.
Qed.

Lemma valid_after_case c u :
  valid_field_byte c = true ->
  valid_field_byte (if u && is_lower c then c - 32 else if negb u && is_upper c then c + 32 else c) = true.
Proof.
  intros H. destruct (u && is_lower c) eqn:A.
  - apply andb_true_iff in A. destruct A as [_ A]. unfold is_lower in A.
    unfold valid_field_byte, is_upper. assert (X : (65 <=? c - 32) && (c - 32 <=? 90) = true) by lia.
    rewrite X. rewrite orb_true_r. reflexivity.
  - destruct (negb u && is_upper c) eqn:B; [|exact H].
    apply andb_true_iff in B. destruct B as [_ B]. unfold is_upper in B.
    unfold valid_field_byte, is_lower. assert (X : (97 <=? c + 32) && (c + 32 <=? 122) = true) by lia.
    rewrite X. reflexivity.
Qed.

Lemma canon_go_valid s : forall u, forallb valid_field_byte s = true -> forallb valid_field_byte (canon_go u s) = true.
Proof.
  induction s as [|c r IH]; intros u H; [reflexivity|]. simpl in *.
  apply andb_true_iff in H. destruct H as [H1 H2].
  rewrite (valid_after_case c u H1). simpl. apply IH. exact H2.
Qed.

Lemma canon_key_idem s : canon_key (canon_key s) = canon_key s.
Proof.
  unfold canon_key. destruct (forallb valid_field_byte s) eqn:V.
  - rewrite (canon_go_valid s true V). apply canon_go_idem.
  - rewrite V. reflexivity.
Qed.

Definition keys_ok (h : hdr) : Prop := NoDup (map fst h) /\ forall k, In k (map fst h) -> canon_key k = k.

Lemma hdel_raw_keys h k x : In x (map fst (hdel_raw h k)) -> In x (map fst h) /\ x <> k.
Proof.
  unfold hdel_raw. intros H. apply in_map_iff in H. destruct H as [[k0 v0] [E H]]. simpl in E. subst k0.
  apply filter_In in H. destruct H as [H1 H2]. simpl in H2. split.
  - apply in_map_iff. exists (x, v0). split; [reflexivity|exact H1].
  - intros ->. rewrite beq_refl in H2. discriminate.
Qed.

Lemma hdel_raw_nodup h k : NoDup (map fst h) -> NoDup (map fst (hdel_raw h k)).
Proof.
  unfold hdel_raw. induction h as [|[k0 v0] h IH]; intros H; [constructor|].
  inversion H as [|x xs Hx Hnd]. subst x xs. simpl. destruct (negb (beq k0 k)); simpl.
  - constructor; [|apply IH; exact Hnd]. intros HIn. apply Hx. apply (hdel_raw_keys h k k0). exact HIn.
  - apply IH. exact Hnd.
Qed.

Lemma keys_ok_hdel_raw h k : keys_ok h -> keys_ok (hdel_raw h k).
Proof.
  intros [H1 H2]. split; [apply hdel_raw_nodup; exact H1|].
  intros x Hx. apply H2. apply (hdel_raw_keys h k x Hx).
Qed.

Lemma NoDup_app_single {A} (l : list A) x : NoDup l -> ~ In x l -> NoDup (l ++ [x]).
Proof.
  induction l as [|a l IH]; intros Hnd Hx; simpl.
  - constructor; [intros []|constructor].
  - inversion Hnd as [|y ys Hy Hnd']. subst y ys. constructor.
    + intros HIn. apply in_app_or in HIn. destruct HIn as [HIn|[E|[]]]; [exact (Hy HIn)|].
      apply Hx. left. symmetry. exact E.
    + apply IH; [exact Hnd'|]. intros HIn. apply Hx. right. exact HIn.
Qed.

Lemma keys_ok_hput h k vs : canon_key k = k -> keys_ok h -> keys_ok (hput h k vs).
Proof.
  intros Hc H. destruct (keys_ok_hdel_raw h k H) as [H1 H2]. unfold hput. split.
  - rewrite map_app. simpl. apply NoDup_app_single; [exact H1|].
    intros HIn. apply hdel_raw_keys in HIn. destruct HIn as [_ HIn]. apply HIn. reflexivity.
  - intros x Hx. rewrite map_app in Hx. apply in_app_or in Hx. destruct Hx as [Hx|[<-|[]]]; [apply H2; exact Hx|exact Hc].
Qed.

Lemma fold_left_inv {A B} (P : A -> Prop) (f : A -> B -> A) l : forall a,
  (forall a b, P a -> P (f a b)) -> P a -> P (fold_left f l a).
Proof. induction l as [|x l IH]; intros a Hf Ha; [exact Ha|]. simpl. apply IH; [exact Hf|apply Hf; exact Ha]. Qed.

Lemma keys_ok_hdel h n : keys_ok h -> keys_ok (hdel h n).
Proof. apply keys_ok_hdel_raw. Qed.
Lemma keys_ok_hset h n v : keys_ok h -> keys_ok (hset h n v).
Proof. apply keys_ok_hput. apply canon_key_idem. Qed.
Lemma keys_ok_hadd h n v : keys_ok h -> keys_ok (hadd h n v).
Proof. apply keys_ok_hput. apply canon_key_idem. Qed.

Lemma keys_ok_apply_rule e h0 h r : keys_ok h -> keys_ok (apply_rule e h0 h r).
Proof.
  intros H. destruct r as [f vals]. unfold apply_rule.
  assert (S : keys_ok (match rev vals with [] => h | v :: _ => let x := replace_ph (subst_of e h0) v in if is_nil x then h else hset h f x end)).
  { destruct (rev vals); [exact H|]. simpl. destruct (is_nil _); [exact H|apply keys_ok_hset; exact H]. }
  destruct f as [|c name]; [exact S|].
  destruct (c =? PLUS).
  - apply fold_left_inv; [|exact H]. intros a b Ha. simpl. destruct (is_nil _); [exact Ha|apply keys_ok_hadd; exact Ha].
  - destruct (c =? MINUS); [apply keys_ok_hdel; exact H|exact S].
Qed.

Lemma keys_ok_apply_rerule e h0 h r : keys_ok h -> keys_ok (apply_rerule e h0 h r).
Proof.
  intros H. unfold apply_rerule. apply fold_left_inv; [|exact H].
  intros a b Ha. simpl. destruct (_ && _); [apply keys_ok_hset; exact Ha|exact Ha].
Qed.

Lemma keys_ok_mutate e h0 rules res h : keys_ok h -> keys_ok (mutate_headers e h0 rules res h).
Proof.
  intros H. unfold mutate_headers.
  apply fold_left_inv; [intros a b; apply keys_ok_apply_rerule|].
  apply fold_left_inv; [intros a b; apply keys_ok_apply_rule|exact H].
Qed.

Lemma keys_ok_resp_strip h : keys_ok h -> keys_ok (resp_strip h).
Proof.
  intros H. unfold resp_strip.
  apply fold_left_inv; [intros a b; apply keys_ok_hdel|].
  apply fold_left_inv; [intros a b; apply keys_ok_hdel|exact H].
Qed.

(* the header map the client side is handed (before the Trailer header is added) *)
Definition client_hdr (c : pcfg) (e : reqenv) (live pre : hdr) (b : bresp) : hdr :=
  copy_header pre (mutate_headers e live (c_down c) (c_downre c) (resp_strip (b_hdr b))).

Lemma client_hdr_lookup c e live pre b k :
  keys_ok (b_hdr b) ->
  hlookup (client_hdr c e live pre b) k =
  copy_value gen_skip_headers (hlookup pre k)
    (fold_left vop_apply (vops_for (subst_of e live) (c_down c) k ++ revops_for (subst_of e live) (c_downre c) k)
               (hlookup (resp_strip (b_hdr b)) k)) k.
Proof.
  intros H. unfold client_hdr.
  destruct (keys_ok_mutate e live (c_down c) (c_downre c) _ (keys_ok_resp_strip _ H)) as [H1 H2].
  rewrite copy_header_lookup by assumption. rewrite mutate_headers_lookup. reflexivity.
Qed.

Lemma client_view_hdr_lookup c e live pre b k :
  keys_ok (b_hdr b) -> k <> K_TRAILER \/ b_announced b = [] ->
  hlookup (v_hdr (client_view c e live pre b)) k = hlookup (client_hdr c e live pre b) k.
Proof.
  intros H Hk. unfold client_view, client_hdr. cbn [v_hdr].
  destruct (is_nil (nodup_keys (b_announced b))) eqn:En; [reflexivity|].
  destruct Hk as [Hk|Hk].
  - rewrite hlookup_hput. assert (E : beq K_TRAILER k = false) by (apply beq_false_iff; congruence). rewrite E. reflexivity.
  - rewrite Hk in En. discriminate.
Qed.

(* ---------- the copy loop: for every reader behaviour and buffer size the writes are the body ---------- *)
Lemma skipn_shorter {A} n (l : list A) : (0 < n)%nat -> l <> [] -> (length (skipn n l) < length l)%nat.
Proof. intros Hn Hl. rewrite skipn_length. destruct l; [congruence|]. cbn [length]. lia. Qed.

Lemma copy_loop_cons f bufsz c data script eofd :
  copy_loop (S f) bufsz {| r_data := c :: data; r_script := script; r_eofd := eofd |} =
  (if match skipn (match script with [] => bufsz | k :: _ => Nat.min k bufsz end) (c :: data) with [] => eofd | _ :: _ => false end
   then match firstn (match script with [] => bufsz | k :: _ => Nat.min k bufsz end) (c :: data) with
        | [] => [] | _ :: _ => [firstn (match script with [] => bufsz | k :: _ => Nat.min k bufsz end) (c :: data)] end
   else match firstn (match script with [] => bufsz | k :: _ => Nat.min k bufsz end) (c :: data) with
        | [] => [] | _ :: _ => [firstn (match script with [] => bufsz | k :: _ => Nat.min k bufsz end) (c :: data)] end ++
        copy_loop f bufsz {| r_data := skipn (match script with [] => bufsz | k :: _ => Nat.min k bufsz end) (c :: data);
                             r_script := tl script; r_eofd := eofd |}).
Proof. reflexivity. Qed.

Lemma copy_loop_spec bufsz : (0 < bufsz)%nat -> forall fuel r,
  (length (r_script r) + length (r_data r) < fuel)%nat ->
  concat (copy_loop fuel bufsz r) = r_data r /\
  Forall (fun w => (0 < length w <= bufsz)%nat) (copy_loop fuel bufsz r).
Proof.
  intros Hb. induction fuel as [|f IH]; intros r Hf; [lia|].
  destruct r as [data script eofd]. simpl in Hf.
  destruct data as [|c data]; [split; [reflexivity|constructor]|].
  rewrite copy_loop_cons.
  set (cap := match script with [] => bufsz | k :: _ => Nat.min k bufsz end).
  set (full := c :: data) in *.
  assert (Hcap : (cap <= bufsz)%nat) by (subst cap; destruct script; lia).
  assert (Hsplit : firstn cap full ++ skipn cap full = full) by apply firstn_skipn.
  assert (Hlen : (length (firstn cap full) <= bufsz)%nat) by (rewrite firstn_length; lia).
  assert (Hws : concat (match firstn cap full with [] => [] | _ => [firstn cap full] end) = firstn cap full /\
                Forall (fun w => (0 < length w <= bufsz)%nat) (match firstn cap full with [] => [] | _ => [firstn cap full] end)).
  { destruct (firstn cap full) eqn:Ed; [split; [reflexivity|constructor]|].
    split; [cbn [concat]; apply app_nil_r|]. constructor; [|constructor]. cbn [length] in *. lia. }
  destruct Hws as [Hws1 Hws2].
  destruct (match skipn cap full with [] => eofd | _ :: _ => false end) eqn:Eeof.
  - split; [|exact Hws2]. transitivity (firstn cap full); [exact Hws1|]. destruct (skipn cap full) eqn:Es; [|discriminate].
    rewrite app_nil_r in Hsplit. exact Hsplit.
  - assert (Hf' : (length (tl script) + length (skipn cap full) < f)%nat).
    { destruct script as [|k script].
      - assert ((length (skipn cap full) < length full)%nat) by (apply skipn_shorter; [subst cap; exact Hb|subst full; discriminate]).
        simpl in *. lia.
      - assert ((length (skipn cap full) <= length full)%nat) by (rewrite skipn_length; lia).
        simpl in *. lia. }
    destruct (IH {| r_data := skipn cap full; r_script := tl script; r_eofd := eofd |} Hf') as [I1 I2].
    cbn [r_data] in I1. split.
    + rewrite concat_app, I1. transitivity (firstn cap full ++ skipn cap full); [|exact Hsplit].
      f_equal. exact Hws1.
    + apply Forall_app. split; assumption.
Qed.

Lemma copy_writes_spec bufsz r : (0 < bufsz)%nat ->
  concat (copy_writes bufsz r) = r_data r /\ Forall (fun w => (0 < length w <= bufsz)%nat) (copy_writes bufsz r).
Proof. intros Hb. unfold copy_writes. apply copy_loop_spec; [exact Hb|lia]. Qed.

(* ---------- the ResponseWriter: body bytes do not depend on flush points ---------- *)
Definition delivered (s : rwst) : bytes := rs_out s ++ rs_pending s.

Lemma wh_fields s st :
  rs_out (write_header s st) = rs_out s /\ rs_pending (write_header s st) = rs_pending s /\
  rs_live (write_header s st) = rs_live s /\ rs_committed (write_header s st) = rs_committed s /\
  rs_chunking (write_header s st) = rs_chunking s /\ rs_declared (write_header s st) = rs_declared s.
Proof. unfold write_header. destruct (rs_status s); repeat split; reflexivity. Qed.

Lemma commit_fields bo d s :
  rs_out (commit bo d s) = rs_out s /\ rs_pending (commit bo d s) = rs_pending s /\ rs_live (commit bo d s) = rs_live s /\
  rs_status (commit bo d s) = rs_status s /\ rs_snap (commit bo d s) = rs_snap s /\ rs_committed (commit bo d s) = true.
Proof. unfold commit. destruct (rs_committed s) eqn:E; repeat split; try reflexivity. exact E. Qed.

Lemma rw_step_delivered s o :
  delivered (rw_step true s o) = delivered s ++ match o with OWrite p => p | _ => [] end.
Proof.
  unfold delivered. destruct o as [k vv|st|p|]; cbn [rw_step].
  - simpl. rewrite app_nil_r. reflexivity.
  - destruct (wh_fields s st) as [-> [-> _]]. rewrite app_nil_r. reflexivity.
  - destruct (wh_fields s 200) as [E1 [E2 _]].
    destruct (Nat.leb _ BUFIO).
    + cbn [buffer rs_out rs_pending]. rewrite E1, E2, app_assoc. reflexivity.
    + cbn [drain rs_out rs_pending]. destruct (commit_fields true false (buffer (write_header s 200) p)) as [-> [-> _]].
      cbn [buffer rs_out rs_pending]. rewrite E1, E2, app_nil_r, app_assoc. reflexivity.
  - cbn [drain rs_out rs_pending]. destruct (commit_fields true false (write_header s 200)) as [-> [-> _]].
    destruct (wh_fields s 200) as [-> [-> _]]. rewrite !app_nil_r. reflexivity.
Qed.

Lemma rw_fold_delivered ops : forall s,
  delivered (fold_left (rw_step true) ops s) = delivered s ++ payloads ops.
Proof.
  induction ops as [|o ops IH]; intros s; simpl; [rewrite app_nil_r; reflexivity|].
  rewrite IH, rw_step_delivered, <- app_assoc. reflexivity.
Qed.

Lemma rw_run_out h ops : rs_out (rw_run true h ops) = payloads ops.
Proof.
  unfold rw_run, rw_finish. cbn [drain rs_out].
  set (s := fold_left (rw_step true) ops (rw_init h)).
  destruct (commit_fields true true (write_header s 200)) as [-> [-> _]].
  destruct (wh_fields s 200) as [-> [-> _]].
  change (delivered s = payloads ops). subst s. rewrite rw_fold_delivered. reflexivity.
Qed.

Lemma payloads_app a b : payloads (a ++ b) = payloads a ++ payloads b.
Proof. unfold payloads. apply flat_map_app. Qed.

Lemma payloads_writes ws : payloads (map OWrite ws) = concat ws.
Proof. induction ws as [|w ws IH]; [reflexivity|]. simpl. rewrite <- IH. reflexivity. Qed.

Lemma payloads_setkeys {A} (f : A -> bytes) (g : A -> list bytes) l : payloads (map (fun x => OSetKey (f x) (g x)) l) = [].
Proof. induction l as [|x l IH]; [reflexivity|exact IH]. Qed.

Lemma flush_interleave_payloads a b : flush_interleave a b -> payloads a = payloads b.
Proof. induction 1 as [|o a b H IH|a b H IH]; simpl; [reflexivity|rewrite IH; reflexivity|exact IH]. Qed.

Lemma resp_ops_with_payloads b mid : payloads (resp_ops_with b mid) = payloads mid.
Proof.
  unfold resp_ops_with. rewrite !payloads_app, payloads_setkeys.
  destruct (is_nil (nodup_keys (b_announced b))); destruct (trailers_forced b); simpl; rewrite ?app_nil_r; reflexivity.
Qed.

(* every reader behaviour, every buffer size, every placement of the flush timer's Flush calls *)
Lemma response_body_relayed h b r bufsz mid :
  (0 < bufsz)%nat -> flush_interleave (map OWrite (copy_writes bufsz r)) mid ->
  rs_out (rw_run true h (resp_ops_with b mid)) = r_data r.
Proof.
  intros Hb Hfi. rewrite rw_run_out, resp_ops_with_payloads, <- (flush_interleave_payloads _ _ Hfi), payloads_writes.
  apply copy_writes_spec. exact Hb.
Qed.

(* ---------- the ResponseWriter: framing and trailers ---------- *)
Lemma has_prefix_app p s : has_prefix (p ++ s) p = true.
Proof. induction p as [|c p IH]; simpl; [destruct s; reflexivity|]. rewrite N.eqb_refl. exact IH. Qed.

Lemma has_prefix_split p : forall s, has_prefix s p = true -> s = p ++ skipn (length p) s.
Proof.
  induction p as [|c p IH]; intros s H; [reflexivity|].
  destruct s as [|x s]; simpl in H; [discriminate|].
  apply andb_true_iff in H. destruct H as [H1 H2]. apply N.eqb_eq in H1. subst x.
  simpl. f_equal. apply IH. exact H2.
Qed.

Lemma skipn_app_exact {A} (p s : list A) : skipn (length p) (p ++ s) = s.
Proof. induction p as [|c p IH]; [reflexivity|exact IH]. Qed.

Lemma cut_prefix_app p k : cut_prefix p (p ++ k) = Some k.
Proof. unfold cut_prefix. rewrite has_prefix_app, skipn_app_exact. reflexivity. Qed.

Lemma cut_prefix_some p k kk : cut_prefix p k = Some kk -> k = p ++ kk.
Proof.
  unfold cut_prefix. destruct (has_prefix k p) eqn:E; [|discriminate].
  intros H. injection H as <-. apply has_prefix_split. exact E.
Qed.

Lemma hlookup_none_notin (h : hdr) k : hlookup h k = None -> ~ In k (map fst h).
Proof.
  induction h as [|[k0 v0] h IH]; intros H; [intros []|]. simpl in H.
  destruct (beq k0 k) eqn:E; [discriminate|]. intros [E'|HIn].
  - simpl in E'. subst k0. rewrite beq_refl in E. discriminate.
  - exact (IH H HIn).
Qed.

Lemma hlookup_In (h : hdr) k vs : hlookup h k = Some vs -> In (k, vs) h.
Proof.
  induction h as [|[k0 v0] h IH]; intros H; [discriminate|]. simpl in H.
  destruct (beq k0 k) eqn:E.
  - apply beq_eq in E. subst k0. injection H as ->. left. reflexivity.
  - right. apply IH. exact H.
Qed.

Lemma hput_nodup h k vs : NoDup (map fst h) -> NoDup (map fst (hput h k vs)).
Proof.
  intros H. unfold hput. rewrite map_app. simpl. apply NoDup_app_single; [apply hdel_raw_nodup; exact H|].
  intros HIn. apply hdel_raw_keys in HIn. destruct HIn as [_ HIn]. apply HIn. reflexivity.
Qed.

Lemma prefix_fold_lookup P live : NoDup (map fst live) -> forall init kk,
  hlookup (fold_left (fun t kv => match cut_prefix P (fst kv) with Some kk => hput t kk (snd kv) | None => t end) live init) kk =
  match hlookup live (P ++ kk) with Some vv => Some vv | None => hlookup init kk end.
Proof.
  induction live as [|[k0 v0] live IH]; intros Hnd init kk; [reflexivity|].
  inversion Hnd as [|x xs Hx Hnd']. subst x xs. cbn [fold_left hlookup fst snd].
  rewrite (IH Hnd'). destruct (beq k0 (P ++ kk)) eqn:E.
  - apply beq_eq in E. subst k0. rewrite (hlookup_notin live _ Hx), cut_prefix_app, hlookup_hput, beq_refl. reflexivity.
  - destruct (hlookup live (P ++ kk)); [reflexivity|].
    destruct (cut_prefix P k0) as [kk'|] eqn:Ec; [|reflexivity].
    rewrite hlookup_hput. destruct (beq kk' kk) eqn:E2; [|reflexivity].
    apply beq_eq in E2. subst kk'. apply cut_prefix_some in Ec. subst k0. rewrite beq_refl in E. discriminate.
Qed.

Lemma declared_fold_lookup live decl : NoDup decl -> (forall k, In k decl -> canon_key k = k) -> forall t k,
  olist (hlookup (fold_left (fun t k => fold_left (fun t v => hadd t k v) (olist (hlookup live k)) t) decl t) k) =
  olist (hlookup t k) ++ (if mem k decl then olist (hlookup live k) else []).
Proof.
  induction decl as [|d decl IH]; intros Hnd Hc t k; [simpl; rewrite app_nil_r; reflexivity|].
  inversion Hnd as [|x xs Hx Hnd']. subst x xs. cbn [fold_left].
  rewrite IH by (try assumption; intros k' H'; apply Hc; right; exact H').
  rewrite (fold_hadd_lookup d _ (Hc d (or_introl eq_refl))).
  unfold mem. cbn [existsb]. fold (mem k decl). rewrite (beq_sym k d).
  destruct (beq d k) eqn:E.
  - apply beq_eq in E. subst d.
    assert (M : mem k decl = false).
    { destruct (mem k decl) eqn:M; [|reflexivity]. apply mem_In in M. contradiction. }
    rewrite M. simpl. rewrite app_nil_r. destruct (olist (hlookup live k)); [rewrite app_nil_r|]; reflexivity.
  - simpl. reflexivity.
Qed.

Lemma srv_final_trailers_lookup live decl k :
  NoDup (map fst live) -> NoDup decl -> (forall k', In k' decl -> canon_key k' = k') ->
  olist (hlookup (srv_final_trailers live decl) k) =
  olist (hlookup live (TRAILER_PREFIX ++ k)) ++ (if mem k decl then olist (hlookup live k) else []).
Proof.
  intros H1 H2 H3. unfold srv_final_trailers. rewrite declared_fold_lookup by assumption.
  rewrite prefix_fold_lookup by assumption. cbn [hlookup]. destruct (hlookup live (TRAILER_PREFIX ++ k)); reflexivity.
Qed.

(* -- how the state evolves -- *)
Definition fold_setkeys (ops : list rwop) (l : hdr) : hdr :=
  fold_left (fun l o => match o with OSetKey k vv => hput l k vv | _ => l end) ops l.

Definition wf (s : rwst) : Prop :=
  rs_status s <> None /\
  (rs_committed s = true -> rs_chunking s = chunking_of true false (rs_snap s) /\ rs_declared s = declared_of (rs_snap s)).

Lemma wh_id s st : rs_status s <> None -> write_header s st = s.
Proof. unfold write_header. destruct (rs_status s); [reflexivity|congruence]. Qed.

Lemma commit_early s : wf s -> wf (commit true false s) /\ rs_committed (commit true false s) = true.
Proof.
  intros [W1 W2]. unfold commit. destruct (rs_committed s) eqn:E.
  - split; [split; [exact W1|intros _; apply W2; reflexivity]|exact E].
  - split; [|reflexivity]. split; [exact W1|]. intros _. split; reflexivity.
Qed.

Lemma step_summary s o : wf s ->
  let s' := rw_step true s o in
  wf s' /\ rs_snap s' = rs_snap s /\ rs_status s' = rs_status s /\
  rs_live s' = match o with OSetKey k vv => hput (rs_live s) k vv | _ => rs_live s end /\
  (rs_committed s = true -> rs_committed s' = true) /\ (o = OFlush -> rs_committed s' = true).
Proof.
  intros W. destruct W as [W1 W2]. destruct o as [k vv|st|p|]; cbn [rw_step]; cbv zeta.
  - split; [split; [exact W1|exact W2]|]. repeat split; try (intros H; exact H); try (intros H; discriminate H).
  - rewrite (wh_id s st W1). split; [split; [exact W1|exact W2]|].
    repeat split; try (intros H; exact H); try (intros H; discriminate H).
  - rewrite (wh_id s 200 W1). destruct (Nat.leb _ BUFIO).
    + split; [split; [exact W1|exact W2]|]. repeat split; try (intros H; exact H); try (intros H; discriminate H).
    + assert (Wb : wf (buffer s p)) by (split; [exact W1|exact W2]).
      destruct (commit_early _ Wb) as [[C1 C2] C3].
      destruct (commit_fields true false (buffer s p)) as [_ [_ [F3 [F4 [F5 F6]]]]].
      split; [split; [exact C1|exact C2]|].
      cbn [drain rs_status rs_committed rs_snap rs_live].
      split; [exact F5|]. split; [exact F4|]. split; [exact F3|]. split; [intros _; exact F6|intros H; discriminate H].
  - rewrite (wh_id s 200 W1).
    destruct (commit_early _ (conj W1 W2)) as [[C1 C2] C3].
    destruct (commit_fields true false s) as [_ [_ [F3 [F4 [F5 F6]]]]].
    split; [split; [exact C1|exact C2]|].
    cbn [drain rs_status rs_committed rs_snap rs_live].
    split; [exact F5|]. split; [exact F4|]. split; [exact F3|]. split; intros _; exact F6.
Qed.

Lemma fold_summary ops : forall s, wf s ->
  let s' := fold_left (rw_step true) ops s in
  wf s' /\ rs_snap s' = rs_snap s /\ rs_status s' = rs_status s /\ rs_live s' = fold_setkeys ops (rs_live s) /\
  (rs_committed s = true \/ In OFlush ops -> rs_committed s' = true).
Proof.
  induction ops as [|o ops IH]; intros s W; cbv zeta.
  - split; [exact W|]. split; [reflexivity|]. split; [reflexivity|]. split; [reflexivity|]. intros [Hc|[]]. exact Hc.
  - cbn [fold_left]. destruct (step_summary s o W) as [W' [S1 [S2 [S3 [S4 S5]]]]].
    destruct (IH _ W') as [W'' [T1 [T2 [T3 T4]]]].
    split; [exact W''|]. split; [congruence|]. split; [congruence|]. split.
    + rewrite T3, S3. unfold fold_setkeys. cbn [fold_left]. destruct o; reflexivity.
    + intros [Hc|Hin]; [apply T4; left; apply S4; exact Hc|]. destruct Hin as [Ho|Hi]; apply T4; [left; apply S5; exact Ho|right; exact Hi].
Qed.

Lemma finish_summary s : wf s ->
  let s' := rw_finish true s in
  rs_snap s' = rs_snap s /\ rs_status s' = rs_status s /\ rs_live s' = rs_live s /\
  rs_declared s' = declared_of (rs_snap s) /\
  (rs_committed s = true -> rs_chunking s' = chunking_of true false (rs_snap s)) /\
  (rs_chunking s' = chunking_of true false (rs_snap s) \/ rs_chunking s' = chunking_of true true (rs_snap s)).
Proof.
  intros [W1 W2]. cbv zeta. unfold rw_finish. rewrite (wh_id s 200 W1).
  unfold commit. destruct (rs_committed s) eqn:E; cbn [drain rs_snap rs_status rs_live rs_declared rs_chunking].
  - destruct (W2 eq_refl) as [A B]. repeat split; try assumption; try (intros; assumption). left. exact A.
  - repeat split; try discriminate. right. reflexivity.
Qed.

Lemma run_summary h pre st ops :
  (forall o, In o pre -> exists k vv, o = OSetKey k vv) ->
  let h' := fold_setkeys pre h in
  let s := rw_run true h (pre ++ OWriteHeader st :: ops) in
  rs_snap s = h' /\ rs_status s = Some st /\ rs_live s = fold_setkeys ops h' /\ rs_declared s = declared_of h' /\
  (In OFlush ops -> rs_chunking s = chunking_of true false h') /\
  (rs_chunking s = chunking_of true false h' \/ rs_chunking s = chunking_of true true h').
Proof.
  intros Hpre. cbv zeta. unfold rw_run. rewrite fold_left_app. cbn [fold_left].
  assert (E0 : fold_left (rw_step true) pre (rw_init h) = rw_init (fold_setkeys pre h)).
  { clear ops. revert h. induction pre as [|o pre IH]; intros h; [reflexivity|].
    destruct (Hpre o (or_introl eq_refl)) as [k [vv ->]]. cbn [fold_left rw_step].
    change (set_live (rw_init h) (hput (rs_live (rw_init h)) k vv)) with (rw_init (hput h k vv)).
    rewrite IH by (intros o' H'; apply Hpre; right; exact H'). reflexivity. }
  rewrite E0. set (h' := fold_setkeys pre h).
  set (s1 := rw_step true (rw_init h') (OWriteHeader st)).
  assert (W1 : wf s1) by (split; [discriminate|intros H; discriminate H]).
  destruct (fold_summary ops s1 W1) as [W [S1 [S2 [S3 S4]]]].
  destruct (finish_summary _ W) as [F1 [F2 [F3 [F4 [F5 F6]]]]].
  rewrite S1 in *. change (rs_snap s1) with h' in *. change (rs_live s1) with h' in *. change (rs_status s1) with (Some st) in *.
  split; [congruence|]. split; [congruence|]. split; [congruence|]. split; [congruence|]. split.
  - intros HF. apply F5. apply S4. right. exact HF.
  - exact F6.
Qed.

(* -- the proxy's sequence of calls on that writer -- *)
Lemma nodup_keys_fold l : forall acc, NoDup (acc ++ l) ->
  fold_left (fun acc k => if existsb (beq k) acc then acc else acc ++ [k]) l acc = acc ++ l.
Proof.
  induction l as [|x l IH]; intros acc H; simpl; [rewrite app_nil_r; reflexivity|].
  assert (E : existsb (beq x) acc = false).
  { destruct (existsb (beq x) acc) eqn:E; [|reflexivity]. apply (mem_In x acc) in E.
    apply NoDup_remove_2 in H. exfalso. apply H. apply in_or_app. left. exact E. }
  rewrite E. rewrite IH; rewrite <- app_assoc; [reflexivity|exact H].
Qed.

Lemma nodup_keys_id l : NoDup l -> nodup_keys l = l.
Proof. intros H. unfold nodup_keys. rewrite nodup_keys_fold; [reflexivity|exact H]. Qed.

Lemma declared_tokens_id l :
  (forall k, In k l -> canon_key k = k /\ conn_tokens k = [k]) -> map canon_key (flat_map conn_tokens l) = l.
Proof.
  induction l as [|x l IH]; intros H; [reflexivity|]. simpl.
  destruct (H x (or_introl eq_refl)) as [H1 H2]. rewrite H2. simpl. rewrite H1. f_equal.
  apply IH. intros k Hk. apply H. right. exact Hk.
Qed.

Lemma fold_setkeys_app a b l : fold_setkeys (a ++ b) l = fold_setkeys b (fold_setkeys a l).
Proof. unfold fold_setkeys. apply fold_left_app. Qed.

Lemma fold_setkeys_interleave a b : flush_interleave a b ->
  (forall o, In o a -> match o with OSetKey _ _ => False | _ => True end) ->
  (forall l, fold_setkeys b l = l) /\ (forall o, In o b -> match o with OSetKey _ _ => False | _ => True end).
Proof.
  induction 1 as [|o a b H IH|a b H IH]; intros Ha.
  - split; [reflexivity|intros o []].
  - destruct IH as [I1 I2]; [intros o' H'; apply Ha; right; exact H'|]. split.
    + intros l. unfold fold_setkeys. cbn [fold_left]. fold (fold_setkeys b).
      specialize (Ha o (or_introl eq_refl)). destruct o; [destruct Ha| | |]; apply I1.
    + intros o' [<-|H']; [apply Ha; left; reflexivity|apply I2; exact H'].
  - destruct (IH Ha) as [I1 I2]. split.
    + intros l. unfold fold_setkeys. cbn [fold_left]. apply I1.
    + intros o' [<-|H']; [exact I|apply I2; exact H'].
Qed.

Lemma writes_no_setkey ws o : In o (map OWrite ws) -> match o with OSetKey _ _ => False | _ => True end.
Proof. intros H. apply in_map_iff in H. destruct H as [w [<- _]]. exact I. Qed.

Lemma fold_setkeys_map (g : bytes -> bytes) (T : hdr) : forall l,
  fold_setkeys (map (fun kv => OSetKey (g (fst kv)) (snd kv)) T) l =
  fold_left (fun t kv => hput t (fst kv) (snd kv)) (map (fun kv => (g (fst kv), snd kv)) T) l.
Proof. induction T as [|kv T IH]; intros l; [reflexivity|]. unfold fold_setkeys in *. cbn [map fold_left fst snd]. apply IH. Qed.

Lemma inj_map_nodup {A B} (f : A -> B) l : (forall a b, f a = f b -> a = b) -> NoDup l -> NoDup (map f l).
Proof.
  intros Hinj. induction l as [|x l IH]; intros H; [constructor|].
  inversion H as [|y ys Hy Hnd]. subst y ys. simpl. constructor; [|apply IH; exact Hnd].
  intros HIn. apply in_map_iff in HIn. destruct HIn as [z [E Hz]]. apply Hinj in E. subst z. exact (Hy Hz).
Qed.

Lemma setkeys_lookup_hit (g : bytes -> bytes) (T : hdr) l k :
  (forall a b, g a = g b -> a = b) -> NoDup (map fst T) ->
  hlookup (fold_left (fun t kv => hput t (fst kv) (snd kv)) (map (fun kv => (g (fst kv), snd kv)) T) l) (g k) =
  match hlookup T k with Some vv => Some vv | None => hlookup l (g k) end.
Proof.
  intros Hinj Hnd. destruct (hlookup T k) as [vv|] eqn:E.
  - apply fold_hput_in.
    + rewrite map_map. cbn [fst]. rewrite <- (map_map fst g). apply inj_map_nodup; [exact Hinj|exact Hnd].
    + apply hlookup_In in E. apply in_map_iff. exists (k, vv). split; [reflexivity|exact E].
  - apply fold_hput_other. intros kv Hkv Ek. apply in_map_iff in Hkv. destruct Hkv as [[k0 v0] [<- Hkv]].
    cbn [fst] in Ek. apply Hinj in Ek. subst k0. apply hlookup_none_notin in E. apply E.
    apply in_map_iff. exists (k, v0). split; [reflexivity|exact Hkv].
Qed.

Lemma setkeys_lookup_miss (g : bytes -> bytes) (T : hdr) l x :
  (forall k, In k (map fst T) -> g k <> x) ->
  hlookup (fold_left (fun t kv => hput t (fst kv) (snd kv)) (map (fun kv => (g (fst kv), snd kv)) T) l) x = hlookup l x.
Proof.
  intros H. apply fold_hput_other. intros kv Hkv Ek. apply in_map_iff in Hkv. destruct Hkv as [[k0 v0] [<- Hkv]].
  cbn [fst] in Ek. apply (H k0); [|exact Ek]. apply in_map_iff. exists (k0, v0). split; [reflexivity|exact Hkv].
Qed.

Lemma fold_hput_nodup (T : hdr) : forall l, NoDup (map fst l) ->
  NoDup (map fst (fold_left (fun t kv => hput t (fst kv) (snd kv)) T l)).
Proof. induction T as [|kv T IH]; intros l H; [exact H|]. cbn [fold_left]. apply IH. apply hput_nodup. exact H. Qed.

Lemma final_trailers_nodup b : NoDup (b_announced b) -> NoDup (map fst (final_trailers b)).
Proof.
  intros H. unfold final_trailers. apply fold_hput_nodup. rewrite map_map. cbn [fst]. rewrite map_id. exact H.
Qed.

Lemma final_trailers_key b k : In k (map fst (final_trailers b)) -> In k (b_announced b) \/ In k (map fst (b_trailers b)).
Proof.
  intros H. destruct (mem k (b_announced b)) eqn:E1; [left; apply mem_In; exact E1|].
  destruct (mem k (map fst (b_trailers b))) eqn:E2; [right; apply mem_In; exact E2|].
  exfalso. apply (hlookup_none_notin (final_trailers b) k); [|exact H].
  apply trailers_nothing_else; intros HIn; apply mem_In in HIn; congruence.
Qed.

Definition client_hdr_ok (h : hdr) : Prop :=
  NoDup (map fst h) /\ hlookup h K_CL = None /\ hlookup h K_TRAILER = None /\
  (forall k, has_prefix k TRAILER_PREFIX = true -> hlookup h k = None).
Definition trailer_keys_ok (h : hdr) (b : bresp) : Prop :=
  NoDup (b_announced b) /\ NoDup (map fst (b_trailers b)) /\
  (forall k, In k (b_announced b) \/ In k (map fst (b_trailers b)) ->
             canon_key k = k /\ conn_tokens k = [k] /\ has_prefix k TRAILER_PREFIX = false /\ k <> K_TRAILER) /\
  (forall k, In k (b_announced b) -> hlookup h k = None).

Lemma prefix_inj (p a b : bytes) : p ++ a = p ++ b -> a = b.
Proof. apply app_inv_head. Qed.

Lemma forced_when_unannounced b : b_announced b = [] -> b_trailers b <> [] -> trailers_forced b = true.
Proof.
  intros Ha Ht. unfold trailers_forced. rewrite Ha. destruct (b_trailers b) as [|kv l]; [congruence|]. reflexivity.
Qed.

Lemma not_forced_announced b k : trailers_forced b = false -> In k (map fst (b_trailers b)) -> In k (b_announced b).
Proof.
  unfold trailers_forced. intros H HIn. apply negb_false_iff in H. rewrite forallb_forall in H.
  apply in_map_iff in HIn. destruct HIn as [kv [<- HIn]]. apply mem_In. apply H. exact HIn.
Qed.

Lemma not_ne_nil {A} (l : list A) : (l <> [] -> False) -> l = [].
Proof. destruct l; [reflexivity|]. intros H. exfalso. apply H. discriminate. Qed.

Lemma trailers_relayed_rw h b ws mid :
  client_hdr_ok h -> trailer_keys_ok h b -> flush_interleave (map OWrite ws) mid ->
  let s := rw_run true h (resp_ops_with b mid) in
  rs_status s = Some (b_status b) /\
  (b_announced b <> [] -> hlookup (rs_snap s) K_TRAILER = Some (b_announced b)) /\
  (b_announced b <> [] \/ b_trailers b <> [] -> rs_chunking s = true) /\
  (forall k, olist (hlookup (rw_trailers s) k) = olist (hlookup (final_trailers b) k)).
Proof.
  intros [Hnd [Hcl [Htr Hpf]]] [Ha [Ht [Hk Hh]]] Hfi. cbv zeta.
  unfold resp_ops_with. rewrite (nodup_keys_id _ Ha).
  set (ann := b_announced b) in *.
  set (pre := if is_nil ann then [] else [OSetKey K_TRAILER ann]).
  set (T := final_trailers b).
  set (g := fun k : bytes => if trailers_forced b then TRAILER_PREFIX ++ k else k).
  set (P := map (fun kv => OSetKey (if trailers_forced b then TRAILER_PREFIX ++ fst kv else fst kv) (snd kv)) T).
  set (ops := (if is_nil ann then [] else [OFlush]) ++ mid ++ (if trailers_forced b then [OFlush] else []) ++ P).
  change (rs_status (rw_run true h (pre ++ [OWriteHeader (b_status b)] ++ ops)) = Some (b_status b) /\
          (ann <> [] -> hlookup (rs_snap (rw_run true h (pre ++ [OWriteHeader (b_status b)] ++ ops))) K_TRAILER = Some ann) /\
          (ann <> [] \/ b_trailers b <> [] -> rs_chunking (rw_run true h (pre ++ [OWriteHeader (b_status b)] ++ ops)) = true) /\
          (forall k, olist (hlookup (rw_trailers (rw_run true h (pre ++ [OWriteHeader (b_status b)] ++ ops))) k) = olist (hlookup T k))).
  assert (Hpre : forall o, In o pre -> exists k vv, o = OSetKey k vv).
  { subst pre. destruct (is_nil ann); [intros o []|]. intros o [<-|[]]. eauto. }
  destruct (run_summary h pre (b_status b) ops Hpre) as [R1 [R2 [R3 [R4 [R5 R6]]]]].
  cbn [app] in *. set (s := rw_run true h (pre ++ OWriteHeader (b_status b) :: ops)) in *.
  set (h' := fold_setkeys pre h) in *.
  assert (Eh' : forall x, x <> K_TRAILER -> hlookup h' x = hlookup h x).
  { intros x Hx. subst h' pre. destruct (is_nil ann); [reflexivity|]. unfold fold_setkeys. cbn [fold_left].
    rewrite hlookup_hput. assert (E : beq K_TRAILER x = false) by (apply beq_false_iff; congruence). rewrite E. reflexivity. }
  assert (Etr : hlookup h' K_TRAILER = if is_nil ann then None else Some ann).
  { subst h' pre. destruct (is_nil ann); [exact Htr|]. unfold fold_setkeys. cbn [fold_left]. rewrite hlookup_hput, beq_refl. reflexivity. }
  assert (Hndh' : NoDup (map fst h')).
  { subst h' pre. destruct (is_nil ann); [exact Hnd|]. unfold fold_setkeys. cbn [fold_left]. apply hput_nodup. exact Hnd. }
  assert (Edecl : declared_of h' = ann).
  { unfold declared_of. rewrite Etr. destruct ann as [|a0 ann0] eqn:Eann; [reflexivity|]. cbn [is_nil olist].
    apply declared_tokens_id. intros k Hk'. destruct (Hk k (or_introl Hk')) as [A [B _]]. split; assumption. }
  assert (Ech : chunking_of true false h' = true).
  { unfold chunking_of, has_key. rewrite Eh' by (intros E; vm_compute in E; discriminate). rewrite Hcl. reflexivity. }
  destruct (fold_setkeys_interleave _ _ Hfi (writes_no_setkey ws)) as [Hmid _].
  assert (Elive : rs_live s = fold_left (fun t kv => hput t (fst kv) (snd kv)) (map (fun kv => (g (fst kv), snd kv)) T) h').
  { rewrite R3. subst ops. rewrite !fold_setkeys_app, Hmid.
    assert (E1 : fold_setkeys (if is_nil ann then [] else [OFlush]) h' = h') by (destruct (is_nil ann); reflexivity).
    rewrite E1.
    assert (E2 : fold_setkeys (if trailers_forced b then [OFlush] else []) h' = h') by (destruct (trailers_forced b); reflexivity).
    rewrite E2. subst P. apply (fold_setkeys_map g T h'). }
  assert (Hflush : ann <> [] \/ b_trailers b <> [] -> In OFlush ops).
  { intros [H|H]; subst ops.
    - destruct ann; [congruence|]. left. reflexivity.
    - destruct ann as [|a0 ann0] eqn:Eann.
      + apply in_or_app. right. apply in_or_app. right. rewrite (forced_when_unannounced b Eann H). left. reflexivity.
      + left. reflexivity. }
  split; [exact R2|]. split.
  { intros Hne. rewrite R1, Etr. destruct ann; [congruence|reflexivity]. }
  split.
  { intros Hne. rewrite (R5 (Hflush Hne)). exact Ech. }
  intros k. unfold rw_trailers. destruct (rs_chunking s) eqn:Ecs.
  2:{ (* not chunked: there is no trailer at all *)
    assert (N : ~ (ann <> [] \/ b_trailers b <> [])).
    { intros Hne. pose proof (R5 (Hflush Hne)) as X. rewrite Ech in X. discriminate X. }
    assert (N1 : ann = []) by (apply not_ne_nil; intros H; apply N; left; exact H).
    assert (N2 : b_trailers b = []) by (apply not_ne_nil; intros H; apply N; right; exact H).
    subst T. unfold final_trailers. fold ann. rewrite N1, N2. reflexivity. }
  rewrite R4, Edecl.
  assert (HndT : NoDup (map fst T)) by (apply final_trailers_nodup; exact Ha).
  assert (Hndlive : NoDup (map fst (rs_live s))) by (rewrite Elive; apply fold_hput_nodup; exact Hndh').
  rewrite srv_final_trailers_lookup; [|exact Hndlive|exact Ha|intros k' Hk'; apply (Hk k' (or_introl Hk'))].
  assert (Hkeys : forall k', In k' (map fst T) -> has_prefix k' TRAILER_PREFIX = false /\ k' <> K_TRAILER).
  { intros k' Hk'. apply final_trailers_key in Hk'. destruct (Hk k' Hk') as [_ [_ [A B]]]. split; assumption. }
  rewrite Elive. subst g. cbv beta. destruct (trailers_forced b) eqn:Ef; cbv beta iota.
  - (* unannounced trailers arrived: everything travels under the TrailerPrefix *)
    pose proof (setkeys_lookup_hit (fun k => TRAILER_PREFIX ++ k) T h' k (prefix_inj TRAILER_PREFIX) HndT) as X1. cbv beta in X1.
    rewrite Eh' in X1 by (intros E; vm_compute in E; discriminate).
    rewrite (Hpf (TRAILER_PREFIX ++ k) (has_prefix_app _ _)) in X1.
    match goal with |- olist ?A ++ _ = _ => assert (EA : A = match hlookup T k with Some vv => Some vv | None => None end) by exact X1; rewrite EA end.
    destruct (mem k ann) eqn:M.
    + apply mem_In in M. destruct (Hk k (or_introl M)) as [_ [_ [A B']]].
      pose proof (setkeys_lookup_miss (fun k => TRAILER_PREFIX ++ k) T h' k) as X2. cbv beta in X2.
      match goal with |- _ ++ olist ?B = _ => assert (EB : B = hlookup h' k); [apply X2|rewrite EB] end.
      { intros k' _ E. rewrite <- E, has_prefix_app in A. discriminate. }
      rewrite Eh' by exact B'. rewrite (Hh k M). cbn [olist]. rewrite app_nil_r. destruct (hlookup T k); reflexivity.
    + rewrite app_nil_r. destruct (hlookup T k); reflexivity.
  - (* every trailer was announced: plain keys, picked up through the declared list *)
    pose proof (setkeys_lookup_miss (fun k => k) T h' (TRAILER_PREFIX ++ k)) as X2. cbv beta in X2.
    rewrite Eh' in X2 by (intros E; vm_compute in E; discriminate).
    rewrite (Hpf (TRAILER_PREFIX ++ k) (has_prefix_app _ _)) in X2.
    match goal with |- olist ?A ++ _ = _ => assert (EA : A = None); [apply X2|rewrite EA] end.
    { intros k' Hk' E. destruct (Hkeys k' Hk') as [A _]. rewrite E, has_prefix_app in A. discriminate. }
    cbn [olist app].
    destruct (mem k ann) eqn:M.
    + apply mem_In in M. destruct (Hk k (or_introl M)) as [_ [_ [_ B]]].
      pose proof (setkeys_lookup_hit (fun k => k) T h' k (fun a b E => E) HndT) as X1. cbv beta in X1.
      rewrite Eh' in X1 by exact B. rewrite (Hh k M) in X1.
      match goal with |- olist ?A = _ => assert (EA2 : A = match hlookup T k with Some vv => Some vv | None => None end) by exact X1; rewrite EA2 end.
      destruct (hlookup T k); reflexivity.
    + assert (N : hlookup T k = None).
      { subst T. apply trailers_nothing_else.
        - intros HIn. apply mem_In in HIn. fold ann in HIn. congruence.
        - intros HIn. apply (not_forced_announced b k Ef) in HIn. apply mem_In in HIn. fold ann in HIn. congruence. }
      rewrite N. reflexivity.
Qed.

(* ---------- statements as used in C04_Props.v ---------- *)
Lemma response_copy_header_spec :
  (forall k, mem k gen_skip_headers = mem k spec_skip) /\
  (forall dst src k, NoDup (map fst src) -> (forall k', In k' (map fst src) -> canon_key k' = k') ->
     hlookup (copy_header dst src) k = copy_value gen_skip_headers (hlookup dst k) (hlookup src k) k) /\
  (forall c e live pre b k, keys_ok (b_hdr b) -> k <> K_TRAILER \/ b_announced b = [] ->
     hlookup (v_hdr (client_view c e live pre b)) k =
     copy_value gen_skip_headers (hlookup pre k)
       (fold_left vop_apply (vops_for (subst_of e live) (c_down c) k ++ revops_for (subst_of e live) (c_downre c) k)
                  (hlookup (resp_strip (b_hdr b)) k)) k).
Proof.
  split; [exact skip_table_documented|]. split.
  - intros dst src k H1 H2. apply copy_header_lookup; assumption.
  - intros c e live pre b k H1 H2. rewrite client_view_hdr_lookup by assumption. apply client_hdr_lookup. exact H1.
Qed.

Lemma trailers_spec h b r bufsz mid :
  client_hdr_ok h -> trailer_keys_ok h b -> flush_interleave (map OWrite (copy_writes bufsz r)) mid ->
  let s := rw_run true h (resp_ops_with b mid) in
  rs_status s = Some (b_status b) /\
  (b_announced b <> [] -> hlookup (rs_snap s) K_TRAILER = Some (b_announced b)) /\
  (b_announced b <> [] \/ b_trailers b <> [] -> rs_chunking s = true) /\
  (forall k, olist (hlookup (rw_trailers s) k) = olist (hlookup (final_trailers b) k)).
Proof. intros H1 H2 H3. exact (trailers_relayed_rw h b (copy_writes bufsz r) mid H1 H2 H3). Qed.

Lemma body_relay_spec bufsz r : (0 < bufsz)%nat ->
  (concat (copy_writes bufsz r) = r_data r /\ Forall (fun w => (0 < length w <= bufsz)%nat) (copy_writes bufsz r)) /\
  (forall h b mid, flush_interleave (map OWrite (copy_writes bufsz r)) mid ->
                   rs_out (rw_run true h (resp_ops_with b mid)) = r_data r).
Proof.
  intros Hb. split; [apply copy_writes_spec; exact Hb|].
  intros h b mid Hfi. apply (response_body_relayed h b r bufsz mid Hb Hfi).
Qed.

Lemma request_body_every_attempt body n i : (i < n)%nat -> nth_error (buffered_attempt_bodies body n) i = Some body.
Proof.
  unfold buffered_attempt_bodies. revert i. induction n as [|n IH]; intros i H; [lia|].
  destruct i as [|i]; [reflexivity|]. simpl. apply IH. lia.
Qed.

(* -- boolean checkers for the hypotheses (used by the non-vacuity examples) -- *)
Fixpoint nodupb (l : list bytes) : bool := match l with [] => true | x :: r => negb (mem x r) && nodupb r end.
Lemma nodupb_sound l : nodupb l = true -> NoDup l.
Proof.
  induction l as [|x l IH]; intros H; [constructor|]. simpl in H. apply andb_true_iff in H. destruct H as [H1 H2].
  constructor; [|apply IH; exact H2]. intros HIn. apply mem_In in HIn. rewrite HIn in H1. discriminate.
Qed.

Definition client_hdr_okb (h : hdr) : bool :=
  nodupb (map fst h) && negb (has_key h K_CL) && negb (has_key h K_TRAILER) &&
  forallb (fun kv => negb (has_prefix (fst kv) TRAILER_PREFIX)) h.
Lemma client_hdr_okb_sound h : client_hdr_okb h = true -> client_hdr_ok h.
Proof.
  unfold client_hdr_okb, has_key. intros H. repeat (apply andb_true_iff in H; destruct H as [H ?]).
  split; [apply nodupb_sound; exact H|]. split; [destruct (hlookup h K_CL); [discriminate|reflexivity]|].
  split; [destruct (hlookup h K_TRAILER); [discriminate|reflexivity]|].
  intros k Hk. apply hlookup_notin. intros HIn. apply in_map_iff in HIn. destruct HIn as [kv [E HIn]].
  rewrite forallb_forall in H0. specialize (H0 kv HIn). rewrite E, Hk in H0. discriminate.
Qed.

Definition trailer_key_okb (k : bytes) : bool :=
  beq (canon_key k) k && match conn_tokens k with [x] => beq x k | _ => false end &&
  negb (has_prefix k TRAILER_PREFIX) && negb (beq k K_TRAILER).
Definition trailer_keys_okb (h : hdr) (b : bresp) : bool :=
  nodupb (b_announced b) && nodupb (map fst (b_trailers b)) &&
  forallb trailer_key_okb (b_announced b ++ map fst (b_trailers b)) && forallb (fun k => negb (has_key h k)) (b_announced b).
Lemma trailer_keys_okb_sound h b : trailer_keys_okb h b = true -> trailer_keys_ok h b.
Proof.
  unfold trailer_keys_okb. intros H. repeat (apply andb_true_iff in H; destruct H as [H ?]).
  split; [apply nodupb_sound; exact H|]. split; [apply nodupb_sound; exact H2|]. split.
  - intros k Hk. rewrite forallb_forall in H1. specialize (H1 k (in_or_app _ _ _ Hk)).
    unfold trailer_key_okb in H1. repeat (apply andb_true_iff in H1; destruct H1 as [H1 ?]).
    split; [apply beq_eq; exact H1|]. split.
    + destruct (conn_tokens k) as [|x [|y l]]; try discriminate. apply beq_eq in H5. subst x. reflexivity.
    + split; [apply negb_true_iff; exact H4|]. apply beq_false_iff. apply negb_true_iff. exact H3.
  - intros k Hk. rewrite forallb_forall in H0. specialize (H0 k Hk). unfold has_key in H0.
    destruct (hlookup h k); [discriminate|reflexivity].
Qed.

Definition wit_rh : hdr := [(bs "Content-Type"%string, [bs "text/plain"%string]); (bs "X-A"%string, [bs "v1"%string])].
Definition wit_rb : bresp :=
  {| b_status := 200; b_hdr := []; b_announced := [bs "X-T1"%string];
     b_trailers := [(bs "X-T1"%string, [bs "t1"%string]); (bs "X-U1"%string, [bs "t2"%string; bs "t3"%string])] |}.
Definition wit_rb_unannounced : bresp :=
  {| b_status := 200; b_hdr := []; b_announced := []; b_trailers := [(bs "X-U1"%string, [bs "t2"%string])] |}.
Definition wit_reader : breader := {| r_data := bs "0123456789"%string; r_script := [0; 3; 1]%nat; r_eofd := false |}.

Lemma trailers_spec_nonvacuous :
  client_hdr_ok wit_rh /\ trailer_keys_ok wit_rh wit_rb /\ trailer_keys_ok wit_rh wit_rb_unannounced /\
  flush_interleave (map OWrite (copy_writes 4 wit_reader)) (OWrite (bs "012"%string) :: OFlush :: map OWrite [bs "3"%string; bs "4567"%string; bs "89"%string]) /\
  hlookup (rw_trailers (rw_run true wit_rh (resp_ops wit_rb (copy_writes 4 wit_reader)))) (bs "X-U1"%string) = Some [bs "t2"%string; bs "t3"%string] /\
  hlookup (rw_trailers (rw_run true wit_rh (resp_ops wit_rb (copy_writes 4 wit_reader)))) (bs "X-T1"%string) = Some [bs "t1"%string].
Proof.
  split; [apply client_hdr_okb_sound; vm_compute; reflexivity|].
  split; [apply trailer_keys_okb_sound; vm_compute; reflexivity|].
  split; [apply trailer_keys_okb_sound; vm_compute; reflexivity|].
  split; [|split; vm_compute; reflexivity].
  change (copy_writes 4 wit_reader) with [bs "012"%string; bs "3"%string; bs "4567"%string; bs "89"%string].
  cbn [map]. apply FI_keep. apply FI_flush. repeat apply FI_keep. apply FI_nil.
Qed.

(* what the Flush before the unannounced trailers is for (the defect F-C04-6, repaired in /repo f844a4b):
   without it a short body is answered with a Content-Length and the trailers are dropped *)
Lemma trailers_flush_needed :
  let old := rw_run true wit_rh (resp_ops_old wit_rb_unannounced [bs "short body"%string]) in
  let new := rw_run true wit_rh (resp_ops wit_rb_unannounced [bs "short body"%string]) in
  rs_chunking old = false /\ rs_cl old = Some 10%nat /\ rw_trailers old = [] /\
  rs_chunking new = true /\ hlookup (rw_trailers new) (bs "X-U1"%string) = Some [bs "t2"%string] /\
  rs_out old = rs_out new.
Proof. vm_compute. repeat split; reflexivity. Qed.

Lemma copy_header_nonvacuous :
  let dst : hdr := [(bs "Content-Type"%string, [bs "text/pre"%string]); (K_SERVER, [bs "Casket"%string]); (bs "X-A"%string, [bs "pre"%string])] in
  let src : hdr := [(bs "Content-Type"%string, [bs "text/html"%string]); (K_SERVER, [bs "backend"%string]);
                    (bs "X-A"%string, [bs "v1"%string; bs "v2"%string]); (bs "X-B"%string, [bs "b"%string])] in
  keys_ok src /\
  hlookup (copy_header dst src) (bs "Content-Type"%string) = Some [bs "text/pre"%string] /\
  hlookup (copy_header dst src) K_SERVER = Some [bs "Casket"%string; bs "backend"%string] /\
  hlookup (copy_header dst src) (bs "X-A"%string) = Some [bs "v1"%string; bs "v2"%string] /\
  hlookup (copy_header dst src) (bs "X-B"%string) = Some [bs "b"%string].
Proof.
  cbv zeta. split; [|vm_compute; repeat split; reflexivity].
  split; [apply nodupb_sound; vm_compute; reflexivity|].
  intros k Hk. cbn [map fst In] in Hk. repeat (destruct Hk as [<-|Hk]; [vm_compute; reflexivity|]). destruct Hk.
Qed.

(* ---------- bufferedBody: every attempt reads the client's body from its first byte ---------- *)
Lemma attempt_reads_from_start : forall data ks off,
  attempt_reads {| bb_data := data; bb_off := off |} ks = map (prefix_asked data) ks.
Proof.
  intros data ks. induction ks as [|k r IH]; intros off; [reflexivity|].
  unfold attempt_reads in *. simpl. rewrite IH. reflexivity.
Qed.

Lemma rewind_only_when_drained_differs :
  exists data ks, attempt_reads_with bb_rewind_if_drained {| bb_data := data; bb_off := 0 |} ks <> map (prefix_asked data) ks.
Proof. exists [1; 2; 3], [Some 1%nat; None]. vm_compute. discriminate. Qed.

(* such a rewind is only right for attempts that read nothing or everything *)
Lemma rewind_if_drained_ends : forall data off, (off = 0 \/ off = length data)%nat ->
  bb_rewind_if_drained {| bb_data := data; bb_off := off |} = {| bb_data := data; bb_off := 0 |}.
Proof.
  intros data off [->| ->]; unfold bb_rewind_if_drained, bb_len; simpl.
  - destruct (Nat.eqb (length data - 0) 0); reflexivity.
  - rewrite Nat.sub_diag. reflexivity.
Qed.

Lemma rewind_only_when_drained_all_or_nothing : forall data n,
  attempt_reads_with bb_rewind_if_drained {| bb_data := data; bb_off := 0 |} (repeat None n) = repeat data n.
Proof.
  intros data n.
  assert (H : forall off, (off = 0 \/ off = length data)%nat ->
            attempt_reads_with bb_rewind_if_drained {| bb_data := data; bb_off := off |} (repeat None n) = repeat data n).
  { induction n as [|n IH]; intros off Hoff; [reflexivity|].
    cbn [repeat attempt_reads_with]. rewrite (rewind_if_drained_ends data off Hoff).
    unfold bb_read. cbn [bb_off bb_data skipn]. rewrite IH; [reflexivity|right; reflexivity]. }
  apply H. left. reflexivity.
Qed.

Lemma pat_range_firstn : forall salt n start k,
  firstn k (pat_range salt start n) = pat_range salt start (Nat.min k n).
Proof.
  intros salt n. induction n as [|n IH]; intros start k.
  - rewrite Nat.min_0_r. destruct k; reflexivity.
  - destruct k as [|k]; [reflexivity|]. simpl. rewrite IH. reflexivity.
Qed.

Lemma pat_prefix : forall salt len k,
  firstn k (pat salt len) = pat salt (N.min (N.of_nat k) len).
Proof.
  intros salt len k. unfold pat. rewrite pat_range_firstn. f_equal. lia.
Qed.

Lemma retry_reads_pattern : forall salt len ks off,
  attempt_reads {| bb_data := pat salt len; bb_off := off |} ks =
  map (fun k => match k with Some n => pat salt (N.min (N.of_nat n) len) | None => pat salt len end) ks.
Proof.
  intros salt len ks off. rewrite attempt_reads_from_start. apply map_ext. intros [n|]; simpl; [apply pat_prefix|reflexivity].
Qed.

(* ---------- header_downstream runs on the response AFTER the hop-by-hop removal ---------- *)
Lemma down_rules_after_hop_removal : forall e live rules res h k,
  is_hop_for h k = true ->
  hlookup (mutate_headers e live rules res (resp_strip h)) k =
  fold_left vop_apply (vops_for (subst_of e live) rules k ++ revops_for (subst_of e live) res k) None.
Proof.
  intros e live rules res h k Hk. rewrite mutate_headers_lookup. rewrite (resp_is_hop_for_removed h k Hk). reflexivity.
Qed.

(* ---------- sequences of requests through one configuration: every request by itself ---------- *)
Lemma serve_seq_with_nth : forall step xs hist i x,
  nth_error xs i = Some x ->
  nth_error (serve_seq_with step hist xs) i = Some (step (hist ++ firstn i xs) x).
Proof.
  intros step xs. induction xs as [|a r IH]; intros hist i x H.
  - destruct i; discriminate H.
  - destruct i as [|j]; cbn [serve_seq_with nth_error firstn] in *.
    + injection H as <-. rewrite app_nil_r. reflexivity.
    + rewrite (IH (hist ++ [a]) j x H). rewrite <- app_assoc. reflexivity.
Qed.

Lemma serve_seq_length : forall step xs hist, length (serve_seq_with step hist xs) = length xs.
Proof. intros step xs. induction xs as [|a r IH]; intros hist; [reflexivity|]. cbn [serve_seq_with length]. rewrite IH. reflexivity. Qed.

Lemma header_rules_depend_on_own_request : forall c retriable hist xs i x,
  nth_error xs i = Some x ->
  exists r, nth_error (serve_seq c retriable hist xs) i = Some r /\
    r = serve_one c retriable x /\
    (forall k, hlookup (o_hdr (xr_sent r)) k =
               fold_left vop_apply (vops_for (subst_of (env_of (x_q x)) (q_hdr (x_q x))) (c_up c) k ++
                                    revops_for (subst_of (env_of (x_q x)) (q_hdr (x_q x))) (c_upre c) k)
                         (hlookup (auth_hdr (x_t x) (create_upstream_headers (q_remote (x_q x)) (q_hdr (x_q x)))) k)) /\
    (forall k, keys_ok (b_hdr (x_b x)) -> k <> K_TRAILER \/ b_announced (x_b x) = [] ->
               hlookup (v_hdr (xr_view r)) k =
               copy_value gen_skip_headers (hlookup (x_pre x) k)
                 (fold_left vop_apply (vops_for (subst_of (env_of (x_q x)) (q_hdr (x_q x))) (c_down c) k ++
                                       revops_for (subst_of (env_of (x_q x)) (q_hdr (x_q x))) (c_downre c) k)
                            (hlookup (resp_strip (b_hdr (x_b x))) k)) k).
Proof.
  intros c retriable hist xs i x H.
  exists (serve_one c retriable x). split; [|split; [reflexivity|split]].
  - unfold serve_seq. rewrite (serve_seq_with_nth _ xs hist i x H). reflexivity.
  - intros k. unfold serve_one, serve_with. cbn [xr_sent].
    destruct (first_attempt_spec c retriable (x_q x) (x_t x) []) as [o [os [E [_ [_ [_ Hh]]]]]].
    rewrite E. cbn [nth]. apply Hh.
  - intros k Hk Ht. unfold serve_one, serve_with. cbn [xr_view].
    destruct response_copy_header_spec as [_ [_ Hc]]. apply Hc; assumption.
Qed.

(* the same, as independence: equal exchanges get equal results wherever they stand, in whatever sequences *)
Lemma header_rules_history_independent : forall c retriable hist1 hist2 xs1 xs2 i j x,
  nth_error xs1 i = Some x -> nth_error xs2 j = Some x ->
  nth_error (serve_seq c retriable hist1 xs1) i = nth_error (serve_seq c retriable hist2 xs2) j.
Proof.
  intros c retriable hist1 hist2 xs1 xs2 i j x H1 H2. unfold serve_seq.
  rewrite (serve_seq_with_nth _ xs1 hist1 i x H1), (serve_seq_with_nth _ xs2 hist2 j x H2). reflexivity.
Qed.

(* witness: two clients with different Origin / Host / method through
   `header_downstream Access-Control-Allow-Origin {>Origin}`, `header_downstream X-Served {method} {host}` *)
Definition wit_seq_c : pcfg :=
  parse_cfg [DDown (bs "Access-Control-Allow-Origin"%string) (bs "{>Origin}"%string);
             DDown (bs "X-Served"%string) (bs "{method} {host}"%string);
             DUp (bs "X-Orig-Host"%string) (bs "{host}"%string)].
Definition wit_seq_t : target := {| t_host := bs "h0.test"%string; t_path := []; t_rawpath := []; t_query := []; t_auth := None |}.
Definition wit_seq_q (m host origin : string) : request :=
  {| q_method := bs m; q_host := bs host; q_remote := bs "192.0.2.7:4711"%string;
     q_url := {| u_path := bs "/x"%string; u_rawpath := []; u_query := [] |};
     q_hdr := [(bs "Origin"%string, [bs origin])] |}.
Definition wit_seq_b : bresp := {| b_status := 200; b_hdr := [(bs "Content-Type"%string, [bs "text/plain"%string])]; b_announced := []; b_trailers := [] |}.
Definition wit_seq_x1 : exch := {| x_q := wit_seq_q "GET"%string "one.example"%string "https://app.one.example"%string; x_t := wit_seq_t; x_pre := []; x_b := wit_seq_b |}.
Definition wit_seq_x2 : exch := {| x_q := wit_seq_q "POST"%string "two.example"%string "https://app.two.example"%string; x_t := wit_seq_t; x_pre := []; x_b := wit_seq_b |}.
Definition acao (r : option xres) : option (list bytes) :=
  match r with Some r => hlookup (v_hdr (xr_view r)) (bs "Access-Control-Allow-Origin"%string) | None => None end.
Definition served (r : option xres) : option (list bytes) :=
  match r with Some r => hlookup (v_hdr (xr_view r)) (bs "X-Served"%string) | None => None end.
Lemma seq_own_request_witness :
  acao (nth_error (serve_seq wit_seq_c false [] [wit_seq_x1; wit_seq_x2]) 1) = Some [bs "https://app.two.example"%string] /\
  served (nth_error (serve_seq wit_seq_c false [] [wit_seq_x1; wit_seq_x2]) 1) = Some [bs "POST two.example"%string] /\
  acao (nth_error (serve_seq wit_seq_c false [] [wit_seq_x1; wit_seq_x2]) 0) = Some [bs "https://app.one.example"%string] /\
  keys_ok (b_hdr (x_b wit_seq_x2)).
Proof.
  split; [vm_compute; reflexivity|]. split; [vm_compute; reflexivity|]. split; [vm_compute; reflexivity|].
  split; [repeat constructor; simpl; intuition discriminate|].
  intros k [E|[]]. subst k. vm_compute. reflexivity.
Qed.
(* a response update function cached per host (closure over the first request's replacer) gives the
   second client the first client's values: the sequence theorem does not hold for it *)
Lemma cached_downstream_fn_differs :
  acao (nth_error (serve_seq_cached wit_seq_c false [] [wit_seq_x1; wit_seq_x2]) 1) = Some [bs "https://app.one.example"%string] /\
  served (nth_error (serve_seq_cached wit_seq_c false [] [wit_seq_x1; wit_seq_x2]) 1) = Some [bs "GET one.example"%string] /\
  nth_error (serve_seq_cached wit_seq_c false [] [wit_seq_x1; wit_seq_x2]) 1 <> Some (serve_one wit_seq_c false wit_seq_x2) /\
  nth_error (serve_seq_cached wit_seq_c false [] [wit_seq_x1; wit_seq_x2]) 0 = Some (serve_one wit_seq_c false wit_seq_x1).
Proof.
  split; [vm_compute; reflexivity|]. split; [vm_compute; reflexivity|]. split; [|vm_compute; reflexivity].
  intros E. apply (f_equal acao) in E. vm_compute in E. discriminate E.
Qed.

(* headers the proxy adds by rule (transparent: Host, X-Real-IP, X-Forwarded-Proto, X-Forwarded-Port;
   any header_upstream rule) when the client names them in a Connection line: the removal comes
   first, so the rules act on an ABSENT header - nothing of the client's value reaches the backend *)
Lemma proxy_added_listed_in_connection e h0 rules res h remote tok :
  In tok (all_conn_tokens h) -> canon_key tok <> K_XFF ->
  hlookup (mutate_headers e h0 rules res (create_upstream_headers remote h)) (canon_key tok) =
  fold_left vop_apply (vops_for (subst_of e h0) rules (canon_key tok) ++ revops_for (subst_of e h0) res (canon_key tok)) None.
Proof.
  intros Hin Hne. rewrite mutate_headers_lookup, (conn_listed_removed h remote tok Hin Hne). reflexivity.
Qed.
