Require Import V.Lib V.GoPath V.GoPathProofs V.C03_Model.
Open Scope N_scope.

(* ---------- the matcher covers the resolver ---------- *)
Lemma clean_not_root_shape p : rooted p -> clean p <> [SLASH] ->
  exists segs, segs <> [] /\ clean p = SLASH :: join [SLASH] segs /\ (forall s, In s segs -> good_seg s).
Proof.
  intros Hr Hne. destruct (clean_rooted_shape p Hr) as (segs & E & Hg).
  exists segs. split; [|split; [exact E|exact Hg]]. intros ->. apply Hne. rewrite E. reflexivity.
Qed.

Lemma lower_or_id_prefix (cs : bool) (a x b : bytes) :
  (if cs then has_prefix a b else has_prefix (to_lower a) (to_lower b)) = true ->
  (if cs then has_prefix (a ++ x) b else has_prefix (to_lower (a ++ x)) (to_lower b)) = true.
Proof.
  destruct cs; intros H; [apply has_prefix_app; exact H|].
  rewrite to_lower_app. apply has_prefix_app. exact H.
Qed.

(* If the canonical path (what the file resolver opens) lies in a scope, then the spelling the
   matcher saw is matched by that scope too — for every spelling, both case modes. *)
Theorem matcher_covers_clean cs p base :
  rooted p -> clean p <> [SLASH] ->
  path_matches cs (clean p) base = true -> path_matches cs p base = true.
Proof.
  intros Hr Hne. unfold path_matches.
  destruct (beq base [SLASH] || beq base []); [reflexivity|].
  destruct (clean_not_root_shape p Hr Hne) as (segs & Hs & E & Hg).
  rewrite clean_idempotent_rooted by exact Hr.
  assert (Hends : ends_with_slash (clean p) = false) by (rewrite E; apply ends_with_slash_shape; assumption).
  rewrite Hends, app_nil_r.
  set (b' := clean base ++ (if ends_with_slash base then [SLASH] else [])).
  intros H. apply (lower_or_id_prefix cs (clean p) _ b').
  destruct cs; exact H.
Qed.

Theorem matcher_covers_resolver cs p base :
  rooted p -> resolved p <> [SLASH] ->
  path_matches cs (resolved p) base = true -> path_matches cs p base = true.
Proof.
  unfold resolved. intros Hr. rewrite (clean_extra_slash p Hr). apply matcher_covers_clean. exact Hr.
Qed.

(* the root itself: only the trivial scopes "/" and "" and spellings of them are concerned *)
Theorem matcher_root_scope cs p : path_matches cs p [SLASH] = true /\ path_matches cs p [] = true.
Proof. split; reflexivity. Qed.

(* an un-rooted path (as a rewrite target written without leading slash would be) escapes *)
Theorem matcher_covers_resolver_unrooted_refuted :
  exists cs p base, path_matches cs (resolved p) base = true /\ path_matches cs p base = false.
Proof.
  exists false, (bs "secret/f"%string), (bs "/secret"%string). split; vm_compute; reflexivity.
Qed.

(* ---------- basicauth decision ---------- *)
Lemma rule_loop_spec cs path excl ok : forall ress st,
  rule_loop cs path excl ok ress st =
  if existsb (path_matches cs path) ress && negb (existsb (path_matches cs path) excl)
  then (true, snd st || ok) else st.
Proof.
  induction ress as [|res r IH]; intros st; cbn [rule_loop existsb]; [reflexivity|].
  destruct (path_matches cs path res) eqn:Em; cbn [negb orb].
  - destruct (existsb (path_matches cs path) excl) eqn:Ex; cbn [negb andb].
    + reflexivity.
    + rewrite IH. cbn [negb snd]. rewrite andb_true_r.
      destruct (existsb _ r); [|reflexivity]. destruct st as [pr au]; cbn. destruct au, ok; reflexivity.
  - apply IH.
Qed.

Lemma fold_rules_spec cs path : forall rules pr au,
  fold_left (rule_step cs path) rules (pr, au) =
  (pr || existsb (protects cs path) rules,
   au || existsb (fun ru => protects cs path ru && r_creds_ok ru) rules).
Proof.
  induction rules as [|ru rules IH]; intros pr au; cbn [fold_left existsb].
  - rewrite !orb_false_r. reflexivity.
  - unfold rule_step at 2. rewrite rule_loop_spec. fold (protects cs path ru).
    destruct (protects cs path ru) eqn:Ep; cbn [snd andb].
    + rewrite IH. f_equal; [rewrite orb_true_r; reflexivity|].
      destruct au, (r_creds_ok ru); reflexivity.
    + rewrite IH. reflexivity.
Qed.

(* 401 exactly when: not OPTIONS, some rule protects the path (resource matches, no exclusion),
   and no protecting rule's credentials were presented *)
Theorem basicauth_decide_spec cs opt path rules :
  basicauth_decide cs opt path rules = Deny401 <->
  opt = false /\ existsb (protects cs path) rules = true /\
  existsb (fun ru => protects cs path ru && r_creds_ok ru) rules = false.
Proof.
  unfold basicauth_decide. destruct opt; [split; [discriminate|intros (H & _); discriminate]|].
  rewrite fold_rules_spec. cbn [orb].
  destruct (existsb (protects cs path) rules), (existsb (fun ru => _) rules); cbn; split; intros H;
    try discriminate; try tauto; try (destruct H as (_ & H1 & H2); discriminate).
Qed.

(* without valid credentials nothing under a protected, non-excluded scope passes *)
Theorem basicauth_no_pass_without_credentials cs path rules :
  (forall ru, In ru rules -> r_creds_ok ru = false) ->
  existsb (protects cs path) rules = true ->
  basicauth_decide cs false path rules = Deny401.
Proof.
  intros Hno Hp. apply basicauth_decide_spec. repeat split; auto.
  apply not_true_is_false. intros H. apply existsb_exists in H as (ru & Hin & Hru).
  apply andb_true_iff in Hru as [_ Hok]. rewrite (Hno ru Hin) in Hok. discriminate.
Qed.

(* with valid credentials for a protecting rule the request is passed on unchanged *)
Theorem basicauth_pass_with_credentials cs opt path rules ru :
  In ru rules -> protects cs path ru = true -> r_creds_ok ru = true ->
  basicauth_decide cs opt path rules = Pass.
Proof.
  intros Hin Hp Hok. destruct (basicauth_decide cs opt path rules) eqn:E; [reflexivity|].
  apply basicauth_decide_spec in E as (_ & _ & Hno).
  assert (existsb (fun ru => protects cs path ru && r_creds_ok ru) rules = true).
  { apply existsb_exists. exists ru. rewrite Hp, Hok. auto. }
  congruence.
Qed.

(* composition: whatever spelling reaches the auth matcher, if the file that the resolver
   would open for it is inside a protected and not excluded... *)
Theorem no_disclosure_static cs p rules ru res :
  rooted p -> resolved p <> [SLASH] ->
  (forall r0, In r0 rules -> r_creds_ok r0 = false) ->
  In ru rules -> In res (r_resources ru) ->
  path_matches cs (resolved p) res = true ->
  existsb (path_matches cs p) (r_exclude ru) = false ->
  basicauth_decide cs false p rules = Deny401.
Proof.
  intros Hr Hne Hno Hin Hres Hm Hex.
  apply basicauth_no_pass_without_credentials; [exact Hno|].
  apply existsb_exists. exists ru. split; [exact Hin|]. unfold protects. rewrite Hex. cbn.
  rewrite andb_true_r. apply existsb_exists. exists res. split; [exact Hres|].
  apply matcher_covers_resolver; assumption.
Qed.

Theorem internal_blocks_covers_resolver cs p paths prefix :
  rooted p -> resolved p <> [SLASH] -> In prefix paths ->
  path_matches cs (resolved p) prefix = true -> internal_blocks cs p paths = true.
Proof.
  intros Hr Hne Hin Hm. apply existsb_exists. exists prefix. split; [exact Hin|].
  apply matcher_covers_resolver; assumption.
Qed.
