Require Import V.Lib V.GoPath V.GoPathProofs V.Gen_C09 V.C03_Model.
Open Scope N_scope.

(* ---------- the matcher covers the resolver ---------- *)
Lemma clean_not_root_shape p : rooted p -> clean p <> [SLASH] ->
  exists segs, segs <> [] /\ clean p = SLASH :: join [SLASH] segs /\ (forall s, In s segs -> good_seg s).
Proof.
  intros Hr Hne. destruct (clean_rooted_shape p Hr) as (segs & E & Hg).
  exists segs. split; [|split; [exact E|exact Hg]]. intros ->. apply Hne. rewrite E. reflexivity.
Qed.

Lemma lower_or_id_prefix (cs : bool) (a x b : bytes) :
  (if cs then has_prefix a b else has_prefix (to_lower a) (to_lower b)) = true ->
  (if cs then has_prefix (a ++ x) b else has_prefix (to_lower (a ++ x)) (to_lower b)) = true.
Proof.
  destruct cs; intros H; [apply has_prefix_app; exact H|].
  rewrite to_lower_app. apply has_prefix_app. exact H.
Qed.

(* If the canonical path (what the file resolver opens) lies in a scope, then the spelling the
   matcher saw is matched by that scope too — for every spelling, both case modes. *)
Theorem matcher_covers_clean cs p base :
  rooted p -> clean p <> [SLASH] ->
  path_matches cs (clean p) base = true -> path_matches cs p base = true.
Proof.
  intros Hr Hne. unfold path_matches.
  destruct (beq base [SLASH] || beq base []); [reflexivity|].
  destruct (clean_not_root_shape p Hr Hne) as (segs & Hs & E & Hg).
  rewrite clean_idempotent_rooted by exact Hr.
  assert (Hends : ends_with_slash (clean p) = false) by (rewrite E; apply ends_with_slash_shape; assumption).
  rewrite Hends, app_nil_r.
  set (b' := clean base ++ (if ends_with_slash base then [SLASH] else [])).
  intros H. apply (lower_or_id_prefix cs (clean p) _ b').
  destruct cs; exact H.
Qed.

Theorem matcher_covers_resolver cs p base :
  rooted p -> resolved p <> [SLASH] ->
  path_matches cs (resolved p) base = true -> path_matches cs p base = true.
Proof.
  unfold resolved. intros Hr. rewrite (clean_extra_slash p Hr). apply matcher_covers_clean. exact Hr.
Qed.

(* the root itself: only the trivial scopes "/" and "" and spellings of them are concerned *)
Theorem matcher_root_scope cs p : path_matches cs p [SLASH] = true /\ path_matches cs p [] = true.
Proof. split; reflexivity. Qed.

(* an un-rooted path (as a rewrite target written without leading slash would be) escapes *)
Theorem matcher_covers_resolver_unrooted_refuted :
  exists cs p base, path_matches cs (resolved p) base = true /\ path_matches cs p base = false.
Proof.
  exists false, (bs "secret/f"%string), (bs "/secret"%string). split; vm_compute; reflexivity.
Qed.

(* ---------- basicauth decision ---------- *)
Lemma rule_loop_spec cs path excl ok : forall ress st,
  rule_loop cs path excl ok ress st =
  if existsb (path_matches cs path) ress && negb (existsb (path_matches cs path) excl)
  then (true, snd st || ok) else st.
Proof.
  induction ress as [|res r IH]; intros st; cbn [rule_loop existsb]; [reflexivity|].
  destruct (path_matches cs path res) eqn:Em; cbn [negb orb].
  - destruct (existsb (path_matches cs path) excl) eqn:Ex; cbn [negb andb].
    + reflexivity.
    + rewrite IH. cbn [negb snd]. rewrite andb_true_r.
      destruct (existsb _ r); [|reflexivity]. destruct st as [pr au]; cbn. destruct au, ok; reflexivity.
  - apply IH.
Qed.

Lemma fold_rules_spec cs path : forall rules pr au,
  fold_left (rule_step cs path) rules (pr, au) =
  (pr || existsb (protects cs path) rules,
   au || existsb (fun ru => protects cs path ru && r_creds_ok ru) rules).
Proof.
  induction rules as [|ru rules IH]; intros pr au; cbn [fold_left existsb].
  - rewrite !orb_false_r. reflexivity.
  - unfold rule_step at 2. rewrite rule_loop_spec. fold (protects cs path ru).
    destruct (protects cs path ru) eqn:Ep; cbn [snd andb].
    + rewrite IH. f_equal; [rewrite orb_true_r; reflexivity|].
      destruct au, (r_creds_ok ru); reflexivity.
    + rewrite IH. reflexivity.
Qed.

(* 401 exactly when: not OPTIONS, some rule protects the path (resource matches, no exclusion),
   and no protecting rule's credentials were presented *)
Theorem basicauth_decide_spec cs opt path rules :
  basicauth_decide cs opt path rules = Deny401 <->
  opt = false /\ existsb (protects cs path) rules = true /\
  existsb (fun ru => protects cs path ru && r_creds_ok ru) rules = false.
Proof.
  unfold basicauth_decide. destruct opt; [split; [discriminate|intros (H & _); discriminate]|].
  rewrite fold_rules_spec. cbn [orb].
  destruct (existsb (protects cs path) rules), (existsb (fun ru => _) rules); cbn; split; intros H;
    try discriminate; try tauto; try (destruct H as (_ & H1 & H2); discriminate).
Qed.

(* without valid credentials nothing under a protected, non-excluded scope passes *)
Theorem basicauth_no_pass_without_credentials cs path rules :
  (forall ru, In ru rules -> r_creds_ok ru = false) ->
  existsb (protects cs path) rules = true ->
  basicauth_decide cs false path rules = Deny401.
Proof.
  intros Hno Hp. apply basicauth_decide_spec. repeat split; auto.
  apply not_true_is_false. intros H. apply existsb_exists in H as (ru & Hin & Hru).
  apply andb_true_iff in Hru as [_ Hok]. rewrite (Hno ru Hin) in Hok. discriminate.
Qed.

(* with valid credentials for a protecting rule the request is passed on unchanged *)
Theorem basicauth_pass_with_credentials cs opt path rules ru :
  In ru rules -> protects cs path ru = true -> r_creds_ok ru = true ->
  basicauth_decide cs opt path rules = Pass.
Proof.
  intros Hin Hp Hok. destruct (basicauth_decide cs opt path rules) eqn:E; [reflexivity|].
  apply basicauth_decide_spec in E as (_ & _ & Hno).
  assert (existsb (fun ru => protects cs path ru && r_creds_ok ru) rules = true).
  { apply existsb_exists. exists ru. rewrite Hp, Hok. auto. }
  congruence.
Qed.

(* composition: whatever spelling reaches the auth matcher, if the file that the resolver
   would open for it is inside a protected and not excluded... *)
Theorem no_disclosure_static cs p rules ru res :
  rooted p -> resolved p <> [SLASH] ->
  (forall r0, In r0 rules -> r_creds_ok r0 = false) ->
  In ru rules -> In res (r_resources ru) ->
  path_matches cs (resolved p) res = true ->
  existsb (path_matches cs p) (r_exclude ru) = false ->
  basicauth_decide cs false p rules = Deny401.
Proof.
  intros Hr Hne Hno Hin Hres Hm Hex.
  apply basicauth_no_pass_without_credentials; [exact Hno|].
  apply existsb_exists. exists ru. split; [exact Hin|]. unfold protects. rewrite Hex. cbn.
  rewrite andb_true_r. apply existsb_exists. exists res. split; [exact Hres|].
  apply matcher_covers_resolver; assumption.
Qed.

Theorem internal_blocks_covers_resolver cs p paths prefix :
  rooted p -> resolved p <> [SLASH] -> In prefix paths ->
  path_matches cs (resolved p) prefix = true -> internal_blocks cs p paths = true.
Proof.
  intros Hr Hne Hin Hm. apply existsb_exists. exists prefix. split; [exact Hin|].
  apply matcher_covers_resolver; assumption.
Qed.

(* ====================================================================================
   multiple rules: what the loop computes, for every rule list
   ==================================================================================== *)
Theorem rules_fold_spec cs path rules :
  fold_left (rule_step cs path) rules (false, false) =
  (existsb (protects cs path) rules, existsb (fun ru => protects cs path ru && r_creds_ok ru) rules).
Proof. rewrite fold_rules_spec. reflexivity. Qed.

Lemma existsb_false_forall {A} (f : A -> bool) l :
  existsb f l = false <-> (forall x, In x l -> f x = false).
Proof.
  split.
  - intros H x Hin. destruct (f x) eqn:E; [|reflexivity].
    assert (existsb f l = true) by (apply existsb_exists; eauto). congruence.
  - intros H. apply not_true_is_false. intros E. apply existsb_exists in E as (x & Hin & Hx).
    rewrite (H x Hin) in Hx. discriminate.
Qed.

(* ANY-rule semantics: let through iff OPTIONS, or no rule protects the path, or the presented
   credentials satisfy at least one rule that protects it *)
Theorem decide_pass_iff cs opt path rules :
  basicauth_decide cs opt path rules = Pass <->
  opt = true \/ (forall ru, In ru rules -> protects cs path ru = false) \/
  (exists ru, In ru rules /\ protects cs path ru = true /\ r_creds_ok ru = true).
Proof.
  split.
  - intros H. destruct opt; [left; reflexivity|right].
    destruct (existsb (protects cs path) rules) eqn:Ep.
    + right. destruct (existsb (fun ru => protects cs path ru && r_creds_ok ru) rules) eqn:Es.
      * apply existsb_exists in Es as (ru & Hin & Hru). apply andb_true_iff in Hru as [H1 H2]. eauto.
      * assert (D : basicauth_decide cs false path rules = Deny401) by (apply basicauth_decide_spec; auto).
        congruence.
    + left. apply existsb_false_forall. exact Ep.
  - intros [-> | [Hnone | (ru & Hin & Hp & Hok)]].
    + reflexivity.
    + destruct (basicauth_decide cs opt path rules) eqn:E; [reflexivity|].
      apply basicauth_decide_spec in E as (_ & Hp & _).
      apply existsb_exists in Hp as (ru & Hin & Hp). rewrite (Hnone ru Hin) in Hp. discriminate.
    + eapply basicauth_pass_with_credentials; eauto.
Qed.

(* the EVERY-rule reading is not what the code does *)
Theorem every_rule_refuted :
  exists cs path rules ru,
    In ru rules /\ protects cs path ru = true /\ r_creds_ok ru = false /\
    basicauth_decide cs false path rules = Pass.
Proof.
  exists false, (bs "/secret/x/f"%string),
    [ {| r_resources := [bs "/secret"%string]; r_exclude := []; r_creds_ok := true |};
      {| r_resources := [bs "/secret/x"%string]; r_exclude := []; r_creds_ok := false |} ],
    {| r_resources := [bs "/secret/x"%string]; r_exclude := []; r_creds_ok := false |}.
  split; [right; left; reflexivity|]. repeat split; vm_compute; reflexivity.
Qed.

(* ... it coincides with it when every protecting rule is satisfied (and then the request passes),
   in particular when exactly the satisfied rules protect the path *)
Theorem every_rule_partial cs opt path rules :
  (forall ru, In ru rules -> protects cs path ru = true -> r_creds_ok ru = true) ->
  basicauth_decide cs opt path rules = Pass.
Proof.
  intros H. apply decide_pass_iff. destruct opt; [left; reflexivity|right].
  destruct (existsb (protects cs path) rules) eqn:Ep.
  - right. apply existsb_exists in Ep as (ru & Hin & Hp). exists ru. auto.
  - left. apply existsb_false_forall. exact Ep.
Qed.

(* a rule that does not protect the path — no resource matches, or one of ITS exclusions does —
   is inert wherever it stands: the exclusion of one rule does not leak to the rules after it *)
Lemma existsb_app_mid {A} (f : A -> bool) l1 x l2 :
  f x = false -> existsb f (l1 ++ x :: l2) = existsb f (l1 ++ l2).
Proof. intros H. rewrite !existsb_app. cbn [existsb]. rewrite H. reflexivity. Qed.

Theorem unprotecting_rule_inert cs opt path l1 ru l2 :
  protects cs path ru = false ->
  basicauth_decide cs opt path (l1 ++ ru :: l2) = basicauth_decide cs opt path (l1 ++ l2).
Proof.
  intros H. unfold basicauth_decide. destruct opt; [reflexivity|].
  rewrite !rules_fold_spec. rewrite !existsb_app_mid; [reflexivity| rewrite H; reflexivity | exact H].
Qed.

Theorem excluded_rule_inert cs opt path l1 ru l2 :
  existsb (path_matches cs path) (r_exclude ru) = true ->
  basicauth_decide cs opt path (l1 ++ ru :: l2) = basicauth_decide cs opt path (l1 ++ l2).
Proof.
  intros H. apply unprotecting_rule_inert. unfold protects. rewrite H. apply andb_false_r.
Qed.

Require Import Coq.Sorting.Permutation.
Lemma existsb_perm {A} (f : A -> bool) l l' : Permutation l l' -> existsb f l = existsb f l'.
Proof.
  induction 1; cbn [existsb]; try congruence.
  destruct (f x), (f y); reflexivity.
Qed.

(* the decision does not depend on the order in which the rules are written *)
Theorem decide_permutation cs opt path rules rules' :
  Permutation rules rules' -> basicauth_decide cs opt path rules = basicauth_decide cs opt path rules'.
Proof.
  intros HP. unfold basicauth_decide. destruct opt; [reflexivity|].
  rewrite !rules_fold_spec. rewrite (existsb_perm _ _ _ HP).
  rewrite (existsb_perm (fun ru => protects cs path ru && r_creds_ok ru) _ _ HP). reflexivity.
Qed.

(* ====================================================================================
   internal: the X-Accel-Redirect loop
   ==================================================================================== *)
Lemma accel_loop_ext inner1 inner2 :
  (forall q w, inner1 q w = inner2 q w) ->
  forall fuel q cur, accel_loop fuel inner1 q cur = accel_loop fuel inner2 q cur.
Proof.
  intros HE. induction fuel as [|k IH]; intros q cur; cbn [accel_loop].
  - reflexivity.
  - destruct (o_hdr cur); [reflexivity|]. rewrite HE. apply IH.
Qed.

Lemma internal_serve_ext cs ps inner1 inner2 q w :
  (forall q w, inner1 q w = inner2 q w) ->
  internal_serve cs ps inner1 q w = internal_serve cs ps inner2 q w.
Proof.
  intros HE. unfold internal_serve. destruct (internal_blocks cs (q_path q) ps); [reflexivity|].
  rewrite HE. apply accel_loop_ext. exact HE.
Qed.

(* an internal location is answered 404 and nothing is run, whatever the client sends and
   whatever the response header map already holds *)
Theorem internal_blocked_404 cs ps inner q w :
  internal_blocks cs (q_path q) ps = true ->
  internal_serve cs ps inner q w = deny 404 w.
Proof. intros H. unfold internal_serve. rewrite H. reflexivity. Qed.

(* the client's own X-Accel-Redirect REQUEST header is never consulted: if the inner handlers
   ignore it, so does the whole middleware *)
Lemma accel_loop_xaccel inner x :
  (forall q w, inner (with_xaccel q x) w = inner q w) ->
  forall fuel q cur, accel_loop fuel inner (with_xaccel q x) cur = accel_loop fuel inner q cur.
Proof.
  intros HI. induction fuel as [|k IH]; intros q cur; cbn [accel_loop]; [reflexivity|].
  destruct (o_hdr cur) as [|t ts]; [reflexivity|].
  change (set_path (with_xaccel q x) (t :: ts)) with (with_xaccel (set_path q (t :: ts)) x).
  rewrite HI. apply IH.
Qed.

Theorem internal_request_header_inert cs ps inner q w x :
  (forall q w, inner (with_xaccel q x) w = inner q w) ->
  internal_serve cs ps inner (with_xaccel q x) w = internal_serve cs ps inner q w.
Proof.
  intros HI. unfold internal_serve. cbn [with_xaccel q_path].
  destruct (internal_blocks cs (q_path q) ps); [reflexivity|].
  rewrite HI. apply accel_loop_xaccel. exact HI.
Qed.

(* no inner handler sets the response header (and none was set on entry): one call, no redirect,
   internal locations stay 404 — for every value of the client's request header *)
Theorem internal_no_response_header cs ps h q x :
  (forall q w, h q w = w) ->
  internal_serve cs ps (touch h) (with_xaccel q x) [] =
  if internal_blocks cs (q_path q) ps then deny 404 [] else touch h (with_xaccel q x) [].
Proof.
  intros Hh. unfold internal_serve. cbn [with_xaccel q_path].
  destruct (internal_blocks cs (q_path q) ps); [reflexivity|].
  cbn [accel_loop touch o_hdr]. rewrite Hh. reflexivity.
Qed.

(* every path the inner chain is run with after the first one was named by a response header
   an inner handler produced (or found and kept) *)
Definition named_by (h : hdrfun) (t : bytes) : Prop := t <> [] /\ exists q w, h q w = t.

Lemma accel_loop_touched h : forall fuel q cur,
  (o_hdr cur <> [] -> named_by h (o_hdr cur)) ->
  forall t, In t (o_touched (accel_loop fuel (touch h) q cur)) ->
            In t (o_touched cur) \/ named_by h t.
Proof.
  induction fuel as [|k IH]; intros q cur Hc t; cbn [accel_loop].
  - destruct (o_hdr cur); cbn [o_touched]; auto.
  - destruct (o_hdr cur) as [|c ts] eqn:Eh; [auto|].
    assert (Hn : named_by h (c :: ts)) by (apply Hc; discriminate).
    intros Hin. apply IH in Hin.
    + destruct Hin as [Hin | Hin]; [|right; exact Hin].
      cbn [o_touched touch] in Hin. apply in_app_or in Hin as [Hin | [<- | []]]; [left; exact Hin|].
      right. exact Hn.
    + cbn [o_hdr touch]. intros Hne. split; [exact Hne|]. eauto.
Qed.

Theorem internal_touched_spec cs ps h q w :
  forall t, In t (o_touched (internal_serve cs ps (touch h) q w)) ->
    internal_blocks cs (q_path q) ps = false /\ (t = q_path q \/ named_by h t).
Proof.
  intros t. unfold internal_serve.
  destruct (internal_blocks cs (q_path q) ps); [intros []|].
  intros Hin. split; [reflexivity|].
  apply accel_loop_touched in Hin.
  - destruct Hin as [[<- | []] | Hn]; auto.
  - cbn [touch o_hdr]. intros Hne. split; [exact Hne|]. eauto.
Qed.

(* ... and a response header does unlock: the inner handler names t, the chain is run again with t,
   without any test against the internal locations *)
Theorem internal_unlock_by_response_header cs ps h q w t :
  internal_blocks cs (q_path q) ps = false -> t <> [] ->
  h q w = t -> h (set_path q t) [] = [] ->
  internal_serve cs ps (touch h) q w = {| o_status := 200; o_touched := [q_path q; t]; o_hdr := [] |}.
Proof.
  intros Hb Hne H1 H2. unfold internal_serve. rewrite Hb.
  destruct t as [|c ts]; [congruence|].
  cbn [accel_loop touch o_hdr o_status o_touched]. rewrite H1.
  cbn [accel_loop touch o_hdr o_status o_touched app]. rewrite H2. reflexivity.
Qed.

(* the loop is bounded: at most 1 + 10 runs of the inner chain *)
Lemma accel_loop_bound h : forall fuel q cur,
  (length (o_touched (accel_loop fuel (touch h) q cur)) <= length (o_touched cur) + fuel)%nat.
Proof.
  induction fuel as [|k IH]; intros q cur; cbn [accel_loop].
  - destruct (o_hdr cur); cbn [o_touched]; lia.
  - destruct (o_hdr cur); [lia|].
    eapply Nat.le_trans; [apply IH|]. cbn [o_touched touch]. rewrite app_length. cbn. lia.
Qed.

Theorem internal_bounded cs ps h q w :
  (length (o_touched (internal_serve cs ps (touch h) q w)) <= 11)%nat.
Proof.
  unfold internal_serve. destruct (internal_blocks cs (q_path q) ps); [cbn; lia|].
  eapply Nat.le_trans; [apply accel_loop_bound|]. cbn. lia.
Qed.

(* ====================================================================================
   the chain in canonical order
   ==================================================================================== *)
Lemma sorted_from_mono : forall rs k k', (k <= k')%nat -> sorted_from k' rs = true -> sorted_from k rs = true.
Proof.
  induction rs as [|r rs IH]; intros k k' Hk H; [reflexivity|].
  destruct r; cbn [sorted_from] in *;
    try (apply andb_true_iff in H as [H1 H2]; apply Nat.leb_le in H1;
         apply andb_true_iff; split; [apply Nat.leb_le; lia | exact H2]).
  eapply IH; eauto.
Qed.

Lemma stack_sorted s : wf_site s -> forall dirs k,
  sorted_from k (map role_of dirs) = true -> sorted_from k (map kind (stack s dirs)) = true.
Proof.
  intros Hwf. induction dirs as [|n dirs IH]; intros k H; [reflexivity|].
  cbn [stack map] in *. destruct (s n) as [m|] eqn:E.
  - cbn [map]. rewrite (Hwf n m E).
    destruct (role_of n); cbn [sorted_from] in *;
      try (apply andb_true_iff in H as [H1 H2]; rewrite H1; cbn [andb]; apply IH; exact H2).
    apply IH. exact H.
  - apply IH. destruct (role_of n); cbn [sorted_from] in H;
      try (apply andb_true_iff in H as [H1 H2]; apply Nat.leb_le in H1;
           eapply sorted_from_mono; [|exact H2]; lia).
    exact H.
Qed.

(* phase 3: only content handlers (and neutral directives) remain: the path is not touched *)
Lemma run_phase3 cs leaf : forall stk, sorted_from 3 (map kind stk) = true ->
  forall q w, run cs stk leaf q w = touch (answer stk leaf) q w.
Proof.
  induction stk as [|m stk IH]; intros H q w; [reflexivity|].
  destruct m; cbn [map kind sorted_from] in H; try discriminate.
  - cbn [run answer]. apply IH. exact H.
  - cbn [run answer]. destruct (takes (q_path q)) eqn:Et.
    + unfold touch. rewrite Et. reflexivity.
    + rewrite IH by exact H. unfold touch. rewrite Et. reflexivity.
Qed.

Lemma run_phase2 cs leaf : forall stk, sorted_from 2 (map kind stk) = true ->
  forall q w, run cs stk leaf q w = serve_part cs stk leaf q w.
Proof.
  induction stk as [|m stk IH]; intros H q w; [reflexivity|].
  destruct m; cbn [map kind sorted_from] in H; try discriminate.
  - (* internal *) cbn [run]. unfold serve_part. cbn [internal_paths answer].
    apply internal_serve_ext. intros q0 w0. apply run_phase3. exact H.
  - (* neutral *) cbn [run]. rewrite IH by exact H. reflexivity.
  - (* content *) rewrite run_phase3 by exact H. reflexivity.
Qed.

Lemma decide_nil cs opt p : basicauth_decide cs opt p [] = Pass.
Proof. unfold basicauth_decide. destruct opt; reflexivity. Qed.

Lemma set_path_id q : set_path q (q_path q) = q.
Proof. destruct q; reflexivity. Qed.

Lemma run_phase1 cs leaf : forall stk, sorted_from 1 (map kind stk) = true ->
  forall q w, run cs stk leaf q w = chain_nf cs stk leaf q w.
Proof.
  induction stk as [|m stk IH]; intros H q w.
  - unfold chain_nf. cbn [final_path auth_rules]. rewrite decide_nil, set_path_id. reflexivity.
  - destruct m; cbn [map kind sorted_from] in H; try discriminate.
    + (* auth *) unfold chain_nf. cbn [run final_path auth_rules]. rewrite set_path_id.
      destruct (basicauth_decide cs (q_options q) (q_path q) rules); [|reflexivity].
      rewrite run_phase2 by exact H. reflexivity.
    + (* internal *) unfold chain_nf. cbn [final_path auth_rules]. rewrite decide_nil, set_path_id.
      apply run_phase2. exact H.
    + (* neutral *) cbn [run]. rewrite IH by exact H. reflexivity.
    + (* content *) unfold chain_nf. cbn [final_path auth_rules]. rewrite decide_nil, set_path_id.
      apply run_phase2. exact H.
Qed.

(* basicauth and internal test exactly the path the content handlers are first run with *)
Theorem run_normal_form cs leaf : forall stk, sorted_from 0 (map kind stk) = true ->
  forall q w, run cs stk leaf q w = chain_nf cs stk leaf q w.
Proof.
  induction stk as [|m stk IH]; intros H q w.
  - apply run_phase1. reflexivity.
  - destruct m; cbn [map kind sorted_from] in H.
    + (* writer *) cbn [run]. rewrite IH by exact H. reflexivity.
    + apply run_phase1. exact H.
    + apply run_phase1. exact H.
    + cbn [run]. rewrite IH by exact H. reflexivity.
    + apply run_phase1. exact H.
Qed.

(* the order facts, computed by the kernel on the list regenerated from plugin.go *)
Lemma gen_order_facts : sorted_from 0 (map role_of gen_directives) = true.
Proof. vm_compute. reflexivity. Qed.

Lemma gen_roles_present :
  forallb (fun n => memb n gen_directives)
          (writer_names ++ [bs "basicauth"%string; bs "internal"%string] ++ content_names) = true.
Proof. vm_compute. reflexivity. Qed.

Theorem auth_sees_final_path (s : site) cs leaf q w :
  wf_site s ->
  run cs (stack s gen_directives) leaf q w = chain_nf cs (stack s gen_directives) leaf q w.
Proof.
  intros Hwf. apply run_normal_form. apply stack_sorted; [exact Hwf|]. exact gen_order_facts.
Qed.

Lemma chain_sorted (s : site) : wf_site s -> sorted_from 0 (map kind (chain_of s)) = true.
Proof. intros Hwf. unfold chain_of. apply stack_sorted; [exact Hwf|exact gen_order_facts]. Qed.

(* the order hypothesis is what carries the theorem: basicauth placed outside a rewriter tests a
   path nobody serves *)
Theorem unordered_chain_refuted :
  exists cs stk leaf q w, run cs stk leaf q w <> chain_nf cs stk leaf q w /\ o_status (run cs stk leaf q w) = 200.
Proof.
  exists false,
    [MAuth [ {| r_resources := [bs "/secret"%string]; r_exclude := []; r_creds_ok := false |} ];
     MWriter (fun _ => bs "/secret/f.txt"%string)],
    (fun _ w => w), {| q_path := bs "/alias"%string; q_options := false; q_xaccel := [] |}, [].
  split; [|vm_compute; reflexivity]. vm_compute. discriminate.
Qed.

(* ====================================================================================
   what the content handlers read vs what the protection directives tested
   ==================================================================================== *)
Lemma path_matches_under cs p b : path_matches cs p b = under cs (matcher_form p) b.
Proof.
  unfold path_matches, under, trivial_scope, matcher_form, fold_case.
  destruct (beq b [SLASH] || beq b []); [reflexivity|]. destruct cs; reflexivity.
Qed.

Lemma has_prefix_shorter : forall (b a s : bytes),
  has_prefix (a ++ s) b = true -> (length b <= length a)%nat -> has_prefix a b = true.
Proof.
  induction b as [|y b IH]; intros a s H L; [apply has_prefix_nil|].
  destruct a as [|x a]; [cbn in L; lia|]. cbn in H |- *.
  apply andb_true_iff in H as [H1 H2]. rewrite H1. cbn. eapply IH; [exact H2|]. cbn in L. lia.
Qed.

Lemma has_prefix_length : forall (b a : bytes), has_prefix a b = true -> (length b <= length a)%nat.
Proof.
  induction b as [|y b IH]; intros a H; [cbn; lia|].
  destruct a as [|x a]; [discriminate|]. cbn in H. apply andb_true_iff in H as [_ H].
  apply IH in H. cbn. lia.
Qed.

Lemma fold_case_app cs a b : fold_case cs (a ++ b) = fold_case cs a ++ fold_case cs b.
Proof. destruct cs; [reflexivity|apply to_lower_app]. Qed.
Lemma fold_case_length cs a : length (fold_case cs a) = length a.
Proof. destruct cs; [reflexivity|apply map_length]. Qed.

Lemma has_prefix_fold cs : forall (b a : bytes),
  has_prefix a b = true -> has_prefix (fold_case cs a) (fold_case cs b) = true.
Proof.
  destruct cs; [auto|]. induction b as [|y b IH]; intros a H; [apply has_prefix_nil|].
  destruct a as [|x a]; [discriminate|]. cbn in H |- *.
  apply andb_true_iff in H as [H1 H2]. apply N.eqb_eq in H1. subst y.
  rewrite N.eqb_refl. cbn. apply IH. exact H2.
Qed.

Lemma resolved_clean p : rooted p -> resolved p = clean p.
Proof. intros H. unfold resolved. apply clean_extra_slash. exact H. Qed.

(* every read's name begins with its visible part, and the request as matched begins with it too *)
Lemma reads_vis idx exts p k f : reads idx exts p k f -> exists s, f = vis p k ++ s.
Proof.
  intros H. destruct H; cbn [vis].
  - exists []. rewrite app_nil_r. reflexivity.
  - eexists. reflexivity.
  - eexists. reflexivity.
  - eexists. reflexivity.
  - exists []. rewrite app_nil_r. reflexivity.
  - eexists. reflexivity.
  - exists []. rewrite app_nil_r. reflexivity.
Qed.

Lemma dir_slash_prefix c : has_prefix (c ++ [SLASH]) (dir_slash c) = true.
Proof.
  unfold dir_slash. destruct (beq c [SLASH]); [apply has_prefix_app|]; apply has_prefix_refl.
Qed.

Lemma vis_prefix idx exts p k f : rooted p -> reads idx exts p k f ->
  has_prefix (matcher_form p) (vis p k) = true.
Proof.
  intros Hr H.
  destruct H as [He|e He _|i He _|i e He _ _|He|d He _|]; cbn [vis];
    try apply has_prefix_refl; unfold matcher_form;
    rewrite (resolved_clean p Hr), He; try rewrite app_nil_r;
    try apply has_prefix_refl; apply dir_slash_prefix.
Qed.

(* COVER: a scope that contains a read's name and does not reach below its visible part
   matches the request path *)
Theorem reads_covered cs idx exts p k f b :
  rooted p -> reads idx exts p k f ->
  under cs f b = true -> scope_within p k b = true -> path_matches cs p b = true.
Proof.
  intros Hr Hrd Hu Hw. rewrite path_matches_under. unfold under, scope_within in *.
  destruct (trivial_scope b); [reflexivity|]. cbn [orb] in *.
  destruct (reads_vis _ _ _ _ _ Hrd) as (s & ->).
  apply Nat.leb_le in Hw. rewrite fold_case_app in Hu.
  apply has_prefix_shorter in Hu; [|rewrite !fold_case_length; exact Hw].
  eapply has_prefix_trans; [|exact Hu]. apply has_prefix_fold. eapply vis_prefix; eauto.
Qed.

(* for a file named by the request itself, a listing, a backend: no side condition at all *)
Theorem reads_covered_direct cs idx exts p k f b :
  rooted p -> reads idx exts p k f -> (k = KFile \/ k = KListing \/ k = KBackend) ->
  under cs f b = true -> path_matches cs p b = true.
Proof.
  intros Hr Hrd Hk Hu. eapply reads_covered; eauto.
  unfold scope_within. destruct (trivial_scope b) eqn:Et; [reflexivity|]. cbn [orb].
  unfold under in Hu. rewrite Et in Hu. cbn [orb] in Hu.
  apply has_prefix_length in Hu. rewrite !fold_case_length in Hu. apply Nat.leb_le.
  assert (f = vis p k) as <-; [|exact Hu].
  destruct Hrd; cbn [vis]; try reflexivity; destruct Hk as [Hk|[Hk|Hk]]; discriminate.
Qed.

(* EXCLUSIONS: an exclusion that matches the request path also contains everything read for it *)
Lemma lower_byte_slash a : lower_byte a = SLASH -> a = SLASH.
Proof.
  unfold lower_byte, SLASH. destruct (65 <=? a) eqn:E1; destruct (a <=? 90) eqn:E2; cbn [andb]; intros H; try exact H.
  apply N.leb_le in E1. lia.
Qed.

Lemma root_slash_case cs (E rest : bytes) :
  has_prefix (fold_case cs [SLASH; SLASH]) (fold_case cs E) = true -> E <> [SLASH; SLASH] ->
  has_prefix (fold_case cs (SLASH :: rest)) (fold_case cs E) = true.
Proof.
  intros H Hne.
  assert (exists rest', fold_case cs (SLASH :: rest) = SLASH :: rest') as (rest' & ->)
    by (destruct cs; eexists; reflexivity).
  change (fold_case cs [SLASH; SLASH]) with (if cs then [SLASH; SLASH] else [lower_byte SLASH; lower_byte SLASH]) in H.
  assert (Hs : (if cs then [SLASH; SLASH] else [lower_byte SLASH; lower_byte SLASH]) = [SLASH; SLASH])
    by (destruct cs; reflexivity).
  rewrite Hs in H. clear Hs.
  destruct E as [|a [|b [|c E']]].
  - destruct cs; reflexivity.
  - assert (exists a', fold_case cs [a] = [a'] ) as (a' & Ea) by (destruct cs; eexists; reflexivity).
    rewrite Ea in *. cbn [has_prefix] in H |- *. apply andb_true_iff in H as [H _]. rewrite H.
    cbn [andb]. apply has_prefix_nil.
  - exfalso. apply Hne.
    assert (Ea : fold_case cs [a; b] = [if cs then a else lower_byte a; if cs then b else lower_byte b])
      by (destruct cs; reflexivity).
    rewrite Ea in H. cbn [has_prefix] in H.
    apply andb_true_iff in H as [H1 H2]; apply andb_true_iff in H2 as [H2 _];
      apply N.eqb_eq in H1, H2. symmetry in H1, H2.
    destruct cs; [subst; reflexivity|]. apply lower_byte_slash in H1, H2. subst. reflexivity.
  - exfalso. apply has_prefix_length in H. rewrite !fold_case_length in H. cbn in H. lia.
Qed.

Theorem exclusion_covers_reads cs idx exts p k f e :
  rooted p -> reads idx exts p k f ->
  path_matches cs p e = true -> matcher_form e <> [SLASH; SLASH] -> under cs f e = true.
Proof.
  intros Hr Hrd Hm Hne. rewrite path_matches_under in Hm. unfold under in *.
  destruct (trivial_scope e); [reflexivity|]. cbn [orb] in *.
  unfold matcher_form in Hm at 1.
  assert (Hpre : forall s, has_prefix (fold_case cs (clean p ++ (if ends_with_slash p then [SLASH] else []) ++ s))
                                      (fold_case cs (matcher_form e)) = true).
  { intros s. rewrite app_assoc, fold_case_app. apply has_prefix_app. exact Hm. }
  destruct Hrd as [He|x He _|i He _|i x He _ _|He|d He _|]; try rewrite (resolved_clean p Hr).
  - specialize (Hpre []). rewrite He in Hpre. rewrite !app_nil_r in Hpre. exact Hpre.
  - specialize (Hpre x). rewrite He in Hpre. exact Hpre.
  - unfold dir_slash. destruct (beq (clean p) [SLASH]) eqn:Eb.
    + apply beq_eq in Eb. rewrite Eb, He in Hm. rewrite Eb. apply root_slash_case; assumption.
    + specialize (Hpre i). rewrite He in Hpre. rewrite <- app_assoc. exact Hpre.
  - unfold dir_slash. destruct (beq (clean p) [SLASH]) eqn:Eb.
    + apply beq_eq in Eb. rewrite Eb, He in Hm. rewrite Eb. apply root_slash_case; assumption.
    + specialize (Hpre (i ++ x)). rewrite He in Hpre. rewrite <- app_assoc. exact Hpre.
  - exact Hm.
  - unfold dir_slash. destruct (beq (clean p) [SLASH]) eqn:Eb.
    + apply beq_eq in Eb. rewrite Eb, He in Hm. rewrite Eb. apply root_slash_case; assumption.
    + specialize (Hpre d). rewrite He in Hpre. rewrite <- app_assoc. exact Hpre.
  - exact Hm.
Qed.

(* ====================================================================================
   no disclosure through the chain
   ==================================================================================== *)
Lemma final_path_rooted : forall stk p, writers_rooted stk -> rooted p -> rooted (final_path stk p).
Proof.
  induction stk as [|m stk IH]; intros p Hw Hr; [exact Hr|].
  destruct m; cbn [final_path]; try exact Hr.
  - apply IH; [intros g Hg; apply Hw; right; exact Hg|]. apply (Hw f); [left; reflexivity|exact Hr].
  - apply IH; [intros g Hg; apply Hw; right; exact Hg|exact Hr].
Qed.

(* basicauth denies the final path whenever a read for it is protected and the scope stays
   within what the request path spells out *)
Lemma protected_read_denied cs idx exts stk q k f ru res :
  protected_read cs idx exts stk q k f ru res ->
  scope_within (final_path stk (q_path q)) k res = true ->
  basicauth_decide cs (q_options q) (final_path stk (q_path q)) (auth_rules stk) = Deny401.
Proof.
  intros [Hr Hw Ho Hnc Hrd Hru Hres Hu Hex] Hsw. rewrite Ho.
  assert (Hr' : rooted (final_path stk (q_path q))) by (apply final_path_rooted; assumption).
  apply basicauth_no_pass_without_credentials; [exact Hnc|].
  apply existsb_exists. exists ru. split; [exact Hru|]. unfold protects. apply andb_true_iff. split.
  - apply existsb_exists. exists res. split; [exact Hres|]. eapply reads_covered; eauto.
  - apply negb_true_iff. apply existsb_false_forall. intros e He.
    destruct (path_matches cs (final_path stk (q_path q)) e) eqn:Em; [|reflexivity].
    destruct (Hex e He) as [Hue Hne].
    rewrite (exclusion_covers_reads cs idx exts _ k f e Hr' Hrd Em Hne) in Hue. discriminate.
Qed.

Lemma no_disclosure_sorted cs idx exts stk leaf q w k f ru res :
  sorted_from 0 (map kind stk) = true ->
  protected_read cs idx exts stk q k f ru res ->
  scope_within (final_path stk (q_path q)) k res = true ->
  run cs stk leaf q w = deny 401 w.
Proof.
  intros Hs Hp Hsw. rewrite run_normal_form by exact Hs.
  unfold chain_nf. cbn [set_path q_path].
  rewrite (protected_read_denied _ _ _ _ _ _ _ _ _ Hp Hsw). reflexivity.
Qed.

Theorem no_disclosure_chain_partial cs idx exts (s : site) leaf q w k f ru res :
  wf_site s ->
  protected_read cs idx exts (chain_of s) q k f ru res ->
  scope_within (final_path (chain_of s) (q_path q)) k res = true ->
  run cs (chain_of s) leaf q w = deny 401 w.
Proof.
  intros Hwf Hp Hsw. eapply no_disclosure_sorted; eauto. apply chain_sorted. exact Hwf.
Qed.

Lemma scope_within_direct cs idx exts p k f b :
  reads idx exts p k f -> (k = KFile \/ k = KListing \/ k = KBackend) ->
  under cs f b = true -> scope_within p k b = true.
Proof.
  intros Hrd Hk Hu. unfold scope_within. destruct (trivial_scope b) eqn:Et; [reflexivity|]. cbn [orb].
  unfold under in Hu. rewrite Et in Hu. cbn [orb] in Hu.
  apply has_prefix_length in Hu. rewrite !fold_case_length in Hu. apply Nat.leb_le.
  assert (f = vis p k) as <-; [|exact Hu].
  destruct Hrd; cbn [vis]; try reflexivity; destruct Hk as [Hk|[Hk|Hk]]; discriminate.
Qed.

(* files named by the request, listings, backends: the full statement *)
Theorem no_disclosure_chain_direct cs idx exts (s : site) leaf q w k f ru res :
  wf_site s -> (k = KFile \/ k = KListing \/ k = KBackend) ->
  protected_read cs idx exts (chain_of s) q k f ru res ->
  run cs (chain_of s) leaf q w = deny 401 w.
Proof.
  intros Hwf Hk Hp. eapply no_disclosure_chain_partial; eauto.
  eapply scope_within_direct; [exact (pr_reads _ _ _ _ _ _ _ _ _ Hp)|exact Hk|exact (pr_under _ _ _ _ _ _ _ _ _ Hp)].
Qed.

(* internal locations *)
Lemma no_disclosure_internal_sorted cs idx exts stk leaf q w k f pre :
  sorted_from 0 (map kind stk) = true ->
  internal_read cs idx exts stk q k f pre ->
  scope_within (final_path stk (q_path q)) k pre = true ->
  o_touched (run cs stk leaf q w) = [] /\
  (o_status (run cs stk leaf q w) = 401 \/ o_status (run cs stk leaf q w) = 404).
Proof.
  intros Hs [Hr Hw Hrd (ps & Hps & Hin) Hu] Hsw.
  rewrite run_normal_form by exact Hs. unfold chain_nf. cbn [set_path q_path].
  destruct (basicauth_decide cs (q_options q) _ _); [|cbn; auto].
  unfold serve_part. rewrite Hps. rewrite internal_blocked_404; [cbn; auto|].
  cbn [q_path set_path]. apply existsb_exists. exists pre. split; [exact Hin|].
  eapply reads_covered; eauto. apply final_path_rooted; assumption.
Qed.

Theorem no_disclosure_chain_internal_partial cs idx exts (s : site) leaf q w k f pre :
  wf_site s ->
  internal_read cs idx exts (chain_of s) q k f pre ->
  scope_within (final_path (chain_of s) (q_path q)) k pre = true ->
  o_touched (run cs (chain_of s) leaf q w) = [] /\
  (o_status (run cs (chain_of s) leaf q w) = 401 \/ o_status (run cs (chain_of s) leaf q w) = 404).
Proof.
  intros Hwf Hp Hsw. apply (no_disclosure_internal_sorted cs idx exts _ leaf q w k f pre); auto.
  apply chain_sorted. exact Hwf.
Qed.

(* with valid credentials for a rule protecting the final path, basicauth is transparent *)
Theorem chain_with_credentials cs (s : site) leaf q w ru :
  wf_site s -> In ru (auth_rules (chain_of s)) ->
  protects cs (final_path (chain_of s) (q_path q)) ru = true -> r_creds_ok ru = true ->
  run cs (chain_of s) leaf q w =
  serve_part cs (chain_of s) leaf (set_path q (final_path (chain_of s) (q_path q))) w.
Proof.
  intros Hwf Hin Hp Hok. rewrite run_normal_form by (apply chain_sorted; exact Hwf).
  unfold chain_nf. cbn [set_path q_path].
  rewrite (basicauth_pass_with_credentials _ _ _ _ ru Hin Hp Hok). reflexivity.
Qed.

(* ---- the two recorded findings are exactly where the full statement fails ---- *)
Definition site_auth (rules : list rule) : site :=
  fun n => if beq n (bs "basicauth"%string) then Some (MAuth rules) else None.

Lemma site_auth_wf rules : wf_site (site_auth rules).
Proof.
  intros n m. unfold site_auth. destruct (beq n (bs "basicauth"%string)) eqn:E; [|discriminate].
  intros H. injection H as <-. apply beq_eq in E. subst n. reflexivity.
Qed.

Lemma chain_site_auth rules : chain_of (site_auth rules) = [MAuth rules].
Proof. vm_compute. reflexivity. Qed.

Definition noauth_q (p : bytes) : request := {| q_path := p; q_options := false; q_xaccel := [] |}.
Definition plain_rule (res : bytes) : rule := {| r_resources := [res]; r_exclude := []; r_creds_ok := false |}.

Lemma protected_read_site_auth cs idx exts p k f res :
  rooted p -> reads idx exts p k f -> under cs f res = true ->
  protected_read cs idx exts (chain_of (site_auth [plain_rule res])) (noauth_q p) k f (plain_rule res) res.
Proof.
  intros Hr Hrd Hu. rewrite chain_site_auth. constructor; cbn; auto.
  - intros g [Hg|[]]. discriminate.
  - intros r0 [<-|[]]. reflexivity.
  - intros e [].
Qed.

(* F-C03-1: the archive of an unprotected directory contains a protected sub-directory *)
Theorem no_disclosure_chain_archive_refuted :
  exists cs idx exts s leaf q w f ru res,
    wf_site s /\ protected_read cs idx exts (chain_of s) q KArchive f ru res /\
    run cs (chain_of s) leaf q w = touch leaf q w.
Proof.
  exists false, [], [], (site_auth [plain_rule (bs "/arc/priv"%string)]), (fun _ w => w),
    (noauth_q (bs "/arc/"%string)), [], (bs "/arc/priv/p.txt"%string),
    (plain_rule (bs "/arc/priv"%string)), (bs "/arc/priv"%string).
  split; [apply site_auth_wf|]. split.
  - apply protected_read_site_auth; [eexists; reflexivity| |vm_compute; reflexivity].
    apply (RdArchive [] [] (bs "/arc/"%string) (bs "priv/p.txt"%string)); [vm_compute; reflexivity|discriminate].
  - vm_compute. reflexivity.
Qed.

(* F-C03-2: the scope names an index file; the directory request is matched, the index page is read *)
Theorem no_disclosure_chain_index_refuted :
  exists cs idx exts s leaf q w f ru res,
    wf_site s /\ protected_read cs idx exts (chain_of s) q KIndex f ru res /\
    run cs (chain_of s) leaf q w = touch leaf q w.
Proof.
  exists false, [bs "index.html"%string], [], (site_auth [plain_rule (bs "/secret/index.html"%string)]),
    (fun _ w => w), (noauth_q (bs "/secret/"%string)), [], (bs "/secret/index.html"%string),
    (plain_rule (bs "/secret/index.html"%string)), (bs "/secret/index.html"%string).
  split; [apply site_auth_wf|]. split.
  - apply protected_read_site_auth; [eexists; reflexivity| |vm_compute; reflexivity].
    apply (RdIndex [bs "index.html"%string] [] (bs "/secret/"%string) (bs "index.html"%string));
      [vm_compute; reflexivity|left; reflexivity].
  - vm_compute. reflexivity.
Qed.

(* the same mechanism with a precompressed sibling: the scope names f.txt.gz, the request f.txt *)
Theorem no_disclosure_chain_sibling_refuted :
  exists cs idx exts s leaf q w f ru res,
    wf_site s /\ protected_read cs idx exts (chain_of s) q KSibling f ru res /\
    run cs (chain_of s) leaf q w = touch leaf q w.
Proof.
  exists false, [], [bs ".gz"%string], (site_auth [plain_rule (bs "/secret/f.txt.gz"%string)]),
    (fun _ w => w), (noauth_q (bs "/secret/f.txt"%string)), [], (bs "/secret/f.txt.gz"%string),
    (plain_rule (bs "/secret/f.txt.gz"%string)), (bs "/secret/f.txt.gz"%string).
  split; [apply site_auth_wf|]. split.
  - apply protected_read_site_auth; [eexists; reflexivity| |vm_compute; reflexivity].
    apply (RdSibling [] [bs ".gz"%string] (bs "/secret/f.txt"%string) (bs ".gz"%string));
      [vm_compute; reflexivity|left; reflexivity].
  - vm_compute. reflexivity.
Qed.

(* nothing else is excused: when the side condition of the partial theorem fails, the scope
   reaches strictly below the visible part of an index / sibling / archive read *)
Theorem scope_within_fails_only_below cs idx exts p k f b :
  reads idx exts p k f -> under cs f b = true -> scope_within p k b = false ->
  (k = KSibling \/ k = KIndex \/ k = KIndexSibling \/ k = KArchive) /\
  (length (vis p k) < length (matcher_form b) <= length f)%nat.
Proof.
  intros Hrd Hu Hsw. split.
  - destruct k; auto;
      rewrite (scope_within_direct cs idx exts p _ f b Hrd) in Hsw; auto; discriminate.
  - unfold scope_within in Hsw. apply orb_false_iff in Hsw as [Ht Hl].
    unfold under in Hu. rewrite Ht in Hu. cbn [orb] in Hu.
    apply has_prefix_length in Hu. rewrite !fold_case_length in Hu.
    apply Nat.leb_gt in Hl. lia.
Qed.

Lemma site_of_wf l : wf_list l = true -> wf_site (site_of l).
Proof.
  induction l as [|[a m0] l IH]; intros H n m; cbn [site_of]; [discriminate|].
  cbn [wf_list forallb fst snd] in H. apply andb_true_iff in H as [H1 H2].
  destruct (beq a n) eqn:E.
  - intros Hm. injection Hm as <-. apply beq_eq in E. subst n.
    destruct (kind m0), (role_of a); try discriminate; reflexivity.
  - apply IH. exact H2.
Qed.

Lemma example_site_writers_rooted : writers_rooted (map snd example_site).
Proof.
  intros f [Hf|[Hf|[Hf|[Hf|[Hf|[Hf|[]]]]]]]; try discriminate; injection Hf as <-; intros x Hx; cbv beta.
  - destruct (beq x _); [eexists; reflexivity|exact Hx].
  - exact Hx.
Qed.

(* `under` is Path.Matches for a canonical name: nothing is lost by not re-normalising it *)
Theorem under_is_path_matches cs f b :
  clean f = f -> ends_with_slash f = false -> path_matches cs f b = under cs f b.
Proof.
  intros Hc He. rewrite path_matches_under. unfold matcher_form. rewrite Hc, He, app_nil_r. reflexivity.
Qed.

Theorem resolved_canonical p : rooted p -> resolved p <> [SLASH] ->
  clean (resolved p) = resolved p /\ ends_with_slash (resolved p) = false.
Proof.
  intros Hr Hne. rewrite (resolved_clean p Hr) in *. split; [apply clean_idempotent_rooted; exact Hr|].
  destruct (clean_not_root_shape p Hr Hne) as (segs & Hs & E & Hg). rewrite E.
  apply ends_with_slash_shape; assumption.
Qed.

(* ====================================================================================
   HIDE: internal locations in listings, archives, and the file server's own lookups
   ==================================================================================== *)

Fixpoint node_ind' (P : node -> Prop)
         (H : forall a b kids, Forall P kids -> P (Node a b kids)) (n : node) : P n :=
  match n with
  | Node a b kids =>
      H a b kids ((fix go (l : list node) : Forall P l :=
                     match l with
                     | [] => Forall_nil P
                     | k :: r => Forall_cons k (node_ind' P H k) (go r)
                     end) kids)
  end.

Lemma listing_not_hidden : forall hide d kids f,
  In f (listing hide d kids) -> is_hidden hide f = false.
Proof.
  intros hide d kids f Hin. unfold listing in Hin. apply filter_In in Hin.
  destruct Hin as [_ Hn]. destruct (is_hidden hide f); [discriminate|reflexivity].
Qed.

Lemma listing_complete : forall hide d kids k,
  In k kids -> is_hidden hide (child_path d (node_name k)) = false ->
  In (child_path d (node_name k)) (listing hide d kids).
Proof.
  intros hide d kids k Hk Hh. unfold listing. apply filter_In. split.
  - apply in_map_iff. exists k. split; [reflexivity|exact Hk].
  - rewrite Hh. reflexivity.
Qed.

Lemma walk_ok hide : forall n chain d,
  (forall a, In a chain -> is_hidden hide a = false) ->
  forall e c, In (e, c) (walk hide chain d n) ->
  In e c /\ (forall a, In a c -> is_hidden hide a = false).
Proof.
  induction n as [a b kids IH] using node_ind'. intros chain d Hc e c Hin. simpl in Hin.
  destruct (is_hidden hide (child_path d a)) eqn:Hh; [contradiction|].
  destruct Hin as [Heq | Hin].
  - injection Heq as <- <-. split; [left; reflexivity|].
    intros x [<-|Hx]; [exact Hh|apply Hc; exact Hx].
  - destruct b; [|contradiction]. apply in_flat_map in Hin. destruct Hin as [k [Hk Hin]].
    rewrite Forall_forall in IH. eapply (IH k Hk); [|exact Hin].
    intros x [<-|Hx]; [exact Hh|apply Hc; exact Hx].
Qed.

Lemma archive_not_hidden : forall hide d kids e c,
  In (e, c) (archive hide d kids) ->
  In e c /\ (forall a, In a c -> is_hidden hide a = false).
Proof.
  intros hide d kids e c Hin. unfold archive in Hin. apply in_flat_map in Hin.
  destruct Hin as [k [_ Hin]]. eapply walk_ok; [|exact Hin]. intros a [].
Qed.

(* the chain of a member: every element is the member or a directory the member lies below *)
Lemma is_hidden_resolved : forall hide p, In p hide -> is_hidden hide (resolved p) = true.
Proof.
  intros hide p Hin. unfold is_hidden. apply existsb_exists. exists p. split; [exact Hin|apply beq_refl].
Qed.

Lemma is_hidden_incl : forall h1 h2 f, incl h1 h2 -> is_hidden h1 f = true -> is_hidden h2 f = true.
Proof.
  intros h1 h2 f Hi Hh. unfold is_hidden in *. apply existsb_exists in Hh. destruct Hh as [x [Hx Hb]].
  apply existsb_exists. exists x. split; [apply Hi; exact Hx|exact Hb].
Qed.

(* the setups in plugin.go's order: both hide lists hold the internal paths *)
Lemma run_setups_gen : forall h0 ps b,
  run_setups gen_directives {| hs_initial := h0; hs_internal := Some ps; hs_browse := b |} =
  {| ss_hidden := h0 ++ ps; ss_browse := if b then Some (h0 ++ ps) else None |}.
Proof. intros h0 ps b. destruct b; vm_compute; reflexivity. Qed.

Lemma internal_paths_on_hide_lists : forall s ps,
  hs_internal s = Some ps ->
  incl ps (fs_hide s) /\ (forall h, browse_hide s = Some h -> incl ps h).
Proof.
  intros [h0 oi b] ps Hi. simpl in Hi. subst oi. unfold fs_hide, browse_hide.
  rewrite run_setups_gen. simpl. split.
  - apply incl_appr, incl_refl.
  - intros h Hh. destruct b; [|discriminate]. injection Hh as <-. apply incl_appr, incl_refl.
Qed.

Lemma internal_location_not_listed : forall s ps h d kids p,
  hs_internal s = Some ps -> browse_hide s = Some h -> In p ps ->
  ~ In (resolved p) (listing h d kids) /\
  (forall e c, In (e, c) (archive h d kids) -> ~ In (resolved p) c).
Proof.
  intros s ps h d kids p Hi Hb Hp.
  destruct (internal_paths_on_hide_lists s ps Hi) as [_ Hincl]. specialize (Hincl h Hb).
  assert (Hh : is_hidden h (resolved p) = true) by (apply is_hidden_resolved, Hincl, Hp).
  split.
  - intro Hin. apply listing_not_hidden in Hin. congruence.
  - intros e c Hin Hc. apply archive_not_hidden in Hin. destruct Hin as [_ Hall].
    specialize (Hall _ Hc). congruence.
Qed.

(* the order matters: were browse set up before internal, its copy would lack the paths *)
Lemma hide_order_matters : exists dirs ps,
  ss_browse (run_setups dirs {| hs_initial := []; hs_internal := Some ps; hs_browse := true |}) = Some [] /\ ps <> [].
Proof.
  exists [bs "browse"%string; bs "internal"%string], [bs "/int"%string]. split; [vm_compute; reflexivity|discriminate].
Qed.

Lemma pick_sibling_ok : forall hide files f exts,
  is_hidden hide f = false -> is_hidden hide (pick_sibling hide files f exts) = false.
Proof.
  intros hide files f exts Hf. induction exts as [|e r IH]; simpl; [exact Hf|].
  destruct (memb (f ++ e) files); simpl; [|exact IH].
  destruct (is_hidden hide (f ++ e)) eqn:He; simpl; [exact IH|exact He].
Qed.

Lemma fs_serve_not_hidden : forall hide idx exts files dirs p f,
  fs_serve hide idx exts files dirs p = Some f -> is_hidden hide f = false.
Proof.
  intros hide idx exts files dirs p f H. unfold fs_serve in H.
  destruct (if memb (resolved p) dirs then _ else _) as [t|]; [|discriminate].
  destruct (memb t dirs || is_hidden hide t) eqn:Ht; [discriminate|].
  injection H as <-. apply pick_sibling_ok. apply Bool.orb_false_iff in Ht. tauto.
Qed.

Lemma fs_never_serves_internal : forall s ps idx exts files dirs p ip,
  hs_internal s = Some ps -> In ip ps ->
  fs_serve (fs_hide s) idx exts files dirs p <> Some (resolved ip).
Proof.
  intros s ps idx exts files dirs p ip Hi Hp H. apply fs_serve_not_hidden in H.
  destruct (internal_paths_on_hide_lists s ps Hi) as [Hincl _].
  rewrite (is_hidden_resolved (fs_hide s) ip (Hincl _ Hp)) in H. discriminate.
Qed.

(* ====================================================================================
   BLOCK: every address of a server block gets the protection of a single-address site
   ==================================================================================== *)
Lemma fold_keys_map : forall (b : block_site) dirs (l : list addr_state),
  fold_left (fun sts name => keys_loop b name sts) dirs l = map (fun st => fold_left (addr_step b) dirs st) l.
Proof.
  intros b dirs. induction dirs as [|d r IH]; intro l; simpl.
  - symmetry. apply map_id.
  - rewrite IH. unfold keys_loop. rewrite map_map. reflexivity.
Qed.

Lemma map_repeat_c03 {A B} (f : A -> B) x n : map f (repeat x n) = repeat (f x) n.
Proof. induction n as [|n IH]; simpl; [reflexivity|rewrite IH; reflexivity]. Qed.

Lemma block_setups_repeat : forall dirs b n, block_setups dirs b n = repeat (addr_run dirs b) n.
Proof. intros dirs b n. unfold block_setups. rewrite fold_keys_map, map_repeat_c03. reflexivity. Qed.

Lemma nth_error_repeat_c03 {A} (x : A) : forall (n j : nat), (j < n)%nat -> nth_error (repeat x n) j = Some x.
Proof.
  induction n as [|n IH]; intros j Hj; [inversion Hj|].
  destruct j as [|j]; simpl; [reflexivity|apply IH; apply Nat.succ_lt_mono; exact Hj].
Qed.

Lemma block_addresses_same : forall dirs b n,
  length (block_setups dirs b n) = n /\
  (forall j st, nth_error (block_setups dirs b n) j = Some st -> st = addr_run dirs b) /\
  (forall j, (j < n)%nat -> nth_error (block_setups dirs b n) j = Some (addr_run dirs b)).
Proof.
  intros dirs b n. rewrite block_setups_repeat. split; [apply repeat_length|]. split.
  - intros j st Hn. apply nth_error_In in Hn. apply repeat_spec in Hn. exact Hn.
  - intros j Hj. apply nth_error_repeat_c03. exact Hj.
Qed.

Lemma addr_fold_setup : forall b dirs st,
  as_setup (fold_left (addr_step b) dirs st) = fold_left (setup_step (bk_hide b)) dirs (as_setup st).
Proof.
  intros b dirs. induction dirs as [|d r IH]; intro st; simpl; [reflexivity|]. rewrite IH. reflexivity.
Qed.

Lemma addr_run_setup : forall dirs b, as_setup (addr_run dirs b) = run_setups dirs (bk_hide b).
Proof. intros dirs b. unfold addr_run, run_setups. rewrite addr_fold_setup. reflexivity. Qed.

Lemma addr_run_gen : forall h0 ps br orules,
  addr_run gen_directives {| bk_hide := {| hs_initial := h0; hs_internal := Some ps; hs_browse := br |}; bk_rules := orules |} =
  {| as_setup := {| ss_hidden := h0 ++ ps; ss_browse := if br then Some (h0 ++ ps) else None |};
     as_internal := Some ps; as_rules := orules |}.
Proof. intros h0 ps br orules. destruct br, orules; vm_compute; reflexivity. Qed.

Lemma block_protection_on_every_address : forall b ps n j st,
  hs_internal (bk_hide b) = Some ps ->
  nth_error (block_setups gen_directives b n) j = Some st ->
  incl ps (ss_hidden (as_setup st)) /\
  (hs_browse (bk_hide b) = true -> exists h, ss_browse (as_setup st) = Some h /\ incl ps h) /\
  as_internal st = Some ps /\ as_rules st = bk_rules b.
Proof.
  intros [[h0 oi br] orules] ps n j st Hi Hn. simpl in Hi. subst oi.
  destruct (block_addresses_same gen_directives
              {| bk_hide := {| hs_initial := h0; hs_internal := Some ps; hs_browse := br |}; bk_rules := orules |} n)
    as [_ [Hsame _]].
  rewrite (Hsame j st Hn), addr_run_gen. simpl. split; [apply incl_appr, incl_refl|]. split; [|split; reflexivity].
  intro Hb. subst br. eexists. split; [reflexivity|apply incl_appr, incl_refl].
Qed.

Lemma block_hide_state : forall n j s, (j < n)%nat -> hide_state (Some (n, j)) s = hide_state None s.
Proof.
  intros n j s Hj. unfold hide_state.
  destruct (block_addresses_same gen_directives {| bk_hide := s; bk_rules := None |} n) as [_ [_ Hnth]].
  rewrite (Hnth j Hj). unfold option_map. rewrite addr_run_setup. reflexivity.
Qed.

Lemma block_once_variant_refuted : exists b ps n j st,
  hs_internal (bk_hide b) = Some ps /\ ps <> [] /\
  nth_error (block_setups_once gen_directives b n) j = Some st /\
  as_internal st = Some ps /\ ss_hidden (as_setup st) = [] /\ ss_browse (as_setup st) = Some [].
Proof.
  exists {| bk_hide := {| hs_initial := []; hs_internal := Some [bs "/int"%string]; hs_browse := true |}; bk_rules := None |},
         [bs "/int"%string], 2%nat, 1%nat.
  eexists. split; [reflexivity|]. split; [discriminate|]. split; [vm_compute; reflexivity|].
  split; [reflexivity|]. split; reflexivity.
Qed.

(* ====================================================================================
   CRED: the credential check keeps nothing from one request to the next
   ==================================================================================== *)
Lemma assoc_In {A} : forall (l : list (bytes * A)) k v, assoc k l = Some v -> In (k, v) l.
Proof.
  induction l as [|[a x] r IH]; intros k v H; simpl in H; [discriminate|].
  destruct (beq a k) eqn:E.
  - apply beq_eq in E. injection H as <-. subst a. left. reflexivity.
  - right. apply IH. exact H.
Qed.

Lemma assoc_set_same {A} : forall (l : list (bytes * A)) k v, assoc k (set_assoc k v l) = Some v.
Proof.
  induction l as [|[a x] r IH]; intros k v; simpl.
  - rewrite beq_refl. reflexivity.
  - destruct (beq a k) eqn:E; simpl; [rewrite beq_refl; reflexivity|rewrite E; apply IH].
Qed.

Lemma assoc_set_other {A} : forall (l : list (bytes * A)) k k' v, k' <> k -> assoc k' (set_assoc k v l) = assoc k' l.
Proof.
  induction l as [|[a x] r IH]; intros k k' v Hne; simpl.
  - destruct (beq k k') eqn:E; [apply beq_eq in E; congruence|reflexivity].
  - destruct (beq a k) eqn:E; simpl.
    + apply beq_eq in E. subst a.
      destruct (beq k k') eqn:E2; [apply beq_eq in E2; congruence|reflexivity].
    + destruct (beq a k'); [reflexivity|apply IH; exact Hne].
Qed.

Lemma matcher_of_parse : forall H text user es,
  parse_htpasswd text = Some es ->
  matcher_ok H text user (match last_entry user es None with Some e => Some (enc_accepts H e) | None => None end).
Proof.
  intros H text user es Hp. unfold matcher_ok, file_accepts. rewrite Hp.
  destruct (last_entry user es None); intro pw; reflexivity.
Qed.

Lemma get_matcher_parse_branch : forall H (d : disk) c fname user f used m c',
  cache_honest c d -> stamps_known used c d -> assoc fname d = Some f ->
  match (match parse_htpasswd (df_text f) with
         | Some es => let p := {| pf_stamp := df_stamp f; pf_entries := es |} in Some (p, (fname, p) :: c)
         | None => None
         end) with
  | None => (None, c)
  | Some (p, c1) => match last_entry user (pf_entries p) None with
                    | Some e => (Some (enc_accepts H e), c1)
                    | None => (None, c1)
                    end
  end = (m, c') ->
  matcher_ok H (df_text f) user m /\ cache_honest c' d /\ stamps_known used c' d.
Proof.
  intros H d c fname user f used m c' Hh Hk Hd Hg.
  destruct (parse_htpasswd (df_text f)) as [es|] eqn:Hp.
  - assert (Hc' : c' = (fname, {| pf_stamp := df_stamp f; pf_entries := es |}) :: c /\
                  m = match last_entry user es None with Some e => Some (enc_accepts H e) | None => None end).
    { simpl in Hg. destruct (last_entry user es None); injection Hg as <- <-; split; reflexivity. }
    destruct Hc' as [-> ->]. split; [apply matcher_of_parse; exact Hp|]. split.
    + intros fn p f' Ha Hd' Hs. simpl in Ha. destruct (beq fname fn) eqn:E.
      * apply beq_eq in E. subst fn. injection Ha as <-. simpl. rewrite Hd in Hd'. injection Hd' as <-. exact Hp.
      * eapply Hh; eassumption.
    + destruct Hk as [Hkc Hkd]. split; [|exact Hkd].
      intros fn p Ha. simpl in Ha. destruct (beq fname fn) eqn:E.
      * apply beq_eq in E. subst fn. injection Ha as <-. simpl. apply Hkd. exact Hd.
      * apply Hkc. exact Ha.
  - injection Hg as <- <-. split; [|split; assumption].
    intro pw. unfold file_accepts. rewrite Hp. reflexivity.
Qed.

Lemma get_matcher_spec : forall H (d : disk) c fname user f used m c',
  cache_honest c d -> stamps_known used c d -> assoc fname d = Some f ->
  get_matcher H d c fname user = (m, c') ->
  matcher_ok H (df_text f) user m /\ cache_honest c' d /\ stamps_known used c' d.
Proof.
  intros H d c fname user f used m c' Hh Hk Hd Hg. unfold get_matcher in Hg. rewrite Hd in Hg.
  destruct (assoc fname c) as [p|] eqn:Hc.
  - destruct (pf_stamp p =? df_stamp f) eqn:Es.
    + apply N.eqb_eq in Es. pose proof (Hh fname p f Hc Hd Es) as Hp.
      assert (Hm : m = match last_entry user (pf_entries p) None with Some e => Some (enc_accepts H e) | None => None end /\ c' = c).
      { destruct (last_entry user (pf_entries p) None); injection Hg as <- <-; split; reflexivity. }
      destruct Hm as [-> ->]. split; [apply matcher_of_parse; exact Hp|split; assumption].
    + eapply get_matcher_parse_branch; eassumption.
  - eapply get_matcher_parse_branch; eassumption.
Qed.

Lemma setup_rules_spec : forall H (d : disk) used rs c ols c',
  cache_honest c d -> stamps_known used c d ->
  setup_rules H d c rs = (ols, c') ->
  cache_honest c' d /\ stamps_known used c' d /\
  match ols with
  | Some ls => rules_loadable H d rs = true /\ forall auth, map (rule_for auth) ls = map (pure_rule H d auth) rs
  | None => rules_loadable H d rs = false
  end.
Proof.
  intros H d used rs. induction rs as [|r rest IH]; intros c ols c' Hh Hk Hs.
  - simpl in Hs. injection Hs as <- <-. split; [exact Hh|]. split; [exact Hk|]. split; [reflexivity|intro auth; reflexivity].
  - simpl in Hs. destruct (cr_pw r) as [p|f] eqn:Hpw.
    + destruct (setup_rules H d c rest) as [ls c2] eqn:Hr.
      destruct (IH c ls c2 Hh Hk Hr) as [Hh2 [Hk2 Hrest]].
      injection Hs as <- <-. split; [exact Hh2|]. split; [exact Hk2|].
      destruct ls as [ls|]; simpl.
      * destruct Hrest as [Hl Hm]. split; [rewrite Hpw; exact Hl|].
        intro auth. rewrite <- Hm. f_equal. unfold rule_for, pure_rule, pure_accept. simpl. rewrite Hpw. reflexivity.
      * rewrite Hpw. exact Hrest.
    + destruct (get_matcher H d c f (cr_user r)) as [m c1] eqn:Hg.
      destruct (assoc f d) as [df|] eqn:Hd.
      * destruct (get_matcher_spec H d c f (cr_user r) df used m c1 Hh Hk Hd Hg) as [Hm [Hh1 Hk1]].
        destruct m as [acc|].
        -- destruct (setup_rules H d c1 rest) as [ls c2] eqn:Hr.
           destruct (IH c1 ls c2 Hh1 Hk1 Hr) as [Hh2 [Hk2 Hrest]].
           injection Hs as <- <-. split; [exact Hh2|]. split; [exact Hk2|].
           simpl in Hm.
           destruct ls as [ls|]; simpl.
           ++ destruct Hrest as [Hl Hmm]. split; [rewrite Hpw, Hd, (Hm []); exact Hl|].
              intro auth. rewrite <- Hmm. f_equal. unfold rule_for, pure_rule, pure_accept. simpl. rewrite Hpw, Hd.
              destruct auth as [a|]; [|reflexivity]. rewrite (Hm (c_pw a)). reflexivity.
           ++ rewrite Hpw, Hd, (Hm []). exact Hrest.
        -- injection Hs as <- <-. split; [exact Hh1|]. split; [exact Hk1|].
           simpl in Hm. simpl. rewrite Hpw, Hd, (Hm []). reflexivity.
      * unfold get_matcher in Hg. rewrite Hd in Hg. injection Hg as <- <-.
        injection Hs as <- <-. split; [exact Hh|]. split; [exact Hk|]. simpl. rewrite Hpw, Hd. reflexivity.
Qed.

Lemma stamps_known_weaken : forall used x c d, stamps_known used c d -> stamps_known (x :: used) c d.
Proof.
  intros used x c d [Hc Hd]. split; intros; right; [eapply Hc|eapply Hd]; eassumption.
Qed.

Lemma credential_check_is_stateless : forall evs H cs rs s used,
  srv_ok H rs used s -> fresh_stamps used evs ->
  srv_run H cs rs s evs = ref_run H cs rs (sv_disk s) (sv_loaded s) evs.
Proof.
  induction evs as [|e r IH]; intros H cs rs s used Hok Hf; [reflexivity|].
  destruct e as [opt path auth|fname f|].
  - simpl. unfold live_decide, pure_decide. rewrite (ok_live _ _ _ _ Hok auth). f_equal.
    apply (IH H cs rs s used Hok Hf).
  - simpl in Hf. destruct Hf as [Hnew Hf]. simpl.
    set (s' := {| sv_disk := set_assoc fname f (sv_disk s); sv_cache := sv_cache s; sv_live := sv_live s; sv_loaded := sv_loaded s |}).
    assert (Hok' : srv_ok H rs ((fname, df_stamp f) :: used) s').
    { destruct Hok as [Hh [Hkc Hkd] Hl]. constructor; simpl.
      - intros fn p f' Ha Hd Hs.
        destruct (beq fn fname) eqn:E.
        + apply beq_eq in E. subst fn. rewrite assoc_set_same in Hd. injection Hd as <-.
          exfalso. apply Hnew. rewrite <- Hs. apply Hkc. exact Ha.
        + rewrite assoc_set_other in Hd; [eapply Hh; eassumption|].
          intro Heq. subst fn. rewrite beq_refl in E. discriminate.
      - split.
        + intros fn p Ha. right. apply Hkc. exact Ha.
        + intros fn f' Hd. destruct (beq fn fname) eqn:E.
          * apply beq_eq in E. subst fn. rewrite assoc_set_same in Hd. injection Hd as <-. left. reflexivity.
          * rewrite assoc_set_other in Hd; [right; apply Hkd; exact Hd|].
            intro Heq. subst fn. rewrite beq_refl in E. discriminate.
      - exact Hl. }
    apply (IH H cs rs s' _ Hok' Hf).
  - simpl in Hf. simpl.
    destruct (setup_rules H (sv_disk s) (sv_cache s) rs) as [ols c] eqn:Hs.
    destruct Hok as [Hh Hk Hl].
    destruct (setup_rules_spec H (sv_disk s) used rs (sv_cache s) ols c Hh Hk Hs) as [Hh' [Hk' Hres]].
    destruct ols as [ls|].
    + destruct Hres as [Hload Hm]. rewrite Hload.
      set (s' := {| sv_disk := sv_disk s; sv_cache := c; sv_live := ls; sv_loaded := sv_disk s |}).
      apply (IH H cs rs s' used); [|exact Hf]. constructor; simpl; assumption.
    + rewrite Hres.
      set (s' := {| sv_disk := sv_disk s; sv_cache := c; sv_live := sv_live s; sv_loaded := sv_loaded s |}).
      apply (IH H cs rs s' used); [|exact Hf]. constructor; simpl; assumption.
Qed.

Lemma credential_check_stateless_from_start : forall H cs rs d0 ls c evs,
  setup_rules H d0 [] rs = (Some ls, c) -> fresh_stamps (stamps_of d0) evs ->
  srv_run H cs rs {| sv_disk := d0; sv_cache := c; sv_live := ls; sv_loaded := d0 |} evs = ref_run H cs rs d0 d0 evs.
Proof.
  intros H cs rs d0 ls c evs Hs Hf.
  assert (Hh0 : cache_honest [] d0) by (intros fn p f Ha; discriminate).
  assert (Hk0 : stamps_known (stamps_of d0) [] d0).
  { split; [intros fn p Ha; discriminate|].
    intros fn f Hd. apply assoc_In in Hd. unfold stamps_of.
    apply (in_map (fun e => (fst e, df_stamp (snd e)))) in Hd. exact Hd. }
  destruct (setup_rules_spec H d0 (stamps_of d0) rs [] (Some ls) c Hh0 Hk0 Hs) as [Hh [Hk [_ Hm]]].
  apply (credential_check_is_stateless evs H cs rs {| sv_disk := d0; sv_cache := c; sv_live := ls; sv_loaded := d0 |} (stamps_of d0)); [|exact Hf].
  constructor; simpl; assumption.
Qed.

(* without fresh stamps the remembered parse answers for a file it is not the parse of *)
Lemma stale_stamp_refuted : exists H cs rs d0 evs,
  match setup_rules H d0 [] rs with
  | (Some ls, c) => srv_run H cs rs {| sv_disk := d0; sv_cache := c; sv_live := ls; sv_loaded := d0 |} evs
                    <> ref_run H cs rs d0 d0 evs
  | (None, _) => False
  end.
Proof.
  exists (tbl_hashes []), false,
         [ {| cr_resources := [bs "/a"%string]; cr_exclude := []; cr_user := bs "u"%string; cr_pw := PwFile (bs "f"%string) |} ],
         [ (bs "f"%string, {| df_stamp := 1; df_text := bs "u:old"%string |}) ],
         [ EWrite (bs "f"%string) {| df_stamp := 1; df_text := bs "u:new"%string |}; EReload;
           EReq false (bs "/a/x"%string) (Some {| c_user := bs "u"%string; c_pw := bs "new"%string |}) ].
  vm_compute. discriminate.
Qed.

(* a password that no protecting rule OF THE USER NAMED accepts opens nothing, whoever else's it is *)
Lemma password_of_another_user_refused : forall H d rs cs path a,
  (exists r, In r rs /\ protects cs path (pure_rule H d (Some a) r) = true) ->
  (forall r, In r rs -> protects cs path (pure_rule H d (Some a) r) = true ->
             cr_user r = c_user a -> pure_accept H d r (c_pw a) = false) ->
  pure_decide H d rs cs false path (Some a) = Deny401.
Proof.
  intros H d rs cs path a [r0 [Hin0 Hp0]] Hno. unfold pure_decide.
  destruct (basicauth_decide cs false path (map (pure_rule H d (Some a)) rs)) eqn:E; [|reflexivity].
  exfalso. apply decide_pass_iff in E. destruct E as [E|[E|E]]; [discriminate| |].
  - rewrite (E _ (in_map _ _ _ Hin0)) in Hp0. discriminate.
  - destruct E as [ru [Hin [Hp Hc]]]. apply in_map_iff in Hin. destruct Hin as [r [<- Hin]].
    simpl in Hc. apply Bool.andb_true_iff in Hc. destruct Hc as [Hu Hacc]. apply beq_eq in Hu.
    rewrite (Hno r Hin Hp (eq_sym Hu)) in Hacc. discriminate.
Qed.

(* ---- histories of browse requests: every answer of every history leaves the internal locations
   and everything below them out, whatever trees were on disk before ---- *)
Lemma archive_members_chain : forall hide d kids e,
  In e (map fst (archive hide d kids)) -> exists c, In (e, c) (archive hide d kids).
Proof.
  intros hide d kids e Hin. apply in_map_iff in Hin. destruct Hin as ([e' c] & He & Hin).
  simpl in He. subst e'. exists c. exact Hin.
Qed.

Lemma history_internal_not_named : forall s ps h qs q ans p,
  hs_internal s = Some ps -> browse_hide s = Some h -> In p ps ->
  In (q, ans) (browse_history h qs) ->
  ans = browse_answer h q /\ ~ In (resolved p) ans /\
  (bq_arc q = true -> forall e c, In (e, c) (archive h (bq_dir q) (bq_kids q)) -> In e ans /\ ~ In (resolved p) c).
Proof.
  intros s ps h qs q ans p Hi Hb Hp Hin.
  unfold browse_history in Hin. apply in_map_iff in Hin. destruct Hin as (q' & E & _).
  injection E as -> <-.
  destruct (internal_location_not_listed s ps h (bq_dir q) (bq_kids q) p Hi Hb Hp) as [HL HA].
  split; [reflexivity|]. split.
  - unfold browse_answer. destruct (bq_arc q).
    + intro Hin. apply archive_members_chain in Hin. destruct Hin as (c & Hin).
      pose proof (archive_not_hidden _ _ _ _ _ Hin) as [Hec _]. apply (HA _ _ Hin).
      pose proof (HA _ _ Hin) as Hn. exact Hec.
    + exact HL.
  - intros Harc e c Hin. split.
    + unfold browse_answer. rewrite Harc. apply in_map_iff. exists (e, c). split; [reflexivity|exact Hin].
    + exact (HA _ _ Hin).
Qed.
