Require Import V.Lib V.GoPath V.GoPathProofs V.Gen_C09 V.C03_Model.
Open Scope N_scope.

(* ---------- the matcher covers the resolver ---------- *)
Lemma clean_not_root_shape p : rooted p -> clean p <> [SLASH] ->
  exists segs, segs <> [] /\ clean p = SLASH :: join [SLASH] segs /\ (forall s, In s segs -> good_seg s).
Proof.
  intros Hr Hne. destruct (clean_rooted_shape p Hr) as (segs & E & Hg).
  exists segs. split; [|split; [exact E|exact Hg]]. intros ->. apply Hne. rewrite E. reflexivity.
Qed.

Lemma lower_or_id_prefix (cs : bool) (a x b : bytes) :
  (if cs then has_prefix a b else has_prefix (to_lower a) (to_lower b)) = true ->
  (if cs then has_prefix (a ++ x) b else has_prefix (to_lower (a ++ x)) (to_lower b)) = true.
Proof.
  destruct cs; intros H; [apply has_prefix_app; exact H|].
  rewrite to_lower_app. apply has_prefix_app. exact H.
Qed.

(* If the canonical path (what the file resolver opens) lies in a scope, then the spelling the
   matcher saw is matched by that scope too — for every spelling, both case modes. *)
Theorem matcher_covers_clean cs p base :
  rooted p -> clean p <> [SLASH] ->
  path_matches cs (clean p) base = true -> path_matches cs p base = true.
Proof.
  intros Hr Hne. unfold path_matches.
  destruct (beq base [SLASH] || beq base []); [reflexivity|].
  destruct (clean_not_root_shape p Hr Hne) as (segs & Hs & E & Hg).
  rewrite clean_idempotent_rooted by exact Hr.
  assert (Hends : ends_with_slash (clean p) = false) by (rewrite E; apply ends_with_slash_shape; assumption).
  rewrite Hends, app_nil_r.
  set (b' := clean base ++ (if ends_with_slash base then [SLASH] else [])).
  intros H. apply (lower_or_id_prefix cs (clean p) _ b').
  destruct cs; exact H.
Qed.

Theorem matcher_covers_resolver cs p base :
  rooted p -> resolved p <> [SLASH] ->
  path_matches cs (resolved p) base = true -> path_matches cs p base = true.
Proof.
  unfold resolved. intros Hr. rewrite (clean_extra_slash p Hr). apply matcher_covers_clean. exact Hr.
Qed.

(* the root itself: only the trivial scopes "/" and "" and spellings of them are concerned *)
Theorem matcher_root_scope cs p : path_matches cs p [SLASH] = true /\ path_matches cs p [] = true.
Proof. split; reflexivity. Qed.

(* an un-rooted path (as a rewrite target written without leading slash would be) escapes *)
Theorem matcher_covers_resolver_unrooted_refuted :
  exists cs p base, path_matches cs (resolved p) base = true /\ path_matches cs p base = false.
Proof.
  exists false, (bs "secret/f"%string), (bs "/secret"%string). split; vm_compute; reflexivity.
Qed.

(* ---------- basicauth decision ---------- *)
Lemma rule_loop_spec cs path excl ok : forall ress st,
  rule_loop cs path excl ok ress st =
  if existsb (path_matches cs path) ress && negb (existsb (path_matches cs path) excl)
  then (true, snd st || ok) else st.
Proof.
  induction ress as [|res r IH]; intros st; cbn [rule_loop existsb]; [reflexivity|].
  destruct (path_matches cs path res) eqn:Em; cbn [negb orb].
  - destruct (existsb (path_matches cs path) excl) eqn:Ex; cbn [negb andb].
    + reflexivity.
    + rewrite IH. cbn [negb snd]. rewrite andb_true_r.
      destruct (existsb _ r); [|reflexivity]. destruct st as [pr au]; cbn. destruct au, ok; reflexivity.
  - apply IH.
Qed.

Lemma fold_rules_spec cs path : forall rules pr au,
  fold_left (rule_step cs path) rules (pr, au) =
  (pr || existsb (protects cs path) rules,
   au || existsb (fun ru => protects cs path ru && r_creds_ok ru) rules).
Proof.
  induction rules as [|ru rules IH]; intros pr au; cbn [fold_left existsb].
  - rewrite !orb_false_r. reflexivity.
  - unfold rule_step at 2. rewrite rule_loop_spec. fold (protects cs path ru).
    destruct (protects cs path ru) eqn:Ep; cbn [snd andb].
    + rewrite IH. f_equal; [rewrite orb_true_r; reflexivity|].
      destruct au, (r_creds_ok ru); reflexivity.
    + rewrite IH. reflexivity.
Qed.

(* 401 exactly when: not OPTIONS, some rule protects the path (resource matches, no exclusion),
   and no protecting rule's credentials were presented *)
Theorem basicauth_decide_spec cs opt path rules :
  basicauth_decide cs opt path rules = Deny401 <->
  opt = false /\ existsb (protects cs path) rules = true /\
  existsb (fun ru => protects cs path ru && r_creds_ok ru) rules = false.
Proof.
  unfold basicauth_decide. destruct opt; [split; [discriminate|intros (H & _); discriminate]|].
  rewrite fold_rules_spec. cbn [orb].
  destruct (existsb (protects cs path) rules), (existsb (fun ru => _) rules); cbn; split; intros H;
    try discriminate; try tauto; try (destruct H as (_ & H1 & H2); discriminate).
Qed.

(* without valid credentials nothing under a protected, non-excluded scope passes *)
Theorem basicauth_no_pass_without_credentials cs path rules :
  (forall ru, In ru rules -> r_creds_ok ru = false) ->
  existsb (protects cs path) rules = true ->
  basicauth_decide cs false path rules = Deny401.
Proof.
  intros Hno Hp. apply basicauth_decide_spec. repeat split; auto.
  apply not_true_is_false. intros H. apply existsb_exists in H as (ru & Hin & Hru).
  apply andb_true_iff in Hru as [_ Hok]. rewrite (Hno ru Hin) in Hok. discriminate.
Qed.

(* with valid credentials for a protecting rule the request is passed on unchanged *)
Theorem basicauth_pass_with_credentials cs opt path rules ru :
  In ru rules -> protects cs path ru = true -> r_creds_ok ru = true ->
  basicauth_decide cs opt path rules = Pass.
Proof.
  intros Hin Hp Hok. destruct (basicauth_decide cs opt path rules) eqn:E; [reflexivity|].
  apply basicauth_decide_spec in E as (_ & _ & Hno).
  assert (existsb (fun ru => protects cs path ru && r_creds_ok ru) rules = true).
  { apply existsb_exists. exists ru. rewrite Hp, Hok. auto. }
  congruence.
Qed.

(* composition: whatever spelling reaches the auth matcher, if the file that the resolver
   would open for it is inside a protected and not excluded... *)
Theorem no_disclosure_static cs p rules ru res :
  rooted p -> resolved p <> [SLASH] ->
  (forall r0, In r0 rules -> r_creds_ok r0 = false) ->
  In ru rules -> In res (r_resources ru) ->
  path_matches cs (resolved p) res = true ->
  existsb (path_matches cs p) (r_exclude ru) = false ->
  basicauth_decide cs false p rules = Deny401.
Proof.
  intros Hr Hne Hno Hin Hres Hm Hex.
  apply basicauth_no_pass_without_credentials; [exact Hno|].
  apply existsb_exists. exists ru. split; [exact Hin|]. unfold protects. rewrite Hex. cbn.
  rewrite andb_true_r. apply existsb_exists. exists res. split; [exact Hres|].
  apply matcher_covers_resolver; assumption.
Qed.

Theorem internal_blocks_covers_resolver cs p paths prefix :
  rooted p -> resolved p <> [SLASH] -> In prefix paths ->
  path_matches cs (resolved p) prefix = true -> internal_blocks cs p paths = true.
Proof.
  intros Hr Hne Hin Hm. apply existsb_exists. exists prefix. split; [exact Hin|].
  apply matcher_covers_resolver; assumption.
Qed.

(* ====================================================================================
   multiple rules: what the loop computes, for every rule list
   ==================================================================================== *)
Theorem rules_fold_spec cs path rules :
  fold_left (rule_step cs path) rules (false, false) =
  (existsb (protects cs path) rules, existsb (fun ru => protects cs path ru && r_creds_ok ru) rules).
Proof. rewrite fold_rules_spec. reflexivity. Qed.

Lemma existsb_false_forall {A} (f : A -> bool) l :
  existsb f l = false <-> (forall x, In x l -> f x = false).
Proof.
  split.
  - intros H x Hin. destruct (f x) eqn:E; [|reflexivity].
    assert (existsb f l = true) by (apply existsb_exists; eauto). congruence.
  - intros H. apply not_true_is_false. intros E. apply existsb_exists in E as (x & Hin & Hx).
    rewrite (H x Hin) in Hx. discriminate.
Qed.

(* ANY-rule semantics: let through iff OPTIONS, or no rule protects the path, or the presented
   credentials satisfy at least one rule that protects it *)
Theorem decide_pass_iff cs opt path rules :
  basicauth_decide cs opt path rules = Pass <->
  opt = true \/ (forall ru, In ru rules -> protects cs path ru = false) \/
  (exists ru, In ru rules /\ protects cs path ru = true /\ r_creds_ok ru = true).
Proof.
  split.
  - intros H. destruct opt; [left; reflexivity|right].
    destruct (existsb (protects cs path) rules) eqn:Ep.
    + right. destruct (existsb (fun ru => protects cs path ru && r_creds_ok ru) rules) eqn:Es.
      * apply existsb_exists in Es as (ru & Hin & Hru). apply andb_true_iff in Hru as [H1 H2]. eauto.
      * assert (D : basicauth_decide cs false path rules = Deny401) by (apply basicauth_decide_spec; auto).
        congruence.
    + left. apply existsb_false_forall. exact Ep.
  - intros [-> | [Hnone | (ru & Hin & Hp & Hok)]].
    + reflexivity.
    + destruct (basicauth_decide cs opt path rules) eqn:E; [reflexivity|].
      apply basicauth_decide_spec in E as (_ & Hp & _).
      apply existsb_exists in Hp as (ru & Hin & Hp). rewrite (Hnone ru Hin) in Hp. discriminate.
    + eapply basicauth_pass_with_credentials; eauto.
Qed.

(* the EVERY-rule reading is not what the code does *)
Theorem every_rule_refuted :
  exists cs path rules ru,
    In ru rules /\ protects cs path ru = true /\ r_creds_ok ru = false /\
    basicauth_decide cs false path rules = Pass.
Proof.
  exists false, (bs "/secret/x/f"%string),
    [ {| r_resources := [bs "/secret"%string]; r_exclude := []; r_creds_ok := true |};
      {| r_resources := [bs "/secret/x"%string]; r_exclude := []; r_creds_ok := false |} ],
    {| r_resources := [bs "/secret/x"%string]; r_exclude := []; r_creds_ok := false |}.
  split; [right; left; reflexivity|]. repeat split; vm_compute; reflexivity.
Qed.

(* ... it coincides with it when every protecting rule is satisfied (and then the request passes),
   in particular when exactly the satisfied rules protect the path *)
Theorem every_rule_partial cs opt path rules :
  (forall ru, In ru rules -> protects cs path ru = true -> r_creds_ok ru = true) ->
  basicauth_decide cs opt path rules = Pass.
Proof.
  intros H. apply decide_pass_iff. destruct opt; [left; reflexivity|right].
  destruct (existsb (protects cs path) rules) eqn:Ep.
  - right. apply existsb_exists in Ep as (ru & Hin & Hp). exists ru. auto.
  - left. apply existsb_false_forall. exact Ep.
Qed.

(* a rule that does not protect the path — no resource matches, or one of ITS exclusions does —
   is inert wherever it stands: the exclusion of one rule does not leak to the rules after it *)
Lemma existsb_app_mid {A} (f : A -> bool) l1 x l2 :
  f x = false -> existsb f (l1 ++ x :: l2) = existsb f (l1 ++ l2).
Proof. intros H. rewrite !existsb_app. cbn [existsb]. rewrite H. reflexivity. Qed.

Theorem unprotecting_rule_inert cs opt path l1 ru l2 :
  protects cs path ru = false ->
  basicauth_decide cs opt path (l1 ++ ru :: l2) = basicauth_decide cs opt path (l1 ++ l2).
Proof.
  intros H. unfold basicauth_decide. destruct opt; [reflexivity|].
  rewrite !rules_fold_spec. rewrite !existsb_app_mid; [reflexivity| rewrite H; reflexivity | exact H].
Qed.

Theorem excluded_rule_inert cs opt path l1 ru l2 :
  existsb (path_matches cs path) (r_exclude ru) = true ->
  basicauth_decide cs opt path (l1 ++ ru :: l2) = basicauth_decide cs opt path (l1 ++ l2).
Proof.
  intros H. apply unprotecting_rule_inert. unfold protects. rewrite H. apply andb_false_r.
Qed.

Require Import Coq.Sorting.Permutation.
Lemma existsb_perm {A} (f : A -> bool) l l' : Permutation l l' -> existsb f l = existsb f l'.
Proof.
  induction 1; cbn [existsb]; try congruence.
  destruct (f x), (f y); reflexivity.
Qed.

(* the decision does not depend on the order in which the rules are written *)
Theorem decide_permutation cs opt path rules rules' :
  Permutation rules rules' -> basicauth_decide cs opt path rules = basicauth_decide cs opt path rules'.
Proof.
  intros HP. unfold basicauth_decide. destruct opt; [reflexivity|].
  rewrite !rules_fold_spec. rewrite (existsb_perm _ _ _ HP).
  rewrite (existsb_perm (fun ru => protects cs path ru && r_creds_ok ru) _ _ HP). reflexivity.
Qed.

(* ====================================================================================
   internal: the X-Accel-Redirect loop
   ==================================================================================== *)
Lemma accel_loop_ext inner1 inner2 :
  (forall q w, inner1 q w = inner2 q w) ->
  forall fuel q cur, accel_loop fuel inner1 q cur = accel_loop fuel inner2 q cur.
Proof.
  intros HE. induction fuel as [|k IH]; intros q cur; cbn [accel_loop].
  - reflexivity.
  - destruct (o_hdr cur); [reflexivity|]. rewrite HE. apply IH.
Qed.

Lemma internal_serve_ext cs ps inner1 inner2 q w :
  (forall q w, inner1 q w = inner2 q w) ->
  internal_serve cs ps inner1 q w = internal_serve cs ps inner2 q w.
Proof.
  intros HE. unfold internal_serve. destruct (internal_blocks cs (q_path q) ps); [reflexivity|].
  rewrite HE. apply accel_loop_ext. exact HE.
Qed.

(* an internal location is answered 404 and nothing is run, whatever the client sends and
   whatever the response header map already holds *)
Theorem internal_blocked_404 cs ps inner q w :
  internal_blocks cs (q_path q) ps = true ->
  internal_serve cs ps inner q w = deny 404 w.
Proof. intros H. unfold internal_serve. rewrite H. reflexivity. Qed.

(* the client's own X-Accel-Redirect REQUEST header is never consulted: if the inner handlers
   ignore it, so does the whole middleware *)
Lemma accel_loop_xaccel inner x :
  (forall q w, inner (with_xaccel q x) w = inner q w) ->
  forall fuel q cur, accel_loop fuel inner (with_xaccel q x) cur = accel_loop fuel inner q cur.
Proof.
  intros HI. induction fuel as [|k IH]; intros q cur; cbn [accel_loop]; [reflexivity|].
  destruct (o_hdr cur) as [|t ts]; [reflexivity|].
  change (set_path (with_xaccel q x) (t :: ts)) with (with_xaccel (set_path q (t :: ts)) x).
  rewrite HI. apply IH.
Qed.

Theorem internal_request_header_inert cs ps inner q w x :
  (forall q w, inner (with_xaccel q x) w = inner q w) ->
  internal_serve cs ps inner (with_xaccel q x) w = internal_serve cs ps inner q w.
Proof.
  intros HI. unfold internal_serve. cbn [with_xaccel q_path].
  destruct (internal_blocks cs (q_path q) ps); [reflexivity|].
  rewrite HI. apply accel_loop_xaccel. exact HI.
Qed.

(* no inner handler sets the response header (and none was set on entry): one call, no redirect,
   internal locations stay 404 — for every value of the client's request header *)
Theorem internal_no_response_header cs ps h q x :
  (forall q w, h q w = w) ->
  internal_serve cs ps (touch h) (with_xaccel q x) [] =
  if internal_blocks cs (q_path q) ps then deny 404 [] else touch h (with_xaccel q x) [].
Proof.
  intros Hh. unfold internal_serve. cbn [with_xaccel q_path].
  destruct (internal_blocks cs (q_path q) ps); [reflexivity|].
  cbn [accel_loop touch o_hdr]. rewrite Hh. reflexivity.
Qed.

(* every path the inner chain is run with after the first one was named by a response header
   an inner handler produced (or found and kept) *)
Definition named_by (h : hdrfun) (t : bytes) : Prop := t <> [] /\ exists q w, h q w = t.

Lemma accel_loop_touched h : forall fuel q cur,
  (o_hdr cur <> [] -> named_by h (o_hdr cur)) ->
  forall t, In t (o_touched (accel_loop fuel (touch h) q cur)) ->
            In t (o_touched cur) \/ named_by h t.
Proof.
  induction fuel as [|k IH]; intros q cur Hc t; cbn [accel_loop].
  - destruct (o_hdr cur); cbn [o_touched]; auto.
  - destruct (o_hdr cur) as [|c ts] eqn:Eh; [auto|].
    assert (Hn : named_by h (c :: ts)) by (apply Hc; discriminate).
    intros Hin. apply IH in Hin.
    + destruct Hin as [Hin | Hin]; [|right; exact Hin].
      cbn [o_touched touch] in Hin. apply in_app_or in Hin as [Hin | [<- | []]]; [left; exact Hin|].
      right. exact Hn.
    + cbn [o_hdr touch]. intros Hne. split; [exact Hne|]. eauto.
Qed.

Theorem internal_touched_spec cs ps h q w :
  forall t, In t (o_touched (internal_serve cs ps (touch h) q w)) ->
    internal_blocks cs (q_path q) ps = false /\ (t = q_path q \/ named_by h t).
Proof.
  intros t. unfold internal_serve.
  destruct (internal_blocks cs (q_path q) ps); [intros []|].
  intros Hin. split; [reflexivity|].
  apply accel_loop_touched in Hin.
  - destruct Hin as [[<- | []] | Hn]; auto.
  - cbn [touch o_hdr]. intros Hne. split; [exact Hne|]. eauto.
Qed.

(* ... and a response header does unlock: the inner handler names t, the chain is run again with t,
   without any test against the internal locations *)
Theorem internal_unlock_by_response_header cs ps h q w t :
  internal_blocks cs (q_path q) ps = false -> t <> [] ->
  h q w = t -> h (set_path q t) [] = [] ->
  internal_serve cs ps (touch h) q w = {| o_status := 200; o_touched := [q_path q; t]; o_hdr := [] |}.
Proof.
  intros Hb Hne H1 H2. unfold internal_serve. rewrite Hb.
  destruct t as [|c ts]; [congruence|].
  cbn [accel_loop touch o_hdr o_status o_touched]. rewrite H1.
  cbn [accel_loop touch o_hdr o_status o_touched app]. rewrite H2. reflexivity.
Qed.

(* the loop is bounded: at most 1 + 10 runs of the inner chain *)
Lemma accel_loop_bound h : forall fuel q cur,
  (length (o_touched (accel_loop fuel (touch h) q cur)) <= length (o_touched cur) + fuel)%nat.
Proof.
  induction fuel as [|k IH]; intros q cur; cbn [accel_loop].
  - destruct (o_hdr cur); cbn [o_touched]; lia.
  - destruct (o_hdr cur); [lia|].
    eapply Nat.le_trans; [apply IH|]. cbn [o_touched touch]. rewrite app_length. cbn. lia.
Qed.

Theorem internal_bounded cs ps h q w :
  (length (o_touched (internal_serve cs ps (touch h) q w)) <= 11)%nat.
Proof.
  unfold internal_serve. destruct (internal_blocks cs (q_path q) ps); [cbn; lia|].
  eapply Nat.le_trans; [apply accel_loop_bound|]. cbn. lia.
Qed.

(* ====================================================================================
   the chain in canonical order
   ==================================================================================== *)
Lemma sorted_from_mono : forall rs k k', (k <= k')%nat -> sorted_from k' rs = true -> sorted_from k rs = true.
Proof.
  induction rs as [|r rs IH]; intros k k' Hk H; [reflexivity|].
  destruct r; cbn [sorted_from] in *;
    try (apply andb_true_iff in H as [H1 H2]; apply Nat.leb_le in H1;
         apply andb_true_iff; split; [apply Nat.leb_le; lia | exact H2]).
  eapply IH; eauto.
Qed.

Lemma stack_sorted s : wf_site s -> forall dirs k,
  sorted_from k (map role_of dirs) = true -> sorted_from k (map kind (stack s dirs)) = true.
Proof.
  intros Hwf. induction dirs as [|n dirs IH]; intros k H; [reflexivity|].
  cbn [stack map] in *. destruct (s n) as [m|] eqn:E.
  - cbn [map]. rewrite (Hwf n m E).
    destruct (role_of n); cbn [sorted_from] in *;
      try (apply andb_true_iff in H as [H1 H2]; rewrite H1; cbn [andb]; apply IH; exact H2).
    apply IH. exact H.
  - apply IH. destruct (role_of n); cbn [sorted_from] in H;
      try (apply andb_true_iff in H as [H1 H2]; apply Nat.leb_le in H1;
           eapply sorted_from_mono; [|exact H2]; lia).
    exact H.
Qed.

(* phase 3: only content handlers (and neutral directives) remain: the path is not touched *)
Lemma run_phase3 cs leaf : forall stk, sorted_from 3 (map kind stk) = true ->
  forall q w, run cs stk leaf q w = touch (answer stk leaf) q w.
Proof.
  induction stk as [|m stk IH]; intros H q w; [reflexivity|].
  destruct m; cbn [map kind sorted_from] in H; try discriminate.
  - cbn [run answer]. apply IH. exact H.
  - cbn [run answer]. destruct (takes (q_path q)) eqn:Et.
    + unfold touch. rewrite Et. reflexivity.
    + rewrite IH by exact H. unfold touch. rewrite Et. reflexivity.
Qed.

Lemma run_phase2 cs leaf : forall stk, sorted_from 2 (map kind stk) = true ->
  forall q w, run cs stk leaf q w = serve_part cs stk leaf q w.
Proof.
  induction stk as [|m stk IH]; intros H q w; [reflexivity|].
  destruct m; cbn [map kind sorted_from] in H; try discriminate.
  - (* internal *) cbn [run]. unfold serve_part. cbn [internal_paths answer].
    apply internal_serve_ext. intros q0 w0. apply run_phase3. exact H.
  - (* neutral *) cbn [run]. rewrite IH by exact H. reflexivity.
  - (* content *) rewrite run_phase3 by exact H. reflexivity.
Qed.

Lemma decide_nil cs opt p : basicauth_decide cs opt p [] = Pass.
Proof. unfold basicauth_decide. destruct opt; reflexivity. Qed.

Lemma set_path_id q : set_path q (q_path q) = q.
Proof. destruct q; reflexivity. Qed.

Lemma run_phase1 cs leaf : forall stk, sorted_from 1 (map kind stk) = true ->
  forall q w, run cs stk leaf q w = chain_nf cs stk leaf q w.
Proof.
  induction stk as [|m stk IH]; intros H q w.
  - unfold chain_nf. cbn [final_path auth_rules]. rewrite decide_nil, set_path_id. reflexivity.
  - destruct m; cbn [map kind sorted_from] in H; try discriminate.
    + (* auth *) unfold chain_nf. cbn [run final_path auth_rules]. rewrite set_path_id.
      destruct (basicauth_decide cs (q_options q) (q_path q) rules); [|reflexivity].
      rewrite run_phase2 by exact H. reflexivity.
    + (* internal *) unfold chain_nf. cbn [final_path auth_rules]. rewrite decide_nil, set_path_id.
      apply run_phase2. exact H.
    + (* neutral *) cbn [run]. rewrite IH by exact H. reflexivity.
    + (* content *) unfold chain_nf. cbn [final_path auth_rules]. rewrite decide_nil, set_path_id.
      apply run_phase2. exact H.
Qed.

(* basicauth and internal test exactly the path the content handlers are first run with *)
Theorem run_normal_form cs leaf : forall stk, sorted_from 0 (map kind stk) = true ->
  forall q w, run cs stk leaf q w = chain_nf cs stk leaf q w.
Proof.
  induction stk as [|m stk IH]; intros H q w.
  - apply run_phase1. reflexivity.
  - destruct m; cbn [map kind sorted_from] in H.
    + (* writer *) cbn [run]. rewrite IH by exact H. reflexivity.
    + apply run_phase1. exact H.
    + apply run_phase1. exact H.
    + cbn [run]. rewrite IH by exact H. reflexivity.
    + apply run_phase1. exact H.
Qed.

(* the order facts, computed by the kernel on the list regenerated from plugin.go *)
Lemma gen_order_facts : sorted_from 0 (map role_of gen_directives) = true.
Proof. vm_compute. reflexivity. Qed.

Lemma gen_roles_present :
  forallb (fun n => memb n gen_directives)
          (writer_names ++ [bs "basicauth"%string; bs "internal"%string] ++ content_names) = true.
Proof. vm_compute. reflexivity. Qed.

Theorem auth_sees_final_path (s : site) cs leaf q w :
  wf_site s ->
  run cs (stack s gen_directives) leaf q w = chain_nf cs (stack s gen_directives) leaf q w.
Proof.
  intros Hwf. apply run_normal_form. apply stack_sorted; [exact Hwf|]. exact gen_order_facts.
Qed.

(* the order hypothesis is what carries the theorem: basicauth placed outside a rewriter tests a
   path nobody serves *)
Theorem unordered_chain_refuted :
  exists cs stk leaf q w, run cs stk leaf q w <> chain_nf cs stk leaf q w /\ o_status (run cs stk leaf q w) = 200.
Proof.
  exists false,
    [MAuth [ {| r_resources := [bs "/secret"%string]; r_exclude := []; r_creds_ok := false |} ];
     MWriter (fun _ => bs "/secret/f.txt"%string)],
    (fun _ w => w), {| q_path := bs "/alias"%string; q_options := false; q_xaccel := [] |}, [].
  split; [|vm_compute; reflexivity]. vm_compute. discriminate.
Qed.
