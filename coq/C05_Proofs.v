Require Import V.Lib V.C05_Model.
Open Scope N_scope.

(* ---------- probing ---------- *)
Lemma probe_seq_sound av idxs i :
  probe_seq av idxs = Some i -> nth i av false = true /\ In i idxs.
Proof.
  induction idxs as [|j r IH]; simpl; [discriminate|].
  destruct (nth j av false) eqn:E.
  - intros H; injection H as <-. auto.
  - intros H. destruct (IH H). auto.
Qed.

Lemma probe_seq_complete av idxs j :
  In j idxs -> nth j av false = true -> probe_seq av idxs <> None.
Proof.
  induction idxs as [|k r IH]; simpl; [contradiction|].
  intros [->|Hin] Hj.
  - rewrite Hj. discriminate.
  - destruct (nth k av false); [discriminate|]. apply IH; assumption.
Qed.

Lemma probe_seq_first av idxs i :
  probe_seq av idxs = Some i ->
  exists pre post, idxs = pre ++ i :: post /\ forall k, In k pre -> nth k av false = false.
Proof.
  induction idxs as [|j r IH]; simpl; [discriminate|].
  destruct (nth j av false) eqn:E.
  - intros H; injection H as <-. exists [], r. split; [reflexivity|]. intros k [].
  - intros H. destruct (IH H) as (pre & post & -> & Hpre).
    exists (j :: pre), post. split; [reflexivity|]. intros k [<-|Hk]; auto.
Qed.

Lemma nth_true_lt (av : list bool) i : nth i av false = true -> (i < length av)%nat.
Proof.
  intros H. destruct (Nat.lt_ge_cases i (length av)) as [|Hge]; [assumption|].
  rewrite nth_overflow in H by assumption. discriminate.
Qed.

(* ---------- linear probing covers every slot ---------- *)
Lemma lin_hit (n start j : N) : 0 < n -> j < n -> exists i, i < n /\ (start + i) mod n = j.
Proof.
  intros Hn Hj.
  pose proof (N.div_mod' start n) as Hdm.
  pose proof (N.mod_lt start n ltac:(lia)) as Hlt.
  set (q := start / n) in *. set (s := start mod n) in *.
  destruct (N.le_gt_cases s j) as [Hle|Hgt].
  - exists (j - s). split; [lia|].
    replace (start + (j - s)) with (j + q * n) by lia.
    rewrite N.mod_add by lia. apply N.mod_small. exact Hj.
  - exists (j + n - s). split; [lia|].
    replace (start + (j + n - s)) with (j + (q + 1) * n) by lia.
    rewrite N.mod_add by lia. apply N.mod_small. exact Hj.
Qed.

Lemma lin_idxs_cover (n : nat) (start : N) (j : nat) :
  (j < n)%nat ->
  In j (map (fun i => N.to_nat ((start + N.of_nat i) mod N.of_nat n)) (seq 0 n)).
Proof.
  intros Hj.
  destruct (lin_hit (N.of_nat n) start (N.of_nat j)) as (i & Hi & Hm); [lia|lia|].
  apply in_map_iff. exists (N.to_nat i). split.
  - rewrite N2Nat.id, Hm. apply Nat2N.id.
  - apply in_seq. lia.
Qed.

(* ---------- First ---------- *)
Theorem first_sound av i : first_select av = Some i -> nth i av false = true.
Proof. intros H. apply probe_seq_sound in H. tauto. Qed.

Theorem first_complete av : existsb (fun b => b) av = true -> first_select av <> None.
Proof.
  intros H. apply existsb_exists in H as (b & Hin & ->).
  apply In_nth with (d := false) in Hin as (j & Hj & Hn).
  apply probe_seq_complete with (j := j); [apply in_seq; lia | exact Hn].
Qed.

Lemma seq_split_at a pre i post n : seq a n = pre ++ i :: post -> forall k, In k pre -> (k < i)%nat.
Proof.
  revert a pre. induction n as [|n IH]; intros a pre H k Hk; simpl in H.
  - destruct pre; discriminate.
  - destruct pre as [|p pre]; [contradiction|]. simpl in H. injection H as <- H.
    assert (Hi : In i (seq (S a) n)) by (rewrite H; apply in_or_app; right; left; reflexivity).
    apply in_seq in Hi.
    destruct Hk as [<-|Hk]; [lia|]. eapply IH; eauto.
Qed.

Lemma seq_split_pre a n pre i post : seq a n = pre ++ i :: post -> pre = seq a (i - a).
Proof.
  revert a pre. induction n as [|n IH]; intros a pre H; simpl in H.
  - destruct pre; discriminate.
  - destruct pre as [|p pre]; simpl in H; injection H as <- H.
    + rewrite Nat.sub_diag. reflexivity.
    + assert (Hi : In i (seq (S a) n)) by (rewrite H; apply in_or_app; right; left; reflexivity).
      apply in_seq in Hi. apply IH in H. subst pre.
      replace (i - a)%nat with (S (i - S a)) by lia. reflexivity.
Qed.

Theorem first_earliest av i : first_select av = Some i ->
  forall j, (j < i)%nat -> nth j av false = false.
Proof.
  intros H j Hj. apply probe_seq_first in H as (pre & post & Hs & Hpre).
  apply Hpre. rewrite (seq_split_pre _ _ _ _ _ Hs). apply in_seq. lia.
Qed.

(* ---------- hashing ---------- *)
Theorem hash_sound av h i : hash_select av h = Some i -> nth i av false = true.
Proof. intros H. apply probe_seq_sound in H. tauto. Qed.

Theorem hash_complete av h : existsb (fun b => b) av = true -> hash_select av h <> None.
Proof.
  intros H. apply existsb_exists in H as (b & Hin & ->).
  apply In_nth with (d := false) in Hin as (j & Hj & Hn).
  apply probe_seq_complete with (j := j); [|exact Hn].
  unfold hash_idxs. apply lin_idxs_cover. exact Hj.
Qed.

(* same key, same availability => same backend (whatever else changed in the pool) *)
Theorem hash_sticky mf pool pool' h :
  avail_vec mf pool = avail_vec mf pool' ->
  hash_select (avail_vec mf pool) h = hash_select (avail_vec mf pool') h.
Proof. intros ->. reflexivity. Qed.

(* the preferred slot is used whenever it is available *)
Theorem hash_preferred av h :
  (0 < length av)%nat ->
  nth (N.to_nat (h mod N.of_nat (length av))) av false = true ->
  hash_select av h = Some (N.to_nat (h mod N.of_nat (length av))).
Proof.
  intros Hn Hp. unfold hash_select, hash_idxs.
  destruct (length av) as [|n] eqn:E; [lia|].
  cbn [seq map]. rewrite N.add_0_r, N.mod_mod by lia.
  cbn [probe_seq]. rewrite Hp. reflexivity.
Qed.

(* the triangular probing coded before the fix misses slots: pool of 3, only slot 2 up, hash 0 *)
Theorem hash_triangular_complete_refuted :
  exists av h, existsb (fun b => b) av = true /\ hash_select_triangular av h = None.
Proof. exists [false; false; true], 0. split; vm_compute; reflexivity. Qed.

(* ---------- round robin ---------- *)
(* L consecutive slots from s on, modulo n *)
Definition seg (n s : N) (L : nat) : list nat :=
  map (fun i => N.to_nat ((s + N.of_nat i) mod n)) (seq 0 L).
(* the first slot RoundRobin.Select probes: the counter advanced by one (uint32) and reduced *)
Definition rr_start (n robin : N) : N := ((robin + 1) mod U32) mod n.

Lemma seg_succ n s k : 0 < n ->
  seg n s (S k) = N.to_nat (s mod n) :: seg n ((s + 1) mod n) k.
Proof.
  intros Hn. unfold seg. cbn [seq map]. change (N.of_nat 0) with 0. rewrite N.add_0_r. f_equal.
  rewrite <- seq_shift, map_map. apply map_ext. intros a.
  rewrite N.add_mod_idemp_l by lia. do 2 f_equal. lia.
Qed.

Lemma rr_start_lt n robin : 0 < n -> rr_start n robin < n.
Proof. intros Hn. unfold rr_start. apply N.mod_lt. lia. Qed.

(* once the counter is below the pool length the uint32 addition cannot wrap any more *)
Lemma rr_start_small n s : s < n -> n < U32 -> rr_start n s = (s + 1) mod n.
Proof. intros Hs Hn. unfold rr_start. rewrite (N.mod_small (s + 1) U32) by lia. reflexivity. Qed.

Lemma rr_loop_step av n robin k :
  rr_loop av n robin (S k) =
  if nth (N.to_nat (rr_start n robin)) av false
  then (Some (N.to_nat (rr_start n robin)), rr_start n robin)
  else rr_loop av n (rr_start n robin) k.
Proof. reflexivity. Qed.

(* EXACT probe order for EVERY counter value (the uint32 wrap included): the n slots
   s, s+1, ..., s+n-1 (mod n) from s = ((robin + 1) mod 2^32) mod n on *)
Lemma rr_loop_exact av n : 0 < n -> n < U32 -> forall steps robin,
  fst (rr_loop av n robin steps) = probe_seq av (seg n (rr_start n robin) steps).
Proof.
  intros Hn Hu. induction steps as [|k IH]; intros robin; [reflexivity|].
  rewrite rr_loop_step. pose proof (rr_start_lt n robin Hn) as Hs.
  rewrite seg_succ by exact Hn. rewrite (N.mod_small _ _ Hs). cbn [probe_seq].
  destruct (nth (N.to_nat (rr_start n robin)) av false); [reflexivity|].
  rewrite IH. rewrite (rr_start_small n (rr_start n robin)) by assumption. reflexivity.
Qed.

Theorem rr_exact av robin :
  N.of_nat (length av) < U32 ->
  fst (rr_select av robin) =
  probe_seq av (seg (N.of_nat (length av)) (rr_start (N.of_nat (length av)) robin) (length av)).
Proof.
  intros Hu. unfold rr_select. destruct av as [|a r]; [reflexivity|].
  apply rr_loop_exact; [cbn [length]; lia|exact Hu].
Qed.

Theorem rr_sound av robin i : fst (rr_select av robin) = Some i -> nth i av false = true.
Proof.
  unfold rr_select. generalize (N.of_nat (length av)) as n. generalize (length av) as steps.
  intros steps n. revert robin. induction steps as [|k IH]; intros robin.
  - discriminate.
  - rewrite rr_loop_step. destruct (nth (N.to_nat (rr_start n robin)) av false) eqn:E.
    + cbn. intros H; injection H as <-. exact E.
    + apply IH.
Qed.

(* completeness for EVERY counter value: an available host exists => one is returned *)
Theorem rr_complete av robin :
  N.of_nat (length av) < U32 ->
  existsb (fun b => b) av = true -> fst (rr_select av robin) <> None.
Proof.
  intros Hu H. rewrite rr_exact by exact Hu.
  apply existsb_exists in H as (b & Hin & ->).
  apply In_nth with (d := false) in Hin as (j & Hj & Hn).
  apply probe_seq_complete with (j := j); [|exact Hn].
  apply lin_idxs_cover. exact Hj.
Qed.

(* the counter is left on the slot that was chosen, so it stays below the pool length *)
Theorem rr_all_up av robin :
  (0 < length av)%nat -> forallb (fun b => b) av = true ->
  rr_select av robin =
  (Some (N.to_nat (rr_start (N.of_nat (length av)) robin)), rr_start (N.of_nat (length av)) robin).
Proof.
  intros Hn Hall. unfold rr_select. destruct (length av) as [|k] eqn:E; [lia|].
  rewrite rr_loop_step.
  assert (Hlt : (N.to_nat (rr_start (N.of_nat (S k)) robin) < length av)%nat).
  { rewrite E. pose proof (rr_start_lt (N.of_nat (S k)) robin ltac:(lia)). lia. }
  rewrite forallb_forall in Hall.
  rewrite (Hall _ (nth_In av false Hlt)). reflexivity.
Qed.

(* all hosts up: m consecutive selections are m consecutive slots, for EVERY counter value *)
Theorem rr_run_all_up av : forall m robin,
  (0 < length av)%nat -> N.of_nat (length av) < U32 -> forallb (fun b => b) av = true ->
  rr_run av robin m =
  map Some (seg (N.of_nat (length av)) (rr_start (N.of_nat (length av)) robin) m).
Proof.
  induction m as [|k IH]; intros robin Hn Hu Hall; [reflexivity|].
  cbn [rr_run]. rewrite rr_all_up by auto. rewrite IH by auto.
  pose proof (rr_start_lt (N.of_nat (length av)) robin ltac:(lia)) as Hs.
  rewrite seg_succ by lia. rewrite (N.mod_small _ _ Hs).
  rewrite (rr_start_small _ _ Hs Hu). reflexivity.
Qed.

(* hence any n consecutive selections visit every host exactly once, also across the wrap *)
Theorem rr_even av robin :
  (0 < length av)%nat -> N.of_nat (length av) < U32 -> forallb (fun b => b) av = true ->
  forall j, (j < length av)%nat -> In (Some j) (rr_run av robin (length av)) /\
  length (rr_run av robin (length av)) = length av.
Proof.
  intros Hn Hu Hall j Hj. rewrite rr_run_all_up by auto. split.
  - apply in_map. apply lin_idxs_cover. exact Hj.
  - unfold seg. rewrite !map_length, seq_length. reflexivity.
Qed.

(* ---------- random ---------- *)
Lemma reservoir_some cands : forall rs count cur,
  cur <> None -> reservoir cands rs count cur <> None.
Proof.
  induction cands as [|c r IH]; intros rs count cur H; simpl; [exact H|].
  apply IH. destruct (_ =? 0); [discriminate|exact H].
Qed.

Lemma reservoir_in cands : forall rs count cur i,
  reservoir cands rs count cur = Some i -> In i cands \/ cur = Some i.
Proof.
  induction cands as [|c r IH]; intros rs count cur i H; simpl in H; [right; exact H|].
  apply IH in H as [H|H]; [left; right; exact H|].
  destruct (_ =? 0); [injection H as <-; left; left; reflexivity | right; exact H].
Qed.

Lemma avail_idxs_spec av i : In i (avail_idxs av) <-> nth i av false = true.
Proof.
  unfold avail_idxs. rewrite filter_In, in_seq. split; [tauto|].
  intros H. split; [|exact H]. pose proof (nth_true_lt _ _ H). lia.
Qed.

Theorem random_sound av rs i : random_select av rs = Some i -> nth i av false = true.
Proof.
  unfold random_select. intros H. apply reservoir_in in H as [H|H]; [|discriminate].
  apply avail_idxs_spec. exact H.
Qed.

Theorem random_complete av rs : existsb (fun b => b) av = true -> random_select av rs <> None.
Proof.
  intros H. apply existsb_exists in H as (b & Hin & ->).
  apply In_nth with (d := false) in Hin as (j & Hj & Hn).
  apply avail_idxs_spec in Hn. unfold random_select.
  destruct (avail_idxs av) as [|c r]; [contradiction|].
  cbn [reservoir]. apply reservoir_some. rewrite N.add_0_l, N.mod_1_r. discriminate.
Qed.

(* ---------- least_conn ---------- *)
Definition lc_inv (seen : list (nat * (bool * Z))) (least : option Z) (best : option nat) : Prop :=
  match least with
  | None => best = None /\ forall e, In e seen -> fst (snd e) = false
  | Some l => (exists i, best = Some i /\ In (i, (true, l)) seen) /\
              forall e, In e seen -> fst (snd e) = true -> (l <= snd (snd e))%Z
  end.

Lemma mod01 x : (x mod (0 + 1) =? 0) = true.
Proof. rewrite N.add_0_l, N.mod_1_r. reflexivity. Qed.

Lemma lc_loop_inv : forall hs rs least count best seen,
  lc_inv seen least best ->
  exists least', lc_inv (seen ++ hs) least' (lc_loop hs rs least count best).
Proof.
  induction hs as [|[i [a c]] hs IH]; intros rs least count best seen Hinv.
  - exists least. rewrite app_nil_r. exact Hinv.
  - replace (seen ++ (i, (a, c)) :: hs) with ((seen ++ [(i, (a, c))]) ++ hs)
      by (rewrite <- app_assoc; reflexivity).
    cbn [lc_loop]. destruct a; cbn [negb].
    + destruct least as [l|].
      * destruct Hinv as ((b & -> & Hin) & Hmin).
        destruct (c <? l)%Z eqn:Hc.
        -- rewrite Z.eqb_refl, mod01. apply IH. split.
           ++ exists i. split; [reflexivity|]. apply in_or_app. right. left. reflexivity.
           ++ intros e He Ha. apply in_app_or in He as [He|[<-|[]]]; cbn; [|lia].
              specialize (Hmin e He Ha). lia.
        -- destruct (c =? l)%Z eqn:Hcl.
           ++ apply Z.eqb_eq in Hcl. subst c. apply IH. split.
              ** destruct (_ =? 0); eexists; (split; [reflexivity|]); apply in_or_app.
                 --- right. left. reflexivity.
                 --- left. exact Hin.
              ** intros e He Ha. apply in_app_or in He as [He|[<-|[]]]; cbn; [|lia].
                 exact (Hmin e He Ha).
           ++ apply IH. split.
              ** exists b. split; [reflexivity|]. apply in_or_app. left. exact Hin.
              ** intros e He Ha. apply in_app_or in He as [He|[<-|[]]]; cbn; [|lia].
                 exact (Hmin e He Ha).
      * destruct Hinv as (-> & Hall).
        rewrite Z.eqb_refl, mod01. apply IH. split.
        -- exists i. split; [reflexivity|]. apply in_or_app. right. left. reflexivity.
        -- intros e He Ha. apply in_app_or in He as [He|[<-|[]]]; cbn; [|lia].
           rewrite (Hall e He) in Ha. discriminate.
    + apply IH. unfold lc_inv in *. destruct least as [l|].
      * destruct Hinv as ((b & -> & Hin) & Hmin). split.
        -- exists b. split; [reflexivity|]. apply in_or_app. left. exact Hin.
        -- intros e He Ha. apply in_app_or in He as [He|[<-|[]]]; [|discriminate].
           exact (Hmin e He Ha).
      * destruct Hinv as (-> & Hall). split; [reflexivity|].
        intros e He. apply in_app_or in He as [He|[<-|[]]]; [|reflexivity]. exact (Hall e He).
Qed.

Lemma In_combine_seq {B} (l : list B) : forall a i x,
  In (i, x) (combine (seq a (length l)) l) <-> (a <= i)%nat /\ nth_error l (i - a) = Some x.
Proof.
  induction l as [|y l IH]; intros a i x; simpl.
  - split; [contradiction|]. intros [_ H]. destruct (i - a)%nat; discriminate.
  - rewrite IH. split.
    + intros [H|[H1 H2]].
      * injection H as <- <-. rewrite Nat.sub_diag. split; [lia|reflexivity].
      * split; [lia|]. replace (i - a)%nat with (S (i - S a)) by lia. exact H2.
    + intros [H1 H2]. destruct (Nat.eq_dec i a) as [->|Hne].
      * rewrite Nat.sub_diag in H2. injection H2 as <-. left. reflexivity.
      * right. split; [lia|]. replace (i - a)%nat with (S (i - S a)) in H2 by lia. exact H2.
Qed.

(* least_conn returns an available host whose in-flight count is minimal among available hosts *)
Theorem least_conn_minimal mf pool rs i :
  least_conn_select mf pool rs = Some i ->
  exists h, nth_error pool i = Some h /\ available mf h = true /\
    forall h', In h' pool -> available mf h' = true -> (conns h <= conns h')%Z.
Proof.
  unfold least_conn_select. intros H.
  set (hs := combine (seq 0 (length pool)) (map (fun h => (available mf h, conns h)) pool)) in *.
  destruct (lc_loop_inv hs rs None 0 None []) as (least' & Hinv).
  { split; [reflexivity|]. intros e []. }
  cbn [app] in Hinv. rewrite H in Hinv. unfold lc_inv in Hinv.
  destruct least' as [l|]; [|destruct Hinv; discriminate].
  destruct Hinv as ((b & Hb & Hin) & Hmin). injection Hb as <-.
  unfold hs in Hin. rewrite <- (map_length (fun h => (available mf h, conns h)) pool) in Hin.
  apply In_combine_seq in Hin as [_ Hn]. rewrite Nat.sub_0_r in Hn.
  rewrite nth_error_map in Hn. destruct (nth_error pool i) as [h|] eqn:Eh; [|discriminate].
  cbn in Hn. injection Hn as Ha Hl. exists h. repeat split; auto.
  intros h' Hin' Ha'. apply In_nth_error in Hin' as (j & Hj).
  assert (In (j, (available mf h', conns h')) hs).
  { unfold hs. rewrite <- (map_length (fun h => (available mf h, conns h)) pool).
    apply In_combine_seq. split; [lia|]. rewrite Nat.sub_0_r, nth_error_map, Hj. reflexivity. }
  specialize (Hmin _ H0). cbn in Hmin. rewrite Hl. apply Hmin. exact Ha'.
Qed.

Theorem least_conn_complete mf pool rs :
  existsb (available mf) pool = true -> least_conn_select mf pool rs <> None.
Proof.
  intros H. apply existsb_exists in H as (h & Hin & Ha).
  unfold least_conn_select.
  set (hs := combine (seq 0 (length pool)) (map (fun h => (available mf h, conns h)) pool)) in *.
  destruct (lc_loop_inv hs rs None 0 None []) as (least' & Hinv).
  { split; [reflexivity|]. intros e []. }
  cbn [app] in Hinv. unfold lc_inv in Hinv. destruct least' as [l|].
  - destruct Hinv as ((b & -> & _) & _). discriminate.
  - destruct Hinv as (_ & Hall). exfalso.
    apply In_nth_error in Hin as (j & Hj).
    assert (In (j, (available mf h, conns h)) hs).
    { unfold hs. rewrite <- (map_length (fun h => (available mf h, conns h)) pool).
      apply In_combine_seq. split; [lia|]. rewrite Nat.sub_0_r, nth_error_map, Hj. reflexivity. }
    specialize (Hall _ H). cbn in Hall. congruence.
Qed.

(* ---------- staticUpstream.Select shortcuts preserve soundness and completeness ---------- *)
Theorem static_sound av pol i :
  (forall j, pol av = Some j -> nth j av false = true) ->
  static_select av pol = Some i -> nth i av false = true.
Proof.
  intros Hp. unfold static_select. destruct av as [|a [|b r]].
  - cbn. discriminate.
  - destruct a; [|discriminate]. intros H; injection H as <-. reflexivity.
  - destruct (existsb _ _); [apply Hp|discriminate].
Qed.

Theorem static_complete av pol :
  (existsb (fun b => b) av = true -> pol av <> None) ->
  existsb (fun b => b) av = true -> static_select av pol <> None.
Proof.
  intros Hp H. unfold static_select. destruct av as [|a [|b r]].
  - cbn in H. discriminate.
  - cbn in H. rewrite orb_false_r in H. subst a. discriminate.
  - rewrite H. apply Hp. exact H.
Qed.

(* ---------- retry loop ---------- *)
Section RetryProofs.
Variable S : Type.
Variable sel : S -> list bool -> option nat * S.
Variable fails_at : nat -> nat -> bool.
Hypothesis sel_sound : forall st av i st', sel st av = (Some i, st') -> nth i av false = true.
Hypothesis sel_complete : forall st av, existsb (fun b => b) av = true -> fst (sel st av) <> None.

Definition count_true (l : list bool) : nat := length (filter (fun b => b) l).

Lemma cur_avail_nth : forall base failed i, length failed = length base ->
  nth i (cur_avail base failed) false = nth i base false && negb (nth i failed false).
Proof.
  induction base as [|b base IH]; intros [|f failed] i Hl; try discriminate.
  - destruct i; reflexivity.
  - destruct i; cbn; [reflexivity|]. apply IH. simpl in Hl. lia.
Qed.

Lemma set_true_length i : forall l, length (set_true i l) = length l.
Proof. induction i as [|i IH]; intros [|b l]; simpl; auto. Qed.

Lemma set_true_nth_other i : forall l j, i <> j -> nth j (set_true i l) false = nth j l false.
Proof.
  induction i as [|i IH]; intros [|b l] j Hne; simpl; try reflexivity.
  - destruct j; [contradiction|reflexivity].
  - destruct j; [reflexivity|]. apply IH. congruence.
Qed.

Lemma count_set_true : forall base failed i, length failed = length base ->
  nth i (cur_avail base failed) false = true ->
  Datatypes.S (count_true (cur_avail base (set_true i failed))) = count_true (cur_avail base failed).
Proof.
  unfold count_true.
  induction base as [|b base IH]; intros [|f failed] i Hl Hn; try discriminate.
  - destruct i; discriminate.
  - destruct i as [|i].
    + cbn in Hn. apply andb_true_iff in Hn as [-> Hf]. apply negb_true_iff in Hf. subst f.
      cbn. reflexivity.
    + cbn in Hn. cbn [set_true cur_avail combine map filter fst snd].
      simpl in Hl. specialize (IH failed i ltac:(lia) Hn). unfold cur_avail in IH.
      destruct (b && negb f); cbn [length]; rewrite <- IH; reflexivity.
Qed.

Lemma count_pos l i : nth i l false = true -> (1 <= count_true l)%nat.
Proof.
  unfold count_true. revert i. induction l as [|b l IH]; intros [|i] H; simpl in *; try discriminate.
  - subst b. simpl. lia.
  - destruct b; simpl; [lia|]. eapply IH; eauto.
Qed.

Lemma existsb_nth l i : nth i l false = true -> existsb (fun b => b) l = true.
Proof.
  intros H. apply existsb_exists. exists true. split; [|reflexivity].
  rewrite <- H. apply nth_In. destruct (Nat.lt_ge_cases i (length l)); [assumption|].
  rewrite nth_overflow in H by assumption. discriminate.
Qed.

(* With failure marking on (fail_timeout > 0, max_fails = 1) and a budget of at least as many
   iterations as there are currently available hosts, the request is answered by a backend whose
   forward did not fail, whatever subset of the other hosts fails and in whatever order the
   policy visits them. *)
Theorem retry_reaches_healthy : forall fuel k st base failed trace g,
  length failed = length base ->
  nth g base false = true -> nth g failed false = false -> (forall k', fails_at k' g = false) ->
  (count_true (cur_avail base failed) <= fuel)%nat ->
  exists j k', fst (retry S sel fails_at fuel true k st base failed trace) = Answered j k' /\
               fails_at k' j = false /\ nth j base false = true.
Proof.
  induction fuel as [|f IH]; intros k st base failed trace g Hl Hgb Hgf Hgh Hc.
  - exfalso. assert (nth g (cur_avail base failed) false = true)
      by (rewrite cur_avail_nth, Hgb, Hgf by assumption; reflexivity).
    apply count_pos in H. lia.
  - cbn [retry].
    assert (Hga : nth g (cur_avail base failed) false = true)
      by (rewrite cur_avail_nth, Hgb, Hgf by assumption; reflexivity).
    pose proof (sel_complete st _ (existsb_nth _ _ Hga)) as Hsome.
    destruct (sel st (cur_avail base failed)) as [[i|] st'] eqn:Hs; [|cbn in Hsome; congruence].
    pose proof (sel_sound _ _ _ _ Hs) as Hia.
    destruct (fails_at k i) eqn:Hf.
    + assert (Hig : i <> g) by (intros ->; rewrite Hgh in Hf; discriminate).
      apply IH with (g := g); auto.
      * rewrite set_true_length. exact Hl.
      * rewrite set_true_nth_other by exact Hig. exact Hgf.
      * pose proof (count_set_true base failed i Hl Hia). lia.
    + exists i, k. cbn. repeat split; auto.
      rewrite cur_avail_nth in Hia by assumption. apply andb_true_iff in Hia. tauto.
Qed.

(* when every forward fails the client gets 502 once the budget is spent *)
Theorem retry_502_when_all_fail : forall fuel mark k st base failed trace,
  (forall k' i, fails_at k' i = true) ->
  fst (retry S sel fails_at fuel mark k st base failed trace) = BadGateway.
Proof.
  induction fuel as [|f IH]; intros mark k st base failed trace Hall; [reflexivity|].
  cbn [retry]. destruct (sel st (cur_avail base failed)) as [[i|] st'].
  - rewrite Hall. apply IH. exact Hall.
  - apply IH. exact Hall.
Qed.

(* an answer always comes from a host that is configured-available and not marked failed *)
Theorem retry_answer_sound : forall fuel mark k st base failed trace j k',
  length failed = length base ->
  fst (retry S sel fails_at fuel mark k st base failed trace) = Answered j k' ->
  nth j base false = true /\ fails_at k' j = false.
Proof.
  induction fuel as [|f IH]; intros mark k st base failed trace j k' Hl H; [discriminate|].
  cbn [retry] in H. destruct (sel st (cur_avail base failed)) as [[i|] st'] eqn:Hs.
  - destruct (fails_at k i) eqn:Hf.
    + eapply IH; [|exact H]. destruct mark; [rewrite set_true_length|]; exact Hl.
    + cbn in H. injection H as <- <-. apply sel_sound in Hs.
      rewrite cur_avail_nth in Hs by assumption. apply andb_true_iff in Hs. tauto.
  - eapply IH; eauto.
Qed.
End RetryProofs.

(* instances: the stateless policies satisfy the selector hypotheses *)
Lemma first_sel_sound (st : N) av i st' :
  (static_select av first_select, st) = (Some i, st') -> nth i av false = true.
Proof. intros H; injection H as H _. eapply static_sound; [|exact H]. apply first_sound. Qed.
Lemma first_sel_complete (st : N) av :
  existsb (fun b => b) av = true -> fst (static_select av first_select, st) <> None.
Proof. intros H. cbn. apply static_complete; [apply first_complete|exact H]. Qed.
Lemma hash_sel_sound h (st : N) av i st' :
  (static_select av (fun av => hash_select av h), st) = (Some i, st') -> nth i av false = true.
Proof. intros H; injection H as H _. eapply static_sound; [|exact H]. intros j. apply hash_sound. Qed.
Lemma hash_sel_complete h (st : N) av :
  existsb (fun b => b) av = true -> fst (static_select av (fun av => hash_select av h), st) <> None.
Proof. intros H. cbn. apply static_complete; [apply hash_complete|exact H]. Qed.

(* bodies are buffered whenever the request can be retried, whatever the number of hosts, and
   buffered bodies are rewound: every attempt sees the whole body *)
Theorem attempt_body_complete {A} nhosts (body : list A) consumed :
  attempt_body (buffered nhosts true) body consumed = body.
Proof. reflexivity. Qed.
