(* C05 — proofs for the mid-body retry model (kind retrymid) and the Fails counter over several requests (kind retryseq) *)
Require Import V.Lib V.C05_Model.
From Coq Require Import Lia ZifyBool ZifyN ZifyNat.
Import ListNotations.
Open Scope N_scope.

(* every attempt of the loop on a buffered body is announced the length the request came with and
   reads the body from offset 0, whatever the earlier attempts' backends consumed *)
Lemma mid_run_spec : forall ks data off cl,
  mid_run false cl (mk_rdr data off) ks = map (fun k => (cl, mid_expect data k)) ks.
Proof.
  induction ks as [|k ks IH]; intros data off cl; [reflexivity|].
  cbn [mid_run map]. unfold mid_attempt, rd_read, rd_rewind. cbn [rd_data rd_off skipn].
  f_equal. apply IH.
Qed.

Lemma mid_run_announces : forall ks data off cl o,
  In o (mid_run false cl (mk_rdr data off) ks) ->
  fst o = cl /\ exists k, In k ks /\ snd o = mid_expect data k.
Proof.
  intros ks data off cl o H. rewrite mid_run_spec in H. apply in_map_iff in H.
  destruct H as [k [<- Hk]]. split; [reflexivity|]. exists k. split; [exact Hk|reflexivity].
Qed.

(* ---------- Fails over a history of failures, successes and readings ---------- *)
Lemma filter_split_len : forall (l : list N) t,
  length l = Nat.add (length (filter (fun x => x <=? t) l)) (length (filter (fun x => t <? x) l)).
Proof.
  induction l as [|a l IH]; intros t; [reflexivity|]. cbn [filter].
  destruct (N.leb_spec a t), (N.ltb_spec t a); cbn [length]; try lia; rewrite (IH t); lia.
Qed.
Lemma filter_filter_gt : forall (l : list N) t now, t <= now ->
  filter (fun x => now <? x) (filter (fun x => t <? x) l) = filter (fun x => now <? x) l.
Proof.
  induction l as [|a l IH]; intros t now H; [reflexivity|]. cbn [filter].
  destruct (N.ltb_spec t a); cbn [filter]; destruct (N.ltb_spec now a); try rewrite (IH t now H); try reflexivity; lia.
Qed.

Definition FInv (s : fcs) (E : list N) (tl : N) : Prop :=
  f_cnt s = Z.of_nat (length (f_pend s)) /\
  forall now, tl <= now -> length (filter (fun x => now <? x) (f_pend s)) = length (filter (fun x => now <? x) E).

Lemma fire_inv : forall s E tl t, FInv s E tl -> tl <= t -> FInv (fire t s) E t.
Proof.
  intros s E tl t [Hc Hf] Ht. unfold fire. split; cbn [f_cnt f_pend].
  - rewrite Hc. rewrite (filter_split_len (f_pend s) t) at 1. lia.
  - intros now Hn. rewrite filter_filter_gt by exact Hn. apply Hf. lia.
Qed.

Lemma fstep_inv : forall ft s E tl e, FInv s E tl -> tl <= ftime e ->
  FInv (fstep false ft s e) (E ++ fexp ft [e]) (ftime e).
Proof.
  intros ft s E tl e HI Ht. pose proof (fire_inv s E tl (ftime e) HI Ht) as [Hc Hf].
  destruct e as [te|t|t]; cbn [fstep ftime fexp flat_map andb] in *; rewrite ?app_nil_r.
  - destruct (0 <? ft).
    + split; cbn [f_cnt f_pend].
      * rewrite Hc. cbn [length]. lia.
      * intros now Hn. cbn [filter]. rewrite filter_app, app_length. cbn [filter].
        destruct (now <? te + ft); cbn [length]; rewrite (Hf now Hn); lia.
    + rewrite app_nil_r. split; assumption.
  - split; assumption.
  - split; assumption.
Qed.

Lemma frun_inv : forall ft evs s E tl, FInv s E tl -> fmono tl evs = true ->
  FInv (fold_left (fstep false ft) evs s) (E ++ fexp ft evs) (flast tl evs).
Proof.
  induction evs as [|e evs IH]; intros s E tl HI Hm.
  - cbn. rewrite app_nil_r. exact HI.
  - cbn [fmono] in Hm. apply andb_true_iff in Hm. destruct Hm as [H1 H2]. apply N.leb_le in H1.
    cbn [fold_left flast].
    replace (E ++ fexp ft (e :: evs)) with ((E ++ fexp ft [e]) ++ fexp ft evs).
    + apply IH; [apply (fstep_inv ft s E tl e HI H1)|exact H2].
    + rewrite <- app_assoc. f_equal. unfold fexp. cbn [flat_map]. rewrite app_nil_r. reflexivity.
Qed.

Lemma finv0 : FInv (mk_fcs 0 []) [] 0.
Proof. split; [reflexivity|intros; reflexivity]. Qed.

(* Fails, read at any time after a history told in the order of time, is the number of failures
   that have not expired yet *)
Lemma fails_is_unexpired : forall ft evs now,
  fmono 0 evs = true -> flast 0 evs <= now ->
  f_cnt (fire now (frun false ft evs)) = Z.of_N (live now (fexp ft evs)).
Proof.
  intros ft evs now Hm Hn. pose proof (frun_inv ft evs _ _ _ finv0 Hm) as HI. cbn [app] in HI.
  destruct (fire_inv _ _ _ now HI Hn) as [Hc Hf]. unfold frun. rewrite Hc. unfold live.
  rewrite <- (Hf now) by lia. unfold fire. cbn [f_pend].
  rewrite filter_filter_gt by lia. lia.
Qed.

Lemma fails_never_negative : forall ft evs,
  fmono 0 evs = true -> (0 <= f_cnt (frun false ft evs))%Z.
Proof.
  intros ft evs Hm. destruct (frun_inv ft evs _ _ _ finv0 Hm) as [Hc _]. unfold frun. rewrite Hc. lia.
Qed.

Lemma mid_len_before_rewind_witness :
  mid_run false 4 (mk_rdr [1; 2; 3; 4] 0) [Some 1%nat; None] = [(4%Z, [1]); (4%Z, [1; 2; 3; 4])] /\
  mid_run true 4 (mk_rdr [1; 2; 3; 4] 0) [Some 1%nat; None] = [(4%Z, [1]); (3%Z, [1; 2; 3; 4])].
Proof. split; vm_compute; reflexivity. Qed.

Lemma fails_reset_witness :
  let evs := [FFail 0; FSucc 1; FRead 10] in
  fmono 0 evs = true /\ f_cnt (frun false 3 evs) = 0%Z /\ f_cnt (frun true 3 evs) = (-1)%Z /\
  live 10 (fexp 3 evs) = 0.
Proof. vm_compute. repeat split; reflexivity. Qed.
