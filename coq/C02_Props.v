Require Import V.Lib V.C02_Model.
Theorem C02_placeholder : True. Proof. exact I. Qed.
