(* C02 — property theorems only.  Each is closed by [exact]/[apply] of a lemma proved in
   C02_Proofs.v and followed by Print Assumptions.

   "For every GET or HEAD request path, however it is spelled, the body returned by the
   file-serving handlers consists only of regular files inside the site root: the file the cleaned
   path names, its directory's index page, or a precompressed sibling the client accepts.  Nothing
   outside the root and no hidden file (in particular the origin Casketfile) is ever returned or
   listed, and every redirect these handlers issue has a Location starting with exactly one '/'."

   The file system is an arbitrary finite tree [fs] (universally quantified), request paths,
   Accept-Encoding values, hide lists, index-page lists, site path prefixes and browse
   configurations are arbitrary. *)
Require Import V.Lib V.GoPath V.GoPathProofs V.Gen_C02 V.Gen_C02b V.C02_Model V.C02_Proofs.
Open Scope N_scope.
Local Open Scope string_scope.

(* ---- the lexical jail -------------------------------------------------------------------- *)
(* Whatever bytes the request path consists of (dot segments, repeated slashes, backslashes,
   percent-decoded anything), the name http.Dir opens is root ++ c where c starts with '/', and
   every segment of c is non-empty, is not "." or ".." and contains no '/': c never climbs. *)
Theorem C02_clean_rooted_jail :
  forall (root name : bytes),
  has_prefix (jail name) [SLASH] = true /\
  has_prefix (root ++ jail name) root = true /\
  exists segs, jail name = SLASH :: join [SLASH] segs /\
    forall s, In s segs -> s <> [] /\ s <> [DOT] /\ s <> [DOT; DOT] /\ ~ In SLASH s.
Proof. exact clean_rooted_jail. Qed.
Print Assumptions C02_clean_rooted_jail.

Theorem C02_jail_idempotent : forall name, jail (jail name) = jail name.
Proof. exact jail_idem. Qed.
Print Assumptions C02_jail_idempotent.

(* ---- static files: what is served --------------------------------------------------------- *)
(* Every body the static file server returns is a node of the jailed tree, opened under the
   cleaned form of: the request path, one of its index pages, or one of these extended by the
   extension of an encoding the client accepts (exact-token match). Only GET/HEAD are served. *)
Theorem C02_static_served_inside_root :
  forall fs hide pages prefix m req ae n enc,
  serve_file fs hide pages prefix m req ae = Serve n enc ->
  is_get_head m = true /\ In n fs /\
  exists base, (base = req \/ exists pg, In pg pages /\ base = path_join2 req pg) /\
    match enc with
    | None => n_path n = jail base
    | Some e => exists ext, In (e, ext) gen_static_encodings /\ accepts ae e = true /\
                            n_path n = jail (base ++ ext)
    end.
Proof. exact static_served_inside_root. Qed.
Print Assumptions C02_static_served_inside_root.

(* "its directory's index page": for a rooted request path and an index-page name that is a plain
   segment, the index page opened is the child of that name of the cleaned directory. *)
Theorem C02_static_index_is_child_of_cleaned_dir :
  forall req pg, rooted req -> good_seg pg ->
  jail (path_join2 req pg) = child_path (jail req) pg.
Proof. exact index_is_child. Qed.
Print Assumptions C02_static_index_is_child_of_cleaned_dir.

Example C02_static_index_nonvacuous :
  jail (path_join2 (bs "/a/./b//../c/") (bs "index.html")) = bs "/a/c/index.html".
Proof. vm_compute. reflexivity. Qed.

(* "a precompressed sibling": for a request path whose last segment is a proper name (not empty,
   "." or ".."), whatever precedes it, the sibling name the server opens (path ++ ext) cleans to
   exactly the cleaned path with ext appended — the sibling of the file the cleaned path names. *)
Theorem C02_static_sibling_of_cleaned_path :
  forall p s e ext, In (e, ext) gen_static_encodings -> good_seg s ->
  jail ((p ++ SLASH :: s) ++ ext) = jail (p ++ SLASH :: s) ++ ext.
Proof. exact sibling_of_cleaned. Qed.
Print Assumptions C02_static_sibling_of_cleaned_path.

Example C02_static_sibling_nonvacuous :
  jail (bs "/x/..//dir/./c.txt" ++ bs ".zst") = bs "/dir/c.txt.zst".
Proof. vm_compute. reflexivity. Qed.

(* Every body — identity-encoded or a precompressed sibling — is a regular file that is not
   hidden: a directory named like a sibling (name ++ ext) is passed over. *)
Theorem C02_static_serves_regular_file :
  forall fs hide pages prefix m req ae n enc,
  serve_file fs hide pages prefix m req ae = Serve n enc ->
  n_dir n = false /\ is_hidden fs hide n = false.
Proof. exact static_body_regular. Qed.
Print Assumptions C02_static_serves_regular_file.

(* the fixture has the directory /dir/e.gz beside the file /dir/e *)
Example C02_static_serves_regular_file_nonvacuous :
  serve_file fixture_fs gen_c02_hide gen_default_index_pages [SLASH] 0 (bs "/dir/e") (bs "gzip")
  = Serve {| n_path := bs "/dir/e"; n_dir := false; n_id := 24 |} None.
Proof. vm_compute. reflexivity. Qed.

(* However the path of a hidden regular file is spelled, the answer carries no content at all
   (it is 404, or the trailing-slash redirect). *)
Theorem C02_static_hidden_file_every_spelling :
  forall fs hide pages prefix m req ae d,
  fs_open fs req = Some d -> n_dir d = false -> is_hidden fs hide d = true ->
  forall n enc, serve_file fs hide pages prefix m req ae <> Serve n enc.
Proof. exact hidden_never_served. Qed.
Print Assumptions C02_static_hidden_file_every_spelling.

Example C02_static_hidden_file_nonvacuous :
  map (fun p => serve_file fixture_fs gen_c02_hide gen_default_index_pages [SLASH] 0 (bs p) (bs "gzip"))
      ["/Casketfile"; "/./Casketfile"; "/Casketfile/."; "//dir/..//Casketfile"; "/links/hard-casket"; "/a.txt"]%string
  = [Status 404; Status 404; Status 404; Status 404; Status 404;
     Serve {| n_path := bs "/a.txt.gz"; n_dir := false; n_id := 16 |} (Some (bs "gzip"))].
Proof. vm_compute. reflexivity. Qed.

(* Nothing the static file server returns is hidden — neither the file itself nor the
   precompressed sibling served in its place (IsHidden is applied to the sibling too). *)
Theorem C02_static_never_hidden :
  forall fs hide pages prefix m req ae n enc,
  serve_file fs hide pages prefix m req ae = Serve n enc -> is_hidden fs hide n = false.
Proof. exact static_never_hidden. Qed.
Print Assumptions C02_static_never_hidden.

(* a hidden sibling is passed over: the plain file is served (the fixture hides /hsib.txt.gz) *)
Example C02_static_never_hidden_nonvacuous :
  map (fun ae => match serve_file fixture_fs gen_c02_hide gen_default_index_pages [SLASH] 0 (bs "/hsib.txt") (bs ae) with
                 | Serve n enc => (n_path n, enc) | _ => ([], None) end)
      ["gzip"; "br, gzip"; ""]%string
  = [(bs "/hsib.txt", None); (bs "/hsib.txt", None); (bs "/hsib.txt", None)].
Proof. vm_compute. reflexivity. Qed.

(* ---- the origin Casketfile ---------------------------------------------------------------- *)
(* hideCasketfile: for an origin inside the root (absolute origin = absolute root ++ c, c cleaned)
   the hide-list entry is c itself, and opening it through the jail reaches exactly c. *)
Theorem C02_hide_casketfile_inside_root :
  forall root name,
  hide_casketfile root (root ++ jail name) = Some (jail name) /\ jail (jail name) = jail name.
Proof. exact hide_casketfile_inside. Qed.
Print Assumptions C02_hide_casketfile_inside_root.

(* ... hence, for EVERY spelling of EVERY request path, no body — identity-encoded or a
   precompressed sibling — is the Casketfile (compared as os.SameFile does: hard links included). *)
Theorem C02_casketfile_never_served :
  forall fs hide pages root name cf m req ae h,
  hide_casketfile root (root ++ jail name) = Some h -> In h hide ->
  fs_open fs (jail name) = Some cf ->
  forall n enc, serve_file fs hide pages [SLASH] m req ae = Serve n enc -> n_id n <> n_id cf.
Proof. exact casketfile_never_served. Qed.
Print Assumptions C02_casketfile_never_served.

(* ---- directory listings -------------------------------------------------------------------- *)
(* Everything a listing names is a child of the cleaned directory inside the tree and is not
   hidden. *)
Theorem C02_listing_inside_root_never_hidden :
  forall fs hide pages prefix confs m req ae archive limit kids,
  browse fs hide pages prefix confs m req ae archive limit = Listing kids ->
  forall k, In k kids ->
    In k fs /\ is_child (jail req) (n_path k) = true /\ is_hidden fs hide k = false.
Proof. exact listing_sound. Qed.
Print Assumptions C02_listing_inside_root_never_hidden.

Example C02_listing_nonvacuous :
  match browse fixture_fs gen_c02_hide gen_default_index_pages [SLASH] [{| b_scope := [SLASH]; b_types := [] |}]
               0 (bs "//dir/../") [] [] [] with
  | Listing kids => existsb (fun k => beq (n_path k) (bs "/a.txt")) kids &&
                    negb (existsb (fun k => beq (n_path k) (bs "/Casketfile")) kids)
  | _ => false
  end = true.
Proof. vm_compute. reflexivity. Qed.

(* ---- archives ------------------------------------------------------------------------------- *)
(* Every member of an archive is a node of the tree strictly below the cleaned directory
   (in particular lexically inside it, hence inside the root). *)
Theorem C02_archive_inside_root :
  forall fs hide pages prefix confs m req ae archive limit ms,
  browse fs hide pages prefix confs m req ae archive limit = Archive ms ->
  forall k, In k ms ->
    In k fs /\ is_desc (jail req) (n_path k) = true /\ has_prefix (n_path k) (jail req) = true.
Proof. exact archive_inside_root. Qed.
Print Assumptions C02_archive_inside_root.

(* never hidden, for archives: no member is hidden (in particular the archive of the root does not
   contain the origin Casketfile, a file hidden through `internal`, or a hard link to one), and no
   member lies below a hidden directory inside the archived one — the walker applies the IsHidden
   test of the listing to every entry and does not descend into a hidden directory. *)
Theorem C02_archive_never_hidden :
  forall fs hide pages prefix confs m req ae archive limit ms,
  browse fs hide pages prefix confs m req ae archive limit = Archive ms ->
  forall k, In k ms ->
    is_hidden fs hide k = false /\
    (forall a, In a fs -> n_dir a = true -> is_desc (jail req) (n_path a) = true ->
               is_desc (n_path a) (n_path k) = true -> is_hidden fs hide a = false).
Proof. exact archive_never_hidden. Qed.
Print Assumptions C02_archive_never_hidden.

Example C02_archive_never_hidden_nonvacuous :
  match browse fixture_fs gen_c02_hide gen_default_index_pages [SLASH] [{| b_scope := [SLASH]; b_types := gen_archive_types |}]
               0 [SLASH] [] (bs "zip") [] with
  | Archive ms => map (fun p => existsb (fun k => beq (n_path k) (bs p)) ms)
                      ["/a.txt"; "/dir/sub/d.txt"; "/Casketfile"; "/links/hard-casket"; "/secret.txt"; "/hsib.txt.gz";
                       "/hdir"; "/hdir/in.txt"]%string
  | _ => []
  end = [true; true; false; false; false; false; false; false].
Proof. vm_compute. reflexivity. Qed.

(* ---- redirects ------------------------------------------------------------------------------ *)
(* Every redirect of the static file server — on a site without a path prefix ([prefix] = "/") or
   with one (the prefix is put back in front of the path the handlers saw) — is a 307 whose Location
   starts with exactly one '/', and contains no backslash right after it. *)
Theorem C02_static_redirect_same_origin :
  forall fs hide pages prefix m req ae code loc,
  rooted prefix -> rooted req -> serve_file fs hide pages prefix m req ae = Redirect code loc ->
  code = 307 /\ one_slash loc = true /\ same_origin loc = true.
Proof. exact static_redirect. Qed.
Print Assumptions C02_static_redirect_same_origin.

Example C02_static_redirect_nonvacuous :
  map (fun p => serve_file fixture_fs gen_c02_hide gen_default_index_pages [SLASH] 0 (bs p) [])
      ["//evil.example/.."; "///evil.example/../a.txt/"; "/\evil.example/../dir"]%string
  = [Redirect 307 (bs "/"); Redirect 307 (bs "/a.txt"); Redirect 307 (bs "/dir/")].
Proof. vm_compute. reflexivity. Qed.

(* the site 127.0.0.1/pre: GET /pre//evil.example/.. reaches the handlers as //evil.example/.. *)
Example C02_static_redirect_prefix_site_nonvacuous :
  map (fun p => serve_file fixture_fs gen_c02_hide gen_default_index_pages (bs "/pre") 0 (bs p) [])
      ["//evil.example/.."; "//dir"; "//evil.example/../a.txt/"; "/dir/sub"]%string
  = [Redirect 307 (bs "/pre/"); Redirect 307 (bs "/pre/dir/"); Redirect 307 (bs "/pre/a.txt"); Redirect 307 (bs "/pre/dir/sub/")].
Proof. vm_compute. reflexivity. Qed.

(* browse: every redirect it issues (its own add-a-slash redirect, which trims a leading "//" like
   the static file server's, or the static file server's behind it) stays on the origin, however
   the request path is spelled. *)
Theorem C02_browse_redirect_same_origin :
  forall fs hide pages prefix confs m req ae archive limit code loc,
  rooted prefix -> rooted req ->
  browse fs hide pages prefix confs m req ae archive limit = Redirect code loc ->
  one_slash loc = true /\ same_origin loc = true.
Proof. exact browse_redirect. Qed.
Print Assumptions C02_browse_redirect_same_origin.

Example C02_browse_redirect_nonvacuous :
  map (fun p => browse fixture_fs gen_c02_hide gen_default_index_pages [SLASH] [{| b_scope := [SLASH]; b_types := [] |}]
                       0 (bs p) [] [] [])
      ["/x/..//dir/sub"; "//evil.example/.."; "///evil.example/../dir"; "/\evil.example/../dir"]%string
  = [Redirect 301 (bs "/dir/sub/"); Redirect 301 (bs "/"); Redirect 301 (bs "/dir/"); Redirect 301 (bs "/dir/")].
Proof. vm_compute. reflexivity. Qed.

(* ---- the whole site ---------------------------------------------------------------------- *)
(* internal in front of browse in front of the static file server ([handle] is the function the
   harness compares with the real sites): every content-carrying answer and every redirect of
   every site, for every request. *)
Theorem C02_site_sound :
  forall (s : site) (r : request),
  match handle s r with
  | Serve n enc =>
      is_get_head (q_meth r) = true /\ In n (s_fs s) /\
      served_from (s_pages s) (q_path r) (q_ae r) enc (n_path n) /\
      n_dir n = false /\ is_hidden (s_fs s) (s_hide s) n = false
  | Listing kids =>
      forall k, In k kids -> In k (s_fs s) /\ is_child (jail (q_path r)) (n_path k) = true /\
                             is_hidden (s_fs s) (s_hide s) k = false
  | Archive ms =>
      forall k, In k ms -> In k (s_fs s) /\ is_desc (jail (q_path r)) (n_path k) = true /\
                           has_prefix (n_path k) (jail (q_path r)) = true /\
                           is_hidden (s_fs s) (s_hide s) k = false
  | Redirect code loc =>
      rooted (s_prefix s) -> rooted (q_path r) -> one_slash loc = true /\ same_origin loc = true
  | Status _ => True
  end.
Proof. exact site_sound. Qed.
Print Assumptions C02_site_sound.

Example C02_site_sound_nonvacuous :
  map (fun p => match handle (mksite (bs "/srv/www") (bs "/srv/www/Casketfile") [SLASH] [SLASH] gen_archive_types) (mkreq 0 (bs p) (bs "br") [] []) with
                | Serve n _ => n_id n | Listing k => 1000 + N.of_nat (length k) | Redirect c _ => c
                | Status c => c | Archive _ => 2000 end)
      ["/a.txt"; "/dir/"; "/dir"; "/secret.txt"; "/Casketfile/."]
  = [15; 1005; 301; 404; 404].
Proof. vm_compute. reflexivity. Qed.

(* ---- the executable spec the case files evaluate ----------------------------------------- *)
(* [spec_ok] (hide list opened once, hidden directories and permitted names collected once per
   case) is extensionally the reference statement [spec_ok_ref]: nothing was weakened for speed. *)
Theorem C02_spec_ok_is_reference : forall s r o, spec_ok s r o = spec_ok_ref s r o.
Proof. exact spec_ok_eq. Qed.
Print Assumptions C02_spec_ok_is_reference.
