(* C02 — property theorems only.  Each is closed by [exact]/[apply] of a lemma proved in
   C02_Proofs.v and followed by Print Assumptions.

   "For every GET or HEAD request path, however it is spelled, the body returned by the
   file-serving handlers consists only of regular files inside the site root: the file the cleaned
   path names, its directory's index page, or a precompressed sibling the client accepts.  Nothing
   outside the root and no hidden file (in particular the origin Casketfile) is ever returned or
   listed, and every redirect these handlers issue has a Location starting with exactly one '/'."

   The file system is an arbitrary finite tree [fs] (universally quantified), request paths,
   Accept-Encoding values, hide lists, index-page lists, site path prefixes and browse
   configurations are arbitrary. *)
Require Import V.Lib V.GoPath V.GoPathProofs V.Gen_C02 V.Gen_C02b V.C02_Model V.C02_Proofs.
Open Scope N_scope.
Local Open Scope string_scope.

(* ---- the lexical jail -------------------------------------------------------------------- *)
(* Whatever bytes the request path consists of (dot segments, repeated slashes, backslashes,
   percent-decoded anything), the name http.Dir opens is root ++ c where c starts with '/', and
   every segment of c is non-empty, is not "." or ".." and contains no '/': c never climbs. *)
Theorem C02_clean_rooted_jail :
  forall (root name : bytes),
  has_prefix (jail name) [SLASH] = true /\
  has_prefix (root ++ jail name) root = true /\
  exists segs, jail name = SLASH :: join [SLASH] segs /\
    forall s, In s segs -> s <> [] /\ s <> [DOT] /\ s <> [DOT; DOT] /\ ~ In SLASH s.
Proof. exact clean_rooted_jail. Qed.
Print Assumptions C02_clean_rooted_jail.

Theorem C02_jail_idempotent : forall name, jail (jail name) = jail name.
Proof. exact jail_idem. Qed.
Print Assumptions C02_jail_idempotent.

(* ---- static files: what is served --------------------------------------------------------- *)
(* Every body the static file server returns is a node of the jailed tree, opened under the
   cleaned form of: the request path, one of its index pages, or one of these extended by the
   extension of an encoding the client accepts (exact-token match). Only GET/HEAD are served. *)
Theorem C02_static_served_inside_root :
  forall fs hide pages prefix m req ae n enc,
  serve_file fs hide pages prefix m req ae = Serve n enc ->
  is_get_head m = true /\ In n fs /\
  exists base, (base = req \/ exists pg, In pg pages /\ base = path_join2 req pg) /\
    match enc with
    | None => n_path n = jail base
    | Some e => exists ext, In (e, ext) gen_static_encodings /\ accepts ae e = true /\
                            n_path n = jail (base ++ ext)
    end.
Proof. exact static_served_inside_root. Qed.
Print Assumptions C02_static_served_inside_root.

(* "its directory's index page": for a rooted request path and an index-page name that is a plain
   segment, the index page opened is the child of that name of the cleaned directory. *)
Theorem C02_static_index_is_child_of_cleaned_dir :
  forall req pg, rooted req -> good_seg pg ->
  jail (path_join2 req pg) = child_path (jail req) pg.
Proof. exact index_is_child. Qed.
Print Assumptions C02_static_index_is_child_of_cleaned_dir.

Example C02_static_index_nonvacuous :
  jail (path_join2 (bs "/a/./b//../c/") (bs "index.html")) = bs "/a/c/index.html".
Proof. vm_compute. reflexivity. Qed.

(* "a precompressed sibling": for a request path whose last segment is a proper name (not empty,
   "." or ".."), whatever precedes it, the sibling name the server opens (path ++ ext) cleans to
   exactly the cleaned path with ext appended — the sibling of the file the cleaned path names. *)
Theorem C02_static_sibling_of_cleaned_path :
  forall p s e ext, In (e, ext) gen_static_encodings -> good_seg s ->
  jail ((p ++ SLASH :: s) ++ ext) = jail (p ++ SLASH :: s) ++ ext.
Proof. exact sibling_of_cleaned. Qed.
Print Assumptions C02_static_sibling_of_cleaned_path.

Example C02_static_sibling_nonvacuous :
  jail (bs "/x/..//dir/./c.txt" ++ bs ".zst") = bs "/dir/c.txt.zst".
Proof. vm_compute. reflexivity. Qed.

(* Every body — identity-encoded or a precompressed sibling — is a regular file that is not
   hidden: a directory named like a sibling (name ++ ext) is passed over. *)
Theorem C02_static_serves_regular_file :
  forall fs hide pages prefix m req ae n enc,
  serve_file fs hide pages prefix m req ae = Serve n enc ->
  n_dir n = false /\ is_hidden fs hide n = false.
Proof. exact static_body_regular. Qed.
Print Assumptions C02_static_serves_regular_file.

(* the fixture has the directory /dir/e.gz beside the file /dir/e *)
Example C02_static_serves_regular_file_nonvacuous :
  serve_file fixture_fs gen_c02_hide gen_default_index_pages [SLASH] 0 (bs "/dir/e") (bs "gzip")
  = Serve {| n_path := bs "/dir/e"; n_dir := false; n_id := 24 |} None.
Proof. vm_compute. reflexivity. Qed.

(* However the path of a hidden regular file is spelled, the answer carries no content at all
   (it is 404, or the trailing-slash redirect). *)
Theorem C02_static_hidden_file_every_spelling :
  forall fs hide pages prefix m req ae d,
  fs_open fs req = Some d -> n_dir d = false -> is_hidden fs hide d = true ->
  forall n enc, serve_file fs hide pages prefix m req ae <> Serve n enc.
Proof. exact hidden_never_served. Qed.
Print Assumptions C02_static_hidden_file_every_spelling.

Example C02_static_hidden_file_nonvacuous :
  map (fun p => serve_file fixture_fs gen_c02_hide gen_default_index_pages [SLASH] 0 (bs p) (bs "gzip"))
      ["/Casketfile"; "/./Casketfile"; "/Casketfile/."; "//dir/..//Casketfile"; "/links/hard-casket"; "/a.txt"]%string
  = [Status 404; Status 404; Status 404; Status 404; Status 404;
     Serve {| n_path := bs "/a.txt.gz"; n_dir := false; n_id := 16 |} (Some (bs "gzip"))].
Proof. vm_compute. reflexivity. Qed.

(* Nothing the static file server returns is hidden — neither the file itself nor the
   precompressed sibling served in its place (IsHidden is applied to the sibling too). *)
Theorem C02_static_never_hidden :
  forall fs hide pages prefix m req ae n enc,
  serve_file fs hide pages prefix m req ae = Serve n enc -> is_hidden fs hide n = false.
Proof. exact static_never_hidden. Qed.
Print Assumptions C02_static_never_hidden.

(* a hidden sibling is passed over: the plain file is served (the fixture hides /hsib.txt.gz) *)
Example C02_static_never_hidden_nonvacuous :
  map (fun ae => match serve_file fixture_fs gen_c02_hide gen_default_index_pages [SLASH] 0 (bs "/hsib.txt") (bs ae) with
                 | Serve n enc => (n_path n, enc) | _ => ([], None) end)
      ["gzip"; "br, gzip"; ""]%string
  = [(bs "/hsib.txt", None); (bs "/hsib.txt", None); (bs "/hsib.txt", None)].
Proof. vm_compute. reflexivity. Qed.

(* ---- the origin Casketfile ---------------------------------------------------------------- *)
(* hideCasketfile: for an origin inside the root (absolute origin = absolute root ++ c, c cleaned)
   the hide-list entry is c itself, and opening it through the jail reaches exactly c. *)
Theorem C02_hide_casketfile_inside_root :
  forall root name,
  hide_casketfile root (root ++ jail name) = Some (jail name) /\ jail (jail name) = jail name.
Proof. exact hide_casketfile_inside. Qed.
Print Assumptions C02_hide_casketfile_inside_root.

(* hideCasketfile runs once over the list of ALL site configs of the Casketfile (one per address
   of every server block).  Whatever the list — any number of sites, any roots, in any order — every
   site config gets ITS entry: the pass never stops early on a site whose root does not contain the
   Casketfile, and what a site gets does not depend on the sites declared before or after it. *)
Theorem C02_hide_casketfile_every_site :
  forall cfgs : list sconf,
  (forall c, In c cfgs -> sc_origin c <> []) ->
  length (hide_casketfile_all cfgs) = length cfgs /\
  forall i c, nth_error cfgs i = Some c -> nth i (hide_casketfile_all cfgs) [] = hide_entry c.
Proof. exact hide_all_every_site. Qed.
Print Assumptions C02_hide_casketfile_every_site.

(* `a { root /srv/a }  b { root /srv }` loaded from /srv/Casketfile, and the other order *)
Example C02_hide_casketfile_every_site_nonvacuous :
  let a := {| sc_root := bs "/srv/a"; sc_origin := bs "/srv/Casketfile" |} in
  let b := {| sc_root := bs "/srv"; sc_origin := bs "/srv/Casketfile" |} in
  let x := {| sc_root := bs "/sr"; sc_origin := bs "/srv/Casketfile" |} in
  hide_casketfile_all [a; b] = [[]; [bs "/Casketfile"]] /\
  hide_casketfile_all [b; a] = [[bs "/Casketfile"]; []] /\
  hide_casketfile_all [a; x; a; b; b] = [[]; [bs "v/Casketfile"]; []; [bs "/Casketfile"]; [bs "/Casketfile"]].
Proof. vm_compute. repeat split. Qed.

(* the one early return the code has: a site config WITHOUT an origin (configuration not loaded from
   a file) ends the pass; it and every later one get nothing.  (All site configs of an instance
   share their origin, so this never separates two sites of one Casketfile.) *)
Theorem C02_hide_casketfile_stops_at_missing_origin :
  forall pre c post,
  sc_origin c = [] -> (forall x, In x pre -> sc_origin x <> []) ->
  hide_casketfile_all (pre ++ c :: post) = map hide_entry pre ++ map (fun _ => []) (c :: post).
Proof. exact hide_all_stops. Qed.
Print Assumptions C02_hide_casketfile_stops_at_missing_origin.

Example C02_hide_casketfile_stops_nonvacuous :
  hide_casketfile_all [{| sc_root := bs "/srv"; sc_origin := bs "/srv/Casketfile" |};
                       {| sc_root := bs "/srv"; sc_origin := [] |};
                       {| sc_root := bs "/srv"; sc_origin := bs "/srv/Casketfile" |}]
  = [[bs "/Casketfile"]; []; []].
Proof. vm_compute. reflexivity. Qed.

(* the root "/" : the entry is the origin without its leading slash, and the jail opens the origin *)
Theorem C02_hide_casketfile_root_is_slash :
  forall name, hide_casketfile [SLASH] (jail name) = Some (tl (jail name)) /\ jail (tl (jail name)) = jail name.
Proof. exact hide_casketfile_root_slash. Qed.
Print Assumptions C02_hide_casketfile_root_is_slash.

(* hideCasketfile's test is a STRING-prefix test on the absolute paths, nothing else *)
Theorem C02_hide_casketfile_iff_string_prefix :
  forall root origin h,
  hide_casketfile root origin = Some h <->
  origin <> [] /\ has_prefix origin root = true /\ h = skipn (List.length root) origin.
Proof. exact hide_casketfile_iff. Qed.
Print Assumptions C02_hide_casketfile_iff_string_prefix.

(* It never UNDER-hides: whenever the origin lies component-wise inside the root — [reroot], the
   containment test of the executable origin clause the multi-site cases are judged by, which knows
   nothing of string prefixes — for a tree at ANY place [base], a root at ANY cleaned place [rootrel]
   of it ("/" = the tree itself) and ANY origin below, the site gets an entry, and the jail opens
   that entry at exactly the origin's place inside the root. *)
Theorem C02_origin_inside_root_is_hidden :
  forall base rootrel x p,
  reroot rootrel (jail x) = Some p ->
  exists h, hide_casketfile (abs_of base rootrel) (base ++ jail x) = Some h /\ jail h = p /\ jail p = p.
Proof. exact origin_inside_root_is_hidden. Qed.
Print Assumptions C02_origin_inside_root_is_hidden.

Example C02_origin_inside_root_nonvacuous :
  map (fun d => reroot (bs d) (jail (bs "www/./Casketfile")))
      ["/"; "/www"; "/www/pub"; "/ww"; "/other"; "/www/Casketfile"]
  = [Some (bs "/www/Casketfile"); Some (bs "/Casketfile"); None; None; None; Some [SLASH]].
Proof. vm_compute. reflexivity. Qed.

(* The converse is FALSE of the code: an entry is also made for a root that merely is a string
   prefix of the origin's path (root /srv/ww, Casketfile in /srv/www): the entry "w/Casketfile" then
   hides an unrelated file INSIDE the root (the jail keeps it there: C02_clean_rooted_jail) — an
   over-hiding, never a disclosure. *)
Theorem C02_hide_casketfile_only_inside_refuted :
  exists root origin h, hide_casketfile root origin = Some h /\ reroot root origin = None.
Proof. exists (bs "/srv/ww"), (bs "/srv/www/Casketfile"), (bs "w/Casketfile"). vm_compute. split; reflexivity. Qed.
Print Assumptions C02_hide_casketfile_only_inside_refuted.

(* ... hence, for EVERY list of site configs, EVERY position in it whose root contains the origin
   Casketfile, EVERY spelling of EVERY request path and EVERY site path prefix: no body —
   identity-encoded or a precompressed sibling — is the Casketfile (compared as os.SameFile does:
   hard links included).  [hide] is any hide list containing that site's entry of the pass (the
   `internal` paths come on top). *)
Theorem C02_casketfile_never_served :
  forall (cfgs : list sconf) (i : nat) (c : sconf) name fs hide cf,
  (forall x, In x cfgs -> sc_origin x <> []) ->
  nth_error cfgs i = Some c ->
  sc_origin c = sc_root c ++ jail name ->
  (forall h, In h (nth i (hide_casketfile_all cfgs) []) -> In h hide) ->
  fs_open fs (jail name) = Some cf ->
  forall pages prefix m req ae n enc,
  serve_file fs hide pages prefix m req ae = Serve n enc -> n_id n <> n_id cf.
Proof. exact multi_casketfile_never_served. Qed.
Print Assumptions C02_casketfile_never_served.

(* the second of two sites, after a site whose root does not contain the Casketfile *)
Example C02_casketfile_never_served_nonvacuous :
  let cfgs := msite_confs [bs "/base/www/pub"; bs "/base/www/"] (bs "/base/www/Casketfile") in
  nth 1 (hide_casketfile_all cfgs) [] = [bs "/Casketfile"] /\
  map (fun p => handle (msite [bs "/base/www/pub"; bs "/base/www/"] (bs "/base/www/Casketfile") 1 (bs "/www") [SLASH] [bs "zip"])
                       (mkreq 0 (bs p) [] [] []))
      ["/Casketfile"; "//x/../Casketfile"; "/links/hard-casket"]
  = [Status 404; Status 404; Status 404] /\
  handle (msite [bs "/base/www/pub"; bs "/base/www/"] (bs "/base/www/Casketfile") 0 (bs "/www/pub") [SLASH] [bs "zip"])
         (mkreq 0 (bs "/Casketfile") [] [] [])
  = Serve {| n_path := bs "/Casketfile"; n_dir := false; n_id := 222 |} None.
Proof. vm_compute. repeat split. Qed.

(* the statement for one site (the list [c], position 0) *)
Theorem C02_casketfile_never_served_one_site :
  forall fs hide pages root name cf m req ae h,
  hide_casketfile root (root ++ jail name) = Some h -> In h hide ->
  fs_open fs (jail name) = Some cf ->
  forall n enc, serve_file fs hide pages [SLASH] m req ae = Serve n enc -> n_id n <> n_id cf.
Proof. exact casketfile_never_served. Qed.
Print Assumptions C02_casketfile_never_served_one_site.

(* neither is it listed, nor packed into an archive *)
Theorem C02_casketfile_never_listed_nor_archived :
  forall (cfgs : list sconf) (i : nat) (c : sconf) name fs hide cf,
  (forall x, In x cfgs -> sc_origin x <> []) ->
  nth_error cfgs i = Some c ->
  sc_origin c = sc_root c ++ jail name ->
  (forall h, In h (nth i (hide_casketfile_all cfgs) []) -> In h hide) ->
  fs_open fs (jail name) = Some cf ->
  forall pages prefix confs m req ae archive limit,
  (forall kids, browse fs hide pages prefix confs m req ae archive limit = Listing kids ->
                forall k, In k kids -> n_id k <> n_id cf) /\
  (forall ms, browse fs hide pages prefix confs m req ae archive limit = Archive ms ->
              forall k, In k ms -> n_id k <> n_id cf).
Proof.
  intros cfgs i c name fs hide cf H1 H2 H3 H4 H5 pages prefix confs m req ae archive limit. split.
  - intros kids. exact (multi_casketfile_never_listed cfgs i c name fs hide cf H1 H2 H3 H4 H5 pages prefix confs m req ae archive limit kids).
  - intros ms. exact (multi_casketfile_never_archived cfgs i c name fs hide cf H1 H2 H3 H4 H5 pages prefix confs m req ae archive limit ms).
Qed.
Print Assumptions C02_casketfile_never_listed_nor_archived.

Example C02_casketfile_never_listed_nor_archived_nonvacuous :
  let s := msite [bs "/base/other"; bs "/base"; bs "/base/www"] (bs "/base/www/Casketfile") 1 [SLASH] [SLASH] [bs "zip"] in
  match handle s (mkreq 0 (bs "/www/") [] [] []), handle s (mkreq 0 (bs "/www/") [] (bs "zip") []) with
  | Listing kids, Archive ms =>
      (map (fun k => n_path k) kids, existsb (fun k => n_id k =? 214) ms, existsb (fun k => n_id k =? 215) ms)
  | _, _ => ([], true, false)
  end = ([bs "/www/a.txt"; bs "/www/a.txt.gz"; bs "/www/hid.txt"; bs "/www/links"; bs "/www/pub"], false, true).
Proof. vm_compute. reflexivity. Qed.

(* the whole handler chain (internal -> browse -> static) of the site config at ANY position of ANY
   multi-site Casketfile, as the harness builds it ([msite]: the site's root is a sub-tree of the
   tree the Casketfile lives in; roots as written in the Casketfile, cleaned as filepath.Abs does) *)
Theorem C02_multisite_casketfile_never_disclosed :
  forall roots origin pos root rootrel scope types name cf (r : request),
  origin <> [] -> nth_error roots pos = Some root ->
  abs_path origin = abs_path root ++ jail name ->
  fs_open (subtree mtree_fs rootrel) (jail name) = Some cf ->
  match handle (msite roots origin pos rootrel scope types) r with
  | Serve n _ => n_id n <> n_id cf
  | Listing kids => forall k, In k kids -> n_id k <> n_id cf
  | Archive ms => forall k, In k ms -> n_id k <> n_id cf
  | _ => True
  end.
Proof. exact msite_casketfile_never_disclosed. Qed.
Print Assumptions C02_multisite_casketfile_never_disclosed.

Example C02_multisite_nonvacuous :
  abs_path (bs "/base/www/Casketfile") = abs_path (bs "/base/x/../") ++ jail (bs "www/Casketfile") /\
  fs_open (subtree mtree_fs [SLASH]) (jail (bs "www/Casketfile")) =
    Some {| n_path := bs "/www/Casketfile"; n_dir := false; n_id := 214 |}.
Proof. vm_compute. split; reflexivity. Qed.

(* what a site whose root is a sub-directory shows is that sub-tree: every node comes from a node
   of the tree at or (component-wise) below the directory, with its identity *)
Theorem C02_subtree_inside :
  forall fs d n, In n (subtree fs d) ->
  exists n0, In n0 fs /\ n_id n = n_id n0 /\ n_dir n = n_dir n0 /\
    ((d = [SLASH] /\ n_path n = n_path n0) \/
     (n_path n0 = d /\ n_path n = [SLASH]) \/
     (is_desc d (n_path n0) = true /\ n_path n = SLASH :: rel_name d (n_path n0))).
Proof. exact subtree_inside. Qed.
Print Assumptions C02_subtree_inside.

Example C02_subtree_nonvacuous :
  map (fun n => n_path n) (subtree mtree_fs (bs "/ww")) =
  [bs "/"; bs "/Casketfile"; bs "/q.txt"; bs "/w"; bs "/w/Casketfile"].
Proof. vm_compute. reflexivity. Qed.

(* ---- directory listings -------------------------------------------------------------------- *)
(* Everything a listing names is a child of the cleaned directory inside the tree and is not
   hidden. *)
Theorem C02_listing_inside_root_never_hidden :
  forall fs hide pages prefix confs m req ae archive limit kids,
  browse fs hide pages prefix confs m req ae archive limit = Listing kids ->
  forall k, In k kids ->
    In k fs /\ is_child (jail req) (n_path k) = true /\ is_hidden fs hide k = false.
Proof. exact listing_sound. Qed.
Print Assumptions C02_listing_inside_root_never_hidden.

Example C02_listing_nonvacuous :
  match browse fixture_fs gen_c02_hide gen_default_index_pages [SLASH] [{| b_scope := [SLASH]; b_types := [] |}]
               0 (bs "//dir/../") [] [] [] with
  | Listing kids => existsb (fun k => beq (n_path k) (bs "/a.txt")) kids &&
                    negb (existsb (fun k => beq (n_path k) (bs "/Casketfile")) kids)
  | _ => false
  end = true.
Proof. vm_compute. reflexivity. Qed.

(* sort, order and limit (and the format, HTML or JSON) select and order entries of the SAME filtered
   list: a listing is issued only for a limit strconv.Atoi accepts, and which entries are candidates
   does not depend on the limit — the cut comes after the hidden entries are taken out. *)
Theorem C02_listing_independent_of_limit :
  forall fs hide pages prefix confs m req ae archive l1 l2 k1 k2,
  browse fs hide pages prefix confs m req ae archive l1 = Listing k1 ->
  browse fs hide pages prefix confs m req ae archive l2 = Listing k2 ->
  k1 = k2 /\ limit_of l1 <> None /\ limit_of l2 <> None.
Proof.
  intros fs hide pages prefix confs m req ae archive l1 l2 k1 k2 H1 H2. split; [|split].
  - exact (listing_independent_of_limit _ _ _ _ _ _ _ _ _ _ _ _ _ H1 H2).
  - exact (listing_limit_ok _ _ _ _ _ _ _ _ _ _ _ H1).
  - exact (listing_limit_ok _ _ _ _ _ _ _ _ _ _ _ H2).
Qed.
Print Assumptions C02_listing_independent_of_limit.

Example C02_listing_limit_nonvacuous :
  map (fun l => match browse fixture_fs gen_c02_hide gen_default_index_pages [SLASH] [{| b_scope := [SLASH]; b_types := [] |}]
                             0 [SLASH] [] [] (bs l) with
                | Listing kids => N.of_nat (length kids) | Status c => c | _ => 0 end)
      [""; "2"; "+2"; "-1"; "007"; "9223372036854775807"; "9223372036854775808"; "-9223372036854775808"; "abc"; "1e3"; "-"; " 1"; "1_0"]
  = [22; 22; 22; 22; 22; 22; 400; 22; 400; 400; 400; 400; 400].
Proof. vm_compute. reflexivity. Qed.

(* The numbers an HTML listing announces ("N directories, M files") count what the listing lists:
   the directories and the files among its entries — the non-hidden children of the cleaned
   directory — and nothing else, so a listing does not disclose how many hidden entries its
   directory has.  Together they are the number of entries, and they are the numbers the executable
   property asks for ([counts_ok], evaluated on every observed HTML listing).  (directoryListing
   used to count BEFORE the IsHidden test: finding F-C02-6, repaired; its witnesses are replayed on
   the real server on every run, corpus/C02/listing_counts_hidden_children.json.) *)
Theorem C02_listing_counts :
  forall fs hide pages prefix confs m req ae archive limit kids,
  browse fs hide pages prefix confs m req ae archive limit = Listing kids ->
  announced_counts fs hide (jail req) = (count_kind true kids, count_kind false kids) /\
  count_kind true kids + count_kind false kids = N.of_nat (length kids) /\
  counts_ok [fst (announced_counts fs hide (jail req)); snd (announced_counts fs hide (jail req))]
            (filter (fun k => negb (hidden_id fs hide (n_id k))) (children fs (jail req))) = true.
Proof. exact listing_counts. Qed.
Print Assumptions C02_listing_counts.

(* the fixture's root has 10 directories and 16 files, one directory and three files of them hidden
   (the origin Casketfile; `internal` /hdir, /hsib.txt.gz, /secret.txt): its listing announces 9 and 13 and
   lists 22 entries (before the repair it announced 10 and 16); /dir has nothing hidden *)
Example C02_listing_counts_nonvacuous :
  match browse fixture_fs gen_c02_hide gen_default_index_pages [SLASH] [{| b_scope := [SLASH]; b_types := [] |}]
               0 [SLASH] [] [] [] with
  | Listing kids => N.of_nat (length kids) | _ => 0 end = 22 /\
  (count_kind true (children fixture_fs [SLASH]), count_kind false (children fixture_fs [SLASH])) = (10, 16) /\
  announced_counts fixture_fs gen_c02_hide [SLASH] = (9, 13) /\
  announced_counts fixture_fs gen_c02_hide (bs "/dir") = (2, 3) /\
  announced_counts fixture_fs [] [SLASH] = (10, 16).
Proof. vm_compute. repeat split; reflexivity. Qed.

(* ---- HEAD ----------------------------------------------------------------------------------- *)
(* A HEAD request is answered as the GET request for the same target, query and headers would be:
   the same status, the same redirect, the headers of the same file (the harness identifies the file
   a HEAD answer describes by its ETag, Content-Length and Last-Modified, and holds it to the rules
   a GET body is held to).  Whatever is true of GET answers above is true of HEAD answers. *)
Theorem C02_head_like_get :
  forall (s : site) p ae archive limit, handle s (mkreq 1 p ae archive limit) = handle s (mkreq 0 p ae archive limit).
Proof. exact head_like_get. Qed.
Print Assumptions C02_head_like_get.

(* ---- archives ------------------------------------------------------------------------------- *)
(* Every member of an archive is a node of the tree strictly below the cleaned directory
   (in particular lexically inside it, hence inside the root). *)
Theorem C02_archive_inside_root :
  forall fs hide pages prefix confs m req ae archive limit ms,
  browse fs hide pages prefix confs m req ae archive limit = Archive ms ->
  forall k, In k ms ->
    In k fs /\ is_desc (jail req) (n_path k) = true /\ has_prefix (n_path k) (jail req) = true.
Proof. exact archive_inside_root. Qed.
Print Assumptions C02_archive_inside_root.

(* never hidden, for archives: no member is hidden (in particular the archive of the root does not
   contain the origin Casketfile, a file hidden through `internal`, or a hard link to one), and no
   member lies below a hidden directory inside the archived one — the walker applies the IsHidden
   test of the listing to every entry and does not descend into a hidden directory. *)
Theorem C02_archive_never_hidden :
  forall fs hide pages prefix confs m req ae archive limit ms,
  browse fs hide pages prefix confs m req ae archive limit = Archive ms ->
  forall k, In k ms ->
    is_hidden fs hide k = false /\
    (forall a, In a fs -> n_dir a = true -> is_desc (jail req) (n_path a) = true ->
               is_desc (n_path a) (n_path k) = true -> is_hidden fs hide a = false).
Proof. exact archive_never_hidden. Qed.
Print Assumptions C02_archive_never_hidden.

Example C02_archive_never_hidden_nonvacuous :
  match browse fixture_fs gen_c02_hide gen_default_index_pages [SLASH] [{| b_scope := [SLASH]; b_types := gen_archive_types |}]
               0 [SLASH] [] (bs "zip") [] with
  | Archive ms => map (fun p => existsb (fun k => beq (n_path k) (bs p)) ms)
                      ["/a.txt"; "/dir/sub/d.txt"; "/Casketfile"; "/links/hard-casket"; "/secret.txt"; "/hsib.txt.gz";
                       "/hdir"; "/hdir/in.txt"]%string
  | _ => []
  end = [true; true; false; false; false; false; false; false].
Proof. vm_compute. reflexivity. Qed.

(* ---- redirects ------------------------------------------------------------------------------ *)
(* Every redirect of the static file server — on a site without a path prefix ([prefix] = "/") or
   with one (the prefix is put back in front of the path the handlers saw) — is a 307 whose Location
   starts with exactly one '/', and contains no backslash right after it. *)
Theorem C02_static_redirect_same_origin :
  forall fs hide pages prefix m req ae code loc,
  rooted prefix -> rooted req -> serve_file fs hide pages prefix m req ae = Redirect code loc ->
  code = 307 /\ one_slash loc = true /\ same_origin loc = true.
Proof. exact static_redirect. Qed.
Print Assumptions C02_static_redirect_same_origin.

Example C02_static_redirect_nonvacuous :
  map (fun p => serve_file fixture_fs gen_c02_hide gen_default_index_pages [SLASH] 0 (bs p) [])
      ["//evil.example/.."; "///evil.example/../a.txt/"; "/\evil.example/../dir"]%string
  = [Redirect 307 (bs "/"); Redirect 307 (bs "/a.txt"); Redirect 307 (bs "/dir/")].
Proof. vm_compute. reflexivity. Qed.

(* the site 127.0.0.1/pre: GET /pre//evil.example/.. reaches the handlers as //evil.example/.. *)
Example C02_static_redirect_prefix_site_nonvacuous :
  map (fun p => serve_file fixture_fs gen_c02_hide gen_default_index_pages (bs "/pre") 0 (bs p) [])
      ["//evil.example/.."; "//dir"; "//evil.example/../a.txt/"; "/dir/sub"]%string
  = [Redirect 307 (bs "/pre/"); Redirect 307 (bs "/pre/dir/"); Redirect 307 (bs "/pre/a.txt"); Redirect 307 (bs "/pre/dir/sub/")].
Proof. vm_compute. reflexivity. Qed.

(* browse: every redirect it issues (its own add-a-slash redirect, which trims a leading "//" like
   the static file server's, or the static file server's behind it) stays on the origin, however
   the request path is spelled. *)
Theorem C02_browse_redirect_same_origin :
  forall fs hide pages prefix confs m req ae archive limit code loc,
  rooted prefix -> rooted req ->
  browse fs hide pages prefix confs m req ae archive limit = Redirect code loc ->
  one_slash loc = true /\ same_origin loc = true.
Proof. exact browse_redirect. Qed.
Print Assumptions C02_browse_redirect_same_origin.

Example C02_browse_redirect_nonvacuous :
  map (fun p => browse fixture_fs gen_c02_hide gen_default_index_pages [SLASH] [{| b_scope := [SLASH]; b_types := [] |}]
                       0 (bs p) [] [] [])
      ["/x/..//dir/sub"; "//evil.example/.."; "///evil.example/../dir"; "/\evil.example/../dir"]%string
  = [Redirect 301 (bs "/dir/sub/"); Redirect 301 (bs "/"); Redirect 301 (bs "/dir/"); Redirect 301 (bs "/dir/")].
Proof. vm_compute. reflexivity. Qed.

(* ---- the whole site ---------------------------------------------------------------------- *)
(* internal in front of browse in front of the static file server ([handle] is the function the
   harness compares with the real sites): every content-carrying answer and every redirect of
   every site, for every request. *)
Theorem C02_site_sound :
  forall (s : site) (r : request),
  match handle s r with
  | Serve n enc =>
      is_get_head (q_meth r) = true /\ In n (s_fs s) /\
      served_from (s_pages s) (q_path r) (q_ae r) enc (n_path n) /\
      n_dir n = false /\ is_hidden (s_fs s) (s_hide s) n = false
  | Listing kids =>
      forall k, In k kids -> In k (s_fs s) /\ is_child (jail (q_path r)) (n_path k) = true /\
                             is_hidden (s_fs s) (s_hide s) k = false
  | Archive ms =>
      forall k, In k ms -> In k (s_fs s) /\ is_desc (jail (q_path r)) (n_path k) = true /\
                           has_prefix (n_path k) (jail (q_path r)) = true /\
                           is_hidden (s_fs s) (s_hide s) k = false
  | Redirect code loc =>
      rooted (s_prefix s) -> rooted (q_path r) -> one_slash loc = true /\ same_origin loc = true
  | Status _ => True
  end.
Proof. exact site_sound. Qed.
Print Assumptions C02_site_sound.

Example C02_site_sound_nonvacuous :
  map (fun p => match handle (mksite (bs "/srv/www") (bs "/srv/www/Casketfile") [SLASH] [SLASH] gen_archive_types) (mkreq 0 (bs p) (bs "br") [] []) with
                | Serve n _ => n_id n | Listing k => 1000 + N.of_nat (length k) | Redirect c _ => c
                | Status c => c | Archive _ => 2000 end)
      ["/a.txt"; "/dir/"; "/dir"; "/secret.txt"; "/Casketfile/."]
  = [15; 1005; 301; 404; 404].
Proof. vm_compute. reflexivity. Qed.

(* ---- sequences on one running site ------------------------------------------------------- *)
(* Requests interleaved with ANY changes of the files below the root (a hidden file or directory
   replaced by a new inode is one of them): every answer of every history is [handle] evaluated on
   the file system as it is when the request arrives — hide list included: IsHidden compares with
   the files the hide-list entries name NOW — and has every guarantee of C02_site_sound with
   respect to that file system.  (Seeded change C02-m9 remembered the FileInfo of the hide-list
   entries: after the Casketfile had been replaced it was served.) *)
Theorem C02_hidden_check_uses_current_files :
  forall (s : site) (h : list event) (fs : fsys) (r : request) (o : outcome),
  In (fs, r, o) (run_history s h) ->
  o = handle (with_fs s fs) r /\
  match o with
  | Serve n enc =>
      is_get_head (q_meth r) = true /\ In n fs /\
      served_from (s_pages s) (q_path r) (q_ae r) enc (n_path n) /\
      n_dir n = false /\ is_hidden fs (s_hide s) n = false
  | Listing kids =>
      forall k, In k kids -> In k fs /\ is_child (jail (q_path r)) (n_path k) = true /\
                             is_hidden fs (s_hide s) k = false
  | Archive ms =>
      forall k, In k ms -> In k fs /\ is_desc (jail (q_path r)) (n_path k) = true /\
                           has_prefix (n_path k) (jail (q_path r)) = true /\
                           is_hidden fs (s_hide s) k = false
  | Redirect code loc =>
      rooted (s_prefix s) -> rooted (q_path r) -> one_slash loc = true /\ same_origin loc = true
  | Status _ => True
  end.
Proof. exact history_current_files. Qed.
Print Assumptions C02_hidden_check_uses_current_files.

(* what was asked and what was on disk earlier is irrelevant: after ANY two histories that leave
   the same files on disk, the next request gets the same answer *)
Theorem C02_history_irrelevant :
  forall (s : site) (h1 h2 : list event) (fs : fsys) (r : request),
  run_history s (h1 ++ [EDisk fs; EReq r]) = run_history s h1 ++ [(fs, r, handle (with_fs s fs) r)] /\
  run_history s (h2 ++ [EDisk fs; EReq r]) = run_history s h2 ++ [(fs, r, handle (with_fs s fs) r)].
Proof. exact history_irrelevant. Qed.
Print Assumptions C02_history_irrelevant.

(* the Casketfile (identity 11 in the fixture) replaced by a new inode (identity 999) between two
   requests, then the hidden directory: still 404, not listed, not archived; a visible file
   replaced is served with its new identity *)
Example C02_hidden_check_uses_current_files_nonvacuous :
  let s := mksite (bs "/srv/www") (bs "/srv/www/Casketfile") [SLASH] [SLASH] gen_archive_types in
  let fs1 := reinode fixture_fs (bs "/Casketfile") 999 in
  let fs2 := reinode fs1 (bs "/hdir") 998 in
  let fs3 := reinode fs2 (bs "/a.txt") 997 in
  map (fun x => match snd x with
                | Serve n _ => n_id n
                | Listing k => if existsb (fun n => (n_id n =? 999) || (n_id n =? 998)) k then 1 else 1000
                | Archive k => if existsb (fun n => (n_id n =? 999) || (n_id n =? 998)) k then 2 else 2000
                | Redirect c _ => c | Status c => c end)
      (run_history s [EReq (mkreq 0 (bs "/a.txt") [] [] []); EReq (mkreq 0 (bs "/Casketfile") [] [] []);
                      EDisk fs1; EReq (mkreq 0 (bs "/Casketfile") [] [] []); EReq (mkreq 0 (bs "/") [] [] []);
                      EDisk fs2; EReq (mkreq 0 (bs "/") [] (bs "zip") []); EReq (mkreq 0 (bs "/hdir/in.txt") [] [] []);
                      EDisk fs3; EReq (mkreq 0 (bs "/a.txt") [] [] [])])
  = [14; 404; 404; 1000; 2000; 404; 997].
Proof. vm_compute. reflexivity. Qed.

(* ---- the executable spec the case files evaluate ----------------------------------------- *)
(* [spec_ok] (hide list opened once, hidden directories and permitted names collected once per
   case) is extensionally the reference statement [spec_ok_ref]: nothing was weakened for speed. *)
Theorem C02_spec_ok_is_reference : forall s r o, spec_ok s r o = spec_ok_ref s r o.
Proof. exact spec_ok_eq. Qed.
Print Assumptions C02_spec_ok_is_reference.

(* ---- Range and conditional requests (http.ServeContent behind serve_file) ------------------ *)
(* every range net/http's parseRange returns lies inside the file, for EVERY header value and size *)
Theorem C02_range_parse_inside_file :
  forall (hdr : bytes) (size : N) (rs : list (N * N)),
  parse_range hdr size = RRanges rs -> Forall (fun r => fst r + snd r <= size) rs.
Proof. exact parse_range_inside. Qed.
Print Assumptions C02_range_parse_inside_file.

Example C02_range_parse_inside_file_nonvacuous :
  parse_range (bs "bytes=0-2, 5-7 ,-2,999-,4-") 10 = RRanges [(0, 3); (5, 3); (8, 2); (4, 6)] /\
  parse_range (bs "bytes=999-") 10 = RNoOverlap /\ parse_range (bs "bytes=5-2") 10 = RErr /\
  parse_range (bs "bytes=-+2") 10 = RRanges [(8, 2)] /\ parse_range (bs "Bytes=0-1") 10 = RErr.
Proof. vm_compute. repeat split; reflexivity. Qed.

(* a 206 answer: at least one range, each inside the file, together no longer than the file *)
Theorem C02_range_206_ranges :
  forall (size : N) (q : cond) (rs : list (N * N)),
  serve_content size q = CParts rs ->
  Forall (fun r => fst r + snd r <= size) rs /\ rs <> [] /\ sum_lens rs <= size.
Proof. exact serve_content_parts. Qed.
Print Assumptions C02_range_206_ranges.

Example C02_range_206_ranges_nonvacuous :
  serve_content 10 (mkcond (bs "bytes=0-1,3-4") 0 0 0) = CParts [(0, 2); (3, 2)] /\
  serve_content 10 (mkcond (bs "bytes=0-9,0-9") 0 0 0) = CFull /\
  serve_content 10 (mkcond (bs "bytes=0-1") 2 1 1) = CParts [(0, 2)] /\
  serve_content 10 (mkcond (bs "bytes=0-1") 0 1 0) = CNotModified /\
  serve_content 10 (mkcond (bs "bytes=0-1") 0 0 2) = CFull /\
  serve_content 10 (mkcond (bs "bytes=10-") 0 0 0) = CUnsat.
Proof. vm_compute. repeat split; reflexivity. Qed.

(* every piece of body ServeContent sends for a content is the slice of that content its range
   names (or the whole of it) *)
Theorem C02_range_body_is_slice_of_content :
  forall (cnt : bytes) (q : cond) (p : bytes),
  In p (content_body cnt (serve_content (blen cnt) q)) ->
  exists pre post, cnt = pre ++ p ++ post /\
    (p = cnt \/ exists r, p = piece cnt r /\ length pre = N.to_nat (fst r) /\
                          length p = N.to_nat (snd r) /\ fst r + snd r <= blen cnt).
Proof. exact content_body_slices. Qed.
Print Assumptions C02_range_body_is_slice_of_content.

Example C02_range_body_is_slice_of_content_nonvacuous :
  content_body (bs "TOKAz9q-xy") (serve_content 10 (mkcond (bs "bytes=0-2,-2") 0 0 0)) = [bs "TOK"; bs "xy"].
Proof. vm_compute. reflexivity. Qed.

(* THE statement for Range / conditional requests: for EVERY site, request, Range header and
   outcome of the validators, every piece of file content in the answer (200, 206 single or
   multipart) is a slice of the content of the ONE node the request resolves to — a node of the
   tree opened at the cleaned path / an index page / an accepted precompressed sibling of these,
   a regular file, NOT hidden (so never a hidden file, never a hidden precompressed sibling) *)
Theorem C02_range_content_from_the_visible_file :
  forall (content : N -> bytes) (s : site) (r : request) (q : cond) (p : bytes),
  In p (answer_body content r (respond (fun id => blen (content id)) s r q)) ->
  exists n enc pre post,
    handle s r = Serve n enc /\ q_meth r = 0 /\ In n (s_fs s) /\
    served_from (s_pages s) (q_path r) (q_ae r) enc (n_path n) /\
    n_dir n = false /\ is_hidden (s_fs s) (s_hide s) n = false /\
    content (n_id n) = pre ++ p ++ post.
Proof. exact respond_sound. Qed.
Print Assumptions C02_range_content_from_the_visible_file.

Example C02_range_content_from_the_visible_file_nonvacuous :
  let s := mksite (bs "/srv/www") (bs "/srv/www/Casketfile") [SLASH] [SLASH] gen_archive_types in
  let content := fun id : N => bs "TOKAz9q-xy" in
  map (fun p => answer_body content (mkreq 0 (bs p) [] [] [])
                  (respond (fun id => blen (content id)) s (mkreq 0 (bs p) [] [] []) (mkcond (bs "bytes=1-2,-1") 0 0 0)))
      ["/a.txt"; "/Casketfile"; "/secret.txt"]
  = [[bs "OK"; bs "y"]; []; []].
Proof. vm_compute. reflexivity. Qed.

(* HEAD, 304 and 416 carry no file content *)
Theorem C02_range_304_416_head_no_content :
  forall (content : N -> bytes) (s : site) (r : request) (q : cond),
  let a := respond (fun id => blen (content id)) s r q in
  q_meth r = 1 \/ answer_status a = 304 \/ answer_status a = 416 ->
  answer_body content r a = [].
Proof. exact respond_no_content. Qed.
Print Assumptions C02_range_304_416_head_no_content.

Example C02_range_304_416_head_no_content_nonvacuous :
  let s := mksite (bs "/srv/www") (bs "/srv/www/Casketfile") [SLASH] [SLASH] gen_archive_types in
  map (fun q => answer_status (respond (fun _ => 10) s (mkreq 0 (bs "/a.txt") [] [] []) q))
      [mkcond [] 1 0 0; mkcond (bs "bytes=10-") 0 0 0; mkcond (bs "bytes=0-1") 0 0 0; no_cond]
  = [304; 416; 206; 200].
Proof. vm_compute. reflexivity. Qed.

(* a validator that says "not modified" wins over any Range header; a failed If-Range never
   yields a partial answer *)
Theorem C02_range_validators :
  forall (size : N) (q : cond),
  ((c_inm q = 1 \/ (c_inm q = 0 /\ c_ims q = 1)) -> serve_content size q = CNotModified) /\
  (c_ifr q = 2 -> serve_content size q = CNotModified \/ serve_content size q = CFull).
Proof. exact range_validators. Qed.
Print Assumptions C02_range_validators.

(* Range / conditional headers change nothing unless the answer is a file; without them a file
   answer is the whole file *)
Theorem C02_range_only_file_answers :
  forall (size_of : N -> N) (s : site) (r : request) (q : cond),
  (forall o, respond size_of s r q = AOther o -> o = handle s r /\ (forall n enc, o <> Serve n enc)) /\
  (forall n enc, handle s r = Serve n enc -> respond size_of s r no_cond = AContent n enc CFull).
Proof. exact range_only_file_answers. Qed.
Print Assumptions C02_range_only_file_answers.

(* ---- the listing filter is exact (finding F-C02-8, repaired) -------------------------------- *)
(* an entry of a directory is listed iff it is NOT hidden, where hidden is decided on the identity
   os.Stat reports — for a symbolic link the identity of its followed target (that is the identity
   the nodes of the symlink tree [stree_fs] carry): a link to a hidden file is not listed, a link
   to a visible file is *)
Theorem C02_listing_visible_iff_target_not_hidden :
  forall (fs : fsys) (hide : list bytes) (kids : list node) (k : node),
  In k (visible_kids fs hide kids) <-> In k kids /\ is_hidden fs hide k = false.
Proof. exact visible_kids_exact. Qed.
Print Assumptions C02_listing_visible_iff_target_not_hidden.

(* the symlink tree: /l has links to the Casketfile (401) and to /secret.txt (hidden by `internal`):
   neither is listed; the links to /in.txt and /d are *)
Example C02_listing_visible_iff_target_not_hidden_nonvacuous :
  let s := mksite_on stree_fs (bs "/s/root") (bs "/s/root/Casketfile") gen_c02_sinternal [SLASH] [SLASH] [] in
  match handle s (mkreq 0 (bs "/l/") [] [] []) with
  | Listing kids =>
      (existsb (fun k => beq (n_path k) (bs "/l/to-casket")) kids,
       existsb (fun k => beq (n_path k) (bs "/l/to-secret")) kids,
       existsb (fun k => beq (n_path k) (bs "/l/to-in")) kids,
       existsb (fun k => beq (n_path k) (bs "/l/to-dir")) kids)
  | _ => (true, true, false, false)
  end = (false, false, true, true).
Proof. vm_compute. reflexivity. Qed.
