(* C09 — the token-level model of parser.directives()/directive() delivers, for every block of
   well-formed directive lines, exactly the per-directive grouping of the line-level model. *)
Require Import V.Lib V.Gen_C09 V.C09_Model V.C09_Proofs.
Open Scope N_scope.

Section P.
Variable valid : bytes -> bool.
Variable braced : bool.

(* how parser.directive() walks over the tokens of one line after the directive name:
   result = nesting and last token, None if the line would end early / is rejected *)
Fixpoint scan (p : tok) (n : nat) (ts : list tok) : option (nat * tok) :=
  match ts with
  | [] => Some (n, p)
  | t :: r =>
      if is_open t then scan t (S n) r
      else if nl p t && Nat.eqb n 0 then None
      else if is_close t then match n with S n' => scan t n' r | O => None end
      else if is_import t && nl p t then None
      else scan t n r
  end.

Definition add_toks (d : bytes) (m : pmap) (ts : list tok) : pmap :=
  fold_left (fun m t => padd m d t) ts m.

Lemma pblock_scan d : forall ts p n m rest n' q,
  scan p n ts = Some (n', q) ->
  pblock valid braced (Some (d, n)) p m (ts ++ rest)
  = pblock valid braced (Some (d, n')) q (add_toks d m ts) rest.
Proof.
  induction ts as [|t r IH]; intros p n m rest n' q H.
  - simpl in H. injection H as <- <-. reflexivity.
  - simpl in H. simpl.
    destruct (is_open t); [apply IH; exact H|].
    destruct (nl p t && Nat.eqb n 0); [discriminate|].
    destruct (is_close t).
    + destruct n as [|n0]; [discriminate|]. apply IH. exact H.
    + destruct (is_import t && nl p t); [discriminate|]. apply IH. exact H.
Qed.

(* a source line: name token and the remaining tokens *)
Definition sline := (tok * list tok)%type.
Definition to_line (l : sline) : @line tok := (t_text (fst l), fst l :: snd l).
Definition flat (ls : list sline) : list tok := concat (map (fun l : sline => fst l :: snd l) ls).

Definition head_ok (t0 : tok) : bool :=
  negb (is_open t0) && negb (is_close t0) && negb (is_import t0) && valid (t_text t0).

(* lines after the first: each starts on a new line after the previous line's last token *)
Inductive lines_wf : tok -> list sline -> tok -> Prop :=
| wf_nil : forall p, lines_wf p [] p
| wf_cons : forall p t0 rest q ls q',
    nl p t0 = true -> head_ok t0 = true -> scan t0 0 rest = Some (0%nat, q) ->
    lines_wf q ls q' -> lines_wf p ((t0, rest) :: ls) q'.

Definition add_line (m : pmap) (l : sline) : pmap :=
  add_toks (t_text (fst l)) (padd m (t_text (fst l)) (fst l)) (snd l).
Definition pmap_of (m : pmap) (ls : list sline) : pmap := fold_left add_line ls m.

Lemma head_ok_parts t0 : head_ok t0 = true ->
  is_open t0 = false /\ is_close t0 = false /\ is_import t0 = false /\ valid (t_text t0) = true.
Proof.
  unfold head_ok. intro H.
  apply andb_true_iff in H as [H H4]. apply andb_true_iff in H as [H H3].
  apply andb_true_iff in H as [H1 H2].
  apply negb_true_iff in H1. apply negb_true_iff in H2. apply negb_true_iff in H3. auto.
Qed.

Lemma close_not_open c : is_close c = true -> is_open c = false.
Proof.
  unfold is_close, is_open. intro H. apply beq_eq in H. rewrite H. vm_compute. reflexivity.
Qed.

Lemma step_enter d p m t r :
  head_ok t = true -> nl p t = true ->
  pblock valid braced (Some (d, 0%nat)) p m (t :: r)
  = pblock valid braced (Some (t_text t, 0%nat)) t (padd m (t_text t) t) r.
Proof.
  intros H Hn. destruct (head_ok_parts t H) as [H1 [H2 [H3 H4]]].
  simpl. rewrite H1, Hn, H2, H3, H4. reflexivity.
Qed.

Lemma step_first p m t r :
  head_ok t = true ->
  pblock valid braced None p m (t :: r)
  = pblock valid braced (Some (t_text t, 0%nat)) t (padd m (t_text t) t) r.
Proof.
  intros H. destruct (head_ok_parts t H) as [H1 [H2 [H3 H4]]].
  simpl. rewrite H2, H3, H4. reflexivity.
Qed.

Lemma step_close d p m c :
  is_close c = true -> nl p c = true ->
  pblock valid braced (Some (d, 0%nat)) p m [c] = POk m.
Proof.
  intros Hc Hn. simpl. rewrite (close_not_open c Hc), Hn, Hc. reflexivity.
Qed.

Lemma flat_cons t0 rest (ls : list sline) (c : tok) :
  flat ((t0, rest) :: ls) ++ [c] = t0 :: rest ++ (flat ls ++ [c]).
Proof. unfold flat. simpl. rewrite <- app_assoc. reflexivity. Qed.

Lemma pblock_rest : forall p ls q, lines_wf p ls q ->
  forall d m c, is_close c = true -> nl q c = true ->
  pblock valid braced (Some (d, 0%nat)) p m (flat ls ++ [c]) = POk (pmap_of m ls).
Proof.
  induction 1 as [p | p t0 rest q ls q' Hn Hh Hs _ IH]; intros d m c Hc Hq.
  - simpl. apply step_close; assumption.
  - rewrite flat_cons.
    rewrite (step_enter d p m t0 _ Hh Hn).
    rewrite (pblock_scan (t_text t0) rest t0 0%nat _ (flat ls ++ [c]) 0%nat q Hs).
    rewrite (IH (t_text t0) _ c Hc Hq). reflexivity.
Qed.

(* the whole block: first line (no new-line requirement after the opening brace), further
   lines, closing brace on a line of its own *)
Lemma pblock_block first t0 rest q0 ls q c :
  head_ok t0 = true -> scan t0 0 rest = Some (0%nat, q0) -> lines_wf q0 ls q ->
  is_close c = true -> nl q c = true ->
  pblock valid braced None first [] (flat ((t0, rest) :: ls) ++ [c])
  = POk (pmap_of [] ((t0, rest) :: ls)).
Proof.
  intros Hh Hs Hw Hc Hq. rewrite flat_cons.
  rewrite (step_first first [] t0 _ Hh).
  rewrite (pblock_scan (t_text t0) rest t0 0%nat _ (flat ls ++ [c]) 0%nat q0 Hs).
  rewrite (pblock_rest q0 ls q Hw (t_text t0) _ c Hc Hq). reflexivity.
Qed.

End P.

(* ---- the association list built by the parser = the grouping of the line-level model ---- *)
Definition dflt (o : option (list tok)) : list tok := match o with Some v => v | None => [] end.

Lemma pget_padd m d t d' :
  pget (padd m d t) d' = if beq d d' then Some (dflt (pget m d) ++ [t]) else pget m d'.
Proof.
  induction m as [|[k v] r IH]; simpl.
  - destruct (beq d d'); reflexivity.
  - destruct (beq k d) eqn:Ekd; simpl.
    + apply beq_eq in Ekd. subst k. destruct (beq d d'); reflexivity.
    + rewrite IH. destruct (beq k d') eqn:Ekd'.
      * destruct (beq d d') eqn:Edd'; [|reflexivity].
        apply beq_eq in Edd'. subst d'. congruence.
      * reflexivity.
Qed.

Lemma pget_add_toks d d' : forall ts m,
  pget (add_toks d m ts) d'
  = if beq d d' then match ts with [] => pget m d | _ => Some (dflt (pget m d) ++ ts) end
    else pget m d'.
Proof.
  induction ts as [|t r IH]; intro m.
  - simpl. destruct (beq d d') eqn:E; [apply beq_eq in E; subst d'|]; reflexivity.
  - change (add_toks d m (t :: r)) with (add_toks d (padd m d t) r).
    rewrite IH. rewrite !pget_padd. rewrite beq_refl.
    destruct (beq d d'); [|reflexivity].
    destruct r; simpl; [reflexivity|]. rewrite <- app_assoc. reflexivity.
Qed.

Lemma pget_add_line m (l : sline) d' :
  pget (add_line m l) d'
  = if beq (t_text (fst l)) d' then Some (dflt (pget m (t_text (fst l))) ++ fst l :: snd l)
    else pget m d'.
Proof.
  unfold add_line. rewrite pget_add_toks. rewrite !pget_padd. rewrite beq_refl.
  destruct (beq (t_text (fst l)) d'); [|reflexivity].
  simpl. destruct (snd l); [reflexivity|]. rewrite <- app_assoc. reflexivity.
Qed.

Lemma pget_pmap_of d' : forall (ls : list sline) m,
  pget (pmap_of m ls) d'
  = match lines_of d' (map to_line ls) with
    | [] => pget m d'
    | _ => Some (dflt (pget m d') ++ group d' (map to_line ls))
    end.
Proof.
  induction ls as [|l r IH]; intro m.
  - reflexivity.
  - assert (Hl : lines_of d' (map to_line (l :: r))
                 = if beq (t_text (fst l)) d' then to_line l :: lines_of d' (map to_line r)
                   else lines_of d' (map to_line r)) by reflexivity.
    change (pmap_of m (l :: r)) with (pmap_of (add_line m l) r).
    rewrite IH, pget_add_line. unfold group. rewrite Hl.
    destruct (beq (t_text (fst l)) d') eqn:E.
    + apply beq_eq in E. subst d'.
      destruct (lines_of (t_text (fst l)) (map to_line r)); simpl;
        rewrite ?app_nil_r, <- ?app_assoc; reflexivity.
    + reflexivity.
Qed.

Lemma pget_pmap_tokens_of (ls : list sline) d :
  pget (pmap_of [] ls) d = tokens_of (map to_line ls) d.
Proof.
  rewrite pget_pmap_of. unfold tokens_of. simpl.
  destruct (lines_of d (map to_line ls)); reflexivity.
Qed.

Theorem parser_groups_lines valid braced first t0 rest q0 ls q c :
  head_ok valid t0 = true -> scan t0 0 rest = Some (0%nat, q0) -> lines_wf valid q0 ls q ->
  is_close c = true -> nl q c = true ->
  exists m, pblock valid braced None first [] (flat ((t0, rest) :: ls) ++ [c]) = POk m /\
            forall d, pget m d = tokens_of (map to_line ((t0, rest) :: ls)) d.
Proof.
  intros Hh Hs Hw Hc Hq. exists (pmap_of [] ((t0, rest) :: ls)). split.
  - apply pblock_block with (q0 := q0) (q := q); assumption.
  - intro d. apply pget_pmap_tokens_of.
Qed.
