(* C10 — property theorems only. *)
Require Import V.Lib V.C10_Model V.C10_Proofs.
Open Scope N_scope.

(* Structure preservation at the token level: EVERY list of token texts — any runes, including
   spaces, line breaks, quotes, '#', braces — whose backslashes can be written inside quotes,
   printed quoted with a space or a line break after each token, lexes back to exactly those
   texts, and each token is attributed to exactly the line on which it was printed (line breaks
   inside quoted tokens counted). Unbounded in the number and size of tokens. *)
Theorem C10_lex_print_roundtrip : forall ts,
  forallb (fun p => okq (fst p)) ts = true ->
  map t_text (lex (print ts)) = map fst ts /\
  map t_line (lex (print ts)) = lines_from 1%Z ts.
Proof. exact lex_print_roundtrip. Qed.
Print Assumptions C10_lex_print_roundtrip.

Example C10_lex_print_roundtrip_nonvacuous :
  let ts := [([115; 97; 121; 32; 34; 10; 104; 105; 92; 32; 35; 32; 123], true); ([], false); ([120], true)] in
  forallb (fun p => okq (fst p)) ts = true /\ map t_line (lex (print ts)) = [1; 3; 3]%Z.
Proof. vm_compute. auto. Qed.

(* The quoted scan itself: whatever precedes, a quoted token ends at its closing quote with the
   text written and the line counter advanced by the line breaks inside it. *)
Theorem C10_quoted_scan : forall n t, (length t <= n)%nat -> okq t = true ->
  forall rest line val tline comment,
  lex_go (esc t ++ QUOTE :: rest) line val tline comment true false =
  {| t_file := 0; t_line := tline; t_text := rev val ++ t |} ::
  lex_go rest (line + count_nl t)%Z [] 0%Z false false false.
Proof. exact quoted_scan. Qed.
Print Assumptions C10_quoted_scan.

(* A text ending in a backslash cannot be written inside quotes: the closing quote is eaten. *)
Theorem C10_trailing_backslash_unquotable_refuted :
  exists t, map t_text (lex (print [(t, true)])) <> [t].
Proof. exists [BSL]. vm_compute. discriminate. Qed.
Print Assumptions C10_trailing_backslash_unquotable_refuted.
