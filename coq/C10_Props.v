(* C10 — property theorems only. *)
Require Import V.Lib V.C10_Model V.C10_Proofs.
Open Scope N_scope.

(* ---------------------------------------------------------------------------------------- *)
(* 1. LEXER                                                                                   *)
(* ---------------------------------------------------------------------------------------- *)

(* Structure preservation at the token level: EVERY list of token texts — any runes, including
   spaces, line breaks, quotes, '#', braces — whose backslashes can be written inside quotes,
   printed quoted with a space or a line break after each token, lexes back to exactly those
   texts, and each token is attributed to exactly the line on which it was printed (line breaks
   inside quoted tokens counted). Unbounded in the number and size of tokens. *)
Theorem C10_lex_print_roundtrip : forall ts,
  forallb (fun p => okq (fst p)) ts = true ->
  map t_text (lex (print ts)) = map fst ts /\
  map t_line (lex (print ts)) = lines_from 1%Z ts.
Proof. exact lex_print_roundtrip. Qed.
Print Assumptions C10_lex_print_roundtrip.

Example C10_lex_print_roundtrip_nonvacuous :
  let ts := [([115; 97; 121; 32; 34; 10; 104; 105; 92; 32; 35; 32; 123], true); ([], false); ([120], true)] in
  forallb (fun p => okq (fst p)) ts = true /\ map t_line (lex (print ts)) = [1; 3; 3]%Z.
Proof. vm_compute. auto. Qed.

(* The quoted scan itself: whatever precedes, a quoted token ends at its closing quote with the
   text written and the line counter advanced by the line breaks inside it. *)
Theorem C10_quoted_scan : forall n t, (length t <= n)%nat -> okq t = true ->
  forall rest line val tline comment,
  lex_go (esc t ++ QUOTE :: rest) line val tline comment true false =
  {| t_file := 0; t_line := tline; t_text := rev val ++ t |} ::
  lex_go rest (line + count_nl t)%Z [] 0%Z false false false.
Proof. exact quoted_scan. Qed.
Print Assumptions C10_quoted_scan.

(* A text ending in a backslash cannot be written inside quotes: the closing quote is eaten. *)
Theorem C10_trailing_backslash_unquotable_refuted :
  exists t, map t_text (lex (print [(t, true)])) <> [t].
Proof. exists [BSL]. vm_compute. discriminate. Qed.
Print Assumptions C10_trailing_backslash_unquotable_refuted.

(* Totality: [lex] is a total function on ALL rune lists (it has no checked operation: the only
   panic of lexer.next is a reader error other than EOF). It consumes the whole input, and what is
   preserved is this: the concatenation of the token texts is a SUBSEQUENCE of the input — the lexer
   only drops characters (separators, comments, quotes, the backslash of an escaped quote); it never
   invents, duplicates or reorders one — for every input, including unbalanced quotes. *)
Theorem C10_lex_total_subsequence : forall inp, subseq (texts (lex inp)) inp.
Proof. exact lex_subseq. Qed.
Print Assumptions C10_lex_total_subsequence.

Theorem C10_lex_output_bounded : forall inp, (length (texts (lex inp)) <= length inp)%nat.
Proof. exact lex_texts_length. Qed.
Print Assumptions C10_lex_output_bounded.

(* ---------------------------------------------------------------------------------------- *)
(* 2. PARSER STRUCTURE                                                                        *)
(* ---------------------------------------------------------------------------------------- *)

(* Token level, for ALL lists of server blocks (any number of keys with or without trailing commas,
   any number of directive lines, any arguments, sub-blocks nested to any depth) that satisfy the
   boolean guard [block_ok] (braces balance, depth-0 tokens of a directive are on its line, the next
   line starts on a new line, no key/line-start token is `{`/`}`/import, not a snippet definition),
   for every environment, import bound and file oracle: parsing the flattened tokens returns exactly
   those blocks — keys in order (environment expanded, commas stripped) and, per directive name,
   the directive tokens in file order (the name as written, the rest environment-expanded). The
   fuel needed is the number of tokens + 2: the parse of a well-formed text never runs out of fuel. *)
Theorem C10_parse_structure_tokens : forall env maxi globs files bs fuel,
  forallb (block_ok env) bs = true -> (length (flat_blocks bs) + 1 < fuel)%nat ->
  parse_tokens env maxi globs files fuel (flat_blocks bs) = POk (map (block_res env) bs).
Proof. exact parse_structure_tokens. Qed.
Print Assumptions C10_parse_structure_tokens.

(* Text level: for every configuration AST printed by the proved printer (every token quoted, a
   space or line break after it), the parser of the printed TEXT returns the blocks of the AST. *)
Theorem C10_parse_structure : forall env bs,
  forallb (fun p => okq (fst p)) (a_flat_all bs) = true ->
  forallb (block_ok env) (annot_blocks 0 1%Z bs) = true ->
  parse env (print (a_flat_all bs)) = POk (map (block_res env) (annot_blocks 0 1%Z bs)).
Proof. exact parse_structure. Qed.
Print Assumptions C10_parse_structure.

Local Open Scope string_scope.
Example C10_parse_structure_nonvacuous :
  let env := [(bs "HOST", bs "example.com")] in
  let t (s : string) (nl : bool) : ltok := (bs s, nl) in
  let cfg := [ {| a_key := t "{$HOST}," true; a_keys := [t "www.{$HOST}" false];
                  a_lines := [ (t "root" false, [t "/var/www" true]);
                               (t "proxy" false, [t "/" false; t "b:80" false; t "{" true;
                                                  t "header_upstream" false; ([72; 10; 105], false); t "x y" true;
                                                  t "sub" false; t "{" true; t "opt" false; t "import" false; t "deep" true; t "}" true;
                                                  t "}" true]);
                               (t "root" false, [t "/other" true]) ] |};
               {| a_key := t ":2015" false; a_keys := []; a_lines := [ (t "gzip" true, []) ] |} ] in
  forallb (fun p => okq (fst p)) (a_flat_all cfg) = true /\
  forallb (block_ok env) (annot_blocks 0 1%Z cfg) = true /\
  texts_of (parse env (print (a_flat_all cfg))) =
  Some [ ([bs "example.com"; bs "www.example.com"],
          [(bs "root", [bs "root"; bs "/var/www"; bs "root"; bs "/other"]);
           (bs "proxy", [bs "proxy"; bs "/"; bs "b:80"; bs "{"; bs "header_upstream"; [72; 10; 105]; bs "x y";
                         bs "sub"; bs "{"; bs "opt"; bs "import"; bs "deep"; bs "}"; bs "}"])]);
         ([bs ":2015"], [(bs "gzip", [bs "gzip"])]) ].
Proof. vm_compute. auto. Qed.
Local Close Scope string_scope.

(* The guard is needed for environment values: a value containing a line break glues the next line
   onto the directive (isNewLine counts the breaks of the SUBSTITUTED previous token); the directive
   `root` disappears. Reproduced on the implementation (known finding F-C10-3). *)
Theorem C10_env_value_with_line_break_refuted :
  exists env inp, texts_of (parse env inp) =
    Some [([bs "a.com"%string], [(bs "header"%string, [bs "header"%string; [108; 49; 10; 108; 50]; bs "root"%string; bs "/x"%string])])].
Proof.
  exists [(bs "V"%string, [108; 49; 10; 108; 50])], (bs "a.com {
	header {$V}
	root /x
}
"%string).
  vm_compute. reflexivity.
Qed.
Print Assumptions C10_env_value_with_line_break_refuted.

(* ---------------------------------------------------------------------------------------- *)
(* 3. TERMINATION, IMPORT CYCLES, ENVIRONMENT EXPANSION                                       *)
(* ---------------------------------------------------------------------------------------- *)

(* Import cycles are an ERROR, never OutOfFuel: for every import graph in which every file reachable
   from the importing server block has the shape "directive lines; import <next>; anything" (so the
   chain of imports never ends: cycles of every length, with any lead-in path), for every bound
   maxi, every environment, every set of keys, the parse returns the too-many-imports error, given
   fuel (maxi+1)*(L+2) + L + |keys| + 3 where L bounds the tokens in front of an import. *)
Theorem C10_parse_cycle_is_error : forall env maxi globs files graph L,
  closed_chain env globs files graph L -> forall id0 entry k ks lb post fuel,
  graph id0 = Some entry ->
  keys_ok env k ks = true -> is_snippet (map (key_of env) (k :: ks)) = false -> t_text lb = LBRACE ->
  Forall (far graph) post ->
  (S (N.to_nat maxi) * (L + 2) + L + length ks + 3 <= fuel)%nat ->
  parse_tokens env maxi globs files fuel (k :: ks ++ lb :: node_toks entry ++ post) = PErr ECycle.
Proof. exact parse_cycle_error. Qed.
Print Assumptions C10_parse_cycle_is_error.

(* the hypotheses hold for the tokens of a real pair of texts: a block importing c.conf, which
   imports itself after one directive line and before another *)
Example C10_parse_cycle_is_error_nonvacuous :
  closed_chain [] CycleExample.globs CycleExample.files CycleExample.graph 2 /\
  CycleExample.graph 0 = Some CycleExample.entry /\
  Forall (far CycleExample.graph) [CycleExample.rb] /\
  parse_tokens [] 50 CycleExample.globs CycleExample.files 300
    (CycleExample.tk 0 1 "a.com"%string :: [] ++ CycleExample.tk 0 1 "{"%string :: node_toks CycleExample.entry ++ [CycleExample.rb]) = PErr ECycle.
Proof.
  split; [exact CycleExample.chain_closed|]. split; [reflexivity|]. split; [exact CycleExample.rb_far|].
  vm_compute. reflexivity.
Qed.

(* Fuel sufficiency on the import-free side is part of C10_parse_structure_tokens (fuel = tokens+2).
   The lines in front of an import are consumed with exactly one unit of fuel each, for any
   continuation: *)
Theorem C10_directives_fuel_linear : forall env maxi globs files ls done nxt post f st,
  at_end st done (flat_lines ls ++ nxt :: post) ->
  lines_ok env ls nxt = true -> (length (flat_lines ls) < f)%nat ->
  directives env maxi globs files (length ls + f) st =
  directives env maxi globs files f
    (st_with st (done ++ exp_lines env ls ++ nxt :: post) (Z.of_nat (length (done ++ exp_lines env ls)) - 1)
             (push_lines env (p_btoks st) ls)).
Proof. exact directives_lines. Qed.
Print Assumptions C10_directives_fuel_linear.

(* Environment expansion is a single left-to-right pass: one step outputs the text before the
   reference, then the VALUE VERBATIM, then the expansion of the REST OF THE INPUT only — the
   substituted value is never scanned again, whatever it contains. For all inputs and environments. *)
Theorem C10_env_expansion_single_pass : forall f env s rs re i e0,
  index_sub s rs = Some i -> index_sub (skipn i s) re = Some e0 -> Nat.ltb (length rs) e0 = true ->
  replace_refs (S f) env [] s rs re =
  firstn i s ++ getenv env (firstn (e0 - length rs) (skipn (i + length rs) s)) ++
  replace_refs f env [] (skipn (i + e0 + length re) s) rs re.
Proof. exact replace_refs_step. Qed.
Print Assumptions C10_env_expansion_single_pass.

(* ... and it terminates: the fuel the model uses (length+1) is enough, more never changes the result *)
Theorem C10_env_expansion_terminates : forall n f env done s rs re,
  (length s < n)%nat -> (n <= f)%nat -> re <> [] ->
  replace_refs f env done s rs re = replace_refs n env done s rs re.
Proof. exact replace_refs_fuel. Qed.
Print Assumptions C10_env_expansion_terminates.

Example C10_env_expansion_nonvacuous :
  (* V = "x{$V}" : the self-reference is substituted once and left alone *)
  replace_env [(bs "V"%string, bs "x{$V}"%string)] (bs "a{$V}b{$V}"%string) = Some (bs "ax{$V}bx{$V}"%string) /\
  index_sub (bs "a{$V}b"%string) (bs "{$"%string) = Some 1%nat.
Proof. vm_compute. auto. Qed.

(* ---------------------------------------------------------------------------------------- *)
(* 4. IMPORTS                                                                                 *)
(* ---------------------------------------------------------------------------------------- *)

(* What an import does to the Dispenser, for every state: exactly the two tokens `import <pattern>`
   are replaced by the tokens of the matched files, in glob order, the cursor is left on the token
   before them and the counter is incremented; everything before and after is untouched, so the
   parse continues on the spliced token list exactly as it would on that list written inline. *)
Theorem C10_import_splice_partial : forall env maxi globs files st pre imp arg post pat toks,
  at_pos st pre imp (arg :: post) -> import_ready env globs files st imp arg post pat toks ->
  (maxi <? p_imports st + 1)%N = false ->
  do_import env maxi globs files st = POk (st_imp st (pre ++ toks ++ post) (Z.of_nat (length pre))).
Proof. exact do_import_ok. Qed.
Print Assumptions C10_import_splice_partial.

(* The full statement "a configuration split into snippets parses like the inline text" is FALSE of
   the faithful model (and of the implementation: known findings F-C10-4/5): spliced snippet tokens
   keep the line numbers of their definition, and an `import` at the start of a snippet body used
   inside a sub-block after a later line is not expanded. *)
Theorem C10_import_equiv_snippet_refuted :
  exists split inline, texts_of (parse [] inline) <> None /\ texts_of (parse [] split) <> texts_of (parse [] inline).
Proof.
  exists (bs "(t) {
	inner1 x
}
(s) {
	import t
}
a.com {
	proxy / b {
		opt y
		import s
	}
}
"%string), (bs "a.com {
	proxy / b {
		opt y
		inner1 x
	}
}
"%string).
  vm_compute. split; discriminate.
Qed.
Print Assumptions C10_import_equiv_snippet_refuted.
