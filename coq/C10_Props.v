(* C10 — property theorems only. *)
Require Import V.Lib V.C10_Model V.C10_Proofs V.C10_Total.
Open Scope N_scope.

(* ---------------------------------------------------------------------------------------- *)
(* 1. LEXER                                                                                   *)
(* ---------------------------------------------------------------------------------------- *)

(* Structure preservation at the token level: EVERY list of token texts — any runes, including
   spaces, line breaks, quotes, '#', braces — whose backslashes can be written inside quotes,
   printed quoted with a space or a line break after each token, lexes back to exactly those
   texts, and each token is attributed to exactly the line on which it was printed (line breaks
   inside quoted tokens counted). Unbounded in the number and size of tokens. *)
Theorem C10_lex_print_roundtrip : forall ts,
  forallb (fun p => okq (fst p)) ts = true ->
  map t_text (lex (print ts)) = map fst ts /\
  map t_line (lex (print ts)) = lines_from 1%Z ts.
Proof. exact lex_print_roundtrip. Qed.
Print Assumptions C10_lex_print_roundtrip.

Example C10_lex_print_roundtrip_nonvacuous :
  let ts := [([115; 97; 121; 32; 34; 10; 104; 105; 92; 32; 35; 32; 123], true); ([], false); ([120], true)] in
  forallb (fun p => okq (fst p)) ts = true /\ map t_line (lex (print ts)) = [1; 3; 3]%Z.
Proof. vm_compute. auto. Qed.

(* The quoted scan itself: whatever precedes, a quoted token ends at its closing quote with the
   text written and the line counter advanced by the line breaks inside it. *)
Theorem C10_quoted_scan : forall n t, (length t <= n)%nat -> okq t = true ->
  forall rest line val tline comment,
  lex_go (esc t ++ QUOTE :: rest) line val tline comment true false =
  {| t_file := 0; t_line := tline; t_text := rev val ++ t; t_imp := 0; t_envnl := 0%Z |} ::
  lex_go rest (line + count_nl t)%Z [] 0%Z false false false.
Proof. exact quoted_scan. Qed.
Print Assumptions C10_quoted_scan.

(* A text ending in a backslash cannot be written inside quotes: the closing quote is eaten. *)
Theorem C10_trailing_backslash_unquotable_refuted :
  exists t, map t_text (lex (print [(t, true)])) <> [t].
Proof. exists [BSL]. vm_compute. discriminate. Qed.
Print Assumptions C10_trailing_backslash_unquotable_refuted.

(* Totality: [lex] is a total function on ALL rune lists (it has no checked operation: the only
   panic of lexer.next is a reader error other than EOF). It consumes the whole input, and what is
   preserved is this: the concatenation of the token texts is a SUBSEQUENCE of the input — the lexer
   only drops characters (separators, comments, quotes, the backslash of an escaped quote); it never
   invents, duplicates or reorders one — for every input, including unbalanced quotes. *)
Theorem C10_lex_total_subsequence : forall inp, subseq (texts (lex inp)) inp.
Proof. exact lex_subseq. Qed.
Print Assumptions C10_lex_total_subsequence.

Theorem C10_lex_output_bounded : forall inp, (length (texts (lex inp)) <= length inp)%nat.
Proof. exact lex_texts_length. Qed.
Print Assumptions C10_lex_output_bounded.

(* ---------------------------------------------------------------------------------------- *)
(* 2. PARSER STRUCTURE                                                                        *)
(* ---------------------------------------------------------------------------------------- *)

(* Token level, for ALL lists of server blocks (any number of keys with or without trailing commas,
   any number of directive lines, any arguments, sub-blocks nested to any depth) that satisfy the
   boolean guard [block_ok] (braces balance, depth-0 tokens of a directive are on its line, the next
   line starts on a new line, no key/line-start token is `{`/`}`/import, not a snippet definition),
   for every environment, import bound and file oracle: parsing the flattened tokens returns exactly
   those blocks — keys in order (environment expanded, commas stripped) and, per directive name,
   the directive tokens in file order (the name as written, the rest environment-expanded). The
   fuel needed is the number of tokens + 2: the parse of a well-formed text never runs out of fuel. *)
Theorem C10_parse_structure_tokens : forall env maxi globs files bs fuel,
  forallb (block_ok env) bs = true -> (length (flat_blocks bs) + 1 < fuel)%nat ->
  parse_tokens env maxi globs files fuel (flat_blocks bs) = POk (map (block_res env) bs).
Proof. exact parse_structure_tokens. Qed.
Print Assumptions C10_parse_structure_tokens.

(* Text level: for every configuration AST printed by the proved printer (every token quoted, a
   space or line break after it), the parser of the printed TEXT returns the blocks of the AST. *)
Theorem C10_parse_structure : forall env bs,
  forallb (fun p => okq (fst p)) (a_flat_all bs) = true ->
  forallb (block_ok env) (annot_blocks 0 1%Z bs) = true ->
  parse env (print (a_flat_all bs)) = POk (map (block_res env) (annot_blocks 0 1%Z bs)).
Proof. exact parse_structure. Qed.
Print Assumptions C10_parse_structure.

Local Open Scope string_scope.
Example C10_parse_structure_nonvacuous :
  let env := [(bs "HOST", bs "example.com")] in
  let t (s : string) (nl : bool) : ltok := (bs s, nl) in
  let cfg := [ {| a_key := t "{$HOST}," true; a_keys := [t "www.{$HOST}" false];
                  a_lines := [ (t "root" false, [t "/var/www" true]);
                               (t "proxy" false, [t "/" false; t "b:80" false; t "{" true;
                                                  t "header_upstream" false; ([72; 10; 105], false); t "x y" true;
                                                  t "sub" false; t "{" true; t "opt" false; t "import" false; t "deep" true; t "}" true;
                                                  t "}" true]);
                               (t "root" false, [t "/other" true]) ] |};
               {| a_key := t ":2015" false; a_keys := []; a_lines := [ (t "gzip" true, []) ] |} ] in
  forallb (fun p => okq (fst p)) (a_flat_all cfg) = true /\
  forallb (block_ok env) (annot_blocks 0 1%Z cfg) = true /\
  texts_of (parse env (print (a_flat_all cfg))) =
  Some [ ([bs "example.com"; bs "www.example.com"],
          [(bs "root", [bs "root"; bs "/var/www"; bs "root"; bs "/other"]);
           (bs "proxy", [bs "proxy"; bs "/"; bs "b:80"; bs "{"; bs "header_upstream"; [72; 10; 105]; bs "x y";
                         bs "sub"; bs "{"; bs "opt"; bs "import"; bs "deep"; bs "}"; bs "}"])]);
         ([bs ":2015"], [(bs "gzip", [bs "gzip"])]) ].
Proof. vm_compute. auto. Qed.
Local Close Scope string_scope.

(* Environment values do not take part in the line structure (repair of F-C10-3): a token whose
   environment references have been substituted — whatever the values contain, line breaks
   included — ends on the line where it was written, for the parser's own test (isNewLine) and for
   the Dispenser operations of directive setup code (NextLine / NextBlock and NextArg). This is why
   the guard [lines_ok] of the structure theorems above is a condition on the tokens AS WRITTEN
   and does not mention the environment. *)
Theorem C10_env_value_keeps_line_structure : forall env t u,
  next_on_new_line (exp_tok env t) u = next_on_new_line t u /\
  same_line (exp_tok env t) u = same_line t u /\
  next_on_new_line u (exp_tok env t) = next_on_new_line u t /\
  same_line u (exp_tok env t) = same_line u t.
Proof. exact env_value_keeps_line_structure. Qed.
Print Assumptions C10_env_value_keeps_line_structure.

(* the former witness of F-C10-3: the value of V contains a line break; `root` stays a directive *)
Example C10_env_value_with_line_break :
  texts_of (parse [(bs "V"%string, [108; 49; 10; 108; 50])] (bs "a.com {
	header {$V}
	root /x
}
"%string)) =
    Some [([bs "a.com"%string], [(bs "header"%string, [bs "header"%string; [108; 49; 10; 108; 50]]);
                                  (bs "root"%string, [bs "root"%string; bs "/x"%string])])].
Proof. vm_compute. reflexivity. Qed.

(* ---------------------------------------------------------------------------------------- *)
(* 3. TERMINATION, IMPORT CYCLES, ENVIRONMENT EXPANSION                                       *)
(* ---------------------------------------------------------------------------------------- *)

(* Import cycles are an ERROR, never OutOfFuel: for every import graph in which every file reachable
   from the importing server block has the shape "directive lines; import <next>; anything" (so the
   chain of imports never ends: cycles of every length, with any lead-in path), for every bound
   maxi, every environment, every set of keys, the parse returns the too-many-imports error, given
   fuel (maxi+1)*(L+2) + L + |keys| + 3 where L bounds the tokens in front of an import. *)
Theorem C10_parse_cycle_is_error : forall env maxi globs files graph L,
  closed_chain env globs files graph L -> forall id0 entry k ks lb post fuel,
  graph id0 = Some entry ->
  keys_ok env k ks = true -> is_snippet (map (key_of env) (k :: ks)) = false -> t_text lb = LBRACE ->
  Forall (far graph) post ->
  (S (N.to_nat maxi) * (L + 2) + L + length ks + 3 <= fuel)%nat ->
  parse_tokens env maxi globs files fuel (k :: ks ++ lb :: node_toks entry ++ post) = PErr ECycle.
Proof. exact parse_cycle_error. Qed.
Print Assumptions C10_parse_cycle_is_error.

(* the hypotheses hold for the tokens of a real pair of texts: a block importing c.conf, which
   imports itself after one directive line and before another *)
Example C10_parse_cycle_is_error_nonvacuous :
  closed_chain [] CycleExample.globs CycleExample.files CycleExample.graph 2 /\
  CycleExample.graph 0 = Some CycleExample.entry /\
  Forall (far CycleExample.graph) [CycleExample.rb] /\
  parse_tokens [] 50 CycleExample.globs CycleExample.files 300
    (CycleExample.tk 0 1 "a.com"%string :: [] ++ CycleExample.tk 0 1 "{"%string :: node_toks CycleExample.entry ++ [CycleExample.rb]) = PErr ECycle.
Proof.
  split; [exact CycleExample.chain_closed|]. split; [reflexivity|]. split; [exact CycleExample.rb_far|].
  vm_compute. reflexivity.
Qed.

(* Fuel sufficiency on the import-free side is part of C10_parse_structure_tokens (fuel = tokens+2).
   The lines in front of an import are consumed with exactly one unit of fuel each, for any
   continuation: *)
Theorem C10_directives_fuel_linear : forall env maxi globs files ls done nxt post f st,
  at_end st done (flat_lines ls ++ nxt :: post) ->
  lines_ok ls nxt = true -> (length (flat_lines ls) < f)%nat ->
  directives env maxi globs files (length ls + f) st =
  directives env maxi globs files f
    (st_with st (done ++ exp_lines env ls ++ nxt :: post) (Z.of_nat (length (done ++ exp_lines env ls)) - 1)
             (push_lines env (p_btoks st) ls)).
Proof. exact directives_lines. Qed.
Print Assumptions C10_directives_fuel_linear.

(* Environment expansion is a single left-to-right pass: one step outputs the text before the
   reference, then the VALUE VERBATIM, then the expansion of the REST OF THE INPUT only — the
   substituted value is never scanned again, whatever it contains. For all inputs and environments. *)
Theorem C10_env_expansion_single_pass : forall f env s rs re i e0,
  index_sub s rs = Some i -> index_sub (skipn i s) re = Some e0 -> Nat.ltb (length rs) e0 = true ->
  replace_refs (S f) env [] s rs re =
  firstn i s ++ getenv env (firstn (e0 - length rs) (skipn (i + length rs) s)) ++
  replace_refs f env [] (skipn (i + e0 + length re) s) rs re.
Proof. exact replace_refs_step. Qed.
Print Assumptions C10_env_expansion_single_pass.

(* ... and it terminates: the fuel the model uses (length+1) is enough, more never changes the result *)
Theorem C10_env_expansion_terminates : forall n f env done s rs re,
  (length s < n)%nat -> (n <= f)%nat -> re <> [] ->
  replace_refs f env done s rs re = replace_refs n env done s rs re.
Proof. exact replace_refs_fuel. Qed.
Print Assumptions C10_env_expansion_terminates.

Example C10_env_expansion_nonvacuous :
  (* V = "x{$V}" : the self-reference is substituted once and left alone *)
  replace_env [(bs "V"%string, bs "x{$V}"%string)] (bs "a{$V}b{$V}"%string) = Some (bs "ax{$V}bx{$V}"%string) /\
  index_sub (bs "a{$V}b"%string) (bs "{$"%string) = Some 1%nat.
Proof. vm_compute. auto. Qed.

(* ---------------------------------------------------------------------------------------- *)
(* 4. IMPORTS                                                                                 *)
(* ---------------------------------------------------------------------------------------- *)

(* What an import does to the Dispenser, for every state: exactly the two tokens `import <pattern>`
   are replaced by the tokens of the snippet or of the matched files (in glob order), each marked
   with the number of this import statement; the cursor is left on the token before them and the
   counter is incremented; everything before and after is untouched. *)
Theorem C10_import_splice : forall env maxi globs files st pre imp arg post pat toks,
  at_pos st pre imp (arg :: post) -> import_ready env globs files st imp arg post pat toks ->
  (maxi <? p_imports st + 1)%N = false ->
  do_import env maxi globs files st =
  POk (st_imp st (pre ++ map (set_imp (p_imports st + 1)) toks ++ post) (Z.of_nat (length pre))).
Proof. exact do_import_ok. Qed.
Print Assumptions C10_import_splice.

(* ... and at directive level the parse continues on the spliced list, one unit of fuel later *)
Theorem C10_import_splice_directives : forall env maxi globs files done imp arg post pat toks f st,
  at_end st done (imp :: arg :: post) -> t_text imp = IMPORT ->
  import_ready env globs files st imp arg post pat toks -> (maxi <? p_imports st + 1)%N = false ->
  directives env maxi globs files (S f) st =
  directives env maxi globs files f
    (st_imp st (done ++ map (set_imp (p_imports st + 1)) toks ++ post) (Z.of_nat (length done) - 1)).
Proof. exact directives_import. Qed.
Print Assumptions C10_import_splice_directives.

(* The marks decide the line structure at the seams (repair of F-C10-4/5): a token spliced in by
   import number n is on a NEW LINE relative to every neighbour that does not carry that number —
   whatever the file and line numbers say (snippet tokens keep those of their definition) — for
   NextLine / nextOnSameLine / NextBlock / isNewLine and for NextArg alike; among themselves the
   tokens of one import keep exactly the line structure of their definition. *)
Theorem C10_imported_tokens_line_structure : forall a b n,
  (t_imp a <> n -> next_on_new_line a (set_imp n b) = true /\ same_line a (set_imp n b) = false) /\
  (t_imp b <> n -> next_on_new_line (set_imp n a) b = true /\ same_line (set_imp n a) b = false) /\
  (t_imp a = t_imp b -> next_on_new_line (set_imp n a) (set_imp n b) = next_on_new_line a b /\
                        same_line (set_imp n a) (set_imp n b) = same_line a b).
Proof. exact imported_tokens_line_structure. Qed.
Print Assumptions C10_imported_tokens_line_structure.

(* SNIPPET / INLINE EQUIVALENCE, full strength (was refuted by F-C10-4/5 before the repair).
   [seg_exp env maxi snips post prev n nest src out n' k] relates the rest [src] of a directive AS
   WRITTEN — `import <snippet>` statements at the start of lines inside its sub-blocks, at any
   brace depth, the snippet bodies again containing such imports to any depth — to the token list
   [out] in which every such statement is replaced, recursively, by the snippet's tokens: the same
   directive written INLINE.  For every state, every environment, every snippet table and every
   such directive, the parser reaches on the text as written exactly the state it reaches on the
   inline tokens — same token list, same cursor, same keys, same directive groups with the same
   tokens in the same order (hence the same texts and the same line structure) — the import counter
   excepted; and it succeeds. *)
Theorem C10_import_equiv_snippet : forall env maxi globs files snips post d src out n' k done fuel st,
  seg_exp env maxi snips post d (p_imports st) 0%Z src out n' k ->
  at_end st (done ++ [d]) (src ++ post) -> p_snips st = snips -> (k < fuel)%nat ->
  post_ok (last out d) post ->
  directive env maxi globs files fuel st =
  with_imports n' (directive env maxi globs files fuel
                     (st_with st ((done ++ [d]) ++ out ++ post) (p_cursor st) (p_btoks st))) /\
  exists r, directive env maxi globs files fuel st = POk r.
Proof. exact import_equiv_snippet. Qed.
Print Assumptions C10_import_equiv_snippet.

(* the inline list produced by the expansion satisfies the guard of the structure theorems: it is a
   well-formed directive line, so C10_parse_structure_tokens applies to the inline configuration *)
Theorem C10_snippet_expansion_wellformed : forall env maxi snips post prev n nest src out n' k,
  seg_exp env maxi snips post prev n nest src out n' k -> line_ok prev out nest = true.
Proof. exact seg_exp_line_ok. Qed.
Print Assumptions C10_snippet_expansion_wellformed.

(* non-vacuity, on the former witness of F-C10-5 (a snippet whose body starts with an import, used
   inside a sub-block after a later line): the hypotheses hold for the tokens of the real text, the
   expansion is the inline directive, and the whole split text parses like the inline text *)

Example C10_import_equiv_snippet_nonvacuous :
  seg_exp [] 100 SnippetExample.snips SnippetExample.post SnippetExample.d 0 0%Z SnippetExample.src SnippetExample.out 2 10 /\
  post_ok (last SnippetExample.out SnippetExample.d) SnippetExample.post /\
  (exists pre, lex SnippetExample.split = pre ++ [SnippetExample.d] ++ SnippetExample.src ++ SnippetExample.post) /\
  texts_of (parse [] SnippetExample.split) = texts_of (parse [] SnippetExample.inline) /\
  texts_of (parse [] SnippetExample.inline) <> None.
Proof.
  split; [exact SnippetExample.expands|]. split; [vm_compute; auto|].
  split; [exists (firstn 12 (lex SnippetExample.split)); vm_compute; reflexivity|]. split; [vm_compute; reflexivity|vm_compute; discriminate].
Qed.

(* the former witness of F-C10-4: `import s` as the first line of a nested block *)
Example C10_import_snippet_in_nested_block :
  texts_of (parse [] (bs "(s) {
	inner1 x
}
a.com {
	proxy / b {
		sub {
			import s
		}
		after z
	}
}
"%string)) = texts_of (parse [] (bs "a.com {
	proxy / b {
		sub {
			inner1 x
		}
		after z
	}
}
"%string)).
Proof. vm_compute. reflexivity. Qed.

(* SNIPPET IMPORT AT DIRECTIVE LEVEL, AND THE RETURN FROM A NESTED IMPORT.  For every state with the
   cursor in front of `import <snippet>` where a directive may stand, every snippet body made of
   well-formed directive lines (all carrying one mark [m], as the tokens of one definition do) and
   ANY token [nxt] behind the statement that does not carry the number of THIS import and is not `{`
   — a token of the importing text, or, when the statement was itself spliced in by an earlier
   import, the next token of the enclosing snippet, whose mark is a SMALLER number — whatever the
   definition-site line numbers are (body defined above, below, or on the line of [nxt]):
   the marked body followed by [nxt] satisfies the guard of the structure theorems, and the parser
   takes the body as exactly its lines, one directive each, and goes on at [nxt] as the start of a
   new line.  Together with C10_directives_fuel_linear this composes over snippets importing
   snippets with directives before and after the inner import, and over consecutive imports. *)
Theorem C10_import_snippet_lines : forall env maxi globs files done imp arg nxt rest pat ls rb0 m f st,
  at_end st done (imp :: arg :: nxt :: rest) -> t_text imp = IMPORT ->
  import_ready env globs files st imp arg (nxt :: rest) pat (flat_lines ls) ->
  (maxi <? p_imports st + 1)%N = false ->
  marked m (flat_lines ls) -> lines_ok ls rb0 = true ->
  t_imp nxt <> (p_imports st + 1)%N -> beq (t_text nxt) LBRACE = false ->
  (length (flat_lines ls) < f)%nat ->
  let n := (p_imports st + 1)%N in
  let ls' := map (tg_line (Some n)) ls in
  lines_ok ls' nxt = true /\
  directives env maxi globs files (S (length ls + f)) st =
  directives env maxi globs files f
    (st_with (st_imp st (done ++ flat_lines ls' ++ nxt :: rest) (Z.of_nat (length done) - 1))
             (done ++ exp_lines env ls' ++ nxt :: rest) (Z.of_nat (length (done ++ exp_lines env ls')) - 1)
             (push_lines env (p_btoks st) ls')).
Proof. exact import_snippet_lines. Qed.
Print Assumptions C10_import_snippet_lines.

(* non-vacuity on the witness of seeded change C10-m5: the outer snippet is defined above the inner
   one, so on return from `import inner` the next token (`root`, line 3, mark 1) has a SMALLER line
   number and a SMALLER mark than the last token of the inner snippet (`gzip`, line 6, mark 2); the
   state is the parser's own after the first import, and the split text parses like the inline text *)
Example C10_import_snippet_lines_nonvacuous :
  at_end ReturnExample.st ReturnExample.done (ReturnExample.imp :: ReturnExample.arg :: ReturnExample.nxt :: ReturnExample.rest) /\
  import_ready [] [] [] ReturnExample.st ReturnExample.imp ReturnExample.arg (ReturnExample.nxt :: ReturnExample.rest)
               (bs "inner"%string) (flat_lines ReturnExample.ls) /\
  marked 0 (flat_lines ReturnExample.ls) /\ lines_ok ReturnExample.ls (ReturnExample.tk 7 "}" 0) = true /\
  t_imp ReturnExample.nxt <> (p_imports ReturnExample.st + 1)%N /\
  (t_imp ReturnExample.nxt < p_imports ReturnExample.st + 1)%N /\ (t_line ReturnExample.nxt < 6)%Z /\
  p_tokens ReturnExample.st =
    firstn 13 (lex ReturnExample.split) ++ map (set_imp 1) (firstn 4 (skipn 2 (lex ReturnExample.split))) ++ skipn 15 (lex ReturnExample.split) /\
  texts_of (parse [] ReturnExample.split) = texts_of (parse [] ReturnExample.inline) /\
  texts_of (parse [] ReturnExample.inline) =
    Some [([bs "a.com"%string], [(bs "gzip"%string, [bs "gzip"%string]); (bs "root"%string, [bs "root"%string; bs "/srv"%string])])].
Proof.
  split; [split; reflexivity|]. split; [repeat split; try (vm_compute; congruence); left; reflexivity|].
  split; [repeat constructor|]. repeat split; try (vm_compute; congruence).
Qed.

(* An expanded token ends where it was WRITTEN: after environment substitution — whatever the
   values contain — the number of input line breaks the Dispenser attributes to the token is the
   number of line breaks of the text as written (minus what earlier substitutions brought in), so a
   quoted argument spanning several input lines that holds a reference still ends on the line where
   its quotes close and the arguments behind it stay on its line. *)
Theorem C10_env_expanded_token_ends_where_written : forall env t u,
  tok_breaks (exp_tok env t) = (count_nl (t_text t) - t_envnl t)%Z /\
  same_line (exp_tok env t) u =
    ((t_file t =? t_file u) && (t_imp t =? t_imp u) && (t_line t + (count_nl (t_text t) - t_envnl t) =? t_line u)%Z).
Proof. exact env_expanded_token_ends_where_written. Qed.
Print Assumptions C10_env_expanded_token_ends_where_written.

(* the witness of seeded change C10-m6: `200 text/plain` stay arguments of respond *)
Example C10_env_reference_in_multi_line_argument :
  texts_of (parse [(bs "NAME"%string, bs "Bob"%string)] (bs ":8080
respond ""Hello {$NAME},
welcome"" 200 text/plain
log stdout
"%string)) =
    Some [([bs ":8080"%string], [(bs "respond"%string, [bs "respond"%string; bs "Hello Bob,
welcome"%string; bs "200"%string; bs "text/plain"%string]);
                                  (bs "log"%string, [bs "log"%string; bs "stdout"%string])])].
Proof. vm_compute. reflexivity. Qed.

(* The line structure of a PRINTED text is the one written, whatever the values contain: in the
   tokens the lexer delivers for any printed token list, a token printed with a line break behind
   it ends its line (the next token is on a new line for NextLine/isNewLine and not an argument for
   NextArg) and a token printed with a space does not — for every text that can be written inside
   quotes: line breaks, and line breaks directly behind a backslash (continuation lines) included. *)
Theorem C10_printed_value_ends_its_line : forall ts1 t nl u ts2,
  forallb (fun p => okq (fst p)) (ts1 ++ (t, nl) :: u :: ts2) = true ->
  exists a b,
    nth_error (lex (print (ts1 ++ (t, nl) :: u :: ts2))) (length ts1) = Some a /\
    nth_error (lex (print (ts1 ++ (t, nl) :: u :: ts2))) (S (length ts1)) = Some b /\
    t_text a = t /\ t_text b = fst u /\
    next_on_new_line a b = nl /\ same_line a b = negb nl.
Proof. exact printed_value_ends_its_line. Qed.
Print Assumptions C10_printed_value_ends_its_line.

Example C10_printed_value_ends_its_line_nonvacuous :
  let v := [97; 32; 92; 10; 32; 98] in   (* a \<line break> b *)
  let ts := [(bs "header"%string, false); (bs "/"%string, false); (bs "X-A"%string, false); (v, true); (bs "gzip"%string, true)] in
  forallb (fun p => okq (fst p)) ts = true /\
  map t_line (lex (print ts)) = [1; 1; 1; 1; 3]%Z.
Proof. vm_compute. auto. Qed.

(* ---------- where an import argument points ---------- *)

(* A relative import argument (no meta characters, not a snippet name) is looked up in the DIRECTORY OF
   THE FILE THAT CONTAINS THE IMPORT TOKEN: in every world whose glob oracle follows filepath's rule
   (globs_resolve_ok: checked against the real filepath.Glob on every run), for every parser state and
   every token the cursor is on, the files spliced in are exactly the known paths equal to
   Join(Dir(file of the token), argument) - whatever was imported before, by whatever name. *)
Theorem C10_import_resolves_relative_to_importer :
  forall globs files abspaths known st t pat af ids,
  globs_resolve_ok abspaths known globs = true ->
  tok_at st (p_cursor st) = Some t -> lookup_f abspaths (t_file t) = Some af ->
  lookup_s (p_snips st) pat = None -> glob_ok pat = true -> has_meta pat = false -> is_abs pat = false ->
  lookup_g globs (t_file t) pat = Some ids ->
  ids = literal_matches known (fjoin (path_dir af) pat) /\
  imported_tokens globs files st pat =
    match literal_matches known (fjoin (path_dir af) pat) with
    | [] => if has_glob_char pat then POk [] else PErr EImport
    | l => import_files files l
    end.
Proof. exact import_resolves_relative_to_importer. Qed.
Print Assumptions C10_import_resolves_relative_to_importer.

(* an absolute argument is taken as written, wherever the import statement stands *)
Theorem C10_import_absolute_as_written :
  forall globs abspaths known st t pat af ids,
  globs_resolve_ok abspaths known globs = true ->
  tok_at st (p_cursor st) = Some t -> lookup_f abspaths (t_file t) = Some af ->
  has_meta pat = false -> is_abs pat = true ->
  lookup_g globs (t_file t) pat = Some ids ->
  ids = literal_matches known pat.
Proof. exact import_absolute_as_written. Qed.
Print Assumptions C10_import_absolute_as_written.

(* the same relative name written in files of two directories, each directory holding its own file of
   that name: each import site gets the file of ITS directory *)
Theorem C10_same_import_name_in_two_directories :
  forall globs files abspaths known st1 st2 t1 t2 pat af1 af2 i1 i2 ids1 ids2,
  globs_resolve_ok abspaths known globs = true ->
  NoDup (map snd known) ->
  tok_at st1 (p_cursor st1) = Some t1 -> lookup_f abspaths (t_file t1) = Some af1 ->
  tok_at st2 (p_cursor st2) = Some t2 -> lookup_f abspaths (t_file t2) = Some af2 ->
  glob_ok pat = true -> has_meta pat = false -> is_abs pat = false ->
  lookup_s (p_snips st1) pat = None -> lookup_s (p_snips st2) pat = None ->
  In (i1, fjoin (path_dir af1) pat) known -> In (i2, fjoin (path_dir af2) pat) known ->
  lookup_g globs (t_file t1) pat = Some ids1 -> lookup_g globs (t_file t2) pat = Some ids2 ->
  imported_tokens globs files st1 pat = import_files files [i1] /\
  imported_tokens globs files st2 pat = import_files files [i2].
Proof. exact same_name_two_directories. Qed.
Print Assumptions C10_same_import_name_in_two_directories.

Example C10_import_resolves_relative_to_importer_nonvacuous :
  globs_resolve_ok (abs_of w_base w_names) (known_of w_base w_names) w_globs = true /\
  lookup_g w_globs 5 (bs "common.conf"%string) = Some [4] /\
  lookup_g w_globs 8 (bs "common.conf"%string) = Some [7] /\
  w_result = Some
      [([bs "a.example"], [(bs "root", [bs "root"; bs "/srv/a"])]);
       ([bs "b.example"], [(bs "root", [bs "root"; bs "/srv/b"]); (bs "basicauth", [bs "basicauth"; bs "/"; bs "u"; bs "p"])])]%string.
Proof. exact two_directories_witness. Qed.

(* A comment is insignificant WHATEVER ITS LENGTH: from a '#' met outside a token and outside quotes, every
   rune up to the next line break is skipped — the lexer goes on exactly as if only the line break had been
   written (same tokens, same line numbers for everything that follows); a comment that runs to the end of
   the input yields nothing.  No bound on the length of the comment (a buffered reader's 4096 bytes or any other). *)
Theorem C10_comment_of_any_length_insignificant : forall c r line tl esc,
  Forall (fun ch => ch <> NL) c ->
  lex_go (HASH :: c ++ NL :: r) line [] tl false false esc = lex_go (NL :: r) line [] tl false false esc.
Proof. exact c10_comment_any_length. Qed.
Print Assumptions C10_comment_of_any_length_insignificant.

Theorem C10_comment_at_end_of_input_insignificant : forall c line tl esc,
  Forall (fun ch => ch <> NL) c ->
  lex_go (HASH :: c) line [] tl false false esc = [].
Proof. exact c10_comment_at_eof. Qed.
Print Assumptions C10_comment_at_end_of_input_insignificant.

Example C10_comment_of_any_length_insignificant_nonvacuous :
  Forall (fun ch => ch <> NL) (repeat 120 5000) /\
  lex (bs "a b #"%string ++ repeat 120 5000 ++ NL :: bs "c"%string) = lex (bs "a b "%string ++ NL :: bs "c"%string) /\
  map (fun t => (t_line t, t_text t)) (lex (bs "a b #"%string ++ repeat 120 5000 ++ NL :: bs "c"%string)) =
    [(1%Z, bs "a"%string); (1%Z, bs "b"%string); (2%Z, bs "c"%string)].
Proof. exact c10_comment_witness. Qed.

(* ---------------------------------------------------------------------------------------- *)
(* UNIVERSAL TERMINATION AND TOTALITY                                                         *)
(* ---------------------------------------------------------------------------------------- *)

(* For EVERY token list — arbitrary, ill-formed included: unbalanced braces, stray commas, keys
   without blocks, snippet definitions — that holds no import directive (no token whose text, as
   written or after environment expansion, is `import`), for every environment, import bound and
   world oracle: the parser run with fuel = number of tokens + 4 returns server blocks or one of
   the error classes; it is never out of fuel, never panics (every checked index / slice of
   parse.go stays in range) and never asks the world oracle. *)
Theorem C10_parse_total_no_imports : forall env maxi globs files toks fuel,
  forallb (fun t => negb (beq (t_text t) IMPORT) && negb (beq (renv env (t_text t)) IMPORT)) toks = true ->
  (length toks + 4 <= fuel)%nat ->
  (exists bl, parse_tokens env maxi globs files fuel toks = POk bl) \/
  (exists e, parse_tokens env maxi globs files fuel toks = PErr e).
Proof. exact parse_total_no_imports. Qed.
Print Assumptions C10_parse_total_no_imports.

Example C10_parse_total_no_imports_nonvacuous :
  forallb (noimpb std_env) TotalExample.soup1 = true /\ forallb (noimpb std_env) TotalExample.soup2 = true /\
  parse_tokens std_env 10000 [] [] (total_fuel (length TotalExample.soup1)) TotalExample.soup1 = PErr ESyntax /\
  (exists bl, parse_tokens std_env 10000 [] [] (total_fuel (length TotalExample.soup2)) TotalExample.soup2 = POk bl /\ length bl = 1%nat).
Proof. exact TotalExample.no_imports_witness. Qed.

(* For EVERY token list WITH imports (files, globs, snippets, snippets and files importing each
   other, cycles of any shape), every environment, every import bound maxi and every world oracle
   whose glob answers splice at most L0 tokens (L0 also bounds the input): run with the explicit
   fuel  tokens + 4 + L0 * (2^maxi - 1)  the parser is never out of fuel and never panics — the
   result is server blocks, an error class (the too-many-imports error when the bound is hit) or
   PUnknown (the oracle was not told about a pattern).  The potential that decreases at every loop
   iteration of parseAll / addresses / directives / directive / snippetTokens is
   (tokens - cursor) + L0 * (2^maxi - 2^imports): an import lowers it by two.  The bound is
   exponential in maxi because a snippet body is only bounded by the token list it was cut from. *)
Theorem C10_parse_total_bounded_imports : forall env maxi globs files toks L0 fuel,
  (Z.of_nat (length toks) <= L0)%Z ->
  (forall f pat ids ts, lookup_g globs f pat = Some ids -> import_files files ids = POk ts ->
                        (Z.of_nat (length ts) <= L0)%Z) ->
  (length toks + 4 + Z.to_nat (L0 * (2 ^ Z.of_N maxi - 1)) <= fuel)%nat ->
  parse_tokens env maxi globs files fuel toks <> PFuel /\ parse_tokens env maxi globs files fuel toks <> PPanic.
Proof. exact parse_total_bounded_imports. Qed.
Print Assumptions C10_parse_total_bounded_imports.

Example C10_parse_total_bounded_imports_nonvacuous :
  (forall f pat ids ts, lookup_g TotalExample.wglobs f pat = Some ids -> import_files TotalExample.wfiles ids = POk ts ->
     (Z.of_nat (length ts) <= 13)%Z) /\
  (Z.of_nat (length TotalExample.main) <= 13)%Z /\
  parse_tokens [] 3 TotalExample.wglobs TotalExample.wfiles (import_fuel 3 (length TotalExample.main) 13) TotalExample.main = PErr ECycle /\
  (exists bl, parse_tokens [] 4 TotalExample.wglobs [(1, Some [TotalExample.tk 1 1 "root"%string; TotalExample.tk 1 1 "/srv"%string])]
                (import_fuel 4 (length TotalExample.main) 13) TotalExample.main = POk bl).
Proof. split; [exact TotalExample.wglobs_bounded|exact TotalExample.bounded_imports_witness]. Qed.

(* The executable reference used for the soup stream of the correspondence harness (kind 1 cases:
   the model run with the PROVED fuel tokens+4 and the implementation's own import bound 10000)
   answers server blocks or an error class for every input text without import directives. *)
Theorem C10_soup_reference_total : forall env globs files inp,
  forallb (noimpb env) (lex inp) = true -> is_res (parse_soup env globs files inp) = true.
Proof. exact parse_soup_result. Qed.
Print Assumptions C10_soup_reference_total.

Example C10_soup_reference_total_nonvacuous :
  forallb (noimpb std_env) (lex (bs "a.com, { dir { x } } } { {$V_BR} "%string)) = true /\
  parse_soup std_env [] [] (bs "a.com, { dir { x } } } { {$V_BR} "%string) = PErr ESyntax.
Proof. split; vm_compute; reflexivity. Qed.

(* Parsing terminates for ALL inputs, with a fuel that is an explicit function of the sizes alone: for
   every environment, import bound, world (glob answers and file contents) and token list, the fuel
   world_fuel = tokens + 4 + L * (2^maxi - 1), L = max (tokens, largest glob answer of the world),
   never yields OutOfFuel or PPanic; with no import allowed it is tokens + 4. *)
Theorem C10_parse_total_world : forall env maxi globs files toks fuel,
  (world_fuel maxi files globs (length toks) <= fuel)%nat ->
  parse_tokens env maxi globs files fuel toks <> PFuel /\ parse_tokens env maxi globs files fuel toks <> PPanic.
Proof. exact parse_total_world. Qed.
Print Assumptions C10_parse_total_world.

Example C10_parse_total_world_nonvacuous :
  world_fuel 0 TotalExample.wfiles TotalExample.wglobs (length TotalExample.main) = (length TotalExample.main + 4)%nat /\
  parse_tokens [] 3 TotalExample.wglobs TotalExample.wfiles
    (world_fuel 3 TotalExample.wfiles TotalExample.wglobs (length TotalExample.main)) TotalExample.main = PErr ECycle.
Proof. split; [apply world_fuel_0|vm_compute; reflexivity]. Qed.
