(* C18 — property theorems only.  Each is closed by [exact] of a lemma proved in C18_Proofs.v
   and followed by Print Assumptions.

   Reading guide.  [run_plain s] is the response of handler script [s] without the gzip directive
   (the identity run); [gzip_serve dexts cs cfgs path ae s] is the response of the same script
   below the gzip middleware configured with blocks [cfgs], for request path [path] and
   Accept-Encoding [ae]; [dexts]/[prio] are the tables of the Go source (default extensions,
   sibling priority) — every theorem holds for ALL tables unless it names the regenerated lists
   (Gen_C18.v), with which the check instantiates them.  The compressor is any pair [gz]/[gunzip]
   with gunzip (gz ws) = Some (concat ws) (a premise, not an axiom).  A handler script [s] is
   ANY sequence of header operations, WriteHeader calls, Writes and Flushes (any number, order,
   chunking, payload: Flush before the header, repeated WriteHeader, header changes after the
   response has started are all covered). *)
Require Import V.Lib V.GoPath V.Gen_C18 V.C18_Model V.C18_Proofs.
Open Scope N_scope.
Local Open Scope string_scope.

(* ---- 1. the decoded body equals the identity body; Content-Encoding names what was applied ---- *)

(* For EVERY config list, request, Accept-Encoding, status, header set (ANY Content-Encoding the
   handler may have set, in any spelling) and EVERY sequence of handler operations:
   same status, and either the representation is untouched or exactly one gzip layer was added
   to an unencoded body, is named by Content-Encoding, and gunzips to the identity body. *)
Theorem C18_gzip_transparent :
  forall (gz : list bytes -> bytes) (gunzip : bytes -> option bytes),
  (forall ws, gunzip (gz ws) = Some (concat ws)) ->
  forall dexts cs cfgs path ae head s,
  transparent gz gunzip head (gzip_serve dexts cs cfgs path ae s) (run_plain s).
Proof. intros gz gunzip Hrt dexts. exact (gzip_transparent dexts gz gunzip Hrt). Qed.
Print Assumptions C18_gzip_transparent.

(* the handler shapes that used to break it *)
Example C18_gzip_transparent_hard_scripts :
  let run := gzip_serve [[]] false [bare] (bs "/x") (bs "gzip") in
  (* chunked writes with a flush in between *)
  r_segs (run [OSet K_CT (bs "text/plain"); OSet K_CL (bs "3"); OWrite [1]; OFlush; OWrite [2; 3]]) = [SG [[1]; [2; 3]]] /\
  r_cl (run [OSet K_CT (bs "text/plain"); OSet K_CL (bs "3"); OWrite [1]; OFlush; OWrite [2; 3]]) = [] /\
  (* Flush before the header: the flushed headers name the coding of the body *)
  (let out := run [OSet K_CL (bs "3"); OFlush; OWrite [1; 2; 3]] in
   r_ce out = [GZIP] /\ r_cl out = [] /\ r_segs out = [SG [[1; 2; 3]]]) /\
  (* repeated WriteHeader, also after a Flush and between writes: still one gzip stream *)
  (let out := run [OWriteHeader 200; OWriteHeader 200; OWrite [1; 2; 3]] in
   r_ce out = [GZIP] /\ r_segs out = [SG [[1; 2; 3]]]) /\
  (let out := run [OFlush; OWriteHeader 404; OWrite [1]; OWriteHeader 200; OSet K_CE (bs "br"); OWrite [2]] in
   r_status out = 200%Z /\ r_ce out = [GZIP] /\ r_segs out = [SG [[1]; [2]]]).
Proof. vm_compute. repeat split; reflexivity. Qed.

(* the same in the client's terms: what a client that honours Content-Encoding decodes is the
   identity body, for every unencoded inner response (no Content-Encoding, or "identity") *)
Theorem C18_client_decodes_identity_body :
  forall (gz : list bytes -> bytes) (gunzip : bytes -> option bytes),
  (forall ws, gunzip (gz ws) = Some (concat ws)) ->
  forall dexts cs cfgs path ae head s,
  no_coding (r_ce (run_plain s)) = true ->
  client_body gz gunzip head (gzip_serve dexts cs cfgs path ae s) = Some (wire gz head (run_plain s)).
Proof. intros gz gunzip Hrt dexts. exact (client_view dexts gz gunzip Hrt). Qed.
Print Assumptions C18_client_decodes_identity_body.

(* the body is never a mixture: all of it plain exactly as in the identity run, or one gzip stream
   holding exactly the identity run's writes *)
Theorem C18_one_representation :
  forall dexts cs cfgs path ae s,
  let out := gzip_serve dexts cs cfgs path ae s in
  (applied out = [] /\ all_plain (r_segs out) = all_plain (r_segs (run_plain s)) /\
   exists b, all_plain (r_segs out) = Some b) \/
  (applied out = [GZIP] /\ exists ws, r_segs out = [SG ws] /\ all_plain (r_segs (run_plain s)) = Some (concat ws)).
Proof. exact one_representation. Qed.
Print Assumptions C18_one_representation.

(* Content-Encoding names exactly the codings applied: untouched when the layer applied none,
   otherwise the inner response named no coding and the header names gzip alone *)
Theorem C18_content_encoding_exact :
  forall dexts cs cfgs path ae s,
  let out := gzip_serve dexts cs cfgs path ae s in
  (applied out = [] -> r_ce out = r_ce (run_plain s)) /\
  codings (r_ce out) = codings (r_ce (run_plain s)) ++ applied out.
Proof. exact ce_exact. Qed.
Print Assumptions C18_content_encoding_exact.

(* ---- 2. already-encoded responses are not encoded again ---- *)

(* whatever the Content-Encoding of the inner response says — any value other than "" and
   "identity": listed or unlisted coding, x-gzip, GZIP, "br, gzip", several header lines — the
   response is not touched at all (headers included) *)
Theorem C18_not_double_encoded :
  forall dexts cs cfgs path ae s,
  no_coding (r_ce (run_plain s)) = false ->
  gzip_serve dexts cs cfgs path ae s = run_plain s.
Proof. exact not_double_encoded. Qed.
Print Assumptions C18_not_double_encoded.

Example C18_not_double_encoded_nonvacuous :
  forallb (fun ce => let s := [OSet K_CE ce; OWrite [1; 2; 3]] in
                     negb (no_coding (r_ce (run_plain s))))
          [bs "zstd"; bs "x-gzip"; bs "GZIP"; bs "br, gzip"; bs "gzip"; bs "Identity"] = true /\
  (let s := [OAdd K_CE (bs "identity"); OAdd K_CE (bs "br"); OWrite [1]] in
   no_coding (r_ce (run_plain s)) = false).
Proof. vm_compute. split; reflexivity. Qed.

(* precompressed siblings: the file server picks the first coding of its priority list that the
   client listed verbatim and whose sibling exists ... *)
Theorem C18_static_sibling_choice_sound :
  forall prio ae avail name ext,
  select_sibling prio ae avail = Some (name, ext) ->
  (exists e, In e (split 44 ae) /\ trim e = name) /\ avail ext = true /\
  exists l1 l2, prio = l1 ++ (name, ext) :: l2 /\
    forall n e, In (n, e) l1 -> accepted ae n = false \/ avail e = false.
Proof.
  intros prio ae avail name ext H. destruct (select_sibling_sound _ _ _ _ _ H) as (Ha & Hv & Hrest).
  split; [apply accepted_listed; exact Ha | split; [exact Hv | exact Hrest]].
Qed.
Print Assumptions C18_static_sibling_choice_sound.

Theorem C18_static_no_sibling_when_none_eligible :
  forall prio ae avail, select_sibling prio ae avail = None ->
  forall n e, In (n, e) prio -> accepted ae n = false \/ avail e = false.
Proof. exact select_sibling_none. Qed.
Print Assumptions C18_static_no_sibling_when_none_eligible.

(* ... and whichever sibling it picks goes out exactly as without gzip (priority list of the
   current sources: each of its names is a coding, none is "" or "identity") *)
Theorem C18_static_sibling_not_reencoded :
  forall dexts cs cfgs path ae head data sibs name ext,
  select_sibling gen_c18_static_priority ae
    (fun e => match sib_data sibs e with Some _ => true | None => false end) = Some (name, ext) ->
  gzip_serve dexts cs cfgs path ae (static_script gen_c18_static_priority head ae data sibs) =
  run_plain (static_script gen_c18_static_priority head ae data sibs).
Proof. exact static_sibling_not_reencoded_full. Qed.
Print Assumptions C18_static_sibling_not_reencoded.

Example C18_static_sibling_not_reencoded_nonvacuous :
  select_sibling gen_c18_static_priority (bs "zstd, gzip")
    (fun e => match sib_data [(bs ".zst", [40; 181; 47; 253])] e with Some _ => true | None => false end)
  = Some (bs "zstd", bs ".zst").
Proof. vm_compute. reflexivity. Qed.

(* a file without eligible sibling: the client decodes the file's bytes, whatever gzip decides *)
Theorem C18_static_plain_file_transparent :
  forall dexts prio (gz : list bytes -> bytes) (gunzip : bytes -> option bytes),
  (forall ws, gunzip (gz ws) = Some (concat ws)) ->
  forall cs cfgs path ae head data sibs,
  select_sibling prio ae (fun e => match sib_data sibs e with Some _ => true | None => false end) = None ->
  client_body gz gunzip head (gzip_serve dexts cs cfgs path ae (static_script prio head ae data sibs))
  = Some (if bodyless head 200 then [] else data).
Proof. exact static_plain_transparent. Qed.
Print Assumptions C18_static_plain_file_transparent.

(* ---- 3. Content-Length is absent or correct ---- *)
Theorem C18_content_length_absent_or_correct :
  forall dexts (gz : list bytes -> bytes) cs cfgs path ae head s,
  cl_correct gz head (run_plain s) ->
  cl_correct gz head (gzip_serve dexts cs cfgs path ae s).
Proof. exact content_length_ok. Qed.
Print Assumptions C18_content_length_absent_or_correct.

Example C18_content_length_nonvacuous :
  let s := [OSet K_CL (bs "3"); OWrite [1; 2; 3]] in
  r_cl (run_plain s) = [bs "3"] /\ parse_int (bs "3") = Some 3%Z.
Proof. vm_compute. repeat split; reflexivity. Qed.

(* static files (GET): the header, if still there, is FormatInt of the number of bytes sent —
   whichever sibling was picked and whatever gzip decided *)
Theorem C18_static_content_length_correct :
  forall dexts prio (gz : list bytes -> bytes) cs cfgs path ae data sibs,
  let out := gzip_serve dexts cs cfgs path ae (static_script prio false ae data sibs) in
  r_cl out = [] \/ r_cl out = [decimal (N.of_nat (length (wire gz false out)))].
Proof. exact static_content_length. Qed.
Print Assumptions C18_static_content_length_correct.

Example C18_decimal_parse_roundtrip_samples :
  forallb (fun n => match parse_int (decimal n) with Some z => (z =? Z.of_N n)%Z | None => false end)
          [0; 1; 9; 10; 37; 99; 100; 2600; 65535; 4294967296; 9223372036854775807] = true.
Proof. vm_compute. reflexivity. Qed.

(* ---- 4. clients that did not offer gzip get the identity response ---- *)
(* for the RFC 7231 reading of Accept-Encoding ([offers_gzip]: comma list, coding name before ';',
   case-insensitive, q=0 means "not acceptable", "*" covers codings not listed) and for every
   handler whatsoever: "gzip;q=0", "notgzip", "gzipped, br", "x-gzip;q=0.0" ... get the identity
   response *)
Theorem C18_identity_when_not_offered :
  forall dexts cs cfgs path ae s,
  offers_gzip ae = false -> gzip_serve dexts cs cfgs path ae s = run_plain s.
Proof. exact identity_when_not_offered. Qed.
Print Assumptions C18_identity_when_not_offered.

Example C18_identity_when_not_offered_nonvacuous :
  forallb (fun ae => negb (offers_gzip ae))
    [bs "gzip;q=0"; bs "gzip;q=0, identity"; bs "gzip; q=0.0, br"; bs "br, gzip;Q=0.000"; bs "notgzip";
     bs "gzipped, br"; bs "x-gzip;q=0"; bs "br"; bs ""] = true /\
  forallb (fun ae => lbeq (applied (gzip_serve [[]] false [bare] (bs "/x") ae [OWrite [1; 2; 3]])) [GZIP])
    [bs "gzip"; bs "br, gzip"; bs " gzip ;q=0.5"; bs "x-gzip"; bs "gzip;q=0, gzip"; bs "deflate, gzip;q=1.0"] = true.
Proof. vm_compute. split; reflexivity. Qed.

(* the code's own test (acceptsGzip), which is what decides *)
Theorem C18_identity_when_not_accepted :
  forall dexts cs cfgs path ae s,
  accepts_gzip ae = false -> gzip_serve dexts cs cfgs path ae s = run_plain s.
Proof. exact identity_when_not_accepted. Qed.
Print Assumptions C18_identity_when_not_accepted.

(* ... never sees gzip offered where the RFC reading does not *)
Theorem C18_accepts_gzip_sound :
  forall ae, accepts_gzip ae = true -> offers_gzip ae = true.
Proof. exact accepts_offers. Qed.
Print Assumptions C18_accepts_gzip_sound.

(* ---- 5. request filters, min_length, header rewriting, liveness ---- *)
Theorem C18_excluded_request_identity :
  forall dexts cs cfgs path ae s,
  (forall c, In c cfgs -> req_ok dexts cs path c = false) ->
  gzip_serve dexts cs cfgs path ae s = run_plain s.
Proof. exact excluded_identity. Qed.
Print Assumptions C18_excluded_request_identity.

Theorem C18_min_length_respected :
  forall dexts cs cfgs path ae s c,
  find (req_ok dexts cs path) cfgs = Some c -> c_min c <> 0%Z ->
  (r_cl (run_plain s) = [] \/
   exists v r, r_cl (run_plain s) = v :: r /\ forall n, parse_int v = Some n -> (n < c_min c)%Z) ->
  gzip_serve dexts cs cfgs path ae s = run_plain s.
Proof. exact min_length_respected. Qed.
Print Assumptions C18_min_length_respected.

Theorem C18_compressed_response_headers :
  forall dexts cs cfgs path ae s,
  let out := gzip_serve dexts cs cfgs path ae s in
  applied out = [GZIP] ->
  r_ce out = [GZIP] /\ r_cl out = [] /\ In V_AE (hvals (r_hdr out) K_VARY) /\
  hget (r_hdr out) K_ETAG = weak_of (hget (r_hdr (run_plain s)) K_ETAG).
Proof. exact compressed_headers. Qed.
Print Assumptions C18_compressed_response_headers.

Theorem C18_compresses_when_eligible :
  forall dexts cs cfgs path ae s c,
  forallb is_hdr s = false ->
  accepts_gzip ae = true -> find (req_ok dexts cs path) cfgs = Some c ->
  resp_ok c (r_hdr (run_plain s)) = true ->
  applied (gzip_serve dexts cs cfgs path ae s) = [GZIP].
Proof. exact compresses_when_eligible. Qed.
Print Assumptions C18_compresses_when_eligible.

(* ---- 6. precompressed siblings only in a coding the request offers ----
   The file server's test (fileserver.go:serveFile), exactly: the header is split at commas and a
   coding counts as accepted iff one element, stripped of the optional white space HTTP allows
   around a list element (strings.Trim(acc, " \t"): SP / HTAB only), IS the coding's name
   (C18_static_sibling_choice_sound above).  So an element that carries any parameter never
   matches: "gzip;q=0" refuses, and "gzip;q=1" is not understood either (the identity file is
   served); Unicode white space around the name is part of the element and does not match either.
   Against the RFC 7231 reading ([offers_coding]: comma list, name before ';', case-insensitive,
   OWS = SP / HTAB, q=0 = not acceptable, "*" for unlisted codings): for EVERY Accept-Encoding
   byte string, all sets of siblings on disk ([avail]) and the priority table of the current
   sources, a sibling is served only in a coding the request offers. *)
Theorem C18_sibling_only_if_offered :
  forall ae avail name ext,
  select_sibling gen_c18_static_priority ae avail = Some (name, ext) ->
  avail ext = true /\ offers_coding ae name = true.
Proof. exact sibling_only_if_offered_table. Qed.
Print Assumptions C18_sibling_only_if_offered.

Example C18_sibling_only_if_offered_nonvacuous :
  select_sibling gen_c18_static_priority (bs "br;q=0, zstd ,	gzip;q=0.5") (fun _ => true) = Some (bs "zstd", bs ".zst") /\
  (* the full 8 x 8 matrix: siblings on disk x codings offered (plain spelling) *)
  forallb (fun sib => forallb (fun off =>
      let ae := (if N.testbit off 2 then bs "zstd," else []) ++ (if N.testbit off 1 then bs " br ," else []) ++
                (if N.testbit off 0 then bs "gzip" else bs "identity") in
      let avail e := (beq e (bs ".zst") && N.testbit sib 2) || (beq e (bs ".br") && N.testbit sib 1) ||
                     (beq e (bs ".gz") && N.testbit sib 0) in
      match select_sibling gen_c18_static_priority ae avail with
      | Some (n, e) => offers_coding ae n && avail e
      | None => forallb (fun ne => negb (offers_coding ae (fst ne) && avail (snd ne))) gen_c18_static_priority
      end) [0; 1; 2; 3; 4; 5; 6; 7]) [0; 1; 2; 3; 4; 5; 6; 7] = true.
Proof. vm_compute. split; reflexivity. Qed.

(* every table: names that are lower-case tokens without ';' *)
Theorem C18_sibling_only_if_offered_any_table :
  forall prio ae avail name ext,
  select_sibling prio ae avail = Some (name, ext) ->
  ~ In 59 name -> to_lower name = name ->
  avail ext = true /\ offers_coding ae name = true.
Proof. exact sibling_only_if_offered. Qed.
Print Assumptions C18_sibling_only_if_offered_any_table.

Example C18_sibling_only_if_offered_any_table_nonvacuous :
  ~ In 59 (bs "br") /\ to_lower (bs "br") = bs "br" /\
  select_sibling priority_snapshot (bs "br, gzip;q=0") (fun _ => true) = Some (bs "br", bs ".br").
Proof.
  split; [intros H; vm_compute in H; intuition discriminate|]. split; vm_compute; reflexivity.
Qed.

(* q-value spellings: with every sibling on disk, a request that names a coding with any
   parameter gets the identity file *)
Example C18_sibling_parameter_spellings_refused :
  forallb (fun c =>
    forallb (fun suffix =>
      match select_sibling gen_c18_static_priority (fst c ++ suffix) (fun _ => true) with None => true | Some _ => false end)
      [bs ";q=0"; bs "; q=0"; bs ";q=0.0"; bs " ;q=0.000"; bs ";Q=0"; bs ";q=0, identity"; bs ";q=1"; bs ";q=0.5"])
    gen_c18_static_priority = true.
Proof. exact sibling_param_spellings_refused. Qed.

(* white space: with every sibling on disk, a coding name with Unicode white space (U+00A0,
   U+0085, U+2003, U+3000 as UTF-8) or another control (VT FF CR LF NUL) before / after it gets
   the identity file — the witnesses of the repaired finding F-C18-7 (the test was
   strings.TrimSpace; replayed on the real server on every run: corpus/C18/f7_unicode_space.json)
   — while SP / HTAB around the name are stripped and the coding is taken *)
Example C18_sibling_unicode_space_refused :
  forallb (fun c =>
    forallb (fun ws =>
      match select_sibling gen_c18_static_priority (fst c ++ ws) (fun _ => true),
            select_sibling gen_c18_static_priority (ws ++ fst c) (fun _ => true),
            select_sibling gen_c18_static_priority (bs "identity," ++ ws ++ fst c ++ ws ++ bs ",x") (fun _ => true) with
      | None, None, None => true | _, _, _ => false end)
      [[194; 160]; [194; 133]; [226; 128; 131]; [227; 128; 128]; [11]; [12]; [13]; [10]; [0]; [32; 194; 160]; [194; 160; 9]])
    gen_c18_static_priority = true /\
  forallb (fun c =>
    forallb (fun ws =>
      match select_sibling gen_c18_static_priority (bs "identity," ++ ws ++ fst c ++ ws ++ bs ",x") (fun _ => true) with
      | Some ne => beq (fst ne) (fst c) | None => false end)
      [[]; [32]; [9]; [32; 9; 32]])
    gen_c18_static_priority = true.
Proof. exact sibling_unicode_space_refused. Qed.

(* ---- 7. the pooled gzip writers under concurrency ----
   [prun nput_code t] is the state after ANY sequence [t] of events of any number of concurrent
   requests: PGet r k (request r fetches a writer: the k-th pooled one, or a new one), PWrite r b,
   PFinish r err (Gzip.ServeHTTP returns; err = over the status >= 400 path; the deferred
   putWriter hands the writer back once on every path), PDrop k (the runtime drops a pooled
   writer).  Events that cannot happen (a second fetch, a write without writer, ...) are no-ops,
   so every list is an execution and every interleaving is a list. *)

(* linearity: in every reachable state no writer is owned by two requests, none is owned and
   pooled at once, none is pooled twice *)
Theorem C18_pool_writers_not_shared :
  forall t : list pev,
  let s := prun nput_code t in
  (forall r1 r2 w, p_held s r1 = Some w -> p_held s r2 = Some w -> r1 = r2) /\
  (forall r w, p_held s r = Some w -> ~ In w (p_pool s)) /\
  NoDup (p_pool s).
Proof. exact pool_writers_not_shared. Qed.
Print Assumptions C18_pool_writers_not_shared.

(* the writer a request holds is bound to that request's response, open, and holds exactly what
   that request wrote *)
Theorem C18_pool_held_writer_is_own :
  forall (t : list pev) r w,
  let s := prun nput_code t in
  p_held s r = Some w -> p_dst s w = r /\ p_closed s w = false /\ p_buf s w = p_log s r.
Proof. exact pool_held_writer_own. Qed.
Print Assumptions C18_pool_held_writer_is_own.

(* hence, whatever the other requests do meanwhile: a response receives nothing from the gzip
   layer while its request runs, and once it has finished exactly one stream that holds exactly
   its own writes, in order (no stream at all if it never fetched a writer) *)
Theorem C18_pool_response_is_own_writes :
  forall (t : list pev) r,
  let s := prun nput_code t in
  (p_done s r = false -> p_out s r = []) /\
  (p_done s r = true -> p_out s r = if p_got s r then [rev (p_log s r)] else []).
Proof. exact pool_response_own_writes. Qed.
Print Assumptions C18_pool_response_is_own_writes.

Example C18_pool_nonvacuous :
  (* three overlapping requests, the third reuses the writer the first handed back on its error path *)
  let t := [PGet 0 0; PGet 1 0; PWrite 0 [1]; PWrite 1 [2]; PFinish 0 true; PGet 2 0; PWrite 2 [3]; PWrite 1 [4]] in
  let s := prun nput_code t in
  p_held s 1%nat = Some 1%nat /\ p_held s 2%nat = Some 0%nat /\ p_out s 0%nat = [[[1]]] /\
  p_buf s 1%nat = [[4]; [2]] /\ p_buf s 0%nat = [[3]] /\ p_pool s = [].
Proof. vm_compute. repeat split; reflexivity. Qed.

(* why the error path matters: were the writer handed back a second time when the handler has
   returned a status >= 400, two later overlapping requests would own the same writer; one
   response would lose its data and the other receive both requests' writes *)
Example C18_pool_second_put_on_error_path_shares :
  (let mid := prun nput_twice_on_error (firstn 7 double_put_trace) in
   p_held mid 1%nat = Some 0%nat /\ p_held mid 2%nat = Some 0%nat) /\
  (let s := prun nput_twice_on_error double_put_trace in
   p_out s 1%nat = [] /\ p_out s 2%nat = [[[3]; [4]]]) /\
  (let s := prun nput_code double_put_trace in
   p_out s 1%nat = [[[2]; [4]]] /\ p_out s 2%nat = [[[3]]]).
Proof. exact double_put_shares. Qed.

(* ---- 8. every status: the response is labelled gzip exactly when its body is gzip-encoded ----
   For EVERY status code the handler chooses (1xx, 204, 304, 3xx with a body, 4xx, 5xx: [s] is any
   script, so [OWriteHeader code] with any [code]) and every write pattern the response of the
   gzip layer is one of two things, nothing in between:
   - the gzip layer applied nothing, and the response IS the identity response (status, every
     header — Content-Encoding, Content-Length, Vary, ETag — and body);
   - the body is one gzip stream holding exactly the identity run's writes, the response says
     Content-Encoding: gzip alone, carries no Content-Length (the identity length would be
     wrong), has the identity run's status, and the identity response named no coding. *)
Theorem C18_labelled_iff_encoded :
  forall dexts cs cfgs path ae s,
  let out := gzip_serve dexts cs cfgs path ae s in
  (applied out = [] /\ out = run_plain s) \/
  (applied out = [GZIP] /\ r_ce out = [GZIP] /\ r_cl out = [] /\
   r_status out = r_status (run_plain s) /\ no_coding (r_ce (run_plain s)) = true /\
   exists ws, r_segs out = [SG ws] /\ all_plain (r_segs (run_plain s)) = Some (concat ws)).
Proof. exact labelled_iff_encoded. Qed.
Print Assumptions C18_labelled_iff_encoded.

(* both sides are reached for every status class, with a body written and without *)
Example C18_labelled_iff_encoded_every_status_class :
  forallb (fun st =>
    let run := gzip_serve [[]] false [bare] (bs "/x") (bs "gzip") in
    let enc := run [OSet K_CT (bs "text/plain"); OSet K_CL (bs "3"); OWriteHeader st; OWrite [1; 2; 3]] in
    let enc0 := run [OSet K_CT (bs "text/plain"); OWriteHeader st] in
    let pre := run [OSet K_CE (bs "br"); OSet K_CL (bs "3"); OWriteHeader st; OWrite [1; 2; 3]] in
    lbeq (applied enc) [GZIP] && lbeq (r_ce enc) [GZIP] && lbeq (r_cl enc) [] && (r_status enc =? st)%Z &&
    lbeq (applied enc0) [GZIP] && lbeq (r_ce enc0) [GZIP] && (r_status enc0 =? st)%Z &&
    lbeq (applied pre) [] && lbeq (r_ce pre) [bs "br"] && lbeq (r_cl pre) [bs "3"] && (r_status pre =? st)%Z)
    [101; 200; 201; 204; 205; 206; 226; 300; 301; 302; 303; 304; 307; 308; 400; 401; 403; 404; 410; 416; 451; 500; 502; 503; 599]%Z = true.
Proof. vm_compute. reflexivity. Qed.

(* ---- 9. informational responses (1xx other than 101): the faithful model ----
   [gzip_serve_i] / [run_plain_i] model net/http's treatment of WriteHeader(1xx): an
   informational response is sent and the final response stays open.  On every script without
   such a call they ARE the functions of the theorems above, so all of them hold of the faithful
   model there. *)
Theorem C18_info_free_same_model :
  forall dexts cs cfgs path ae s,
  info_free s = true ->
  gzip_serve_i dexts cs cfgs path ae s = gzip_serve dexts cs cfgs path ae s /\
  run_plain_i s = run_plain s.
Proof. intros dexts cs cfgs path ae s H. split; [apply gzip_serve_i_same | apply run_plain_i_same]; exact H. Qed.
Print Assumptions C18_info_free_same_model.

Example C18_info_free_same_model_nonvacuous :
  info_free [OSet K_CL (bs "3"); OFlush; OWriteHeader 404; OWriteHeader 101; OWrite [1; 2; 3]; OWriteHeader 200] = true.
Proof. vm_compute. reflexivity. Qed.

(* With an informational WriteHeader the statement is FALSE of the code (finding F-C18-8):
   ResponseFilterWriter.WriteHeader decides on the headers present at the 103, and
   gzipResponseWriter.WriteHeader rewrites the header map again at the final WriteHeader.  A
   handler that sends 103 Early Hints and then labels its (already brotli-encoded) body gets a
   gzip layer on top and loses its label; one that then sets Content-Length and writes without
   WriteHeader gets the identity Content-Length and its own label on a gzip body. *)
Theorem C18_not_double_encoded_informational_refuted :
  exists s,
  let out := gzip_serve_i [[]] false [bare] (bs "/x") (bs "gzip") s in
  r_ce (run_plain_i s) = [bs "br"] /\ r_status (run_plain_i s) = 200%Z /\
  r_status out = 200%Z /\ r_ce out = [GZIP] /\ applied out = [GZIP].
Proof.
  exists [OWriteHeader 103; OSet K_CE (bs "br"); OWriteHeader 200; OWrite [1; 2; 3]].
  vm_compute. repeat split; reflexivity.
Qed.
Print Assumptions C18_not_double_encoded_informational_refuted.

Theorem C18_labelled_iff_encoded_informational_refuted :
  exists s,
  let out := gzip_serve_i [[]] false [bare] (bs "/x") (bs "gzip") s in
  applied out = [GZIP] /\ r_ce out = [bs "br"] /\ r_cl out = [bs "3"] /\ r_segs out = [SG [[1; 2; 3]]].
Proof.
  exists [OWriteHeader 103; OSet K_CE (bs "br"); OSet K_CL (bs "3"); OWrite [1; 2; 3]].
  vm_compute. repeat split; reflexivity.
Qed.
Print Assumptions C18_labelled_iff_encoded_informational_refuted.

(* the strongest statements true of the faithful model: everything above, for every script
   without informational WriteHeader *)
Theorem C18_not_double_encoded_informational_partial :
  forall dexts cs cfgs path ae s,
  info_free s = true ->
  no_coding (r_ce (run_plain_i s)) = false ->
  gzip_serve_i dexts cs cfgs path ae s = run_plain_i s.
Proof. exact not_double_encoded_i. Qed.
Print Assumptions C18_not_double_encoded_informational_partial.

Example C18_not_double_encoded_informational_partial_nonvacuous :
  let s := [OSet K_CE (bs "br"); OWriteHeader 308; OWrite [1; 2; 3]] in
  info_free s = true /\ no_coding (r_ce (run_plain_i s)) = false.
Proof. vm_compute. split; reflexivity. Qed.

Theorem C18_gzip_transparent_informational_partial :
  forall (gz : list bytes -> bytes) (gunzip : bytes -> option bytes),
  (forall ws, gunzip (gz ws) = Some (concat ws)) ->
  forall dexts cs cfgs path ae head s,
  info_free s = true ->
  transparent gz gunzip head (gzip_serve_i dexts cs cfgs path ae s) (run_plain_i s).
Proof. exact gzip_transparent_i. Qed.
Print Assumptions C18_gzip_transparent_informational_partial.

Theorem C18_labelled_iff_encoded_informational_partial :
  forall dexts cs cfgs path ae s,
  info_free s = true ->
  let out := gzip_serve_i dexts cs cfgs path ae s in
  (applied out = [] /\ out = run_plain_i s) \/
  (applied out = [GZIP] /\ r_ce out = [GZIP] /\ r_cl out = [] /\
   r_status out = r_status (run_plain_i s) /\ no_coding (r_ce (run_plain_i s)) = true /\
   exists ws, r_segs out = [SG ws] /\ all_plain (r_segs (run_plain_i s)) = Some (concat ws)).
Proof. exact labelled_iff_encoded_i. Qed.
Print Assumptions C18_labelled_iff_encoded_informational_partial.

(* ---- 10. sibling selection as a function of the Accept-Encoding list: completeness ----
   with C18_static_sibling_choice_sound (the one served is the FIRST eligible of the priority
   table) and C18_sibling_only_if_offered (only a coding the request offers with q > 0): for all
   offers and all sibling sets, whenever some coding of the table is listed plainly and its
   sibling is on disk, a sibling is served (not the identity file) *)
Theorem C18_sibling_served_when_offered :
  forall prio ae avail n e,
  In (n, e) prio -> accepted ae n = true -> avail e = true ->
  exists n' e', select_sibling prio ae avail = Some (n', e') /\
    accepted ae n' = true /\ avail e' = true /\
    exists l1 l2, prio = l1 ++ (n', e') :: l2 /\
      forall n0 e0, In (n0, e0) l1 -> accepted ae n0 = false \/ avail e0 = false.
Proof.
  intros prio ae avail n e Hin Ha Hv.
  destruct (sibling_served_when_offered prio ae avail n e Hin Ha Hv) as (n' & e' & E).
  exists n', e'. split; [exact E|]. exact (select_sibling_sound _ _ _ _ _ E).
Qed.
Print Assumptions C18_sibling_served_when_offered.

Example C18_sibling_served_when_offered_nonvacuous :
  In (bs "gzip", bs ".gz") gen_c18_static_priority /\ accepted (bs "br;q=0, gzip") (bs "gzip") = true /\
  (* every subset of {zstd, br, gzip} offered x every subset of siblings: served = first of the
     table that is both offered and on disk, none iff there is no such coding *)
  forallb (fun sib => forallb (fun off =>
      let ae := (if N.testbit off 0 then bs "gzip, " else []) ++ (if N.testbit off 2 then bs "zstd," else []) ++
                (if N.testbit off 1 then bs " br" else bs "identity") in
      let avail e := (beq e (bs ".zst") && N.testbit sib 2) || (beq e (bs ".br") && N.testbit sib 1) ||
                     (beq e (bs ".gz") && N.testbit sib 0) in
      let both := N.land sib off in
      match select_sibling gen_c18_static_priority ae avail with
      | Some (n, _) => if N.testbit both 2 then beq n (bs "zstd") else if N.testbit both 1 then beq n (bs "br") else N.testbit both 0 && beq n (bs "gzip")
      | None => both =? 0
      end) [0; 1; 2; 3; 4; 5; 6; 7]) [0; 1; 2; 3; 4; 5; 6; 7] = true.
Proof. split; [vm_compute; tauto|]. split; vm_compute; reflexivity. Qed.
