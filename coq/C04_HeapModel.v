(* C04 heap model: memory aliasing between a buffered (retry) request body, the pooled copy buffers
   of pooledIoCopy and concurrently relayed responses. Definitions only.

   Byte strings live in an explicit heap of buffers with an owner each (in the sync.Pool / backing
   array of request r's bufferedBody / held by copy loop c between its bufferPool.Get and Put).
   Every read goes through an ADDRESS: an attempt of request r sends what the cell its bytes.Reader
   points into holds AT THAT MOMENT, a copy loop writes what its buffer holds at that moment - so a
   buffer shared by two holders shows as wrong bytes, exactly as in Go.

   transliterated (caskethttp/proxy):
     body.go  newBufferedBody  : b := ioutil.ReadAll(src) (a FRESH backing array), bytes.NewReader(b)
              rewind           : Seek(0, SeekStart)
     proxy.go ServeHTTP loop   : body.rewind() before every attempt; the transport reads the body
     reverseproxy.go pooledIoCopy : buf := bufferPool.Get(); defer bufferPool.Put(buf);
                                 io.CopyBuffer(dst, src, buf[0:cap:cap]) = { n := src.Read(buf); dst.Write(buf[:n]) }*
   [pooled_body = true] is the variant in which newBufferedBody borrows its backing array from
   bufferPool and returns it (defer Put) while the bytes.Reader still points into it (seeded C04-m3). *)
Require Import V.Lib.
From Coq Require Import List NArith Arith Bool.
Import ListNotations.
Local Open Scope nat_scope.

Inductive owner := InPool | OwnBody (r : nat) | OwnCopy (c : nat).
Record cell := mkCell { c_owner : owner; c_data : bytes }.

Definition upd {A} (f : nat -> A) (i : nat) (v : A) : nat -> A := fun j => if Nat.eqb j i then v else f j.

(* one proxied request with a buffered body (try_duration > 0) *)
Record req := mkReq {
  rq_orig : bytes;                 (* ghost: the bytes the client sent *)
  rq_buf : option nat;             (* address the bytes.Reader's slice points into *)
  rq_len : nat;                    (* len of that slice *)
  rq_off : nat;                    (* bytes.Reader read offset *)
  rq_active : bool;                (* inside an attempt *)
  rq_cur : bytes;                  (* what the current attempt has put on the wire *)
  rq_done : list (bytes * bool)    (* finished attempts: bytes sent, Reader.Len() == 0 at the end *)
}.
(* one run of pooledIoCopy (a response being relayed, or a websocket direction) *)
Record cpy := mkCpy {
  cp_src : bytes;                  (* ghost: everything the source will deliver *)
  cp_pos : nat;                    (* how much of it has been Read *)
  cp_buf : option nat;             (* the buffer obtained from bufferPool.Get *)
  cp_n : nat;                      (* bytes of the buffer Read but not yet written *)
  cp_out : bytes                   (* what dst has received *)
}.
Record st := mkSt { s_heap : nat -> cell; s_next : nat; s_req : nat -> req; s_cp : nat -> cpy }.

Definition req0 := mkReq [] None 0 0 false [] [].
Definition cpy0 := mkCpy [] 0 None 0 [].
Definition st0 := mkSt (fun _ => mkCell InPool []) 0 (fun _ => req0) (fun _ => cpy0).

Definition is_pool (c : cell) : bool := match c_owner c with InPool => true | _ => false end.
(* copy(buf, chunk): the first len(chunk) bytes are overwritten, the rest of the array stays *)
Definition overwrite (old chunk : bytes) : bytes := chunk ++ skipn (List.length chunk) old.

Inductive lbl :=
| LNewBody (r : nat) (body : bytes) (pooled : option nat)
| LBegin (r : nat)             (* next attempt: body.rewind() *)
| LRead (r : nat) (k : nat)    (* the transport reads up to k bytes of the body and sends them *)
| LEnd (r : nat)               (* the attempt is over (success, or the backend failed) *)
| LGet (c : nat) (src : bytes) (pooled : option nat)   (* bufferPool.Get: a pooled buffer or New *)
| LFill (c : nat) (k : nat)    (* n := src.Read(buf), n <= min k cap *)
| LWrite (c : nat)             (* dst.Write(buf[:n]) *)
| LPut (c : nat).              (* deferred bufferPool.Put(buf) *)

Definition step (pooled_body : bool) (cap : nat) (s : st) (l : lbl) : option st :=
  let hp := s_heap s in let nx := s_next s in let rq := s_req s in let cp := s_cp s in
  match l with
  | LNewBody r body ao =>
      match rq_buf (rq r) with
      | Some _ => None
      | None =>
          let q a := mkReq body (Some a) (List.length body) 0 false [] [] in
          if pooled_body then
            if List.length body <=? cap then
              match ao with
              | Some a => if (a <? nx) && is_pool (hp a)
                          then Some (mkSt (upd hp a (mkCell InPool (overwrite (c_data (hp a)) body))) nx (upd rq r (q a)) cp)
                          else None
              | None => Some (mkSt (upd hp nx (mkCell InPool body)) (S nx) (upd rq r (q nx)) cp)
              end
            else None
          else Some (mkSt (upd hp nx (mkCell (OwnBody r) body)) (S nx) (upd rq r (q nx)) cp)
      end
  | LBegin r =>
      let q := rq r in
      match rq_buf q, rq_active q with
      | Some a, false => Some (mkSt hp nx (upd rq r (mkReq (rq_orig q) (Some a) (rq_len q) 0 true [] (rq_done q))) cp)
      | _, _ => None
      end
  | LRead r k =>
      let q := rq r in
      match rq_buf q, rq_active q with
      | Some a, true =>
          let chunk := firstn k (skipn (rq_off q) (firstn (rq_len q) (c_data (hp a)))) in
          Some (mkSt hp nx (upd rq r (mkReq (rq_orig q) (Some a) (rq_len q) (rq_off q + length chunk) true
                                            (rq_cur q ++ chunk) (rq_done q))) cp)
      | _, _ => None
      end
  | LEnd r =>
      let q := rq r in
      match rq_buf q, rq_active q with
      | Some a, true =>
          Some (mkSt hp nx (upd rq r (mkReq (rq_orig q) (Some a) (rq_len q) (rq_off q) false []
                                            (rq_done q ++ [(rq_cur q, Nat.eqb (rq_off q) (rq_len q))]))) cp)
      | _, _ => None
      end
  | LGet c src ao =>
      match cp_buf (cp c) with
      | Some _ => None
      | None =>
          match ao with
          | Some a => if (a <? nx) && is_pool (hp a)
                      then Some (mkSt (upd hp a (mkCell (OwnCopy c) (c_data (hp a)))) nx rq (upd cp c (mkCpy src 0 (Some a) 0 [])))
                      else None
          | None => Some (mkSt (upd hp nx (mkCell (OwnCopy c) [])) (S nx) rq (upd cp c (mkCpy src 0 (Some nx) 0 [])))
          end
      end
  | LFill c k =>
      let p := cp c in
      match cp_buf p, cp_n p with
      | Some a, O =>
          let chunk := firstn (Nat.min k cap) (skipn (cp_pos p) (cp_src p)) in
          Some (mkSt (upd hp a (mkCell (c_owner (hp a)) (overwrite (c_data (hp a)) chunk))) nx rq
                     (upd cp c (mkCpy (cp_src p) (cp_pos p + length chunk) (Some a) (List.length chunk) (cp_out p))))
      | _, _ => None
      end
  | LWrite c =>
      let p := cp c in
      match cp_buf p with
      | Some a => Some (mkSt hp nx rq (upd cp c (mkCpy (cp_src p) (cp_pos p) (Some a) 0 (cp_out p ++ firstn (cp_n p) (c_data (hp a))))))
      | None => None
      end
  | LPut c =>
      let p := cp c in
      match cp_buf p, cp_n p with
      | Some a, O => Some (mkSt (upd hp a (mkCell InPool (c_data (hp a)))) nx rq (upd cp c (mkCpy (cp_src p) (cp_pos p) None 0 (cp_out p))))
      | _, _ => None
      end
  end.

Fixpoint run (pb : bool) (cap : nat) (s : st) (tr : list lbl) : option st :=
  match tr with
  | [] => Some s
  | l :: t => match step pb cap s l with Some s' => run pb cap s' t | None => None end
  end.

(* ---- the invariant ---- *)
Definition req_ok (s : st) (r : nat) : Prop :=
  let q := s_req s r in
  (rq_active q = false -> rq_cur q = []) /\
  (rq_active q = true -> rq_cur q = firstn (rq_off q) (rq_orig q)) /\
  (forall att fl, In (att, fl) (rq_done q) -> att = firstn (List.length att) (rq_orig q) /\ (fl = true -> att = rq_orig q)) /\
  match rq_buf q with
  | Some a => a < s_next s /\ c_owner (s_heap s a) = OwnBody r /\ c_data (s_heap s a) = rq_orig q /\ rq_len q = length (rq_orig q)
  | None => True
  end.
Definition cpy_ok (s : st) (c : nat) : Prop :=
  let p := s_cp s c in
  match cp_buf p with
  | Some a => a < s_next s /\ c_owner (s_heap s a) = OwnCopy c /\
              cp_out p ++ firstn (cp_n p) (c_data (s_heap s a)) = firstn (cp_pos p) (cp_src p)
  | None => cp_n p = 0 /\ cp_out p = firstn (cp_pos p) (cp_src p)
  end.
Definition Inv (s : st) : Prop := (forall r, req_ok s r) /\ (forall c, cpy_ok s c).

(* a trace of the m3 variant: request 0 buffers "AB" in a pooled array, copy loop 0 obtains the
   same array and relays "xy", then request 0's first attempt reads its body *)
Definition wit_alias_trace : list lbl :=
  [LGet 0 [120; 121]%N None; LPut 0;
   LNewBody 0 [65; 66]%N (Some 0); LGet 1 [120; 121]%N (Some 0); LFill 1 2;
   LBegin 0; LRead 0 2; LEnd 0].
Definition done_of (o : option st) (r : nat) : list (bytes * bool) :=
  match o with Some s => rq_done (s_req s r) | None => [] end.
