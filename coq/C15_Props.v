Require Import V.Lib V.GoPath V.C15_Model V.C15_Proofs.
Theorem C15_tls_absent_ok : tls_setup TAbsent = Some tls0.
Proof. exact tls_absent_ok. Qed.
Print Assumptions C15_tls_absent_ok.
