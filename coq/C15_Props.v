(* C15 — property theorems only.  Each is closed by [exact] of a lemma proved in
   C15_Proofs.v and followed by Print Assumptions. *)
Require Import V.Lib V.GoPath V.C15_Model V.C15_Proofs.
Open Scope N_scope.

(* ---- "A site is given managed HTTPS exactly when it qualifies" ---- *)

(* markQualifiedForAutoHTTPS is exactly the conjunction: host and listener neither loopback nor
   internal, tls directive not manual (unless on-demand), not self-signed, email not "off", port not
   80, scheme not http, and a host name that can receive a public certificate (or on-demand). *)
Theorem C15_managed_iff_qualifies :
  forall s : site, mg (tls s) = false ->
  (mg (tls (mark_one s)) = true <->
   is_loopback (host s) = false /\ is_loopback (listen s) = false /\
   is_internal (host s) = false /\ is_internal (listen s) = false /\
   (mn (tls s) = false \/ od (tls s) = true) /\ ss (tls s) = false /\
   port s <> P80 /\ email (tls s) <> bs "off" /\
   (subject_public (host s) = true \/ od (tls s) = true) /\
   scheme s <> HTTP).
Proof. exact managed_iff_qualifies. Qed.
Print Assumptions C15_managed_iff_qualifies.

Example C15_managed_iff_qualifies_nonvacuous :
  mg (tls (mark_one {| scheme := []; host := bs "example.com"; port := []; listen := []; tls := tls0; redir := None |})) = true.
Proof. vm_compute. reflexivity. Qed.

(* the code's conjunction coincides with the declarative reading of the property on the written
   declaration (scheme/port as written, tls directive as written), for every declaration whose
   address standardizeAddress accepts *)
Theorem C15_qualification_matches_declaration :
  forall d s, addr_agrees d = true -> init_site d = Some s -> qualifies s = spec_qualifies d.
Proof. exact qualifies_spec. Qed.
Print Assumptions C15_qualification_matches_declaration.

(* ... and over the whole pipeline, for EVERY set of declared sites: after the parsing callback's
   stages the k-th site is Managed exactly when the k-th declaration qualifies, and every further
   (synthesised) site is unmanaged.  [spec_managed] is the oracle the check evaluates on /repo. *)
Theorem C15_pipeline_managed_exactly_qualifying :
  forall ds init, init_sites ds = Some init -> forallb addr_agrees ds = true ->
  spec_managed ds (stage_a init) = true.
Proof. exact pipeline_managed. Qed.
Print Assumptions C15_pipeline_managed_exactly_qualifying.

(* ---- "sites declared as plain HTTP never have TLS enabled" ---- *)
Theorem C15_http_sites_never_tls :
  forall ds init, init_sites ds = Some init -> forallb addr_agrees ds = true ->
  spec_http_no_tls ds (pipeline init) = true.
Proof. exact pipeline_http_no_tls. Qed.
Print Assumptions C15_http_sites_never_tls.

Example C15_http_sites_never_tls_nonvacuous :
  exists init, init_sites [w_http_tls] = Some init /\ forallb addr_agrees [w_http_tls] = true /\
    map (fun s => en (tls s)) (stage_a init) = [true] /\ map (fun s => en (tls s)) (pipeline init) = [false].
Proof. eexists. split; [vm_compute; reflexivity|]. repeat split; vm_compute; reflexivity. Qed.

(* a declaration is plain HTTP (http://, :80, :http) exactly when its parsed address has scheme
   "http" or port "80" *)
Theorem C15_declared_http_iff_parsed :
  forall sch prt sc p, std_addr sch prt = Some (sc, p) ->
  beq p P80 || beq sc HTTP = beq (to_lower sch) HTTP || beq prt P80 || beq prt HTTP.
Proof. exact std_addr_http. Qed.
Print Assumptions C15_declared_http_iff_parsed.

(* ---- redirect synthesis ---- *)

(* soundness, for EVERY site list: makePlaintextRedirects only appends, and each appended site is a
   plain-HTTP :80 site for the host of a TLS-enabled site without no_redirect, not itself declared
   as plain HTTP (port 80 / scheme http), that has no other site of its host on :80; it redirects
   to that site's port, omitted when it is 443 *)
Theorem C15_redirect_sound :
  forall all, exists extra, make_plaintext_redirects all = all ++ extra /\
    forall r, In r extra ->
      exists j c, nth_error all j = Some c /\ host r = host c /\ listen r = listen c /\
        port r = P80 /\ scheme r = [] /\ en (tls r) = false /\ mg (tls r) = false /\
        redir r = Some (if beq (port c) P443 then [] else port c) /\
        en (tls c) = true /\ nr (tls c) = false /\ port c <> P80 /\ scheme c <> HTTP /\
        host_has_other_port all j P80 = false.
Proof. exact redirects_sound. Qed.
Print Assumptions C15_redirect_sound.

(* at most one redirect site per host, for EVERY site list (the loop sees the sites it appended) *)
Theorem C15_redirect_one_per_host :
  forall all, exists extra, make_plaintext_redirects all = all ++ extra /\ NoDup (map host extra).
Proof. exact redirects_unique. Qed.
Print Assumptions C15_redirect_one_per_host.

(* completeness: a TLS-enabled site (not declared as plain HTTP) without no_redirect and without
   another site of its host on :80 gets a redirect site for its host, PROVIDED it is on :443 or no
   other site of its host is *)
Theorem C15_redirect_complete_partial :
  forall all j c, nth_error all j = Some c ->
  en (tls c) = true -> nr (tls c) = false -> port c <> P80 -> scheme c <> HTTP ->
  host_has_other_port all j P80 = false ->
  (port c = P443 \/ host_has_other_port all j P443 = false) ->
  exists extra, make_plaintext_redirects all = all ++ extra /\
    exists r, In r extra /\ host r = host c /\ port r = P80.
Proof. exact redirects_complete_partial. Qed.
Print Assumptions C15_redirect_complete_partial.

Example C15_redirect_complete_partial_nonvacuous :
  exists init, init_sites [w_alt] = Some init /\ map redir (stage_a init) = [None; Some (bs "8443")].
Proof. eexists. split; vm_compute; reflexivity. Qed.

(* without the proviso the clause is false (F-C15-2): example.com:8443 with TLS next to
   example.com (443) with no_redirect — no site is synthesised at all *)
Theorem C15_redirect_complete_refuted :
  exists ds init, init_sites ds = Some init /\ forallb addr_agrees ds = true /\
    exists c, In c (pipeline init) /\ https_site c = true /\ nr (tls c) = false /\
      forallb (fun o => negb (beq (host o) (host c) && beq (port o) P80)) (pipeline init) = true /\
      forallb (fun o => negb (is_synth o)) (pipeline init) = true.
Proof. exact redirect_complete_refuted. Qed.
Print Assumptions C15_redirect_complete_refuted.

(* "no synthesised redirect points back at an HTTP address", for EVERY site list: no redirect names
   the HTTP port ...  (F-C15-1, fixed: http://example.com { tls ... } used to get a redirect site
   whose Location was https://example.com:80/...) *)
Theorem C15_redirect_never_to_http_port :
  forall all, exists extra, make_plaintext_redirects all = all ++ extra /\
    forall r, In r extra -> exists p, redir r = Some p /\ p <> P80.
Proof. exact redirects_never_http_port. Qed.
Print Assumptions C15_redirect_never_to_http_port.

(* ... and the site each redirect points to is still an HTTPS site after MakeServers (TLS enabled,
   not on port 80, scheme not http, no no_redirect), on the same host and on the port the redirect
   names (omitted for 443) *)
Theorem C15_redirect_target_stays_https :
  forall all, exists extra, make_plaintext_redirects all = all ++ extra /\
    forall r, In r extra ->
      exists j c, nth_error all j = Some c /\ host r = host (finish c) /\ redir r = Some (redir_port c) /\
        https_site (finish c) = true /\ nr (tls (finish c)) = false.
Proof. exact redirects_target_stays_https. Qed.
Print Assumptions C15_redirect_target_stays_https.

(* the former counterexample: nothing is synthesised for a plain-HTTP declaration with a tls directive *)
Example C15_redirect_never_to_http_port_nonvacuous :
  exists init, init_sites [w_http_tls] = Some init /\ forallb addr_agrees [w_http_tls] = true /\
    map redir (pipeline init) = [None] /\
  exists init', init_sites [w_alt] = Some init' /\ map redir (pipeline init') = [None; Some (bs "8443")].
Proof. eexists. split; [vm_compute; reflexivity|]. split; [vm_compute; reflexivity|]. split; [vm_compute; reflexivity|].
  eexists. split; vm_compute; reflexivity. Qed.

(* ---- the redirect handler ---- *)

(* for every host h — a name (no colon, no brackets) or a bracketed IPv6 literal —, with or without
   a port in the Host header, every redirect port and every request URI:
   Location = https:// h [:redirPort] uri, brackets kept  (F-C15-3, fixed: bracketed literals used
   to lose their brackets or get a second pair) *)
Theorem C15_redirect_location :
  forall rport h p uri, host_token h -> plain p ->
  redir_location rport h uri = hex_escape_non_ascii (bs "https://" ++ h ++ port_part rport ++ uri) /\
  redir_location rport (h ++ COLON :: p) uri = hex_escape_non_ascii (bs "https://" ++ h ++ port_part rport ++ uri).
Proof. exact redir_location_full. Qed.
Print Assumptions C15_redirect_location.

(* the two requests that used to be mangled *)
Example C15_redirect_location_nonvacuous :
  host_token (bs "[::1]") /\ plain (bs "80") /\
  redir_location [] (bs "[::1]:80") (bs "/x") = bs "https://[::1]/x" /\
  redir_location (bs "8443") (bs "[::1]") (bs "/x") = bs "https://[::1]:8443/x".
Proof.
  split; [right; exists (bs "::1"); split; [reflexivity|]; intros c Hc; simpl in Hc;
          repeat (destruct Hc as [<-|Hc]; [split; discriminate|]); destruct Hc|].
  split; [intros c Hc; simpl in Hc; repeat (destruct Hc as [<-|Hc]; [repeat split; discriminate|]); destruct Hc|].
  split; vm_compute; reflexivity.
Qed.

Theorem C15_redirect_location_ascii_verbatim :
  forall s, (forall c, In c s -> c < 128) -> hex_escape_non_ascii s = s.
Proof. exact hex_escape_ascii. Qed.
Print Assumptions C15_redirect_location_ascii_verbatim.

(* ---- classifier lemmas ---- *)
Theorem C15_ip_never_qualifies :
  forall s ip, parse_ip (host s) = Some ip -> od (tls s) = false -> qualifies s = false.
Proof. exact ip_never_qualifies. Qed.
Print Assumptions C15_ip_never_qualifies.

Theorem C15_empty_host_never_qualifies :
  forall s, host s = [] -> od (tls s) = false -> qualifies s = false.
Proof. exact empty_host_never_qualifies. Qed.
Print Assumptions C15_empty_host_never_qualifies.

Theorem C15_loopback_name_never_qualifies :
  forall s, contains_byte COLON (host s) = false ->
  host s = bs "localhost" \/ has_suffix (host s) (bs ".localhost") = true \/ has_prefix (host s) (bs "127.") = true ->
  qualifies s = false.
Proof. exact loopback_name_never_qualifies. Qed.
Print Assumptions C15_loopback_name_never_qualifies.

Theorem C15_internal_suffix_never_public :
  forall h, has_suffix h (bs ".localhost") = true \/ has_suffix h (bs ".local") = true \/ has_suffix h (bs ".home.arpa") = true ->
  subject_public h = false.
Proof. exact internal_suffix_never_public. Qed.
Print Assumptions C15_internal_suffix_never_public.
