(* C15 — property theorems only.  Each is closed by [exact] of a lemma proved in
   C15_Proofs.v and followed by Print Assumptions. *)
Require Import V.Lib V.GoPath V.Gen_C15 V.C15_Model V.C15_Proofs V.C15_Strings V.C15_IP V.C15_Qualify V.C15_Redirect V.C15_Settings.
From Coq Require Import Permutation.
Open Scope N_scope.

(* ---- "A site is given managed HTTPS exactly when it qualifies" ---- *)

(* At full strength, over byte strings, for EVERY site (host, listener, scheme, port and tls flags
   arbitrary): markQualifiedForAutoHTTPS sets Managed exactly when
   - the tls directive allows it: not manual (load / certificate files) unless on-demand, not
     self_signed, email not "off";
   - the scheme is not http and the port is not 80;
   - the host is a [public_name] (or certificates are obtained on demand): not empty or blank, no
     leading or trailing dot, none of certmagic's special characters ()[]{}<> space tab newline quote
     backslash ! @ # $ % ^ & | ; ' + = (so no bracketed IPv6 literal and no zone), '*' only as one whole
     left-most label with two more labels behind it, not "localhost", not under .localhost / .local /
     .home.arpa, not an IP literal (net.ParseIP: dotted quad, any IPv6 form);
   - neither the host nor the bind address is a [local_address]: the part IsLoopback judges (host of
     host:port / [host]:port of the LOWERED address, else the address as written) is not "localhost",
     "::1" inside any brackets, 127.*, *.localhost; the part IsInternal judges (host of host:port, else
     the address with its brackets trimmed) is not under one of casket's privateTLDs (.example
     .invalid .test .local — table regenerated from casket.go) and not an IP inside 10/8, 172.16/12,
     192.168/16 (also as ::ffff:a.b.c.d) or fc00::/7.
   All predicates on the right are Prop-level statements about lists of bytes (C15_Qualify.v). *)
Theorem C15_managed_iff_qualifies :
  forall s : site, mg (tls s) = false ->
  (mg (tls (mark_one s)) = true <->
   ((mn (tls s) = false \/ od (tls s) = true) /\ ss (tls s) = false /\ email (tls s) <> bs "off") /\
   scheme s <> HTTP /\ port s <> P80 /\
   (od (tls s) = true \/ public_name (host s)) /\
   ~ local_address (host s) /\ ~ local_address (listen s)).
Proof. exact managed_iff_declarative. Qed.
Print Assumptions C15_managed_iff_qualifies.

Example C15_managed_iff_qualifies_nonvacuous :
  mg (tls (mark_one {| scheme := []; host := bs "example.com"; port := []; listen := []; tls := tls0; redir := None |})) = true.
Proof. vm_compute. reflexivity. Qed.

(* the same as the code writes it: the conjunction of the classifier calls *)
Theorem C15_managed_iff_code_conjunction :
  forall s : site, mg (tls s) = false ->
  (mg (tls (mark_one s)) = true <->
   is_loopback (host s) = false /\ is_loopback (listen s) = false /\
   is_internal (host s) = false /\ is_internal (listen s) = false /\
   (mn (tls s) = false \/ od (tls s) = true) /\ ss (tls s) = false /\
   port s <> P80 /\ email (tls s) <> bs "off" /\
   (subject_public (host s) = true \/ od (tls s) = true) /\
   scheme s <> HTTP).
Proof. exact managed_iff_qualifies. Qed.
Print Assumptions C15_managed_iff_code_conjunction.

(* the three classifiers, each as an iff with its declarative reading, for every byte string *)
Theorem C15_public_name_iff : forall h, subject_public h = true <-> public_name h.
Proof. exact subject_public_iff. Qed.
Print Assumptions C15_public_name_iff.

Theorem C15_is_loopback_iff :
  forall a, is_loopback a = true <-> exists x, loopback_judges a x /\ loopback_name x.
Proof. exact is_loopback_iff. Qed.
Print Assumptions C15_is_loopback_iff.

Theorem C15_is_internal_iff :
  forall a, is_internal a = true <-> exists x, internal_judges a x /\ internal_name x.
Proof. exact is_internal_iff. Qed.
Print Assumptions C15_is_internal_iff.

(* net.SplitHostPort (model) accepts exactly host:port with host and port free of ':' '[' ']', and
   [host]:port with host free of brackets and port free of ':' '[' ']' *)
Theorem C15_split_host_port_spec :
  forall a h p, split_host_port a = Some (h, p) <->
    (plain h /\ plain p /\ a = h ++ COLON :: p) \/ (nobr h /\ plain p /\ a = LBR :: h ++ RBR :: COLON :: p).
Proof. exact split_host_port_spec. Qed.
Print Assumptions C15_split_host_port_spec.

(* what being Managed then means: TLS enabled, scheme https, port 443 unless a port was written;
   and a site that does not qualify is left exactly as it was *)
Theorem C15_qualifying_site_gets_https_443 :
  forall s, qualifies s = true -> od (tls s) = false ->
  let s' := enable_one (mark_one s) in
  mg (tls s') = true /\ en (tls s') = true /\ scheme s' = HTTPS /\ host s' = host s /\
  port s' = match port s with [] => P443 | _ => port s end /\
  nr (tls s') = nr (tls s) /\ redir s' = redir s.
Proof. exact after_callback_qualified. Qed.
Print Assumptions C15_qualifying_site_gets_https_443.

Example C15_qualifying_site_gets_https_443_nonvacuous :
  exists s, qualifies s = true /\ od (tls s) = false /\ port (enable_one (mark_one s)) = P443.
Proof. exists {| scheme := []; host := bs "example.com"; port := []; listen := []; tls := tls0; redir := None |}.
  vm_compute. auto. Qed.

Theorem C15_unqualified_site_untouched :
  forall s, mg (tls s) = false -> qualifies s = false -> enable_one (mark_one s) = s.
Proof. exact after_callback_unqualified. Qed.
Print Assumptions C15_unqualified_site_untouched.

Example C15_unqualified_site_untouched_nonvacuous :
  exists s, mg (tls s) = false /\ qualifies s = false /\ host s = bs "www.site.test".
Proof. exists {| scheme := []; host := bs "www.site.test"; port := []; listen := []; tls := tls0; redir := None |}.
  vm_compute. auto. Qed.

(* the code's conjunction coincides with the declarative reading of the property on the written
   declaration (scheme/port as written, tls directive as written), for every declaration whose
   address standardizeAddress accepts *)
Theorem C15_qualification_matches_declaration :
  forall d s, addr_agrees d = true -> init_site d = Some s -> qualifies s = spec_qualifies d.
Proof. exact qualifies_spec. Qed.
Print Assumptions C15_qualification_matches_declaration.

(* ... and over the whole pipeline, for EVERY set of declared sites: after the parsing callback's
   stages the k-th site is Managed exactly when the k-th declaration qualifies, and every further
   (synthesised) site is unmanaged.  [spec_managed] is the oracle the check evaluates on /repo. *)
Theorem C15_pipeline_managed_exactly_qualifying :
  forall ds init, init_sites ds = Some init -> forallb addr_agrees ds = true ->
  spec_managed ds (stage_a init) = true.
Proof. exact pipeline_managed. Qed.
Print Assumptions C15_pipeline_managed_exactly_qualifying.

(* ---- "sites declared as plain HTTP never have TLS enabled" ---- *)
Theorem C15_http_sites_never_tls :
  forall ds init, init_sites ds = Some init -> forallb addr_agrees ds = true ->
  spec_http_no_tls ds (pipeline init) = true.
Proof. exact pipeline_http_no_tls. Qed.
Print Assumptions C15_http_sites_never_tls.

Example C15_http_sites_never_tls_nonvacuous :
  exists init, init_sites [w_http_tls] = Some init /\ forallb addr_agrees [w_http_tls] = true /\
    map (fun s => en (tls s)) (stage_a init) = [true] /\ map (fun s => en (tls s)) (pipeline init) = [false].
Proof. eexists. split; [vm_compute; reflexivity|]. repeat split; vm_compute; reflexivity. Qed.

(* a declaration is plain HTTP (http://, :80, :http) exactly when its parsed address has scheme
   "http" or port "80" *)
Theorem C15_declared_http_iff_parsed :
  forall sch prt sc p, std_addr sch prt = Some (sc, p) ->
  beq p P80 || beq sc HTTP = beq (to_lower sch) HTTP || beq prt P80 || beq prt HTTP.
Proof. exact std_addr_http. Qed.
Print Assumptions C15_declared_http_iff_parsed.

(* ---- redirect synthesis ---- *)

(* soundness, for EVERY site list: makePlaintextRedirects only appends, and each appended site is a
   plain-HTTP :80 site for the host of a TLS-enabled site without no_redirect, not itself declared
   as plain HTTP (port 80 / scheme http), that has no other site of its host on :80; it redirects
   to that site's port, omitted when it is 443 *)
Theorem C15_redirect_sound :
  forall all, exists extra, make_plaintext_redirects all = all ++ extra /\
    forall r, In r extra ->
      exists j c, nth_error all j = Some c /\ host r = host c /\ listen r = listen c /\
        port r = P80 /\ scheme r = [] /\ en (tls r) = false /\ mg (tls r) = false /\
        redir r = Some (if beq (port c) P443 then [] else port c) /\
        en (tls c) = true /\ nr (tls c) = false /\ port c <> P80 /\ scheme c <> HTTP /\
        host_has_other_port all j P80 = false.
Proof. exact redirects_sound. Qed.
Print Assumptions C15_redirect_sound.

(* at most one redirect site per host, for EVERY site list (the loop sees the sites it appended) *)
Theorem C15_redirect_one_per_host :
  forall all, exists extra, make_plaintext_redirects all = all ++ extra /\ NoDup (map host extra).
Proof. exact redirects_unique. Qed.
Print Assumptions C15_redirect_one_per_host.

(* completeness: a TLS-enabled site (not declared as plain HTTP) without no_redirect and without
   another site of its host on :80 gets a redirect site for its host, PROVIDED it is on :443 or no
   other site of its host is *)
Theorem C15_redirect_complete_partial :
  forall all j c, nth_error all j = Some c ->
  en (tls c) = true -> nr (tls c) = false -> port c <> P80 -> scheme c <> HTTP ->
  host_has_other_port all j P80 = false ->
  (port c = P443 \/ host_has_other_port all j P443 = false) ->
  exists extra, make_plaintext_redirects all = all ++ extra /\
    exists r, In r extra /\ host r = host c /\ port r = P80.
Proof. exact redirects_complete_partial. Qed.
Print Assumptions C15_redirect_complete_partial.

Example C15_redirect_complete_partial_nonvacuous :
  exists init, init_sites [w_alt] = Some init /\ map redir (stage_a init) = [None; Some (bs "8443")].
Proof. eexists. split; vm_compute; reflexivity. Qed.

(* without the proviso the clause is false (F-C15-2): example.com:8443 with TLS next to
   example.com (443) with no_redirect — no site is synthesised at all *)
Theorem C15_redirect_complete_refuted :
  exists ds init, init_sites ds = Some init /\ forallb addr_agrees ds = true /\
    exists c, In c (pipeline init) /\ https_site c = true /\ nr (tls c) = false /\
      forallb (fun o => negb (beq (host o) (host c) && beq (port o) P80)) (pipeline init) = true /\
      forallb (fun o => negb (is_synth o)) (pipeline init) = true.
Proof. exact redirect_complete_refuted. Qed.
Print Assumptions C15_redirect_complete_refuted.

(* "no synthesised redirect points back at an HTTP address", for EVERY site list: no redirect names
   the HTTP port ...  (F-C15-1, fixed: http://example.com { tls ... } used to get a redirect site
   whose Location was https://example.com:80/...) *)
Theorem C15_redirect_never_to_http_port :
  forall all, exists extra, make_plaintext_redirects all = all ++ extra /\
    forall r, In r extra -> exists p, redir r = Some p /\ p <> P80.
Proof. exact redirects_never_http_port. Qed.
Print Assumptions C15_redirect_never_to_http_port.

(* ... and the site each redirect points to is still an HTTPS site after MakeServers (TLS enabled,
   not on port 80, scheme not http, no no_redirect), on the same host and on the port the redirect
   names (omitted for 443) *)
Theorem C15_redirect_target_stays_https :
  forall all, exists extra, make_plaintext_redirects all = all ++ extra /\
    forall r, In r extra ->
      exists j c, nth_error all j = Some c /\ host r = host (finish c) /\ redir r = Some (redir_port c) /\
        https_site (finish c) = true /\ nr (tls (finish c)) = false.
Proof. exact redirects_target_stays_https. Qed.
Print Assumptions C15_redirect_target_stays_https.

(* the former counterexample: nothing is synthesised for a plain-HTTP declaration with a tls directive *)
Example C15_redirect_never_to_http_port_nonvacuous :
  exists init, init_sites [w_http_tls] = Some init /\ forallb addr_agrees [w_http_tls] = true /\
    map redir (pipeline init) = [None] /\
  exists init', init_sites [w_alt] = Some init' /\ map redir (pipeline init') = [None; Some (bs "8443")].
Proof. eexists. split; [vm_compute; reflexivity|]. split; [vm_compute; reflexivity|]. split; [vm_compute; reflexivity|].
  eexists. split; vm_compute; reflexivity. Qed.

(* ---- redirect synthesis as an iff over whole site SETS ---- *)

(* For EVERY list of sites: makePlaintextRedirects appends sites that are all plain HTTP on :80,
   at most one per host, and a host h gets one EXACTLY WHEN some TLS-enabled site for h without
   no_redirect exists that is not explicitly HTTP (port 80 / scheme http), no site for h on port 80
   exists, and — the rule behind F-C15-2, kept as coded — that site is on :443 or no site for h is.
   The right-hand side mentions the sites only through membership: no index, no order. *)
Theorem C15_redirect_exists_iff :
  forall all, exists extra, make_plaintext_redirects all = all ++ extra /\
    (forall r, In r extra -> port r = P80 /\ scheme r = [] /\ en (tls r) = false /\ is_synth r = true) /\
    NoDup (map host extra) /\
    forall h, (exists r, In r extra /\ host r = h) <->
      exists c, In c all /\ host c = h /\
        en (tls c) = true /\ nr (tls c) = false /\ port c <> P80 /\ scheme c <> HTTP /\
        (forall o, In o all -> host o = h -> port o <> P80) /\
        (port c = P443 \/ forall o, In o all -> host o = h -> port o <> P443).
Proof. exact redirect_exists_iff. Qed.
Print Assumptions C15_redirect_exists_iff.

(* order independence: permuting the declarations permutes nothing but the order of the redirect
   hosts *)
Theorem C15_redirect_order_independent :
  forall all all' extra extra', Permutation all all' ->
  make_plaintext_redirects all = all ++ extra -> make_plaintext_redirects all' = all' ++ extra' ->
  Permutation (map host extra) (map host extra').
Proof. exact redirect_hosts_perm. Qed.
Print Assumptions C15_redirect_order_independent.

Example C15_redirect_order_independent_nonvacuous :
  exists all all' extra extra', Permutation all all' /\ all <> all' /\
    make_plaintext_redirects all = all ++ extra /\ make_plaintext_redirects all' = all' ++ extra' /\
    length extra = 1%nat.
Proof.
  exists [w_tls_site (bs "8443"); w_tls_site (bs "9443")], [w_tls_site (bs "9443"); w_tls_site (bs "8443")].
  eexists. eexists. split; [apply perm_swap|]. split; [discriminate|].
  split; [vm_compute; reflexivity|]. split; [vm_compute; reflexivity|reflexivity].
Qed.

(* what a redirect names: always the port of an eligible TLS site of its host (omitted for 443) ... *)
Theorem C15_redirect_target_is_a_tls_site :
  forall all extra r, make_plaintext_redirects all = all ++ extra -> In r extra ->
  exists c, In c all /\ host c = host r /\ en (tls c) = true /\ nr (tls c) = false /\
            port c <> P80 /\ scheme c <> HTTP /\ redir r = Some (redir_port c).
Proof. exact redirect_target_is_a_tls_site. Qed.
Print Assumptions C15_redirect_target_is_a_tls_site.

(* ... "the named port does not depend on the order of the declarations" is false (two TLS sites of
   one host on 8443 and 9443: the first one wins) ... *)
Theorem C15_redirect_target_order_independent_refuted :
  exists all all', Permutation all all' /\
    map redir (skipn (length all) (make_plaintext_redirects all)) <>
    map redir (skipn (length all') (make_plaintext_redirects all')).
Proof. exact redirect_target_order_refuted. Qed.
Print Assumptions C15_redirect_target_order_independent_refuted.

(* ... and true as soon as the host has a site on :443: no port in the Location, whatever the order *)
Theorem C15_redirect_target_order_independent_partial :
  forall all extra r o, make_plaintext_redirects all = all ++ extra -> In r extra ->
  In o all -> host o = host r -> port o = P443 -> redir r = Some [].
Proof. exact redirect_target_with_443. Qed.
Print Assumptions C15_redirect_target_order_independent_partial.

Example C15_redirect_target_order_independent_partial_nonvacuous :
  exists all extra r o, make_plaintext_redirects all = all ++ extra /\ In r extra /\ In o all /\
    host o = host r /\ port o = P443.
Proof.
  exists [w_tls_site (bs "443")]. eexists. eexists. exists (w_tls_site (bs "443")).
  split; [vm_compute; reflexivity|]. split; [left; reflexivity|]. split; [left; reflexivity|]. split; reflexivity.
Qed.

(* many TLS sites of one host on different ports: one redirect site (the instance the seeded
   first-same-host-sibling change C15-m4 breaks) *)
Example C15_redirect_unique_many_ports :
  map (fun s => (host s, port s)) (skipn 3 (make_plaintext_redirects
     [w_tls_site (bs "8443"); w_tls_site (bs "9443"); w_tls_site (bs "7443")])) = [(bs "example.com", P80)].
Proof. exact redirect_unique_many_ports. Qed.

(* ---- the redirect handler ---- *)

(* for every host h — a name (no colon, no brackets) or a bracketed IPv6 literal —, with or without
   a port in the Host header, every redirect port and every request URI:
   Location = https:// h [:redirPort] uri, brackets kept  (F-C15-3, fixed: bracketed literals used
   to lose their brackets or get a second pair) *)
Theorem C15_redirect_location :
  forall rport h p uri, host_token h -> plain p ->
  redir_location rport h uri = hex_escape_non_ascii (bs "https://" ++ h ++ port_part rport ++ uri) /\
  redir_location rport (h ++ COLON :: p) uri = hex_escape_non_ascii (bs "https://" ++ h ++ port_part rport ++ uri).
Proof. exact redir_location_full. Qed.
Print Assumptions C15_redirect_location.

(* the two requests that used to be mangled *)
Example C15_redirect_location_nonvacuous :
  host_token (bs "[::1]") /\ plain (bs "80") /\
  redir_location [] (bs "[::1]:80") (bs "/x") = bs "https://[::1]/x" /\
  redir_location (bs "8443") (bs "[::1]") (bs "/x") = bs "https://[::1]:8443/x".
Proof.
  split; [right; exists (bs "::1"); split; [reflexivity|]; intros c Hc; simpl in Hc;
          repeat (destruct Hc as [<-|Hc]; [split; discriminate|]); destruct Hc|].
  split; [intros c Hc; simpl in Hc; repeat (destruct Hc as [<-|Hc]; [repeat split; discriminate|]); destruct Hc|].
  split; vm_compute; reflexivity.
Qed.

(* the whole response, for EVERY Host header value hh (well-formed or not), redirect port and request
   URI: 301, Connection: close, and Location = https:// x [:redirPort] uri where x is what [kept_host]
   describes: hh minus ":port" when hh is host:port or [host]:port (brackets kept), hh itself otherwise *)
Theorem C15_redirect_response_total :
  forall rport hh uri, exists x,
    ((exists h p, plain h /\ plain p /\ hh = h ++ COLON :: p /\ x = h) \/
     (exists h p, nobr h /\ plain p /\ hh = LBR :: h ++ RBR :: COLON :: p /\ x = LBR :: h ++ [RBR]) \/
     ((forall h p, ~ splits hh h p) /\ x = hh)) /\
    redir_response rport hh uri =
      (301, hex_escape_non_ascii (bs "https://" ++ x ++ port_part rport ++ uri), bs "close").
Proof. exact redir_response_total. Qed.
Print Assumptions C15_redirect_response_total.

(* the three descriptions exclude each other: x is determined by hh *)
Theorem C15_redirect_kept_host_unique :
  forall hh x y, kept_host hh x -> kept_host hh y -> x = y.
Proof. exact kept_host_functional. Qed.
Print Assumptions C15_redirect_kept_host_unique.

Example C15_redirect_kept_host_unique_nonvacuous : kept_host (bs "example.com:80") (bs "example.com").
Proof.
  left. exists (bs "example.com"), (bs "80"). split; [|split; [|split; reflexivity]];
    intros c Hc; vm_compute in Hc; repeat (destruct Hc as [<-|Hc]; [repeat split; discriminate|]); destruct Hc.
Qed.

(* a request without a Host header (HTTP/1.0): nothing is kept — the Location is https://[:port]uri *)
Theorem C15_redirect_no_host :
  forall rport uri,
  redir_response rport [] uri = (301, hex_escape_non_ascii (bs "https://" ++ port_part rport ++ uri), bs "close").
Proof. exact redir_response_no_host. Qed.
Print Assumptions C15_redirect_no_host.

Theorem C15_redirect_location_ascii_verbatim :
  forall s, (forall c, In c s -> c < 128) -> hex_escape_non_ascii s = s.
Proof. exact hex_escape_ascii. Qed.
Print Assumptions C15_redirect_location_ascii_verbatim.

(* ---- classifier lemmas: corollaries of the iff ---- *)
Theorem C15_ip_never_qualifies :
  forall s ip, parse_ip (host s) = Some ip -> od (tls s) = false -> qualifies s = false.
Proof. exact ip_never_qualifies. Qed.
Print Assumptions C15_ip_never_qualifies.

Example C15_ip_never_qualifies_nonvacuous :
  exists ip, parse_ip (bs "2001:db8::1") = Some ip /\ exists ip', parse_ip (bs "8.8.8.8") = Some ip'.
Proof. eexists. split; [vm_compute; reflexivity|]. eexists. vm_compute. reflexivity. Qed.

(* an IP literal in every written form — bare, in brackets, with a zone, in brackets with a zone —
   is never managed *)
Theorem C15_ip_literal_never_managed :
  forall s h ip zone, mg (tls s) = false -> parse_ip h = Some ip ->
  host s = h \/ host s = LBR :: h ++ [RBR] \/ host s = h ++ PERCENT :: zone \/ host s = LBR :: h ++ PERCENT :: zone ++ [RBR] ->
  od (tls s) = false -> mg (tls (enable_one (mark_one s))) = false.
Proof. exact ip_literal_never_managed. Qed.
Print Assumptions C15_ip_literal_never_managed.

Example C15_ip_literal_never_managed_nonvacuous :
  exists ip, parse_ip (bs "fe80::1") = Some ip /\ parse_ip (bs "::ffff:10.0.0.1") = Some (v4_mapped [10; 0; 0; 1]).
Proof. eexists. split; vm_compute; reflexivity. Qed.

(* every dotted quad a.b.c.d (decimal fields 0..255 without leading zeros) is an IP literal ... *)
Theorem C15_dotted_quad_is_ip :
  forall fa fb fc fd a b c d,
  v4_field fa = Some a -> v4_field fb = Some b -> v4_field fc = Some c -> v4_field fd = Some d ->
  parse_ip (fa ++ DOT :: fb ++ DOT :: fc ++ DOT :: fd) = Some (v4_mapped [a; b; c; d]).
Proof. exact dotted_quad_is_ip. Qed.
Print Assumptions C15_dotted_quad_is_ip.

Example C15_dotted_quad_is_ip_nonvacuous :
  v4_field (bs "203") = Some 203 /\ v4_field (bs "0") = Some 0 /\ v4_field (bs "113") = Some 113 /\ v4_field (bs "7") = Some 7.
Proof. repeat split; vm_compute; reflexivity. Qed.

(* net.ParseIP (model) only returns 16-byte addresses with bytes below 256 ... *)
Theorem C15_parse_ip_16_bytes :
  forall s ip, parse_ip s = Some ip -> length ip = 16%nat /\ Forall (fun b => b < 256) ip.
Proof. exact parse_ip_ok. Qed.
Print Assumptions C15_parse_ip_16_bytes.

(* ... and on those, the loop over privateNetworks with IPNet.Contains (table regenerated from
   casket.go: address and mask bytes as net.ParseCIDR yields them) says "private" exactly for
   10/8, 172.16/12, 192.168/16 — on the To4 form, i.e. also for ::ffff:a.b.c.d — and fc00::/7.
   Not in the table, hence not internal: ::1 and 127/8 (left to IsLoopback's string tests),
   fe80::/10 link-local, 169.254/16, 100.64/10. *)
Theorem C15_private_net_iff :
  forall s ip, parse_ip s = Some ip ->
  (in_private_net ip = true <->
   (exists a b c d, to4 ip = Some [a; b; c; d] /\
      (a = 10 \/ (a = 172 /\ 16 <= b <= 31) \/ (a = 192 /\ b = 168))) \/
   (to4 ip = None /\ exists b0 r, ip = b0 :: r /\ 252 <= b0 <= 253)).
Proof. exact in_private_net_iff. Qed.
Print Assumptions C15_private_net_iff.

Example C15_private_net_iff_nonvacuous :
  map (fun s => match parse_ip s with Some ip => in_private_net ip | None => false end)
      [bs "10.1.2.3"; bs "::ffff:172.31.0.1"; bs "fd00::1"; bs "fe80::1"; bs "::1"; bs "172.32.0.1"; bs "::ffff:8.8.8.8"]
  = [true; true; true; false; false; false; false].
Proof. vm_compute. reflexivity. Qed.

(* in particular the IPv6 loopback, link-local (fe80::/10), unspecified and global addresses are not
   "internal": nothing outside fc00::/7 is, unless it is a v4-mapped private address *)
Theorem C15_v6_outside_fc00_not_internal :
  forall s ip b0 r, parse_ip s = Some ip -> ip = b0 :: r -> to4 ip = None -> ~ (252 <= b0 <= 253) ->
  in_private_net ip = false.
Proof. exact v6_outside_fc00_not_internal. Qed.
Print Assumptions C15_v6_outside_fc00_not_internal.

Example C15_v6_outside_fc00_not_internal_nonvacuous :
  exists ip r, parse_ip (bs "fe80::1") = Some ip /\ ip = 254 :: r /\ to4 ip = None.
Proof. eexists. eexists. split; [vm_compute; reflexivity|]. split; reflexivity. Qed.

Theorem C15_empty_host_never_qualifies :
  forall s, host s = [] -> od (tls s) = false -> qualifies s = false.
Proof. exact empty_host_never_qualifies. Qed.
Print Assumptions C15_empty_host_never_qualifies.

Theorem C15_loopback_name_never_qualifies :
  forall s, contains_byte COLON (host s) = false ->
  host s = bs "localhost" \/ has_suffix (host s) (bs ".localhost") = true \/ has_prefix (host s) (bs "127.") = true ->
  qualifies s = false.
Proof. exact loopback_name_never_qualifies. Qed.
Print Assumptions C15_loopback_name_never_qualifies.

Example C15_loopback_name_never_qualifies_nonvacuous :
  contains_byte COLON (bs "a.b.localhost") = false /\ has_suffix (bs "a.b.localhost") (bs ".localhost") = true.
Proof. split; vm_compute; reflexivity. Qed.

Theorem C15_internal_suffix_never_public :
  forall h, has_suffix h (bs ".localhost") = true \/ has_suffix h (bs ".local") = true \/ has_suffix h (bs ".home.arpa") = true ->
  subject_public h = false.
Proof. exact internal_suffix_never_public. Qed.
Print Assumptions C15_internal_suffix_never_public.

(* A name under an internal-only suffix is never managed, WHATEVER stands in front of the suffix:
   q is any colon-free byte string — no label, one label, or any number of labels.  The reason is in
   the model: IsInternal tests strings.HasSuffix(host, tld) on the whole host for every entry of
   privateTLDs (and certmagic does the same for its own suffixes); it is not a comparison of the
   tld with what follows the FIRST dot, which would hold for two-label names only (the seeded change
   C15-m3: www.site.test would become Managed). *)
Theorem C15_internal_suffix_never_managed :
  forall s q suf, mg (tls s) = false ->
  host s = q ++ suf -> In suf (gen_c15_private_tlds ++ gen_c15_cert_internal_suffixes) ->
  ~ In COLON q -> od (tls s) = false ->
  mg (tls (enable_one (mark_one s))) = false /\ en (tls (enable_one (mark_one s))) = en (tls s).
Proof. exact internal_suffix_never_managed. Qed.
Print Assumptions C15_internal_suffix_never_managed.

Example C15_internal_suffix_never_managed_nonvacuous :
  bs "api.v2.corp.example" = bs "api.v2.corp" ++ bs ".example" /\
  In (bs ".example") (gen_c15_private_tlds ++ gen_c15_cert_internal_suffixes) /\ ~ In COLON (bs "api.v2.corp") /\
  is_internal (bs "www.site.test") = true /\ is_internal (bs "db.cluster.invalid") = true.
Proof.
  split; [reflexivity|]. split; [vm_compute; tauto|]. split; [|split; vm_compute; reflexivity].
  intros H. vm_compute in H. repeat (destruct H as [H|H]; [discriminate H|]). exact H.
Qed.

(* every suffix the property text names (.localhost .local .test .example .invalid) is an entry of
   one of the regenerated tables *)
Theorem C15_property_suffixes_in_tables :
  forallb (fun suf => existsb (beq suf) (gen_c15_private_tlds ++ gen_c15_cert_internal_suffixes ++ gen_c15_loopback_suffixes))
          [bs ".localhost"; bs ".local"; bs ".test"; bs ".example"; bs ".invalid"] = true.
Proof. exact property_suffixes_in_tables. Qed.
Print Assumptions C15_property_suffixes_in_tables.

(* a name with one of certmagic's special characters anywhere, with a trailing or a leading dot *)
Theorem C15_special_char_never_public :
  forall h c, In c h -> In c cert_special -> subject_public h = false.
Proof. exact special_char_never_public. Qed.
Print Assumptions C15_special_char_never_public.

Example C15_special_char_never_public_nonvacuous :
  In LBR (bs "[::1]") /\ In LBR cert_special /\ In PERCENT cert_special /\ In 32 cert_special.
Proof. repeat split; vm_compute; tauto. Qed.

Theorem C15_trailing_dot_never_public : forall q, subject_public (q ++ [DOT]) = false.
Proof. exact trailing_dot_never_public. Qed.
Print Assumptions C15_trailing_dot_never_public.

Theorem C15_leading_dot_never_public : forall r, subject_public (DOT :: r) = false.
Proof. exact leading_dot_never_public. Qed.
Print Assumptions C15_leading_dot_never_public.

(* letter case.  Site hosts reach the classifiers lower-cased (Address.Normalize; the check verifies
   that on every case) — bind arguments do not.  "IsLoopback ignores letter case" is false for an
   address without a port (SplitHostPort fails, the address is judged as written) ... *)
Theorem C15_loopback_case_insensitive_refuted :
  exists a, is_loopback (to_lower a) = true /\ is_loopback a = false /\ is_internal a = false /\ subject_public a = true.
Proof. exact is_loopback_case_refuted. Qed.
Print Assumptions C15_loopback_case_insensitive_refuted.

(* ... and true whenever the address carries a port *)
Theorem C15_loopback_case_insensitive_partial :
  forall a h p, splits (to_lower a) h p -> is_loopback a = is_loopback (to_lower a).
Proof. exact is_loopback_case_with_port. Qed.
Print Assumptions C15_loopback_case_insensitive_partial.

Example C15_loopback_case_insensitive_partial_nonvacuous :
  splits (to_lower (bs "LOCALHOST:80")) (bs "localhost") (bs "80") /\ is_loopback (bs "LOCALHOST:80") = true.
Proof.
  split; [|vm_compute; reflexivity]. left. split; [|split; [|reflexivity]];
    intros c Hc; vm_compute in Hc; repeat (destruct Hc as [<-|Hc]; [repeat split; discriminate|]); destruct Hc.
Qed.

(* "every spelling of the IPv6 loopback address is loopback" is false (string comparison with "::1"
   only); what holds: "::1" inside any run of brackets; and an IP literal host is never managed anyway
   (C15_ip_literal_never_managed) — the gap concerns bind arguments only *)
Theorem C15_loopback_v6_spellings_refuted :
  exists a, parse_ip a = parse_ip (bs "::1") /\ is_loopback a = false /\ is_internal a = false.
Proof. exact loopback_v6_spelling_refuted. Qed.
Print Assumptions C15_loopback_v6_spellings_refuted.

Theorem C15_loopback_v6_spellings_partial :
  forall l r, all_in BRACKETS l -> all_in BRACKETS r -> is_loopback_host (l ++ bs "::1" ++ r) = true.
Proof. exact loopback_v6_canonical. Qed.
Print Assumptions C15_loopback_v6_spellings_partial.

Example C15_loopback_v6_spellings_partial_nonvacuous :
  all_in BRACKETS [LBR] /\ all_in BRACKETS [RBR] /\ is_loopback (bs "[::1]:443") = true.
Proof. split; [intros c [<-|[]]; left; reflexivity|]. split; [intros c [<-|[]]; right; left; reflexivity|]. vm_compute. reflexivity. Qed.

(* ---- the tls parsing callback when NO site needs a certificate obtained at startup ---- *)

(* A configuration whose TLS sites all bring their own certificate, are self-signed, load from a directory,
   are on-demand, or do not qualify: no site is "managed and not on-demand" after the qualification stage.
   enableAutoHTTPS then changes nothing — but the callback still synthesises the redirects, over ALL sites:
   the result is makePlaintextRedirects of the marked sites ... *)
Theorem C15_activate_without_startup_certificate : forall init,
  no_startup_certificate init ->
  stage_a init = make_plaintext_redirects (map mark_one init).
Proof. exact activate_without_startup_certificate. Qed.
Print Assumptions C15_activate_without_startup_certificate.

(* ... so the redirect clause holds for such configurations exactly as for all others: a host gets its
   redirect site EXACTLY WHEN it has an eligible TLS site (the iff of C15_redirect_exists_iff), whether or not
   some unrelated site of the Casketfile is managed *)
Theorem C15_activate_redirects_without_startup_certificate : forall init,
  no_startup_certificate init ->
  exists extra, stage_a init = map mark_one init ++ extra /\
    (forall r, In r extra -> port r = P80 /\ scheme r = [] /\ en (tls r) = false /\ is_synth r = true) /\
    NoDup (map host extra) /\
    forall h, (exists r, In r extra /\ host r = h) <->
      exists c, In c (map mark_one init) /\ host c = h /\
        en (tls c) = true /\ nr (tls c) = false /\ port c <> P80 /\ scheme c <> HTTP /\
        (forall o, In o (map mark_one init) -> host o = h -> port o <> P80) /\
        (port c = P443 \/ forall o, In o (map mark_one init) -> host o = h -> port o <> P443).
Proof. exact activate_redirects_without_startup_certificate. Qed.
Print Assumptions C15_activate_redirects_without_startup_certificate.

(* shop.example.com:8443 { tls cert key }: nothing to obtain, and the redirect site is there *)
Example C15_activate_without_startup_certificate_nonvacuous :
  exists init, init_sites [w_manual] = Some init /\
    forallb (fun s => negb (mg (tls (mark_one s)) && negb (od (tls (mark_one s))))) init = true /\
    map redir (stage_a init) = [None; Some (bs "8443")].
Proof. exact activate_without_startup_certificate_witness. Qed.


(* ---- process-level settings: -port, -host, -http-port, -https-port (httpserver.Port / Host,
        certmagic.HTTPPort / HTTPSPort) ---- *)

(* the pipeline parametrised by the settings is, at the defaults (2015, "", 80, 443), the pipeline every
   theorem above speaks about: standardizeAddress, the default host/port substitution of
   InspectServerBlocks (the identity there), the callback stages and MakeServers *)
Theorem C15_settings_default_is_the_model :
  (forall init, stage_a_s settings0 init = stage_a init) /\ (forall a, stage_b_s settings0 a = stage_b a)
  /\ (forall sch prt, std_addr_s settings0 sch prt = std_addr sch prt)
  /\ (forall h p, default_host_s settings0 h = h /\ default_port_s settings0 p = p).
Proof. exact settings_default. Qed.
Print Assumptions C15_settings_default_is_the_model.

(* "sites declared as plain HTTP never have TLS enabled", for ALL settings and ALL site lists, whatever
   the source of the port (address text, scheme, or the default-port setting): after MakeServers a site
   whose port is the HTTP port or whose scheme is http has TLS disabled.  Provisos: the HTTP and HTTPS
   ports differ, and the default port is not the HTTP port unless every site already has a port (which
   InspectServerBlocks guarantees whenever -port is not 2015). *)
Theorem C15_http_port_site_never_tls_any_settings :
  forall st a s,
    s_http st <> s_https st ->
    (s_port st <> s_http st \/ Forall (fun x => port x <> []) a) ->
    In s (stage_b_s st a) -> (port s = s_http st \/ scheme s = HTTP) -> en (tls s) = false.
Proof. exact http_port_site_never_tls. Qed.
Print Assumptions C15_http_port_site_never_tls_any_settings.

(* -port 80, example.com { tls self_signed }: enabled by the directive, disabled by MakeServers *)
Example C15_http_port_site_never_tls_any_settings_nonvacuous :
  exists st a s, s_http st <> s_https st /\ Forall (fun x => port x <> []) a /\ s_port st = s_http st /\
    In s (stage_b_s st a) /\ port s = s_http st /\ en (tls s) = false /\ exists x, In x a /\ en (tls x) = true.
Proof. exact http_port_nonvacuous. Qed.

(* MakeServers' step itself, every site and every setting: a site on the HTTP port or with scheme http
   comes out with TLS disabled and its scheme untouched (never rewritten to https) *)
Theorem C15_makeservers_http_site_tls_off_scheme_kept :
  forall st s, (port s = s_http st \/ scheme s = HTTP) ->
    en (tls (ms_one_s st s)) = false /\ scheme (ms_one_s st s) = scheme s.
Proof. exact ms_one_s_http_site. Qed.
Print Assumptions C15_makeservers_http_site_tls_off_scheme_kept.

(* the default-port substitution: when -port is the HTTP port (and not 2015), a declaration without a
   port is a site on the HTTP port with whatever scheme standardizeAddress left (empty), and for every
   host, listener and set of TLS flags the tls directive left behind, it ends with TLS disabled *)
Theorem C15_default_port_site_on_http_port_never_tls :
  forall st sc h l t r,
    s_port st = s_http st -> s_port st <> P2015 -> s_http st <> [] ->
    let s := {| scheme := sc; host := h; port := default_port_s st []; listen := l; tls := t; redir := r |} in
    port s = s_http st /\ en (tls (ms_one_s st (enable_one_s st (mark_one s)))) = false.
Proof. exact default_port_site_never_tls. Qed.
Print Assumptions C15_default_port_site_on_http_port_never_tls.

(* "a site on the HTTP port is never given managed HTTPS": true of the code when the HTTP port is 80 ... *)
Theorem C15_managed_on_http_port_partial :
  forall st s, s_http st = P80 -> port s = s_http st -> mg (tls s) = false -> mg (tls (mark_one s)) = false.
Proof. exact not_managed_on_port_80. Qed.
Print Assumptions C15_managed_on_http_port_partial.

(* ... and REFUTED for other HTTP ports (F-C15-4, open): -port 8080 -http-port 8080, example.com is marked
   Managed and made https (QualifiesForManagedTLS compares with the literal "80") *)
Theorem C15_managed_on_http_port_refuted :
  exists st s, port s = s_http st /\
    mg (tls (enable_one_s st (mark_one s))) = true /\ scheme (enable_one_s st (mark_one s)) = HTTPS.
Proof. exact managed_on_http_port_witness. Qed.
Print Assumptions C15_managed_on_http_port_refuted.
