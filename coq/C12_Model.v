(* C12 — one well-formed response per request, panics contained: executable model.

   Mirrors the response path of a casket site as a composition of the wrapping directives in
   their canonical order (httpserver/plugin.go `directives`):

     Server.ServeHTTP (top-level recover, fallback DefaultErrorFunc)        server.go
       request_id, limits                (transparent for the response)
       log        (ResponseRecorder, recover -> 500, fallback ErrorFunc at >= 400) log/log.go
       rewrite                           (changes the path the inner directives see)
       gzip       (ResponseFilterWriter/gzipResponseWriter, header before Flush,
                   DefaultErrorFunc on the RAW writer at >= 400, deferred Close of the
                   pooled gzip.Writer)                                       gzip/gzip.go
       header     (deferred deletes, WriteHeader de-duplicated, header before Flush)
                                                                             header/header.go
       errors     (error pages, `visible` debug branch at >= 400, recover)  errors/errors.go
       status     (short-circuits the inner handlers)                       status/status.go
       mime                              (transparent: sets a header)
       templates  (ResponseBuffer: header before Flush, no Flush while buffering;
                   `code >= 300 || err` early return that passes a buffered response on
                   unless code >= 400; http.ServeContent with the buffered status)
                                                                     templates/templates.go
       innermost handler = script over {Header().Set, WriteHeader, Write, Flush,
                           io.Copy / ReadFrom (the io.ReaderFrom entry point), panic(v)}
                           followed by `return status, err`.

   net/http's own ResponseWriter is the [conn] part: the header map is snapshotted by the first
   WriteHeader/Write/Flush, a later WriteHeader only produces the diagnostic
   "http: superfluous response.WriteHeader call" (counter [sup]), WriteHeader with a code
   outside 100..999 panics, 204/304 carry no body.

   The compressor is not modelled: what gzip.Writer puts on the wire is the symbolic pair
   GzHead (10 header bytes, written by the first Write) and GzRest b (everything else, written
   by Close), b being the plaintext. *)
Require Import V.Lib.
Open Scope Z_scope.
Local Open Scope string_scope.

(* ---------- strings ---------- *)
Fixpoint has_pref (s p : bytes) : bool :=
  match p, s with
  | [], _ => true
  | x :: p', y :: s' => (x =? y)%N && has_pref s' p'
  | _ :: _, [] => false
  end.
Fixpoint contains (s sub : bytes) : bool :=
  has_pref s sub || match s with [] => false | _ :: r => contains r sub end.

Fixpoint dec_fuel (fuel : nat) (n : N) (acc : bytes) : bytes :=
  match fuel with
  | O => acc
  | S f => let acc' := (48 + n mod 10)%N :: acc in
           if (n / 10 =? 0)%N then acc' else dec_fuel f (n / 10)%N acc'
  end.
Definition decimal (z : Z) : bytes :=
  if z <? 0 then 45%N :: dec_fuel 40 (Z.to_N (- z)) [] else dec_fuel 40 (Z.to_N z) [].

(* [b] repeated n times: how the harness writes the long bodies of the case files (a literal of
   tens of thousands of bytes is more than Coq reads) *)
Fixpoint brep (n : nat) (b : bytes) : bytes :=
  match n with O => [] | S n' => b ++ brep n' b end.

(* path.Ext of the last element *)
Fixpoint ext_rev (r acc : bytes) : bytes :=
  match r with
  | [] => []
  | c :: r' => if (c =? 47)%N then [] else if (c =? 46)%N then c :: acc else ext_rev r' (c :: acc)
  end.
Definition path_ext (p : bytes) : bytes := ext_rev (rev p) [].

(* ---------- header maps (canonical keys, single values) ---------- *)
Definition headers := list (bytes * bytes).
Fixpoint hget (h : headers) (k : bytes) : option bytes :=
  match h with
  | [] => None
  | kv :: r => if beq k (fst kv) then Some (snd kv) else hget r k
  end.
Definition hdel (h : headers) (k : bytes) : headers := filter (fun kv => negb (beq k (fst kv))) h.
Definition hset (h : headers) (k v : bytes) : headers := (k, v) :: hdel h k.
(* ResponseBuffer.CopyHeader: every field of src replaces the field of dst *)
Definition hcopy (src dst : headers) : headers := fold_right (fun kv d => hset d (fst kv) (snd kv)) dst src.

Definition K_CT := bs "Content-Type".
Definition K_CE := bs "Content-Encoding".
Definition K_CL := bs "Content-Length".
Definition K_XCTO := bs "X-Content-Type-Options".
Definition K_ETAG := bs "Etag".
Definition K_LM := bs "Last-Modified".
Definition K_XPROBE := bs "X-C12".
Definition K_XCFG := bs "X-Cfg".
Definition K_XDEL := bs "X-Del".
Definition V_GZIP := bs "gzip".
Definition V_TEXT := bs "text/plain; charset=utf-8".
Definition V_HTML := bs "text/html; charset=utf-8".
Definition V_NOSNIFF := bs "nosniff".
Definition V_CFG := bs "c12".
Definition TPL_OPEN := bs "{{".
Definition PANIC_MARK := bs "[PANIC]".
Definition ERRTEXT := bs "c12err".
(* gzip.SkipCompressedFilter: any Content-Encoding other than "" / identity is left alone *)
Definition ce_listed (v : option bytes) : bool :=
  match v with
  | Some c => negb (beq c [] || beq c (bs "identity"))
  | None => false
  end.

(* ---------- configuration of the site, as seen by one request ---------- *)
Inductive emode :=
| ENone                                    (* no errors directive *)
| EPlain                                   (* errors <logfile> *)
| EDebug                                   (* errors visible *)
| EPages (pages : list (Z * option bytes)) (generic : option (option bytes)).
         (* per-status pages and the `*` page; None content = the file cannot be opened *)
Inductive tmode := TOff | TExt | TByCT | TNoMatch.

Record cfg := {
  c_reqid : bool; c_limits : bool; c_log : bool; c_rewrite : bool;
  c_gzip : bool;          (* gzip directive present (ext * ) *)
  c_header : bool;        (* header / { X-Cfg c12 ; -X-Del } *)
  c_errors : emode;
  c_redir : bool;         (* redir /rd /there 302 *)
  c_status : option Z;    (* status <code> /st *)
  c_mime : bool;          (* mime .txt text/x-c12 *)
  c_internal : bool;      (* internal /int *)
  c_templates : bool      (* templates / .html *)
}.

(* rewrite /rw/a.txt /a.html *)
Definition P_RW_FROM := bs "/rw/a.txt".
Definition P_RW_TO := bs "/a.html".
Definition eff_path (c : cfg) (path : bytes) : bytes :=
  if c_rewrite c && beq path P_RW_FROM then P_RW_TO else path.
Definition status_rule (c : cfg) (path : bytes) : option Z :=
  match c_status c with
  | Some s => if has_pref (eff_path c path) (bs "/st") then Some s else None
  | None => None
  end.
(* redir /rd /there 302: the rule matches the (rewritten) path exactly and answers itself *)
Definition P_RD := bs "/rd".
Definition redir_hit (c : cfg) (path : bytes) : bool := c_redir c && beq (eff_path c path) P_RD.
(* internal /int: a request for an internal location is answered 404 without calling the inner
   handlers (the X-Accel-Redirect loop is outside the model) *)
Definition internal_hit (c : cfg) (path : bytes) : bool := c_internal c && has_pref (eff_path c path) (bs "/int").
(* mime .txt text/x-c12: Content-Type is set on the response header map before the inner
   handlers run *)
Definition V_MIME := bs "text/x-c12".
Definition mime_ct (c : cfg) (path : bytes) : option bytes :=
  if c_mime c && beq (path_ext (eff_path c path)) (bs ".txt") then Some V_MIME else None.
(* httpserver/plugin.go InspectServerBlocks: a site with gzip and no errors directive gets a
   bare `errors` (so that error pages are written before the gzip writer is closed) *)
Definition eff_errors (c : cfg) : emode :=
  match c_errors c with
  | ENone => if c_gzip c then EPlain else ENone
  | m => m
  end.
Definition tmode_of (c : cfg) (path : bytes) : tmode :=
  if c_templates c then
    let e := path_ext (eff_path c path) in
    if beq e [] then TByCT else if beq e (bs ".html") then TExt else TNoMatch
  else TOff.

(* ---------- state of the writer stack of one request ---------- *)
Inductive seg := Raw (b : bytes) | GzHead | GzRest (b : bytes).

Record st := {
  (* net/http response *)
  cm : option Z;            (* committed status *)
  chdr : headers;           (* live header map *)
  csnap : headers;          (* header map as sent *)
  body : list seg;          (* newest first *)
  sup : nat;                (* superfluous WriteHeader diagnostics *)
  (* gzip: ResponseFilterWriter + gzipResponseWriter *)
  gz_on : bool; gz_fw : bool; gz_comp : bool; gz_wrote : bool;
  gz_created : bool; gz_hdr_out : bool; gz_pend : bytes;
  (* header's responseWriterWrapper *)
  h_on : bool; h_wrote : bool;
  (* templates' ResponseBuffer *)
  b_mode : tmode; b_wrote : bool; b_stream : bool; b_status : Z; b_hdr : headers; b_buf : bytes
}.

Definition st0 : st :=
  {| cm := None; chdr := []; csnap := []; body := []; sup := 0;
     gz_on := false; gz_fw := false; gz_comp := false; gz_wrote := false;
     gz_created := false; gz_hdr_out := false; gz_pend := [];
     h_on := false; h_wrote := false;
     b_mode := TOff; b_wrote := false; b_stream := false; b_status := 200; b_hdr := []; b_buf := [] |}.

(* setters *)
Definition set_conn (x : st) (cm' : option Z) (chdr' csnap' : headers) (body' : list seg) (sup' : nat) : st :=
  {| cm := cm'; chdr := chdr'; csnap := csnap'; body := body'; sup := sup';
     gz_on := gz_on x; gz_fw := gz_fw x; gz_comp := gz_comp x; gz_wrote := gz_wrote x;
     gz_created := gz_created x; gz_hdr_out := gz_hdr_out x; gz_pend := gz_pend x;
     h_on := h_on x; h_wrote := h_wrote x;
     b_mode := b_mode x; b_wrote := b_wrote x; b_stream := b_stream x; b_status := b_status x;
     b_hdr := b_hdr x; b_buf := b_buf x |}.
Definition set_chdr (x : st) (h : headers) : st := set_conn x (cm x) h (csnap x) (body x) (sup x).
Definition set_gz (x : st) (on fw comp wrote created hdr_out : bool) (pend : bytes) : st :=
  {| cm := cm x; chdr := chdr x; csnap := csnap x; body := body x; sup := sup x;
     gz_on := on; gz_fw := fw; gz_comp := comp; gz_wrote := wrote;
     gz_created := created; gz_hdr_out := hdr_out; gz_pend := pend;
     h_on := h_on x; h_wrote := h_wrote x;
     b_mode := b_mode x; b_wrote := b_wrote x; b_stream := b_stream x; b_status := b_status x;
     b_hdr := b_hdr x; b_buf := b_buf x |}.
Definition set_h (x : st) (on wrote : bool) : st :=
  {| cm := cm x; chdr := chdr x; csnap := csnap x; body := body x; sup := sup x;
     gz_on := gz_on x; gz_fw := gz_fw x; gz_comp := gz_comp x; gz_wrote := gz_wrote x;
     gz_created := gz_created x; gz_hdr_out := gz_hdr_out x; gz_pend := gz_pend x;
     h_on := on; h_wrote := wrote;
     b_mode := b_mode x; b_wrote := b_wrote x; b_stream := b_stream x; b_status := b_status x;
     b_hdr := b_hdr x; b_buf := b_buf x |}.
Definition set_b (x : st) (mode : tmode) (wrote stream : bool) (status : Z) (hdr : headers) (buf : bytes) : st :=
  {| cm := cm x; chdr := chdr x; csnap := csnap x; body := body x; sup := sup x;
     gz_on := gz_on x; gz_fw := gz_fw x; gz_comp := gz_comp x; gz_wrote := gz_wrote x;
     gz_created := gz_created x; gz_hdr_out := gz_hdr_out x; gz_pend := gz_pend x;
     h_on := h_on x; h_wrote := h_wrote x;
     b_mode := mode; b_wrote := wrote; b_stream := stream; b_status := status; b_hdr := hdr; b_buf := buf |}.

(* an operation either completes or panics; the writer state survives a panic *)
Inductive out := Done (x : st) | Pan (x : st).
Definition bnd (o : out) (f : st -> out) : out := match o with Done x => f x | Pan x => Pan x end.
Definition out_st (o : out) : st := match o with Done x => x | Pan x => x end.

(* ---------- level 0: net/http response (log's ResponseRecorder passes everything on) ---------- *)
Definition valid_code (s : Z) : bool := (100 <=? s) && (s <=? 999).
Definition bodyless (s : Z) : bool := (s =? 204) || (s =? 304) || (s <? 200).
Definition commit (s : Z) (x : st) : st := set_conn x (Some s) (chdr x) (chdr x) (body x) (sup x).
Definition c_wh (s : Z) (x : st) : out :=
  match cm x with
  | Some _ => Done (set_conn x (cm x) (chdr x) (csnap x) (body x) (S (sup x)))
  | None => if valid_code s then Done (commit s x) else Pan x
  end.
Definition c_wr (g : seg) (x : st) : out :=
  let x1 := match cm x with Some _ => x | None => commit 200 x end in
  match cm x1 with
  | Some s => if bodyless s then Done x1
              else Done (set_conn x1 (cm x1) (chdr x1) (csnap x1) (g :: body x1) (sup x1))
  | None => Done x1
  end.
(* net/http's Flush commits 200 when nothing was committed *)
Definition c_fl (x : st) : out := Done (match cm x with Some _ => x | None => commit 200 x end).

(* httpserver.DefaultErrorFunc / WriteTextResponse on a given writer level *)
Definition text_response (wh : Z -> st -> out) (wr : bytes -> st -> out) (code : Z) (text : bytes) (x : st) : out :=
  let x1 := set_chdr x (hset (hset (chdr x) K_CT V_TEXT) K_XCTO V_NOSNIFF) in
  bnd (wh code x1) (wr text).

(* ---------- level 2: gzip ---------- *)
(* gzipResponseWriter.WriteHeader *)
Definition gzh_wh (s : Z) (x : st) : out :=
  let x1 := set_chdr x (hset (hdel (chdr x) K_CL) K_CE V_GZIP) in
  bnd (c_wh s x1) (fun y => Done (set_gz y (gz_on y) (gz_fw y) (gz_comp y) true (gz_created y) (gz_hdr_out y) (gz_pend y))).
(* ResponseFilterWriter.WriteHeader: the filters decide on the first call only *)
Definition g_wh (s : Z) (x : st) : out :=
  if gz_on x then
    if gz_fw x then (if gz_comp x then gzh_wh s x else c_wh s x)
    else
      let comp := negb (ce_listed (hget (chdr x) K_CE)) in
      let x1 := set_gz x true (gz_fw x) comp (gz_wrote x) (gz_created x || comp) (gz_hdr_out x) (gz_pend x) in
      bnd (if comp then gzh_wh s x1 else c_wh s x1)
          (fun y => Done (set_gz y (gz_on y) true (gz_comp y) (gz_wrote y) (gz_created y) (gz_hdr_out y) (gz_pend y)))
  else c_wh s x.
Definition g_wr (b : bytes) (x : st) : out :=
  if gz_on x then
    bnd (if gz_fw x then Done x else g_wh 200 x) (fun x1 =>
      if gz_comp x1 then
        bnd (if gz_wrote x1 then Done x1 else gzh_wh 200 x1) (fun x2 =>
          bnd (if gz_hdr_out x2 then Done x2 else c_wr GzHead x2) (fun x3 =>
            Done (set_gz x3 (gz_on x3) (gz_fw x3) (gz_comp x3) (gz_wrote x3) true true (gz_pend x3 ++ b))))
      else c_wr (Raw b) x1)
  else c_wr (Raw b) x.
(* ResponseFilterWriter.Flush: the header goes out through the filters first. *)
Definition g_fl (x : st) : out :=
  if gz_on x then bnd (if gz_fw x then Done x else g_wh 200 x) c_fl else c_fl x.
(* deferred putWriter: Close of a writer that was handed out *)
Definition g_close (x : st) : out :=
  if gz_on x && gz_created x then
    let x0 := set_gz x (gz_on x) (gz_fw x) (gz_comp x) (gz_wrote x) false (gz_hdr_out x) (gz_pend x) in
    bnd (if gz_hdr_out x0 then Done x0 else c_wr GzHead x0) (c_wr (GzRest (gz_pend x)))
  else Done x.

(* ---------- level 3: header's wrapper ---------- *)
Definition h_wh (s : Z) (x : st) : out :=
  if h_on x then
    if h_wrote x then Done x
    else g_wh s (set_chdr (set_h x true true) (hdel (chdr x) K_XDEL))
  else g_wh s x.
Definition h_wr (b : bytes) (x : st) : out :=
  if h_on x then bnd (if h_wrote x then Done x else h_wh 200 x) (g_wr b) else g_wr b x.

(* responseWriterWrapper.Flush: the header (with the deferred deletes) first *)
Definition h_fl (x : st) : out :=
  if h_on x then bnd (if h_wrote x then Done x else h_wh 200 x) g_fl else g_fl x.

(* ---------- level 4: templates' ResponseBuffer ---------- *)
Definition b_active (x : st) : bool := match b_mode x with TOff => false | _ => true end.
Definition should_buffer (m : tmode) (h : headers) : bool :=
  match m with
  | TExt => true
  | TByCT => match hget h K_CT with Some v => contains v V_HTML | None => false end
  | _ => false
  end.
Definition b_wh (s : Z) (x : st) : out :=
  if b_active x then
    if b_wrote x then Done x
    else
      let stream := negb (should_buffer (b_mode x) (b_hdr x)) in
      let x1 := set_b x (b_mode x) true stream s (b_hdr x) (b_buf x) in
      if stream then h_wh s (set_chdr x1 (hcopy (b_hdr x1) (chdr x1))) else Done x1
  else h_wh s x.
Definition b_wr (b : bytes) (x : st) : out :=
  if b_active x then
    bnd (if b_wrote x then Done x else b_wh 200 x) (fun x1 =>
      if b_stream x1 then h_wr b x1
      else Done (set_b x1 (b_mode x1) (b_wrote x1) (b_stream x1) (b_status x1) (b_hdr x1) (b_buf x1 ++ b)))
  else h_wr b x.
Definition b_sethdr (k v : bytes) (x : st) : st :=
  if b_active x then set_b x (b_mode x) (b_wrote x) (b_stream x) (b_status x) (hset (b_hdr x) k v) (b_buf x)
  else set_chdr x (hset (chdr x) k v).

(* ResponseBuffer.Flush: the header first (which decides about buffering); nothing is sent
   while the response is being buffered *)
Definition b_fl (x : st) : out :=
  if b_active x then
    bnd (if b_wrote x then Done x else b_wh 200 x)
        (fun x1 => if b_stream x1 then h_fl x1 else Done x1)
  else h_fl x.

(* The io.ReaderFrom entry point: what `io.Copy(w, src)` / `io.CopyN` / `w.(io.ReaderFrom).ReadFrom(src)`
   do when src is a plain io.Reader holding [b].  Of the writers of the stack only templates'
   ResponseBuffer (and net/http's own response) offers ReadFrom; on every other writer io.Copy
   falls back to Write, and writes nothing when the source is empty.
   ResponseBuffer.ReadFrom: while the header has not been written (`if !rb.wroteHeader`) the
   beginning of src - up to one pooled copy buffer - is copied through rb.Write
   (io.CopyBuffer on the bare io.Writer): io.CopyBuffer calls Write only with bytes it has read,
   so an EMPTY source leaves the ResponseBuffer untouched (no implicit WriteHeader, no decision
   about buffering, as net/http's own ReadFrom), and the first bytes of a non-empty one make
   Write write the implicit header - that call is what makes the buffer decide whether to
   buffer; what is left of src then takes the old paths (streaming: io.CopyBuffer to the writer
   below; buffering: rb.Buffer.ReadFrom(src)).  For a non-empty source this is exactly
   ResponseBuffer.Write of the bytes copied. *)
Definition b_rf (b : bytes) (x : st) : out :=
  match b with
  | [] => Done x
  | _ :: _ => b_wr b x
  end.

(* ---------- the innermost handler ---------- *)
(* the value a handler panics with: no recover site of the response path (errors' recovery,
   log's serveNext, the top of Server.ServeHTTP) looks at it - in particular http.ErrAbortHandler
   is answered like any other value -, and a Go >= 1.21 module never recovers nil (panic(nil)
   arrives as *runtime.PanicNilError) *)
Inductive pval := PString | PError | PRuntime | PAbort | PNilDeref | PCustom | PNil.
Inductive op := OSet (k v : bytes) | OWh (s : Z) | OWr (b : bytes) | OFl | OPanic (v : pval) | ORf (b : bytes).

Definition step (o : op) (x : st) : out :=
  match o with
  | OSet k v => Done (b_sethdr k v x)
  | OWh s => b_wh s x
  | OWr b => b_wr b x
  | OFl => b_fl x
  | OPanic _ => Pan x
  | ORf b => b_rf b x
  end.
Fixpoint run_script (ops : list op) (x : st) : out :=
  match ops with
  | [] => Done x
  | o :: r => bnd (step o x) (run_script r)
  end.

(* the body part of the scripts the theorems speak about: Writes and Flushes *)
Inductive wop := WWr (b : bytes) | WFl.
Definition wop_op (w : wop) : op := match w with WWr b => OWr b | WFl => OFl end.
Definition wop_bytes (w : wop) : bytes := match w with WWr b => b | WFl => [] end.
Definition wbody (ws : list wop) : bytes := concat (map wop_bytes ws).

(* result of a Handler.ServeHTTP call *)
Inductive hres := HRet (s : Z) (e : bool) (x : st) | HPan (x : st).
Definition hres_st (r : hres) : st := match r with HRet _ _ x => x | HPan x => x end.

Definition probe (ops : list op) (ret : Z) (err : bool) (x : st) : hres :=
  match run_script ops x with Done y => HRet ret err y | Pan y => HPan y end.

(* ---------- templates ---------- *)
(* ResponseBuffer.WriteBuffered: header fields, status and body as the handler wrote them *)
Definition b_write_buffered (y : st) : out :=
  if b_wrote y && negb (b_stream y) then
    bnd (h_wh (b_status y) (set_chdr y (hcopy (b_hdr y) (chdr y))))
        (fun z => match b_buf y with [] => Done z | _ => h_wr (b_buf y) z end)
  else Done y.
(* The bytes.Buffer comes from Templates.BufPool with whatever an earlier request (a panicking
   one included: the deferred Put returns it as it is) left in it; `buf.Reset()` empties it. *)
Definition buf_reset (leftover : bytes) : bytes := [].
Definition templates_on_p (pooled : bytes) (m : tmode) (inner : st -> hres) (x : st) : hres :=
    match inner (set_b x m false false 200 [] (buf_reset pooled)) with
    | HPan y => HPan y
    | HRet code e y =>
        if b_stream y || (300 <=? code) || e then
          (* not a template to execute; what was buffered is passed on, unless the status
             asks for an error response *)
          if code <? 400 then
            match b_write_buffered y with Done z => HRet code e z | Pan z => HPan z end
          else HRet code e y
        else if contains (b_buf y) TPL_OPEN then HRet 500 true y    (* template does not parse *)
        else
          (* CopyHeader, Content-Length, cache headers removed, http.ServeContent through
             the forced-status writer (Content-Type is set from the extension when absent) *)
          let h1 := hcopy (b_hdr y) (chdr y) in
          let h2 := hdel (hdel (hset h1 K_CL (decimal (Z.of_nat (length (b_buf y))))) K_ETAG) K_LM in
          let h3 := match hget h2 K_CT with Some _ => h2 | None => hset h2 K_CT V_HTML end in
          let y1 := set_chdr y h3 in
          match bnd (h_wh (b_status y) y1)
                    (fun z => match b_buf y with [] => Done z | _ => h_wr (b_buf y) z end) with
          | Done z => HRet 0 false z
          | Pan z => HPan z
          end
    end.
Definition templates_on : tmode -> (st -> hres) -> st -> hres := templates_on_p [].
Definition templates_mw_p (pooled : bytes) (m : tmode) (inner : st -> hres) (x : st) : hres :=
  match m with
  | TOff => inner x
  | _ => templates_on_p pooled m inner x
  end.
Definition templates_mw : tmode -> (st -> hres) -> st -> hres := templates_mw_p [].

(* ---------- status ---------- *)
Definition status_mw (rule : option Z) (inner : st -> hres) (x : st) : hres :=
  match rule with
  | Some s => if s <? 400 then match h_wh s x with Done y => HRet 0 false y | Pan y => HPan y end
              else HRet s false x
  | None => inner x
  end.

(* ---------- redir: http.Redirect on the writer it is handed, then (0, nil) ---------- *)
Definition K_LOC := bs "Location".
Definition V_THERE := bs "/there".
Definition REDIR_BODY := bs "<a href=""/there"">Found</a>." ++ [10%N; 10%N].
Definition redir_mw (hit : bool) (inner : st -> hres) (x : st) : hres :=
  if hit then
    let x1 := set_chdr x (hset (hset (chdr x) K_LOC V_THERE) K_CT V_HTML) in
    match bnd (h_wh 302 x1) (h_wr REDIR_BODY) with Done y => HRet 0 false y | Pan y => HPan y end
  else inner x.

(* ---------- mime: Content-Type set before the inner handlers run ---------- *)
Definition enter_mime (v : option bytes) (x : st) : st :=
  match v with Some t => set_chdr x (hset (chdr x) K_CT t) | None => x end.
Definition mime_mw (v : option bytes) (inner : st -> hres) (x : st) : hres := inner (enter_mime v x).

(* ---------- internal: internal locations are not found ---------- *)
Definition internal_mw (hit : bool) (inner : st -> hres) (x : st) : hres :=
  if hit then HRet 404 false x else inner x.

(* ---------- errors ---------- *)
Section Errors.
Variable errtext : Z -> bytes.       (* "%d %s\n" of DefaultErrorFunc *)
Variable path : bytes.               (* r.URL.Path as the errors directive sees it *)

Definition default_error3 (code : Z) (x : st) : out := text_response h_wh h_wr code (errtext code) x.

Definition find_page (m : emode) (code : Z) : option (option bytes) :=
  match m with
  | EPages pages generic =>
      match find (fun p => fst p =? code) pages with
      | Some p => Some (snd p)
      | None => generic
      end
  | _ => None
  end.
Definition error_page (m : emode) (code : Z) (x : st) : out :=
  match find_page m code with
  | Some (Some content) =>
      let x1 := set_chdr x (hset (chdr x) K_CT V_HTML) in
      (* io.Copy fails (http.ErrBodyNotAllowed) when the handler had already committed a
         status without body; errorPage then falls back to DefaultErrorFunc *)
      let refused := match cm x with Some s => bodyless s | None => false end in
      bnd (h_wh code x1) (fun y =>
        match content with
        | [] => Done y
        | _ => bnd (h_wr content y) (fun z => if refused then default_error3 code z else Done z)
        end)
  | Some None => default_error3 code x
  | None => default_error3 code x
  end.
Definition errmsg (s : Z) : bytes :=
  bs "[ERROR " ++ decimal s ++ bs " " ++ path ++ bs "] " ++ ERRTEXT ++ [10%N].

Definition recovery (m : emode) (x : st) : hres :=
  match (match m with
         | EDebug => text_response h_wh h_wr 500 PANIC_MARK x
         | _ => error_page m 500 x
         end) with
  | Done y => HRet 0 false y
  | Pan y => HPan y
  end.
Definition errors_mw (m : emode) (inner : st -> hres) (x : st) : hres :=
  match m with
  | ENone => inner x
  | _ =>
    match inner x with
    | HPan y => recovery m y
    | HRet s e y =>
        (* the debug branch writes only where an error response is asked for; below 400
           the error is logged *)
        if e && match m with EDebug => true | _ => false end && (400 <=? s) then
          match bnd (h_wh s (set_chdr y (hset (chdr y) K_CT V_TEXT))) (h_wr (errmsg s)) with
          | Done z => HRet 0 true z
          | Pan z => recovery m z
          end
        else if 400 <=? s then
          match error_page m s y with
          | Done z => HRet 0 e z
          | Pan z => recovery m z
          end
        else HRet s e y
    end
  end.

(* ---------- header ---------- *)
Definition header_mw (on : bool) (inner : st -> hres) (x : st) : hres :=
  if on then inner (set_chdr (set_h x true false) (hset (hdel (chdr x) K_XDEL) K_XCFG V_CFG))
  else inner x.

(* ---------- gzip ---------- *)
Definition default_error1 (code : Z) (x : st) : out :=
  text_response c_wh (fun b => c_wr (Raw b)) code (errtext code) x.

(* The gzip.Writer comes from the writer pool in whatever state an earlier request left it
   (abstracted by the plaintext it had absorbed); getWriter resets it before use. *)
Definition gw_reset (absorbed : bytes) : bytes := [].
Definition gzip_mw_p (pooled : bytes) (active : bool) (inner : st -> hres) (x : st) : hres :=
  if active then
    match inner (set_gz x true false false false false false (gw_reset pooled)) with
    | HPan y => HPan (out_st (g_close y))
    | HRet s e y =>
        if 400 <=? s then
          match default_error1 s y with
          | Done z => match g_close z with Done z' => HRet 0 e z' | Pan z' => HPan z' end
          | Pan z => HPan (out_st (g_close z))
          end
        else match g_close y with Done z => HRet s e z | Pan z => HPan z end
    end
  else inner x.
Definition gzip_mw : bool -> (st -> hres) -> st -> hres := gzip_mw_p [].

(* ---------- log ---------- *)
(* Logger.serveNext: a panic of the inner handlers is recovered and turned into (500, error),
   so that the fallback below answers through the recorder and the request is logged *)
Definition log_next (inner : st -> hres) (x : st) : hres :=
  match inner x with
  | HPan y => HRet 500 true y
  | r => r
  end.
Definition log_mw (on : bool) (inner : st -> hres) (x : st) : hres :=
  if on then
    match log_next inner x with
    | HPan y => HPan y
    | HRet s e y =>
        if 400 <=? s then
          match default_error1 s y with Done z => HRet 0 e z | Pan z => HPan z end
        else HRet s e y
    end
  else inner x.

(* ---------- Server.ServeHTTP ---------- *)
(* net/http's finishRequest: a handler that never committed gets 200 *)
Definition finish (x : st) : st := match cm x with Some _ => x | None => commit 200 x end.
Definition server (chain : st -> hres) : st :=
  match chain st0 with
  | HPan y => finish (out_st (default_error1 500 y))
  | HRet s e y =>
      if 400 <=? s then
        match default_error1 s y with
        | Done z => finish z
        | Pan z => finish (out_st (default_error1 500 z))
        end
      else finish y
  end.
End Errors.

(* the whole site for one request; [pooled] = the state of the gzip.Writer and of the
   bytes.Buffer this request is handed by the two pools *)
Definition chain_p (pooled : bytes * bytes) (errtext : Z -> bytes) (c : cfg) (path : bytes) (ae_gzip : bool)
           (ops : list op) (ret : Z) (err : bool) : st -> hres :=
  log_mw errtext (c_log c)
   (gzip_mw_p errtext (fst pooled) (c_gzip c && ae_gzip)
     (header_mw (c_header c)
       (errors_mw errtext (eff_path c path) (eff_errors c)
         (redir_mw (redir_hit c path)
           (status_mw (status_rule c path)
             (mime_mw (mime_ct c path)
               (internal_mw (internal_hit c path)
                 (templates_mw_p (snd pooled) (tmode_of c path)
                   (probe ops ret err))))))))).
Definition chain : (Z -> bytes) -> cfg -> bytes -> bool -> list op -> Z -> bool -> st -> hres := chain_p ([], []).
Definition serve_p (pooled : bytes * bytes) (errtext : Z -> bytes) (c : cfg) (path : bytes) (ae_gzip : bool)
           (ops : list op) (ret : Z) (err : bool) : st :=
  server errtext (chain_p pooled errtext c path ae_gzip ops ret err).
(* a request served with brand-new pool objects *)
Definition serve : (Z -> bytes) -> cfg -> bytes -> bool -> list op -> Z -> bool -> st := serve_p ([], []).

(* ---------- limits: the request body is read through maxBytesReader ----------
   A request is (script, return) plus the place [rd] in the script where the handler reads
   the request body (None = never).  With `limits { body / 8 }` a body longer than the limit
   makes that read fail with ErrMaxBytesExceeded and the handler returns (413, err) there, as
   proxy does; otherwise the read has no effect on the response. *)
Definition LIMIT : N := 8.
Definition limits_view (c : cfg) (blen : N) (rd : option nat) (ops : list op) (ret : Z) (err : bool)
  : list op * Z * bool :=
  match rd with
  | Some n => if c_limits c && (LIMIT <? blen)%N then (firstn n ops, 413, true) else (ops, ret, err)
  | None => (ops, ret, err)
  end.

(* ---------- the server across requests: the two pools ----------
   sync.Pool hands out any pooled object or a new one; a request returns its objects in the
   state it leaves them (deferred Put / putWriter run during a panic too). *)
Record req := { q_path : bytes; q_ae : bool; q_blen : N; q_rd : option nat; q_ops : list op; q_ret : Z; q_err : bool }.
Record srv := { gz_pool : list bytes; buf_pool : list bytes }.
Definition srv0 : srv := {| gz_pool := []; buf_pool := [] |}.
Definition pool_get (p : list bytes) : bytes * list bytes :=
  match p with b :: r => (b, r) | [] => ([], []) end.
Definition serve_req_p (pooled : bytes * bytes) (errtext : Z -> bytes) (c : cfg) (q : req) : st :=
  let v := limits_view c (q_blen q) (q_rd q) (q_ops q) (q_ret q) (q_err q) in
  serve_p pooled errtext c (q_path q) (q_ae q) (fst (fst v)) (snd (fst v)) (snd v).
Definition serve_req : (Z -> bytes) -> cfg -> req -> st := serve_req_p ([], []).
Definition serve_srv (errtext : Z -> bytes) (c : cfg) (sv : srv) (q : req) : st * srv :=
  let g := pool_get (gz_pool sv) in
  let b := pool_get (buf_pool sv) in
  let x := serve_req_p (fst g, fst b) errtext c q in
  (x, {| gz_pool := if c_gzip c && q_ae q then gz_pend x :: snd g else gz_pool sv;
         buf_pool := match tmode_of c (q_path q) with TOff => buf_pool sv | _ => b_buf x :: snd b end |}).
(* the responses to a sequence of requests *)
Fixpoint run_hist (errtext : Z -> bytes) (c : cfg) (sv : srv) (qs : list req) : list st :=
  match qs with
  | [] => []
  | q :: r => let o := serve_srv errtext c sv q in fst o :: run_hist errtext c (snd o) r
  end.
Fixpoint srv_after (errtext : Z -> bytes) (c : cfg) (sv : srv) (qs : list req) : srv :=
  match qs with
  | [] => sv
  | q :: r => srv_after errtext c (snd (serve_srv errtext c sv q)) r
  end.

(* ---------- requests served WHILE another one is in flight ----------
   A request holds its pooled objects from the Get at the start of gzip's / templates' ServeHTTP
   to the deferred Put at their end: whatever the point at which it is interrupted - inside the
   innermost handler, or later in its response path, when templates' WriteBuffered / ServeContent
   or gzip's Close hand the header and the body to the connection - the requests served
   completely in the meantime find the pools WITHOUT these objects, and get them back only
   afterwards. [Nest q inner]: the requests [inner] (each possibly interrupted in turn) are
   served one after the other while [q] is in flight. Responses in pre-order. *)
Inductive nest := Nest (q : req) (inner : list nest).
Definition uses_gz (c : cfg) (q : req) : bool := c_gzip c && q_ae q.
Definition uses_buf (c : cfg) (q : req) : bool := match tmode_of c (q_path q) with TOff => false | _ => true end.
Fixpoint run_nest (errtext : Z -> bytes) (c : cfg) (sv : srv) (t : nest) {struct t} : list st * srv :=
  match t with
  | Nest q inner =>
      let g := pool_get (gz_pool sv) in
      let b := pool_get (buf_pool sv) in
      let x := serve_req_p (fst g, fst b) errtext c q in
      (* the pools while q is in flight *)
      let sv1 := {| gz_pool := if uses_gz c q then snd g else gz_pool sv;
                    buf_pool := if uses_buf c q then snd b else buf_pool sv |} in
      let r := (fix go (sv : srv) (l : list nest) {struct l} : list st * srv :=
                  match l with
                  | [] => ([], sv)
                  | t' :: l' => let o1 := run_nest errtext c sv t' in
                                let o2 := go (snd o1) l' in
                                (fst o1 ++ fst o2, snd o2)
                  end) sv1 inner in
      (* the deferred Puts *)
      (x :: fst r, {| gz_pool := if uses_gz c q then gz_pend x :: gz_pool (snd r) else gz_pool (snd r);
                      buf_pool := if uses_buf c q then b_buf x :: buf_pool (snd r) else buf_pool (snd r) |})
  end.
Fixpoint nest_reqs (t : nest) : list req :=
  match t with Nest q inner => q :: flat_map nest_reqs inner end.

(* ---------- what the client sees ---------- *)
Definition nonempty_seg (g : seg) : bool := match g with Raw [] => false | _ => true end.
Fixpoint raws (l : list seg) : option bytes :=
  match l with
  | [] => Some []
  | Raw b :: r => match raws r with Some t => Some (b ++ t) | None => None end
  | _ :: _ => None
  end.
(* (garbled, body after undoing the gzip coding named by Content-Encoding) *)
Definition view (x : st) : bool * bytes :=
  let segs := filter nonempty_seg (rev (body x)) in
  let ce_gz := match hget (csnap x) K_CE with Some v => beq v V_GZIP | None => false end in
  if ce_gz then
    match segs with
    | GzHead :: GzRest b :: r => match raws r with Some t => (false, b ++ t) | None => (true, []) end
    | [] => (false, [])
    | _ => (true, [])
    end
  else match raws segs with Some t => (false, t) | None => (true, []) end.

Record obs := {
  o_status : Z; o_garbled : bool; o_view : bytes; o_sup : nat;
  o_xprobe : option bytes; o_xcfg : bool; o_xdel : bool;
  o_mime : bool;      (* Content-Type is the one the mime directive configures *)
  o_loc : bool;       (* Location: /there *)
  o_etag : bool       (* an ETag field is present (gzip weakens it, templates removes it from what it renders) *)
}.
Definition is_val (o : option bytes) (v : bytes) : bool := match o with Some w => beq w v | None => false end.
Definition observe (x : st) : obs :=
  let v := view x in
  {| o_status := match cm x with Some s => s | None => 200 end;
     o_garbled := fst v; o_view := if fst v then [] else snd v; o_sup := sup x;
     o_xprobe := hget (csnap x) K_XPROBE;
     o_xcfg := match hget (csnap x) K_XCFG with Some _ => true | None => false end;
     o_xdel := match hget (csnap x) K_XDEL with Some _ => true | None => false end;
     (* net/http does not send Content-Type with a 304 *)
     o_mime := match cm x with Some 304 => false | _ => is_val (hget (csnap x) K_CT) V_MIME end;
     o_loc := is_val (hget (csnap x) K_LOC) V_THERE;
     o_etag := match hget (csnap x) K_ETAG with Some _ => true | None => false end |}.

Definition opt_beq (a b : option bytes) : bool :=
  match a, b with Some x, Some y => beq x y | None, None => true | _, _ => false end.
Definition obs_eqb (a b : obs) : bool :=
  (o_status a =? o_status b) && Bool.eqb (o_garbled a) (o_garbled b) && beq (o_view a) (o_view b) &&
  Nat.eqb (o_sup a) (o_sup b) && opt_beq (o_xprobe a) (o_xprobe b) &&
  Bool.eqb (o_xcfg a) (o_xcfg b) && Bool.eqb (o_xdel a) (o_xdel b) &&
  Bool.eqb (o_mime a) (o_mime b) && Bool.eqb (o_loc a) (o_loc b) && Bool.eqb (o_etag a) (o_etag b).

(* ---------- DefaultErrorFunc's text: "%d %s\n" with net/http's StatusText ---------- *)
Definition status_text (code : Z) : bytes :=
  match code with
  | 100 => bs "Continue"
  | 101 => bs "Switching Protocols"
  | 102 => bs "Processing"
  | 103 => bs "Early Hints"
  | 200 => bs "OK"
  | 201 => bs "Created"
  | 202 => bs "Accepted"
  | 203 => bs "Non-Authoritative Information"
  | 204 => bs "No Content"
  | 205 => bs "Reset Content"
  | 206 => bs "Partial Content"
  | 207 => bs "Multi-Status"
  | 208 => bs "Already Reported"
  | 226 => bs "IM Used"
  | 300 => bs "Multiple Choices"
  | 301 => bs "Moved Permanently"
  | 302 => bs "Found"
  | 303 => bs "See Other"
  | 304 => bs "Not Modified"
  | 305 => bs "Use Proxy"
  | 307 => bs "Temporary Redirect"
  | 308 => bs "Permanent Redirect"
  | 400 => bs "Bad Request"
  | 401 => bs "Unauthorized"
  | 402 => bs "Payment Required"
  | 403 => bs "Forbidden"
  | 404 => bs "Not Found"
  | 405 => bs "Method Not Allowed"
  | 406 => bs "Not Acceptable"
  | 407 => bs "Proxy Authentication Required"
  | 408 => bs "Request Timeout"
  | 409 => bs "Conflict"
  | 410 => bs "Gone"
  | 411 => bs "Length Required"
  | 412 => bs "Precondition Failed"
  | 413 => bs "Request Entity Too Large"
  | 414 => bs "Request URI Too Long"
  | 415 => bs "Unsupported Media Type"
  | 416 => bs "Requested Range Not Satisfiable"
  | 417 => bs "Expectation Failed"
  | 418 => bs "I'm a teapot"
  | 421 => bs "Misdirected Request"
  | 422 => bs "Unprocessable Entity"
  | 423 => bs "Locked"
  | 424 => bs "Failed Dependency"
  | 425 => bs "Too Early"
  | 426 => bs "Upgrade Required"
  | 428 => bs "Precondition Required"
  | 429 => bs "Too Many Requests"
  | 431 => bs "Request Header Fields Too Large"
  | 451 => bs "Unavailable For Legal Reasons"
  | 500 => bs "Internal Server Error"
  | 501 => bs "Not Implemented"
  | 502 => bs "Bad Gateway"
  | 503 => bs "Service Unavailable"
  | 504 => bs "Gateway Timeout"
  | 505 => bs "HTTP Version Not Supported"
  | 506 => bs "Variant Also Negotiates"
  | 507 => bs "Insufficient Storage"
  | 508 => bs "Loop Detected"
  | 510 => bs "Not Extended"
  | 511 => bs "Network Authentication Required"
  | _ => []
  end.
Definition std_errtext (code : Z) : bytes := decimal code ++ bs " " ++ status_text code ++ [10%N].

(* ---------- the executable specification (independent of [serve]) ----------
   Reference semantics = what the handler's script does to a bare net/http ResponseWriter. *)
Record plain := { p_cm : option Z; p_hdr : headers; p_snap : headers; p_body : bytes; p_sup : nat; p_pan : bool }.
Definition p0 : plain := {| p_cm := None; p_hdr := []; p_snap := []; p_body := []; p_sup := 0; p_pan := false |}.
Definition p_commit (s : Z) (p : plain) : plain :=
  match p_cm p with
  | Some _ => p
  | None => {| p_cm := Some s; p_hdr := p_hdr p; p_snap := p_hdr p; p_body := p_body p; p_sup := p_sup p; p_pan := p_pan p |}
  end.
Definition p_step (p : plain) (o : op) : plain :=
  if p_pan p then p else
  match o with
  | OSet k v => {| p_cm := p_cm p; p_hdr := hset (p_hdr p) k v; p_snap := p_snap p; p_body := p_body p; p_sup := p_sup p; p_pan := false |}
  | OWh s => match p_cm p with
             | Some _ => {| p_cm := p_cm p; p_hdr := p_hdr p; p_snap := p_snap p; p_body := p_body p; p_sup := S (p_sup p); p_pan := false |}
             | None => p_commit s p
             end
  | OWr b => let q := p_commit 200 p in
             let keep := match p_cm q with Some s => negb (bodyless s) | None => true end in
             {| p_cm := p_cm q; p_hdr := p_hdr q; p_snap := p_snap q; p_body := if keep then p_body q ++ b else p_body q; p_sup := p_sup q; p_pan := false |}
  | OFl => p_commit 200 p
  | OPanic _ => {| p_cm := p_cm p; p_hdr := p_hdr p; p_snap := p_snap p; p_body := p_body p; p_sup := p_sup p; p_pan := true |}
  (* io.Copy on a bare net/http writer: nothing at all for an empty source, else Writes *)
  | ORf [] => p
  | ORf b => let q := p_commit 200 p in
             let keep := match p_cm q with Some s => negb (bodyless s) | None => true end in
             {| p_cm := p_cm q; p_hdr := p_hdr q; p_snap := p_snap q; p_body := if keep then p_body q ++ b else p_body q; p_sup := p_sup q; p_pan := false |}
  end.
Definition run_plain (ops : list op) : plain := fold_left p_step ops p0.
(* the handler touched the response before returning / panicking *)
Definition is_write_op (o : op) : bool := match o with OWh _ | OWr _ | OFl | ORf (_ :: _) => true | _ => false end.
Fixpoint touched (ops : list op) : bool :=
  match ops with
  | [] => false
  | OPanic _ :: _ => false
  | o :: r => is_write_op o || touched r
  end.
Fixpoint panics (ops : list op) : bool :=
  match ops with [] => false | OPanic _ :: _ => true | _ :: r => panics r end.

(* ---------- the handler contract (httpserver/middleware.go, net/http) ----------
   WriteHeader is called at most once, before anything else is written or flushed, with a
   final status 200..999; a handler that has written returns a status below 400 (0 = "I have
   answered"); a returned error status is a valid one. What follows a panic is not run. *)
Fixpoint wh_first (committed : bool) (ops : list op) : bool :=
  match ops with
  | [] => true
  | OSet _ _ :: r => wh_first committed r
  | OWh s :: r => negb committed && (200 <=? s) && (s <=? 999) && wh_first true r
  | OWr _ :: r => wh_first true r
  | OFl :: r => wh_first true r
  | OPanic _ :: _ => true
  (* a copy writes; a copy from an empty source does not touch the response on any writer
     (C12_empty_copy_transparent) *)
  | ORf [] :: r => wh_first committed r
  | ORf (_ :: _) :: r => wh_first true r
  end.
Definition handler_contract (ops : list op) (ret : Z) : bool :=
  wh_first false ops && (if touched ops then ret <? 400 else ret <=? 999).
Definition panics_after_write (ops : list op) : bool := touched ops && panics ops.

(* the error body the property promises for an error status reported without writing:
   `errors visible` shows the error if there is one; a page configured for the status is served
   if it can be read - a page that cannot be read is NOT replaced by the `*` page -; else the
   `*` page if configured and readable; else the plain text *)
Definition expected_error_body (errtext : Z -> bytes) (c : cfg) (path : bytes) (code : Z) (err : bool) : bytes :=
  match c_errors c with
  | EDebug => if err then errmsg (eff_path c path) code else errtext code
  | EPages _ _ =>
      match find_page (c_errors c) code with
      | Some (Some content) => content
      | _ => errtext code
      end
  | _ => errtext code
  end.
(* the same table written out clause by clause (C12_error_body_table proves them equal) *)
Definition error_body_table (errtext : Z -> bytes) (c : cfg) (path : bytes) (code : Z) (err : bool) : bytes :=
  match c_errors c with
  | ENone | EPlain => errtext code
  | EDebug => if err then errmsg (eff_path c path) code else errtext code
  | EPages pages generic =>
      match find (fun p => fst p =? code) pages with
      | Some (_, Some content) => content          (* the page of this status *)
      | Some (_, None) => errtext code            (* configured for this status, unreadable *)
      | None => match generic with
                | Some (Some content) => content  (* the `*` page *)
                | Some None => errtext code       (* `*` page unreadable *)
                | None => errtext code
                end
      end
  end.

Definition sets_ct (ops : list op) : bool :=
  existsb (fun o => match o with OSet k _ => beq k K_CT | _ => false end) ops.

(* classes of inputs on which the real code is known to deviate get their own Sig in the
   harness; the spec itself is the property statement *)
Definition spec (errtext : Z -> bytes) (c : cfg) (path : bytes) (ops : list op) (ret : Z) (err : bool)
           (o : obs) (resp_ok follow_ok bystander_ok : bool) : bool :=
  (* exactly one well-formed response; only this request is affected *)
  resp_ok && follow_ok && bystander_ok &&
  (if c_header c then o_xcfg o else true) &&
  if redir_hit c path then
    (* redir answers itself *)
    (o_status o =? 302) && negb (o_garbled o) && Nat.eqb (o_sup o) 0 && beq (o_view o) REDIR_BODY && o_loc o
  else
  match (match status_rule c path with Some s => Some s | None => if internal_hit c path then Some 404 else None end) with
  | Some s =>
      (* the status directive (internal: 404) answers instead of the inner handler *)
      if 400 <=? s then (o_status o =? s) && negb (o_garbled o) && Nat.eqb (o_sup o) 0 &&
                        beq (o_view o) (error_body_table errtext c path s false)
      else (o_status o =? s) && negb (o_garbled o) && Nat.eqb (o_sup o) 0 && beq (o_view o) []
  | None =>
    let p := run_plain ops in
    if panics ops then
      if touched ops then
        (* the header commit clause does not apply (at most the one extra WriteHeader of whoever
           recovers); containment is above; the client still sees what was sent before the panic *)
        Nat.leb (o_sup o) (S (p_sup p)) && negb (o_garbled o) &&
        (((o_status o =? match p_cm p with Some s => s | None => 200 end) && has_pref (o_view o) (p_body p)) ||
         (* templates was still buffering: nothing had reached the connection *)
         (c_templates c && (o_status o =? 500)))
      else (o_status o =? 500) && negb (o_garbled o) && Nat.eqb (o_sup o) 0 &&
           match c_errors c with
           | EDebug => has_pref (o_view o) PANIC_MARK
           | _ => beq (o_view o) (error_body_table errtext c path 500 false)
           end
    else if touched ops then
      if 400 <=? ret then true    (* handler broke the contract: wrote and reported an error status *)
      else
        (* written response arrives unaltered; wrappers add no header commit *)
        negb (o_garbled o) && Nat.leb (o_sup o) (p_sup p) &&
        (if handler_contract ops ret then Nat.eqb (o_sup o) 0 else true) &&
        (* templates takes the response as a template only if the request / the response header
           the handler committed match its rule, the handler returned a status below 300 and no error *)
        let rendered := should_buffer (tmode_of c path) (p_snap p) && (ret <? 300) && negb err in
        (if rendered && contains (p_body p) TPL_OPEN then
           (* a template that fails (to parse, or at execution): templates reports (500, err)
              without writing, so the client receives 500 once with the COMPLETE error body
              ([resp_ok] above: reading the body to its announced length succeeded) and none of
              the validators of the page that was not served *)
           (o_status o =? 500) && Nat.eqb (o_sup o) 0 && negb (o_etag o) &&
           beq (o_view o) (error_body_table errtext c path 500 true)
         else (o_status o =? match p_cm p with Some s => s | None => 200 end) &&
              opt_beq (o_xprobe o) (hget (p_snap p) K_XPROBE) &&
              beq (o_view o) (p_body p) &&
              (* the handler's validator reaches the client (templates removes it from a page it renders) *)
              (if rendered then true
               else Bool.eqb (o_etag o) (match hget (p_snap p) K_ETAG with Some _ => true | None => false end)) &&
              (* mime's Content-Type stays unless the handler sets its own *)
              Bool.eqb (o_mime o) (match mime_ct c path with
                                   | Some _ => negb (sets_ct ops) && negb (o_status o =? 304)
                                   | None => false end))
    else if (400 <=? ret) && (ret <=? 999) then
      (o_status o =? ret) && negb (o_garbled o) && Nat.eqb (o_sup o) 0 &&
      beq (o_view o) (error_body_table errtext c path ret err)
    else Nat.eqb (o_sup o) 0 && negb (o_garbled o)
  end.

(* ---------- cases ---------- *)
Inductive case :=
| CReq (c : cfg) (path : bytes) (ae_gzip : bool) (blen : N) (rd : option nat) (ops : list op) (ret : Z) (err : bool)
       (texts : list (Z * bytes))             (* "%d %s\n" as Go formats it, for the statuses involved *)
       (o : obs) (resp_ok follow_ok bystander_ok : bool)
(* requests served one after the other by the same server (same or different connections,
   pipelined), each with the observation of the same request served alone *)
| CSeq (c : cfg) (qs : list (req * obs * obs)) (all_ok : bool)
(* a request interrupted at a gate (in its handler, or in its response path on the connection
   side of every directive) while other requests of the same site are served completely; the
   observations (nested run, solo run) in pre-order *)
| CNest (c : cfg) (t : nest) (os : list (obs * obs)) (all_ok : bool)
| CSkip.

Definition texts_ok (texts : list (Z * bytes)) : bool :=
  forallb (fun p => beq (snd p) (std_errtext (fst p))) texts.

Definition judge (k : case) : N :=
  match k with
  | CReq c path ae blen rd ops ret err texts o resp_ok follow_ok by_ok =>
      let et := std_errtext in
      let v := limits_view c blen rd ops ret err in
      let m := observe (serve_req et c {| q_path := path; q_ae := ae; q_blen := blen; q_rd := rd; q_ops := ops; q_ret := ret; q_err := err |}) in
      let agree := (if resp_ok then obs_eqb m o else true) && texts_ok texts in
      verdict agree (spec et c path (fst (fst v)) (snd (fst v)) (snd v) o resp_ok follow_ok by_ok)
  | CSeq c qs all_ok =>
      let et := std_errtext in
      let ms := map observe (run_hist et c srv0 (map (fun t => fst (fst t)) qs)) in
      let agree := forallb (fun p => obs_eqb (fst p) (snd (fst (snd p)))) (combine ms qs) in
      (* every response equals the response to the same request served alone *)
      verdict agree (all_ok && forallb (fun t => obs_eqb (snd (fst t)) (snd t)) qs)
  | CNest c t os all_ok =>
      let et := std_errtext in
      let ms := map observe (fst (run_nest et c srv0 t)) in
      let agree := Nat.eqb (length ms) (length os) &&
                   forallb (fun p => obs_eqb (fst p) (fst (snd p))) (combine ms os) in
      (* "if a handler wrote a response, the client receives that status and body unaltered": every
         response of the interleaved run - status, BODY BYTES, header observables - equals the
         response to the same request served alone, and that one is what the request's own
         handler produced *)
      let solo_ok := Nat.eqb (length os) (length (nest_reqs t)) &&
                     forallb (fun p => obs_eqb (snd (snd p)) (observe (serve_req et c (fst p))))
                             (combine (nest_reqs t) os) in
      verdict (agree && solo_ok) (all_ok && forallb (fun p => obs_eqb (fst p) (snd p)) os)
  | CSkip => 0%N
  end.

(* ---------- the third pool: ResponseBuffer's copy buffers (httpserver.respBufPool) ----------
   ResponseBuffer.ReadFrom takes a []byte from respBufPool, hands it to io.CopyBuffer and puts it
   back AS IT IS: unlike the gzip.Writer and templates' bytes.Buffer the copy buffer is never
   reset, it carries the bytes of whatever was copied through it before (by a request that
   panicked half way too).  What keeps them out of later responses is io.CopyBuffer's discipline:
   src.Read(buf) stores nr <= len(buf) bytes at the START of buf and dst.Write receives buf[0:nr]
   only.  [reads] = the chunks the successive Read calls of the source return. *)
Definition cb_read (buf chunk : bytes) : bytes := chunk ++ skipn (length chunk) buf.
Fixpoint copy_buffer (buf : bytes) (reads : list bytes) : bytes * bytes :=   (* (written to dst, buf afterwards) *)
  match reads with
  | [] => ([], buf)
  | ch :: r => let buf1 := cb_read buf ch in
               let o := copy_buffer buf1 r in
               (firstn (length ch) buf1 ++ fst o, snd o)
  end.
(* the variant that hands the writer the whole buffer (buf instead of buf[:nr]): what the
   discipline excludes; kept to show that the buffers ARE dirty (C12_copy_buffer_whole_refuted) *)
Fixpoint copy_buffer_whole (buf : bytes) (reads : list bytes) : bytes * bytes :=
  match reads with
  | [] => ([], buf)
  | ch :: r => let buf1 := cb_read buf ch in
               let o := copy_buffer_whole buf1 r in
               (buf1 ++ fst o, snd o)
  end.

(* a script whose copies say how their source is read *)
Inductive cop := CO (o : op) | CCopy (reads : list bytes).
Definition cop_plain (k : cop) : op := match k with CO o => o | CCopy reads => ORf (concat reads) end.
Definition cop_fits (L : nat) (k : cop) : bool :=
  match k with CO _ => true | CCopy reads => forallb (fun ch => Nat.leb (length ch) L) reads end.
(* every copy: Get (any pooled buffer, or a new one [fresh]), io.CopyBuffer, Put *)
Definition cp_get (fresh : bytes) (p : list bytes) : bytes * list bytes :=
  match p with b :: r => (b, r) | [] => (fresh, []) end.
Fixpoint cops_through (fresh : bytes) (cp : list bytes) (ks : list cop) : list op * list bytes :=
  match ks with
  | [] => ([], cp)
  | CO o :: r => let t := cops_through fresh cp r in (o :: fst t, snd t)
  | CCopy reads :: r =>
      let g := cp_get fresh cp in
      let w := copy_buffer (fst g) reads in
      let t := cops_through fresh (snd w :: snd g) r in
      (ORf (fst w) :: fst t, snd t)
  end.

Record creq := { k_path : bytes; k_ae : bool; k_blen : N; k_rd : option nat; k_ops : list cop; k_ret : Z; k_err : bool }.
Definition creq_plain (q : creq) : req :=
  {| q_path := k_path q; q_ae := k_ae q; q_blen := k_blen q; q_rd := k_rd q;
     q_ops := map cop_plain (k_ops q); q_ret := k_ret q; q_err := k_err q |}.
Definition creq_fits (L : nat) (q : creq) : bool := forallb (cop_fits L) (k_ops q).
(* the server with its three pools *)
Record srv3 := { s_two : srv; cp_pool : list bytes }.
Definition serve_srv3 (errtext : Z -> bytes) (c : cfg) (fresh : bytes) (sv : srv3) (q : creq) : st * srv3 :=
  let t := cops_through fresh (cp_pool sv) (k_ops q) in
  let o := serve_srv errtext c (s_two sv)
             {| q_path := k_path q; q_ae := k_ae q; q_blen := k_blen q; q_rd := k_rd q;
                q_ops := fst t; q_ret := k_ret q; q_err := k_err q |} in
  (fst o, {| s_two := snd o; cp_pool := snd t |}).
Fixpoint run_hist3 (errtext : Z -> bytes) (c : cfg) (fresh : bytes) (sv : srv3) (qs : list creq) : list st :=
  match qs with
  | [] => []
  | q :: r => let o := serve_srv3 errtext c fresh sv q in fst o :: run_hist3 errtext c fresh (snd o) r
  end.
Fixpoint srv3_after (errtext : Z -> bytes) (c : cfg) (fresh : bytes) (sv : srv3) (qs : list creq) : srv3 :=
  match qs with
  | [] => sv
  | q :: r => srv3_after errtext c fresh (snd (serve_srv3 errtext c fresh sv q)) r
  end.
Definition pool_len_ok (L : nat) (p : list bytes) : bool := forallb (fun b => Nat.eqb (length b) L) p.

(* ---------- log's ResponseRecorder next to net/http's response ----------
   The recorder sits directly on the connection's writer and passes every call on; what the access
   log prints as {status} is its own field: set by the first WriteHeader (1xx other than 101
   ignored) unless a Write came before; Flush is passed on without being noted. *)
Inductive ccall := KWh (s : Z) | KWr (g : seg) | KFl.
Record recd := { r_wrote : bool; r_status : Z }.
Definition recd0 : recd := {| r_wrote := false; r_status := 200 |}.
Definition rec_step (r : recd) (k : ccall) : recd :=
  match k with
  | KWh s => if negb (r_wrote r) && ((s <? 100) || (199 <? s) || (s =? 101))
             then {| r_wrote := true; r_status := s |} else r
  | KWr _ => {| r_wrote := true; r_status := r_status r |}
  | KFl => r
  end.
Definition conn_step (x : st) (k : ccall) : st :=
  out_st (match k with KWh s => c_wh s x | KWr g => c_wr g x | KFl => c_fl x end).
Definition ccall_ok (k : ccall) : bool := match k with KWh s => (200 <=? s) && (s <=? 999) | _ => true end.
Definition client_status (x : st) : Z := match cm x with Some s => s | None => 200 end.
