(* C05 — the policy as a choice oracle: every run of the retry loop with a sound and complete
   policy is the run of [osel] fed the hosts that run chose; [osel] is sound and complete for EVERY
   oracle, so the theorems of the retry loop hold whatever the policy chooses. *)
Require Import V.Lib V.C05_Model V.C05_Proofs V.C05_RetryProofs.
From Coq Require Import Lia ZifyBool ZifyN ZifyNat.
Import ListNotations.
Open Scope N_scope.

Lemma nth_true_exists (av : list bool) i : nth i av false = true -> existsb (fun b => b) av = true.
Proof.
  intros H. apply existsb_exists. exists true. split; [|reflexivity].
  destruct (Nat.lt_ge_cases i (length av)) as [Hl|Hl].
  - rewrite <- H. apply nth_In. exact Hl.
  - rewrite nth_overflow in H by exact Hl. discriminate.
Qed.

Lemma osel_hit av i r : nth i av false = true -> osel (i :: r) av = (Some i, r).
Proof. intros H. unfold osel. rewrite (nth_true_exists _ _ H), H. reflexivity. Qed.
Lemma osel_none av st : existsb (fun b => b) av = false -> osel st av = (None, st).
Proof. intros H. unfold osel. rewrite H. reflexivity. Qed.

Theorem osel_sound : sel_sound (list nat) osel.
Proof.
  intros st av i st' H. unfold osel in H. destruct (existsb _ av); [|discriminate].
  destruct st as [|o r].
  - injection H as H _. apply first_sound. exact H.
  - destruct (nth o av false) eqn:E.
    + injection H as <- _. exact E.
    + injection H as H _. apply first_sound. exact H.
Qed.

Theorem osel_complete st av : existsb (fun b => b) av = true -> fst (osel st av) <> None.
Proof.
  intros H. unfold osel. rewrite H. destruct st as [|o r]; cbn [fst].
  - apply first_complete. exact H.
  - destruct (nth o av false); cbn [fst]; [discriminate|apply first_complete; exact H].
Qed.

Lemma t_avail_len c unh envdown it now fx : length (t_avail c unh envdown it now fx) = t_n c.
Proof. unfold t_avail. rewrite map_length, seq_length. reflexivity. Qed.

Section Refine.
Variable S : Type.
Variable sel : S -> list bool -> option nat * S.
Variable c : tcfg.
Variable unh : nat -> bool.
Variable scr : nat -> script.
Variable envdown : nat -> nat -> bool.
Hypothesis Hsound : sel_sound S sel.
Hypothesis Hcomplete : forall st av, length av = t_n c ->
  existsb (fun b => b) av = true -> fst (sel st av) <> None.

Theorem run_is_oracle_run : forall fuel now fx cnt st fresh it out tr,
  runT S sel c unh scr envdown fuel now fx cnt st fresh it = (out, tr) ->
  runT (list nat) osel c unh scr envdown fuel now fx cnt (ev_choices tr) fresh it = (out, tr).
Proof.
  induction fuel as [|f IH]; intros now fx cnt st fresh it out tr H.
  - cbn in H. injection H as <- <-. reflexivity.
  - cbn [runT] in H |- *.
    destruct (sel st (t_avail c unh envdown it now fx)) as [[i|] st'] eqn:Es.
    + pose proof (Hsound _ _ _ _ Es) as Hav.
      destruct (is_refuse (ak (script_at (scr i) (cnt i)))) eqn:Er.
      * destruct (keep c now) as [t'|] eqn:Ek.
        -- destruct (runT S sel c unh scr envdown f t' fx _ st' fresh (Datatypes.S it)) as [o tr'] eqn:Erec.
           injection H as <- <-. cbn [ev_choices flat_map app].
           rewrite (osel_hit _ _ _ Hav); cbv beta iota; rewrite ?Er, ?Ek; cbv beta iota.
           change (flat_map _ tr') with (ev_choices tr').
           rewrite (IH _ _ _ _ _ _ _ _ Erec). reflexivity.
        -- injection H as <- <-. cbn [ev_choices flat_map app].
           rewrite (osel_hit _ _ _ Hav); cbv beta iota; rewrite ?Er, ?Ek; cbv beta iota. reflexivity.
      * destruct (att_ok _ _) eqn:Eok.
        -- injection H as <- <-. cbn [ev_choices flat_map app].
           rewrite (osel_hit _ _ _ Hav); cbv beta iota; rewrite ?Er; cbv beta iota; rewrite ?Eok; cbv beta iota. reflexivity.
        -- destruct (keep c _) as [t'|] eqn:Ek.
           ++ destruct (runT S sel c unh scr envdown f t' _ _ st' false (Datatypes.S it)) as [o tr'] eqn:Erec.
              injection H as <- <-. cbn [ev_choices flat_map app].
              rewrite (osel_hit _ _ _ Hav); cbv beta iota; rewrite ?Er; cbv beta iota; rewrite ?Eok; cbv beta iota; rewrite ?Ek; cbv beta iota.
              change (flat_map _ tr') with (ev_choices tr').
              rewrite (IH _ _ _ _ _ _ _ _ Erec). reflexivity.
           ++ injection H as <- <-. cbn [ev_choices flat_map app].
              rewrite (osel_hit _ _ _ Hav); cbv beta iota; rewrite ?Er; cbv beta iota; rewrite ?Eok; cbv beta iota; rewrite ?Ek; cbv beta iota. reflexivity.
    + assert (Hnone : existsb (fun b => b) (t_avail c unh envdown it now fx) = false).
      { destruct (existsb _ _) eqn:E; [|reflexivity]. exfalso.
        apply (Hcomplete st _ (t_avail_len _ _ _ _ _ _) E). rewrite Es. reflexivity. }
      destruct (keep c now) as [t'|] eqn:Ek.
      * destruct (runT S sel c unh scr envdown f t' fx cnt st' fresh (Datatypes.S it)) as [o tr'] eqn:Erec.
        injection H as <- <-. cbn [ev_choices flat_map app].
        rewrite (osel_none _ _ Hnone); cbv beta iota; rewrite ?Ek; cbv beta iota.
        change (flat_map _ tr') with (ev_choices tr').
        rewrite (IH _ _ _ _ _ _ _ _ Erec). reflexivity.
      * injection H as <- <-. cbn [ev_choices flat_map app].
        rewrite (osel_none _ _ Hnone); cbv beta iota; rewrite ?Ek; cbv beta iota. reflexivity.
Qed.
End Refine.

(* top-level forms *)
Theorem run_is_oracle_run_top :
  forall (S : Type) (sel : S -> list bool -> option nat * S) c unh scr envdown,
  sel_sound S sel ->
  (forall st av, length av = t_n c -> existsb (fun b => b) av = true -> fst (sel st av) <> None) ->
  forall fuel now fx cnt st fresh it,
  runT (list nat) osel c unh scr envdown fuel now fx cnt
       (ev_choices (snd (runT S sel c unh scr envdown fuel now fx cnt st fresh it))) fresh it
  = runT S sel c unh scr envdown fuel now fx cnt st fresh it.
Proof.
  intros S sel c unh scr envdown Hs Hc fuel now fx cnt st fresh it.
  destruct (runT S sel c unh scr envdown fuel now fx cnt st fresh it) as [o tr] eqn:E.
  cbn [snd]. eapply run_is_oracle_run; eauto.
Qed.

(* every policy of policy.go behind staticUpstream.Select is such a selector *)
Theorem policy_run_is_oracle_run : forall p c unh scr envdown,
  N.of_nat (t_n c) < U32 ->
  forall fuel now fx cnt st fresh it,
  runT (list nat) osel c unh scr envdown fuel now fx cnt
       (ev_choices (snd (runT (N * list N) (rsel p) c unh scr envdown fuel now fx cnt st fresh it))) fresh it
  = runT (N * list N) (rsel p) c unh scr envdown fuel now fx cnt st fresh it.
Proof.
  intros p c unh scr envdown Hn. apply run_is_oracle_run_top.
  - apply rsel_sound.
  - intros st av Hl He. apply (rsel_complete p (t_n c) 0 st av Hl); [|exact He].
    destruct p; cbn [rinv]; (exact I || exact Hn).
Qed.

(* whatever the oracle says, a healthy host is reached *)
Theorem oracle_reaches_healthy : forall c unh scr envdown g dmax,
  reach_hyp c unh scr g dmax = true ->
  (forall it, envdown it g = false) ->
  forall fx0 (choices : list nat) fuel,
  live 0 (fx0 g) < t_mf c ->
  (N.to_nat (waste c unh scr g) < fuel)%nat ->
  exists j t tr, runT (list nat) osel c unh scr envdown fuel 0 fx0 (fun _ => 0%nat) choices true 0
                 = (TAnswered j t, tr) /\ answered_ok (t_n c) unh tr (TAnswered j t) = true.
Proof.
  intros c unh scr envdown g dmax Hyp Henv fx0 choices fuel Hl Hfuel.
  apply runT_reaches_healthy with (sinv := fun _ _ => True) (g := g) (dmax := dmax); auto.
  - apply osel_sound.
  - intros k st av _ _. apply osel_complete.
Qed.

(* ... and every clause of the property holds of the run *)
Theorem oracle_run_clauses : forall c unh scr envdown (choices : list nat) fuel now fx cnt it,
  let r := runT (list nat) osel c unh scr envdown fuel now fx cnt choices true it in
  skip_ok (t_mf c) (t_ft c) (fun _ => []) (snd r) = true /\
  bodies_ok (snd r) = true /\
  (fst r <> THang -> answered_ok (t_n c) unh (snd r) (fst r) = true) /\
  (forall t, fst r = T502 t -> t_td c <= t).
Proof.
  intros c unh scr envdown choices fuel now fx cnt it r. subst r. repeat split.
  - apply skip_top. apply osel_sound.
  - apply body_complete_top.
  - apply runT_answered_ok. apply osel_sound.
  - intros t. apply runT_502_only_spent.
Qed.

(* a run in which the oracle's order differs from every policy's probing order, and an
   unavailable choice (host 1 again, while its failure is unexpired) that is overridden *)
Definition exO_run := runT (list nat) osel exA_c (unh_of [false; false; false]) exA_scr no_env 4 0 fx_none cnt0 [1; 1; 2]%nat true 0.
Lemma exO_run_eq : reach_hyp exA_c (unh_of [false; false; false]) exA_scr 2 2 = true /\
  exO_run = (TAnswered 2 11, [EAttempt 0 1 KFailAfter RxFull false 2; EAttempt 6 0 KFailBefore RxNotRead false 6;
                              EAttempt 10 2 KOk RxFull true 11]).
Proof. split; vm_compute; reflexivity. Qed.
