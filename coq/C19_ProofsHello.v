(* C19 — proofs, part 2: the FUNCTIONAL theorem of the ClientHello parser.
   parse_raw_client_hello (encode_hello h) = Ok (info_of h) for EVERY well-formed structured
   hello (induction over the extension list), byte-ness of the encoding, and what trailing
   bytes / truncation do to the result.  Stdlib + Lia only. *)
Require Import V.Lib V.C19_Model V.C19_Proofs.
From Coq Require Import ZifyBool ZifyN ZifyNat.
Open Scope N_scope.

(* ------------------------------------------------------------------------------------------ *)
(* small facts about the encoders                                                              *)
(* ------------------------------------------------------------------------------------------ *)
Lemma idx_app_len {A} (p q : list A) x : idx (p ++ x :: q) (length p) = Ok x.
Proof.
  unfold idx. rewrite nth_error_app2 by lia. now rewrite Nat.sub_diag.
Qed.

Lemma idx_app_len' {A} (p q : list A) x n : n = length p -> idx (p ++ x :: q) n = Ok x.
Proof. intros ->. apply idx_app_len. Qed.

Lemma skipn_app_len {A} (p q : list A) : skipn (length p) (p ++ q) = q.
Proof. rewrite skipn_app, skipn_all, Nat.sub_diag. reflexivity. Qed.

Lemma slice_from_app_len {A} (p q : list A) n : n = length p -> slice_from (p ++ q) n = Ok q.
Proof.
  intros ->. rewrite slice_from_ok by (rewrite app_length; lia). now rewrite skipn_app_len.
Qed.

Lemma slice_from_cons1 {A} (a : A) tl : slice_from (a :: tl) 1 = Ok tl.
Proof. reflexivity. Qed.
Lemma slice_from_cons2 {A} (a b : A) tl : slice_from (a :: b :: tl) 2 = Ok tl.
Proof. reflexivity. Qed.
Lemma slice_from_cons4 {A} (a b c d : A) tl : slice_from (a :: b :: c :: d :: tl) 4 = Ok tl.
Proof. reflexivity. Qed.

(* decide a length test that is false *)
Ltac if_false :=
  match goal with
  | |- context [if ?c then _ else _] =>
      replace c with false
        by (symmetry; first [apply Nat.ltb_ge | apply Nat.eqb_neq];
            cbn [length]; rewrite ?app_length; cbn [length]; lia)
  end.

Lemma nlen_nat (l : bytes) : N.to_nat (nlen l) = length l.
Proof. unfold nlen. apply Nat2N.id. Qed.

Lemma enc_u16s_length l : length (enc_u16s l) = (2 * length l)%nat.
Proof. induction l as [|x l IH]; simpl; [reflexivity|]. rewrite IH. lia. Qed.

Lemma two_n_nat k : N.to_nat (2 * N.of_nat k) = (2 * k)%nat.
Proof. lia. Qed.

Lemma odd_double k : Nat.odd (2 * k) = false.
Proof.
  rewrite <- Nat.negb_even. replace (2 * k)%nat with (0 + 2 * k)%nat by lia.
  rewrite Nat.even_add_mul_2. reflexivity.
Qed.

Lemma div2_double' k : Nat.div2 (2 * k) = k.
Proof. apply Nat.div2_double. Qed.

(* the curve / cipher-suite loops read back exactly the list that was encoded *)
Lemma curves_loop_enc l : forall rest, curves_loop (length l) (enc_u16s l ++ rest) = Ok l.
Proof.
  induction l as [|c l IH]; intro rest; [reflexivity|].
  cbn [length curves_loop enc_u16s flat_map be16 app idx nth_error rbind].
  change (slice_from (c / 256 :: c mod 256 :: flat_map be16 l ++ rest) 2)
    with (Ok (enc_u16s l ++ rest)).
  cbn [rbind]. rewrite IH. cbn [rbind]. now rewrite u16_be16.
Qed.

Lemma cipher_at_enc (l : list N) (hd tl : bytes) (x y : N) : forall i,
  (i < length l)%nat ->
  cipher_at (x :: y :: enc_u16s l ++ tl) i = Ok (nth i l 0).
Proof.
  revert x y. induction l as [|c l IH]; intros x y i Hi; [simpl in Hi; lia|].
  destruct i as [|i].
  - unfold cipher_at. cbn. now rewrite u16_be16.
  - unfold cipher_at in *. cbn [enc_u16s flat_map be16 app].
    replace (2 + 2 * S i)%nat with (S (S (2 + 2 * i))) by lia.
    replace (3 + 2 * S i)%nat with (S (S (3 + 2 * i))) by lia.
    cbn [idx nth_error]. specialize (IH (c / 256) (c mod 256) i).
    unfold idx in IH. cbn [nth_error] in IH.
    replace (2 + 2 * i)%nat with (S (S (2 * i))) in * by lia.
    replace (3 + 2 * i)%nat with (S (S (S (2 * i)))) in * by lia.
    cbn [nth_error] in *. simpl in Hi. apply IH. lia.
Qed.

Lemma mapM_nth {A} (f : nat -> res A) (l : list A) (d : A) :
  (forall i, (i < length l)%nat -> f i = Ok (nth i l d)) ->
  mapM f (seq 0 (length l)) = Ok l.
Proof.
  assert (G : forall (l : list A) k, (forall i, (i < length l)%nat -> f (k + i)%nat = Ok (nth i l d)) ->
              mapM f (seq k (length l)) = Ok l).
  { clear. induction l as [|x l IH]; intros k H; [reflexivity|].
    cbn [length seq mapM]. rewrite <- (Nat.add_0_r k) at 1. rewrite (H 0%nat) by (simpl; lia).
    cbn [rbind nth]. rewrite (IH (S k)).
    - reflexivity.
    - intros i Hi. replace (S k + i)%nat with (k + S i)%nat by lia. rewrite H by (simpl; lia). reflexivity. }
  intro H. apply G. exact H.
Qed.

(* ------------------------------------------------------------------------------------------ *)
(* one extension, then the whole extension block (induction over the extension list)           *)
(* ------------------------------------------------------------------------------------------ *)
(* what the loop body does to the info for one well-formed extension *)
Definition ext_step (inf : info) (e : ext) : info :=
  let inf1 := set_exts inf (i_exts inf ++ [ext_type e]) in
  match e with
  | ECurves l => set_curves inf1 l
  | EPoints l => set_points inf1 l
  | EOther _ _ => inf1
  end.

Lemma ext_body_len_curves l : length (ext_body (ECurves l)) = (2 * length l + 2)%nat.
Proof. cbn [ext_body be16 app length]. rewrite enc_u16s_length. lia. Qed.

Lemma ext_switch_enc e rest inf : ext_wf e = true ->
  ext_switch (ext_type e) (length (ext_body e)) (ext_body e ++ rest)
             (set_exts inf (i_exts inf ++ [ext_type e])) = Ok (SwCont (ext_step inf e)).
Proof.
  intro Hwf. set (inf1 := set_exts inf (i_exts inf ++ [ext_type e])).
  destruct e as [l|l|t b]; unfold ext_switch.
  - (* supported_groups *)
    cbn [ext_type]. change (10 =? 10) with true. cbv iota.
    rewrite ext_body_len_curves.
    replace (2 * length l + 2 <? 2)%nat with false by (symmetry; apply Nat.ltb_ge; lia).
    cbn [ext_body be16 app idx nth_error rbind]. rewrite u16_be16, two_n_nat, odd_double.
    rewrite Nat.eqb_refl. cbn [negb orb].
    change (slice_from (2 * N.of_nat (length l) / 256 :: (2 * N.of_nat (length l)) mod 256 :: enc_u16s l ++ rest) 2)
      with (Ok (enc_u16s l ++ rest)).
    cbn [rbind]. rewrite div2_double', curves_loop_enc. reflexivity.
  - (* ec_point_formats *)
    cbn [ext_type]. change (11 =? 10) with false. change (11 =? 11) with true. cbv iota.
    cbn [ext_body length]. change (S (length l) <? 1)%nat with false. cbv iota.
    cbn [app idx nth_error rbind]. rewrite nlen_nat.
    replace (S (length l) =? length l + 1)%nat with true by (symmetry; apply Nat.eqb_eq; lia).
    cbn [negb]. change (slice_from (nlen l :: l ++ rest) 1) with (Ok (l ++ rest)). cbn [rbind].
    unfold copy_into. rewrite firstn_prefix, app_length.
    replace (length l - (length l + length rest))%nat with 0%nat by lia.
    cbn [repeat]. now rewrite app_nil_r.
  - (* any other extension: the body is skipped *)
    cbn [ext_type]. cbn [ext_wf] in Hwf.
    apply andb_true_iff in Hwf as [Hwf _]. apply andb_true_iff in Hwf as [Hwf _].
    apply andb_true_iff in Hwf as [Hwf H11]. apply andb_true_iff in Hwf as [_ H10].
    apply negb_true_iff in H10, H11. rewrite H10, H11. reflexivity.
Qed.

Lemma enc_ext_length e : length (enc_ext e) = (4 + length (ext_body e))%nat.
Proof. unfold enc_ext, be16. rewrite !app_length. simpl. lia. Qed.

Lemma ext_loop_enc : forall es fuel inf,
  forallb ext_wf es = true -> (length (enc_exts es) < fuel)%nat ->
  ext_loop fuel (enc_exts es) inf = Ok (fold_left ext_step es inf).
Proof.
  induction es as [|e es IH]; intros fuel inf Hwf Hf.
  - destruct fuel; [simpl in Hf; lia|]. reflexivity.
  - cbn [forallb] in Hwf. apply andb_true_iff in Hwf as [He Hwf].
    destruct fuel as [|fuel]; [lia|].
    unfold enc_exts in *. cbn [flat_map] in *. fold (enc_exts es) in *.
    rewrite app_length, enc_ext_length in Hf.
    unfold enc_ext, be16. cbn [app ext_loop].
    if_false. if_false.
    cbn [idx nth_error rbind]. rewrite !u16_be16, nlen_nat, slice_from_cons4.
    cbn [rbind]. if_false.
    rewrite (ext_switch_enc e _ inf He). cbn [rbind].
    rewrite slice_from_app_len by reflexivity. cbn [rbind fold_left].
    apply IH; [exact Hwf|]. fold (enc_exts es). lia.
Qed.

(* the fields of the info after the whole block *)
Lemma fold_ext_step_fields : forall es inf,
  let r := fold_left ext_step es inf in
  i_version r = i_version inf /\ i_ciphers r = i_ciphers inf /\ i_comp r = i_comp inf /\
  i_exts r = i_exts inf ++ map ext_type es /\
  i_curves r = last_curves es (i_curves inf) /\ i_points r = last_points es (i_points inf).
Proof.
  induction es as [|e es IH]; intro inf; cbn [fold_left map last_curves last_points].
  - rewrite app_nil_r. repeat split.
  - destruct (IH (ext_step inf e)) as (A & B & C & D & E & F).
    rewrite A, B, C, D, E, F.
    destruct e as [l|l|t b]; cbn; rewrite <- app_assoc; repeat split.
Qed.

Lemma info_ext v cs es cm cu pt (r : info) :
  i_version r = v -> i_ciphers r = cs -> i_exts r = es -> i_comp r = cm -> i_curves r = cu ->
  i_points r = pt -> r = mkInfo v cs es cm cu pt.
Proof. destruct r. cbn. now intros -> -> -> -> -> ->. Qed.

(* ------------------------------------------------------------------------------------------ *)
(* the whole message: parse (prefix ++ extension block)                                        *)
(* ------------------------------------------------------------------------------------------ *)
(* the part of the handshake message in front of the extensions length, for a hello with
   version [v], random [rnd], session id [sid], suites [cs], compression methods [cm];
   the 24-bit handshake length [l3] is not looked at by parseRawClientHello *)
Definition hello_front (l3 : bytes) (v : N) (rnd sid : bytes) (cs : list N) (cm : bytes) : bytes :=
  1 :: l3 ++ be16 v ++ rnd ++ nlen sid :: sid ++
  be16 (2 * N.of_nat (length cs)) ++ enc_u16s cs ++ nlen cm :: cm.

(* the parser on front ++ tail: what is decided by [tail] only *)
Definition parse_tail (inf3 : info) (tail : bytes) : res info :=
  if (length tail <? 2)%nat then Ok inf3 else
  do x0 <- idx tail 0; do x1 <- idx tail 1;
  let extlen := N.to_nat (u16 x0 x1) in
  do data4 <- slice_from tail 2;
  if negb (extlen =? length data4)%nat then Ok inf3 else
  ext_loop (S (length data4)) data4 inf3.

Lemma parse_front l3 v rnd sid cs cm tail :
  length l3 = 3%nat -> length rnd = 32%nat -> (length sid <= 32)%nat ->
  parse_raw_client_hello (hello_front l3 v rnd sid cs cm ++ tail) =
  parse_tail (mkInfo v cs [] cm [] []) tail.
Proof.
  intros H3 Hr Hs.
  destruct l3 as [|a0 [|a1 [|a2 [|? ?]]]]; try discriminate. clear H3.
  unfold hello_front, be16. cbn [app].
  set (body1 := (2 * N.of_nat (length cs) / 256 :: (2 * N.of_nat (length cs)) mod 256 :: enc_u16s cs ++ nlen cm :: cm)).
  set (data := 1 :: a0 :: a1 :: a2 :: v / 256 :: v mod 256 :: (rnd ++ nlen sid :: sid ++ body1) ++ tail).
  assert (Hdata : data = (1 :: a0 :: a1 :: a2 :: v / 256 :: v mod 256 :: rnd) ++ nlen sid :: sid ++ body1 ++ tail).
  { unfold data. cbn [app]. rewrite <- !app_assoc. cbn [app]. rewrite <- app_assoc. reflexivity. }
  assert (Hlen : length data = (39 + length sid + length body1 + length tail)%nat).
  { rewrite Hdata. cbn [app length]. rewrite !app_length. cbn [length]. rewrite !app_length. lia. }
  assert (Hb1 : length body1 = (2 + 2 * length cs + 1 + length cm)%nat).
  { unfold body1. cbn [length]. rewrite app_length, enc_u16s_length. cbn [length]. lia. }
  unfold parse_raw_client_hello.
  replace (length data <? 42)%nat with false by (symmetry; apply Nat.ltb_ge; lia).
  change (idx data 4) with (Ok (v / 256)). change (idx data 5) with (Ok (v mod 256)).
  cbn [rbind]. rewrite u16_be16.
  rewrite Hdata at 1. rewrite idx_app_len' by (cbn [length]; lia). cbn [rbind]. rewrite nlen_nat.
  replace (32 <? length sid)%nat with false by (symmetry; apply Nat.ltb_ge; lia).
  replace (length data <? 39 + length sid)%nat with false by (symmetry; apply Nat.ltb_ge; lia).
  cbn [orb].
  assert (Hd1 : slice_from data (39 + length sid) = Ok (body1 ++ tail)).
  { rewrite Hdata.
    replace ((1 :: a0 :: a1 :: a2 :: v / 256 :: v mod 256 :: rnd) ++ nlen sid :: sid ++ body1 ++ tail)
      with (((1 :: a0 :: a1 :: a2 :: v / 256 :: v mod 256 :: rnd) ++ nlen sid :: sid) ++ body1 ++ tail)
      by (rewrite <- app_assoc; reflexivity).
    apply slice_from_app_len. rewrite app_length. cbn [length]. lia. }
  rewrite Hd1. cbn [rbind]. clear Hd1 Hdata Hlen data.
  set (data1 := body1 ++ tail).
  assert (Hl1 : length data1 = (length body1 + length tail)%nat) by apply app_length.
  replace (length data1 <? 2)%nat with false by (symmetry; apply Nat.ltb_ge; lia).
  unfold data1 at 1 2. unfold body1 at 1 2. cbn [app idx nth_error rbind].
  rewrite u16_be16, two_n_nat, odd_double, div2_double'.
  replace (length data1 <? 2 + 2 * length cs)%nat with false by (symmetry; apply Nat.ltb_ge; lia).
  cbn [orb].
  assert (Hcs : mapM (cipher_at data1) (seq 0 (length cs)) = Ok cs).
  { apply (mapM_nth _ cs 0). intros i Hi. unfold data1, body1. cbn [app]. rewrite <- app_assoc.
    apply cipher_at_enc; [exact []|exact Hi]. }
  rewrite Hcs. cbn [rbind]. clear Hcs.
  assert (Hd2 : slice_from data1 (2 + 2 * length cs) = Ok ((nlen cm :: cm) ++ tail)).
  { unfold data1, body1.
    replace ((2 * N.of_nat (length cs) / 256 :: (2 * N.of_nat (length cs)) mod 256 :: enc_u16s cs ++ nlen cm :: cm) ++ tail)
      with ((2 * N.of_nat (length cs) / 256 :: (2 * N.of_nat (length cs)) mod 256 :: enc_u16s cs) ++ (nlen cm :: cm) ++ tail)
      by (cbn [app]; rewrite <- app_assoc; reflexivity).
    apply slice_from_app_len. cbn [length]. rewrite enc_u16s_length. lia. }
  rewrite Hd2. cbn [rbind]. clear Hd2 Hl1 data1 Hb1 body1.
  cbn [app length]. change (S (length (cm ++ tail)) <? 1)%nat with false. cbv iota.
  cbn [idx nth_error rbind]. rewrite nlen_nat, app_length.
  replace (S (length cm + length tail) <? 1 + length cm)%nat with false by (symmetry; apply Nat.ltb_ge; lia).
  rewrite slice_ok by (cbn [length]; rewrite ?app_length; lia).
  cbn [rbind skipn]. replace (1 + length cm - 1)%nat with (length cm) by lia. rewrite firstn_prefix.
  change (slice_from (nlen cm :: cm ++ tail) (1 + length cm)) with (slice_from ((nlen cm :: cm) ++ tail) (1 + length cm)).
  rewrite slice_from_app_len by reflexivity. cbn [rbind].
  unfold parse_tail, set_version, set_ciphers, set_comp, info0. cbn [i_version i_ciphers i_exts i_comp i_curves i_points].
  reflexivity.
Qed.

Lemma hello_body_front h :
  encode_hello h =
  hello_front (be24 (nlen (hello_body h))) (h_version h) (h_random h) (h_sid h) (h_ciphers h) (h_comp h)
  ++ be16 (nlen (enc_exts (h_exts h))) ++ enc_exts (h_exts h).
Proof.
  unfold encode_hello, hello_front, hello_body. cbn [app]. f_equal.
  repeat (rewrite <- app_assoc; cbn [app]). reflexivity.
Qed.

Lemma hello_wf_parts h : hello_wf h = true ->
  length (h_random h) = 32%nat /\ (length (h_sid h) <= 32)%nat /\ forallb ext_wf (h_exts h) = true.
Proof.
  unfold hello_wf. intro H.
  repeat match type of H with (_ && _) = true => apply andb_true_iff in H as [H ?] end.
  repeat split; [now apply Nat.eqb_eq|now apply Nat.leb_le|assumption].
Qed.

(* THE functional theorem: what the parser extracts from the encoding of a structured hello is
   exactly the hello's fields *)
Lemma parse_encode_roundtrip h : hello_wf h = true ->
  parse_raw_client_hello (encode_hello h) = Ok (info_of h).
Proof.
  intro Hwf. destruct (hello_wf_parts h Hwf) as (Hr & Hs & He).
  rewrite hello_body_front, parse_front by (auto; reflexivity).
  unfold parse_tail, be16. cbn [app length].
  change (S (S (length (enc_exts (h_exts h)))) <? 2)%nat with false. cbv iota.
  cbn [idx nth_error rbind]. rewrite u16_be16, nlen_nat.
  change (slice_from (nlen (enc_exts (h_exts h)) / 256 :: nlen (enc_exts (h_exts h)) mod 256 :: enc_exts (h_exts h)) 2)
    with (Ok (enc_exts (h_exts h))).
  cbn [rbind]. rewrite Nat.eqb_refl. cbn [negb].
  rewrite ext_loop_enc by (auto; lia). f_equal.
  destruct (fold_ext_step_fields (h_exts h)
              (mkInfo (h_version h) (h_ciphers h) [] (h_comp h) [] [])) as (A & B & C & D & E & F).
  cbn [i_version i_ciphers i_exts i_comp i_curves i_points app] in *.
  unfold info_of. apply info_ext; assumption.
Qed.

(* ------------------------------------------------------------------------------------------ *)
(* bytes AFTER the hello inside the same handshake buffer: the extension block is dropped      *)
(* ------------------------------------------------------------------------------------------ *)

(* parseRawClientHello insists that the extensions length equals what is left of its input
   ("the data is expected to contain ONLY the ClientHello"): with any non-empty garbage behind
   the message, version, suites and compression methods are still the hello's, the extension
   list, curves and points are EMPTY *)
Lemma parse_trailing_garbage h g : hello_wf h = true -> g <> [] ->
  parse_raw_client_hello (encode_hello h ++ g) = Ok (info_of (without_exts h)).
Proof.
  intros Hwf Hg. destruct (hello_wf_parts h Hwf) as (Hr & Hs & He).
  rewrite hello_body_front, <- app_assoc, parse_front by (auto; reflexivity).
  unfold parse_tail, be16. cbn [app length].
  change (S (S (length (enc_exts (h_exts h) ++ g))) <? 2)%nat with false. cbv iota.
  cbn [idx nth_error rbind]. rewrite u16_be16, nlen_nat.
  change (slice_from (nlen (enc_exts (h_exts h)) / 256 :: nlen (enc_exts (h_exts h)) mod 256 :: enc_exts (h_exts h) ++ g) 2)
    with (Ok (enc_exts (h_exts h) ++ g)).
  cbn [rbind]. rewrite app_length.
  replace (length (enc_exts (h_exts h)) =? length (enc_exts (h_exts h)) + length g)%nat with false.
  - reflexivity.
  - symmetry. apply Nat.eqb_neq. destruct g; [congruence|simpl; lia].
Qed.

(* hence trailing bytes are ignored exactly for hellos without extensions *)
Lemma parse_trailing_garbage_noexts h g : hello_wf h = true -> h_exts h = [] ->
  parse_raw_client_hello (encode_hello h ++ g) = Ok (info_of h).
Proof.
  intros Hwf He. destruct g as [|x g].
  - rewrite app_nil_r. now apply parse_encode_roundtrip.
  - rewrite parse_trailing_garbage by (auto; discriminate).
    unfold info_of, without_exts. cbn. now rewrite He.
Qed.

(* ------------------------------------------------------------------------------------------ *)
(* the encoding of a well-formed hello is a byte string                                        *)
(* ------------------------------------------------------------------------------------------ *)
Definition all_bytes (l : bytes) : bool := forallb byte_ok l.

Lemma all_bytes_app a b : all_bytes (a ++ b) = all_bytes a && all_bytes b.
Proof. apply forallb_app. Qed.

Lemma be16_bytes n : u16_ok n = true -> all_bytes (be16 n) = true.
Proof.
  unfold u16_ok, all_bytes, be16, byte_ok. intro H. cbn [forallb].
  apply N.ltb_lt in H.
  assert (n / 256 < 256) by (apply N.div_lt_upper_bound; lia).
  assert (n mod 256 < 256) by (apply N.mod_lt; lia).
  rewrite !andb_true_iff. repeat split; apply N.ltb_lt; assumption.
Qed.

Lemma enc_u16s_bytes l : forallb u16_ok l = true -> all_bytes (enc_u16s l) = true.
Proof.
  induction l as [|x l IH]; intro H; [reflexivity|].
  cbn [forallb] in H. apply andb_true_iff in H as [Hx H].
  cbn [enc_u16s flat_map]. rewrite all_bytes_app, (be16_bytes x Hx). now apply IH.
Qed.

Lemma enc_ext_bytes e : ext_wf e = true -> all_bytes (enc_ext e) = true.
Proof.
  intro H. unfold enc_ext. rewrite !all_bytes_app.
  destruct e as [l|l|t b]; cbn [ext_wf ext_type ext_body] in *.
  - apply andb_true_iff in H as [Hl Hn]. apply N.ltb_lt in Hn.
    rewrite (be16_bytes 10) by reflexivity.
    rewrite be16_bytes by (unfold u16_ok, nlen; apply N.ltb_lt; cbn [be16 app length]; rewrite enc_u16s_length; lia).
    rewrite all_bytes_app, be16_bytes by (unfold u16_ok; apply N.ltb_lt; lia).
    now rewrite enc_u16s_bytes.
  - apply andb_true_iff in H as [Hl Hn]. apply N.ltb_lt in Hn.
    rewrite (be16_bytes 11) by reflexivity.
    rewrite be16_bytes by (unfold u16_ok, nlen in *; apply N.ltb_lt; cbn [length]; lia).
    unfold all_bytes at 1. cbn [forallb]. unfold byte_ok at 1.
    replace (nlen l <? 256) with true by (symmetry; apply N.ltb_lt; exact Hn).
    exact Hl.
  - apply andb_true_iff in H as [H Hn]. apply andb_true_iff in H as [H Hb].
    apply andb_true_iff in H as [H _]. apply andb_true_iff in H as [Ht _].
    rewrite (be16_bytes t Ht), be16_bytes by exact Hn. exact Hb.
Qed.

Lemma enc_exts_bytes es : forallb ext_wf es = true -> all_bytes (enc_exts es) = true.
Proof.
  induction es as [|e es IH]; intro H; [reflexivity|].
  cbn [forallb] in H. apply andb_true_iff in H as [He H].
  unfold enc_exts. cbn [flat_map]. rewrite all_bytes_app, (enc_ext_bytes e He). now apply IH.
Qed.

Lemma be24_bytes n : n < 16777216 -> all_bytes (be24 n) = true.
Proof.
  intro H. unfold all_bytes, be24, byte_ok. cbn [forallb].
  assert (n / 65536 < 256) by (apply N.div_lt_upper_bound; lia).
  assert ((n / 256) mod 256 < 256) by (apply N.mod_lt; lia).
  assert (n mod 256 < 256) by (apply N.mod_lt; lia).
  rewrite !andb_true_iff. repeat split; apply N.ltb_lt; assumption.
Qed.

Lemma hello_body_length h :
  length (hello_body h) =
  (2 + length (h_random h) + 1 + length (h_sid h) + 2 + 2 * length (h_ciphers h) + 1 +
   length (h_comp h) + 2 + length (enc_exts (h_exts h)))%nat.
Proof.
  unfold hello_body, be16.
  repeat first [rewrite app_length | progress cbn [length app]].
  rewrite enc_u16s_length. lia.
Qed.

Lemma encode_hello_bytes h : hello_wf h = true -> all_bytes (encode_hello h) = true.
Proof.
  intro H. unfold hello_wf in H.
  repeat match type of H with (_ && _) = true => apply andb_true_iff in H as [H ?] end.
  repeat match goal with X : (_ <? _) = true |- _ => apply N.ltb_lt in X end.
  repeat match goal with X : (_ <=? _)%nat = true |- _ => apply Nat.leb_le in X end.
  repeat match goal with X : (_ =? _)%nat = true |- _ => apply Nat.eqb_eq in X end.
  assert (Hlen : nlen (hello_body h) < 16777216).
  { unfold nlen in *. rewrite hello_body_length. lia. }
  unfold encode_hello. change (1 :: be24 (nlen (hello_body h)) ++ hello_body h)
    with ([1] ++ be24 (nlen (hello_body h)) ++ hello_body h).
  rewrite !all_bytes_app, (be24_bytes _ Hlen). cbn [all_bytes forallb byte_ok andb].
  change (1 <? 256) with true. cbn [andb].
  unfold hello_body.
  change (nlen (h_sid h) :: h_sid h ++ ?x) with ([nlen (h_sid h)] ++ h_sid h ++ x).
  rewrite !all_bytes_app.
  change (nlen (h_comp h) :: h_comp h ++ ?x) with ([nlen (h_comp h)] ++ h_comp h ++ x).
  rewrite !all_bytes_app.
  rewrite be16_bytes by assumption.
  rewrite be16_bytes by (unfold u16_ok; apply N.ltb_lt; lia).
  rewrite enc_u16s_bytes by assumption.
  rewrite be16_bytes by (unfold u16_ok; apply N.ltb_lt; assumption).
  rewrite enc_exts_bytes by assumption.
  fold (all_bytes (h_random h)) (all_bytes (h_sid h)) (all_bytes (h_comp h)) in *.
  assert (Hs : byte_ok (nlen (h_sid h)) = true) by (apply N.ltb_lt; unfold nlen; lia).
  assert (Hc : byte_ok (nlen (h_comp h)) = true) by (apply N.ltb_lt; assumption).
  unfold all_bytes at 2 4. cbn [forallb]. rewrite ?Hs, ?Hc.
  repeat match goal with X : all_bytes _ = true |- _ => rewrite X; clear X end.
  reflexivity.
Qed.

(* ------------------------------------------------------------------------------------------ *)
(* truncation: every strict prefix of an encoding is recorded as a prefix of the fields         *)
(* ------------------------------------------------------------------------------------------ *)

Lemma front_length l3 v rnd sid cs cm : length l3 = 3%nat -> length rnd = 32%nat ->
  length (hello_front l3 v rnd sid cs cm) = (42 + length sid + 2 * length cs + length cm)%nat.
Proof.
  intros H3 Hr. unfold hello_front, be16.
  repeat first [rewrite app_length | progress cbn [length app]].
  rewrite enc_u16s_length, H3, Hr. lia.
Qed.

(* a hello cut anywhere after its compression methods (inside the extensions length or the
   extension block) is recorded without extensions *)
Lemma parse_truncated_exts h k : hello_wf h = true ->
  (42 + length (h_sid h) + 2 * length (h_ciphers h) + length (h_comp h) <= k)%nat ->
  (k < length (encode_hello h))%nat ->
  parse_raw_client_hello (firstn k (encode_hello h)) = Ok (info_of (without_exts h)).
Proof.
  intros Hwf Hk1 Hk2. destruct (hello_wf_parts h Hwf) as (Hr & Hs & He).
  rewrite hello_body_front in *.
  set (front := hello_front (be24 (nlen (hello_body h))) (h_version h) (h_random h) (h_sid h) (h_ciphers h) (h_comp h)) in *.
  assert (Hfl : length front = (42 + length (h_sid h) + 2 * length (h_ciphers h) + length (h_comp h))%nat)
    by (apply front_length; auto).
  rewrite firstn_app, firstn_all2 by lia.
  unfold front. rewrite parse_front by (auto; reflexivity). fold front.
  rewrite app_length in Hk2. unfold be16 in *. cbn [app length] in Hk2.
  set (j := (k - length front)%nat) in *.
  assert (Hj : (j < 2 + length (enc_exts (h_exts h)))%nat) by lia.
  unfold parse_tail. cbn [app].
  destruct j as [|[|j]].
  - reflexivity.
  - reflexivity.
  - cbn [firstn length]. change (S (S (length (firstn j (enc_exts (h_exts h))))) <? 2)%nat with false. cbv iota.
    cbn [idx nth_error rbind]. rewrite u16_be16, nlen_nat, slice_from_cons2. cbn [rbind].
    rewrite firstn_length.
    replace (length (enc_exts (h_exts h)) =? Nat.min j (length (enc_exts (h_exts h))))%nat with false
      by (symmetry; apply Nat.eqb_neq; lia).
    reflexivity.
Qed.

(* ---- the parser in stages ---- *)
Definition p2 (inf2 : info) (data2 : bytes) : res info :=
  if (length data2 <? 1)%nat then Ok inf2 else
  do m0 <- idx data2 0;
  let cmlen := N.to_nat m0 in
  if (length data2 <? 1 + cmlen)%nat then Ok inf2 else
  do cm <- slice data2 1 (1 + cmlen);
  let inf3 := set_comp inf2 cm in
  do data3 <- slice_from data2 (1 + cmlen);
  parse_tail inf3 data3.
Definition p1 (inf : info) (data1 : bytes) : res info :=
  if (length data1 <? 2)%nat then Ok inf else
  do c0 <- idx data1 0; do c1 <- idx data1 1;
  let cslen := N.to_nat (u16 c0 c1) in
  if Nat.odd cslen || (length data1 <? 2 + cslen)%nat then Ok inf else
  do cs <- mapM (cipher_at data1) (seq 0 (Nat.div2 cslen));
  let inf2 := set_ciphers inf cs in
  do data2 <- slice_from data1 (2 + cslen);
  p2 inf2 data2.
Lemma parse_unfold data :
  parse_raw_client_hello data =
  if (length data <? 42)%nat then Ok info0 else
  do v0 <- idx data 4; do v1 <- idx data 5;
  let inf := set_version info0 (u16 v0 v1) in
  do sl <- idx data 38;
  let sidlen := N.to_nat sl in
  if (32 <? sidlen)%nat || (length data <? 39 + sidlen)%nat then Ok inf else
  do data1 <- slice_from data (39 + sidlen); p1 inf data1.
Proof. reflexivity. Qed.

Definition vinfo (v : N) : info := mkInfo v [] [] [] [] [].

(* the fixed part up to and including the session id, possibly cut inside the session id *)
Lemma parse_head l3 v rnd sid sidpart x :
  length l3 = 3%nat -> length rnd = 32%nat -> (length sid <= 32)%nat ->
  (42 <= 39 + length sidpart + length x)%nat ->
  (sidpart = sid \/ (length sidpart < length sid /\ x = []))%nat ->
  parse_raw_client_hello ((1 :: l3 ++ be16 v ++ rnd ++ nlen sid :: sidpart) ++ x) =
  if (length sidpart <? length sid)%nat then Ok (vinfo v) else p1 (vinfo v) x.
Proof.
  intros H3 Hr Hs H42 Hcase.
  destruct l3 as [|a0 [|a1 [|a2 [|? ?]]]]; try discriminate. clear H3.
  unfold be16. cbn [app].
  set (data := 1 :: a0 :: a1 :: a2 :: v / 256 :: v mod 256 :: (rnd ++ nlen sid :: sidpart) ++ x).
  assert (Hdata : data = (1 :: a0 :: a1 :: a2 :: v / 256 :: v mod 256 :: rnd) ++ nlen sid :: sidpart ++ x).
  { unfold data. cbn [app]. rewrite <- !app_assoc. reflexivity. }
  assert (Hlen : length data = (39 + length sidpart + length x)%nat).
  { rewrite Hdata. cbn [app length]. rewrite !app_length. cbn [length]. rewrite !app_length. lia. }
  rewrite parse_unfold.
  replace (length data <? 42)%nat with false by (symmetry; apply Nat.ltb_ge; lia).
  change (idx data 4) with (Ok (v / 256)). change (idx data 5) with (Ok (v mod 256)).
  cbn [rbind]. rewrite u16_be16.
  rewrite Hdata at 1. rewrite idx_app_len' by (cbn [length]; lia). cbn [rbind]. rewrite nlen_nat.
  replace (32 <? length sid)%nat with false by (symmetry; apply Nat.ltb_ge; lia). cbn [orb].
  rewrite Hlen.
  destruct Hcase as [->|[Hlt ->]].
  - replace (39 + length sid + length x <? 39 + length sid)%nat with false by (symmetry; apply Nat.ltb_ge; lia).
    replace (length sid <? length sid)%nat with false by (symmetry; apply Nat.ltb_ge; lia).
    assert (Hd1 : slice_from data (39 + length sid) = Ok x).
    { rewrite Hdata.
      replace ((1 :: a0 :: a1 :: a2 :: v / 256 :: v mod 256 :: rnd) ++ nlen sid :: sid ++ x)
        with (((1 :: a0 :: a1 :: a2 :: v / 256 :: v mod 256 :: rnd) ++ nlen sid :: sid) ++ x)
        by (rewrite <- app_assoc; reflexivity).
      apply slice_from_app_len. rewrite app_length. cbn [length]. lia. }
    rewrite Hd1. reflexivity.
  - cbn [length]. 
    replace (39 + length sidpart + 0 <? 39 + length sid)%nat with true by (symmetry; apply Nat.ltb_lt; lia).
    replace (length sidpart <? length sid)%nat with true by (symmetry; apply Nat.ltb_lt; lia).
    reflexivity.
Qed.

Definition cipher_block (cs : list N) : bytes := be16 (2 * N.of_nat (length cs)) ++ enc_u16s cs.
Lemma cipher_block_length cs : length (cipher_block cs) = (2 + 2 * length cs)%nat.
Proof. unfold cipher_block, be16. cbn [app length]. rewrite enc_u16s_length. lia. Qed.

Lemma p1_full inf cs y : p1 inf (cipher_block cs ++ y) = p2 (set_ciphers inf cs) y.
Proof.
  unfold p1. rewrite app_length, cipher_block_length.
  replace (2 + 2 * length cs + length y <? 2)%nat with false by (symmetry; apply Nat.ltb_ge; lia).
  unfold cipher_block, be16. cbn [app idx nth_error rbind].
  rewrite u16_be16, two_n_nat, odd_double, div2_double'.
  replace (2 + 2 * length cs + length y <? 2 + 2 * length cs)%nat with false by (symmetry; apply Nat.ltb_ge; lia).
  cbn [orb].
  assert (Hcs : mapM (cipher_at (2 * N.of_nat (length cs) / 256 :: (2 * N.of_nat (length cs)) mod 256 :: enc_u16s cs ++ y))
                     (seq 0 (length cs)) = Ok cs).
  { apply (mapM_nth _ cs 0). intros i Hi. apply cipher_at_enc; [exact []|exact Hi]. }
  rewrite Hcs. cbn [rbind].
  replace (2 * N.of_nat (length cs) / 256 :: (2 * N.of_nat (length cs)) mod 256 :: enc_u16s cs ++ y)
    with ((2 * N.of_nat (length cs) / 256 :: (2 * N.of_nat (length cs)) mod 256 :: enc_u16s cs) ++ y) by reflexivity.
  rewrite slice_from_app_len by (cbn [length]; rewrite enc_u16s_length; lia).
  reflexivity.
Qed.

Lemma p1_cut inf cs y j : (j < 2 + 2 * length cs)%nat -> p1 inf (firstn j (cipher_block cs ++ y)) = Ok inf.
Proof.
  intro Hj. unfold p1.
  assert (Hl : length (firstn j (cipher_block cs ++ y)) = j).
  { rewrite firstn_length, app_length, cipher_block_length. lia. }
  rewrite Hl. destruct (j <? 2)%nat eqn:E2; [reflexivity|]. apply Nat.ltb_ge in E2.
  destruct j as [|[|j]]; try lia.
  unfold cipher_block, be16. cbn [app firstn idx nth_error rbind].
  rewrite u16_be16, two_n_nat, odd_double.
  replace (S (S j) <? 2 + 2 * length cs)%nat with true by (symmetry; apply Nat.ltb_lt; lia).
  reflexivity.
Qed.

Lemma p2_full inf cm z : p2 inf (nlen cm :: cm ++ z) = parse_tail (set_comp inf cm) z.
Proof.
  unfold p2. cbn [length]. change (S (length (cm ++ z)) <? 1)%nat with false. cbv iota.
  cbn [idx nth_error rbind]. rewrite nlen_nat, app_length.
  replace (S (length cm + length z) <? 1 + length cm)%nat with false by (symmetry; apply Nat.ltb_ge; lia).
  rewrite slice_ok by (cbn [length]; rewrite ?app_length; lia).
  cbn [rbind skipn]. replace (1 + length cm - 1)%nat with (length cm) by lia. rewrite firstn_prefix.
  change (slice_from (nlen cm :: cm ++ z) (1 + length cm)) with (slice_from ((nlen cm :: cm) ++ z) (1 + length cm)).
  rewrite slice_from_app_len by reflexivity. reflexivity.
Qed.

Lemma p2_cut inf cm z j : (j < 1 + length cm)%nat -> p2 inf (firstn j (nlen cm :: cm ++ z)) = Ok inf.
Proof.
  intro Hj. unfold p2.
  assert (Hl : length (firstn j (nlen cm :: cm ++ z)) = j).
  { rewrite firstn_length. cbn [length]. rewrite app_length. lia. }
  rewrite Hl. destruct j as [|j]; [reflexivity|].
  change (S j <? 1)%nat with false. cbv iota. cbn [firstn idx nth_error rbind]. rewrite nlen_nat.
  replace (S j <? 1 + length cm)%nat with true by (symmetry; apply Nat.ltb_lt; lia).
  reflexivity.
Qed.

Lemma tail_cut inf n exts j : n = nlen exts -> (j < 2 + length exts)%nat ->
  parse_tail inf (firstn j (be16 n ++ exts)) = Ok inf.
Proof.
  intros -> Hj. unfold parse_tail, be16. cbn [app].
  destruct j as [|[|j]]; [reflexivity|reflexivity|].
  cbn [firstn length]. change (S (S (length (firstn j exts))) <? 2)%nat with false. cbv iota.
  cbn [idx nth_error rbind]. rewrite u16_be16, nlen_nat, slice_from_cons2. cbn [rbind].
  rewrite firstn_length.
  replace (length exts =? Nat.min j (length exts))%nat with false by (symmetry; apply Nat.eqb_neq; lia).
  reflexivity.
Qed.

Lemma encode_split h :
  encode_hello h =
  (1 :: be24 (nlen (hello_body h)) ++ be16 (h_version h) ++ h_random h ++ nlen (h_sid h) :: h_sid h) ++
  cipher_block (h_ciphers h) ++ (nlen (h_comp h) :: h_comp h ++ be16 (nlen (enc_exts (h_exts h))) ++ enc_exts (h_exts h)).
Proof.
  unfold encode_hello, hello_body, cipher_block. cbn [app]. f_equal.
  repeat (rewrite <- app_assoc; cbn [app]). reflexivity.
Qed.

Lemma parse_prefix h k : hello_wf h = true -> (k < length (encode_hello h))%nat ->
  parse_raw_client_hello (firstn k (encode_hello h)) = Ok (stage_info h (cut_stage h k)).
Proof.
  intros Hwf Hk. destruct (hello_wf_parts h Hwf) as (Hr & Hs & He).
  unfold cut_stage.
  destruct (k <? 42)%nat eqn:E42.
  { apply Nat.ltb_lt in E42. unfold parse_raw_client_hello.
    rewrite firstn_length.
    replace (Nat.min k (length (encode_hello h)) <? 42)%nat with true by (symmetry; apply Nat.ltb_lt; lia).
    reflexivity. }
  apply Nat.ltb_ge in E42.
  rewrite encode_split in *.
  set (l3 := be24 (nlen (hello_body h))) in *.
  set (P := 1 :: l3 ++ be16 (h_version h) ++ h_random h ++ nlen (h_sid h) :: h_sid h) in *.
  set (B1 := cipher_block (h_ciphers h)) in *.
  set (R := nlen (h_comp h) :: h_comp h ++ be16 (nlen (enc_exts (h_exts h))) ++ enc_exts (h_exts h)) in *.
  assert (HP : length P = (39 + length (h_sid h))%nat).
  { unfold P, l3, be24, be16. cbn [app length]. rewrite app_length. cbn [length]. lia. }
  assert (HB1 : length B1 = (2 + 2 * length (h_ciphers h))%nat) by apply cipher_block_length.
  assert (HR : length R = (1 + length (h_comp h) + 2 + length (enc_exts (h_exts h)))%nat).
  { unfold R, be16. cbn [app length]. rewrite app_length. cbn [length]. lia. }
  rewrite !app_length in Hk.
  destruct (k <? 39 + length (h_sid h))%nat eqn:EP.
  { (* cut inside the session id *)
    apply Nat.ltb_lt in EP.
    replace (k <? 41 + length (h_sid h) + 2 * length (h_ciphers h))%nat with true by (symmetry; apply Nat.ltb_lt; lia).
    rewrite firstn_app. replace (k - length P)%nat with 0%nat by lia. cbn [firstn]. 
    assert (HPk : firstn k P = (1 :: l3 ++ be16 (h_version h) ++ h_random h ++ nlen (h_sid h) :: firstn (k - 39) (h_sid h))).
    { unfold P, l3, be24, be16. cbn [app].
      destruct k as [|[|[|[|[|[|k]]]]]]; try lia. cbn [firstn]. do 6 f_equal.
      rewrite firstn_app, Hr. rewrite firstn_all2 by lia. f_equal.
      destruct (k - 32)%nat as [|m] eqn:Em; [lia|]. cbn [firstn]. f_equal. f_equal. lia. }
    rewrite HPk.
    rewrite (parse_head l3 (h_version h) (h_random h) (h_sid h) (firstn (k - 39) (h_sid h)) []);
      auto; try reflexivity.
    - rewrite firstn_length.
      replace (Nat.min (k - 39) (length (h_sid h)) <? length (h_sid h))%nat with true by (symmetry; apply Nat.ltb_lt; lia).
      reflexivity.
    - rewrite firstn_length. cbn [length]. lia.
    - right. rewrite firstn_length. split; [lia|reflexivity]. }
  apply Nat.ltb_ge in EP.
  rewrite firstn_app, firstn_all2 by lia. rewrite HP.
  unfold P. rewrite (parse_head l3 (h_version h) (h_random h) (h_sid h) (h_sid h)); auto; try reflexivity.
  2:{ rewrite firstn_length, app_length. lia. }
  replace (length (h_sid h) <? length (h_sid h))%nat with false by (symmetry; apply Nat.ltb_ge; lia).
  set (j := (k - (39 + length (h_sid h)))%nat).
  destruct (k <? 41 + length (h_sid h) + 2 * length (h_ciphers h))%nat eqn:E1.
  { apply Nat.ltb_lt in E1. unfold B1. rewrite p1_cut by lia. reflexivity. }
  apply Nat.ltb_ge in E1.
  rewrite firstn_app, firstn_all2 by lia. fold B1. rewrite HB1. unfold B1. rewrite p1_full.
  set (j2 := (j - (2 + 2 * length (h_ciphers h)))%nat).
  destruct (k <? 42 + length (h_sid h) + 2 * length (h_ciphers h) + length (h_comp h))%nat eqn:E2.
  { apply Nat.ltb_lt in E2. unfold R. rewrite p2_cut by lia. reflexivity. }
  apply Nat.ltb_ge in E2.
  unfold R.
  change (nlen (h_comp h) :: h_comp h ++ be16 (nlen (enc_exts (h_exts h))) ++ enc_exts (h_exts h))
    with ((nlen (h_comp h) :: h_comp h) ++ be16 (nlen (enc_exts (h_exts h))) ++ enc_exts (h_exts h)).
  rewrite firstn_app, firstn_all2 by (cbn [length]; lia).
  cbn [app]. rewrite p2_full. rewrite tail_cut; [reflexivity|reflexivity|]. cbn [length]. lia.
Qed.
