Require Import V.Lib V.C12_Model V.C12_Proofs.
Open Scope Z_scope.

Theorem C12_bnd_done : forall o f x, bnd o f = Done x -> exists y, o = Done y /\ f y = Done x.
Proof. exact bnd_done. Qed.
Print Assumptions C12_bnd_done.
